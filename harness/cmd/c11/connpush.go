//go:build verif

package main

// Tie of ModelConn.lean (round 4): handlers that keep the connection of their request and write to it from a
// goroutine (jsonrpc.ConnFromContext, connection.Write, Server.HandleReadWriter) — directly on
// HandleReadWriter with recording / failing writers, and through the WebSocket transport; the accessors
// Conn.Context / Conn.Equal; the connection limit of jsonrpc.Websocket (WithMaxConnections).

import (
	"bytes"
	"context"
	"errors"
	"fmt"
	"io"
	"net/http"
	"net/http/httptest"
	"runtime"
	"strings"
	"sync"
	"time"

	"github.com/NethermindEth/juno/jsonrpc"
	"github.com/NethermindEth/juno/utils/log"
	"github.com/coder/websocket"
	"verif/harness/lib"
)

type pushWorld struct {
	server *jsonrpc.Server
	mu     sync.Mutex
	// per call of `sub`
	conns    []jsonrpc.Conn
	ctxOK    []bool
	pushErrs chan []error // results of the pushes of one call
}

const nPushes = 2

func pushMsg(k int) string { return fmt.Sprintf(`{"jsonrpc":"2.0","method":"pushed","params":{"n":%d}}`, k) }

func newPushWorld() (*pushWorld, error) {
	pw := &pushWorld{pushErrs: make(chan []error, 64)}
	s := jsonrpc.NewServer(2, log.NewNopZapLogger())
	sub := func(ctx context.Context) (any, *jsonrpc.Error) {
		conn, ok := jsonrpc.ConnFromContext(ctx)
		pw.mu.Lock()
		pw.conns = append(pw.conns, conn)
		pw.ctxOK = append(pw.ctxOK, ok)
		pw.mu.Unlock()
		if !ok {
			pw.pushErrs <- nil
			return "no-connection", nil
		}
		started := make(chan struct{})
		go func() {
			errs := make([]error, nPushes)
			close(started)
			for k := 0; k < nPushes; k++ {
				_, errs[k] = conn.Write([]byte(pushMsg(k)))
			}
			pw.pushErrs <- errs
		}()
		// give the goroutine every chance to write BEFORE the response of this request is written: with a
		// correct server its Write blocks until HandleReadWriter has finished
		<-started
		for i := 0; i < 50; i++ {
			runtime.Gosched()
		}
		time.Sleep(3 * time.Millisecond)
		return "subscribed", nil
	}
	if err := s.RegisterMethods(jsonrpc.Method{Name: "sub", Handler: sub}, jsonrpc.Method{Name: "noargs", Handler: func() (any, *jsonrpc.Error) { return []int{}, nil }}); err != nil {
		return nil, err
	}
	pw.server = s
	return pw, nil
}

type recRW struct {
	io.Reader
	mu       sync.Mutex
	writes   [][]byte
	failNext bool // the next Write fails
}

var errWire = errors.New("verif: broken pipe")

func (r *recRW) Write(p []byte) (int, error) {
	r.mu.Lock()
	defer r.mu.Unlock()
	if r.failNext {
		r.failNext = false
		return 0, errWire
	}
	r.writes = append(r.writes, append([]byte(nil), p...))
	return len(p), nil
}

func (r *recRW) wire() []string {
	r.mu.Lock()
	defer r.mu.Unlock()
	var out []string
	for _, w := range r.writes {
		s := string(w)
		switch {
		case strings.Contains(s, `"pushed"`):
			var k int
			fmt.Sscanf(s[strings.Index(s, `"n":`)+4:], "%d", &k)
			out = append(out, fmt.Sprintf("p%d", k))
		case strings.Contains(s, `"result":"subscribed"`):
			out = append(out, "r")
		default:
			out = append(out, "?"+s)
		}
	}
	return out
}

type foreignConn struct{}

func (foreignConn) Write(p []byte) (int, error) { return len(p), nil }
func (foreignConn) Equal(jsonrpc.Conn) bool     { return true }
func (foreignConn) Context() context.Context    { return context.Background() }

type ctxKeyT struct{}

func (rn *runner) connTie() {
	res := rn.res
	pw, err := newPushWorld()
	if err != nil {
		res.Fatalf("conn tie: %v", err)
		return
	}
	ask := func(hasResp, writeOk bool) (wire, refused string, ok bool) {
		b := func(x bool) int {
			if x {
				return 1
			}
			return 0
		}
		a, err := rn.drv.Ask(fmt.Sprintf("conn %d 0 %d %d", b(hasResp), b(writeOk), nPushes))
		i := strings.Index(a, "|")
		if err != nil || i < 0 {
			res.Fatalf("conn tie: driver answered %q (%v)", a, err)
			return "", "", false
		}
		return strings.TrimSpace(a[:i]), strings.TrimSpace(a[i+1:]), true
	}
	type connKey struct{}
	var firstConn jsonrpc.Conn
	for round := 0; round < 12; round++ {
		for _, sc := range []struct {
			name    string
			req     string
			hasResp bool
			writeOk bool
		}{
			{"request", `{"jsonrpc":"2.0","method":"sub","id":1}`, true, true},
			{"notification", `{"jsonrpc":"2.0","method":"sub"}`, false, true},
			{"request-response-cannot-be-written", `{"jsonrpc":"2.0","method":"sub","id":1}`, true, false},
		} {
			wantWire, wantRefused, ok := ask(sc.hasResp, sc.writeOk)
			if !ok {
				return
			}
			rw := &recRW{Reader: strings.NewReader(sc.req), failNext: !sc.writeOk}
			connCtx := context.WithValue(context.Background(), ctxKeyT{}, round)
			var herr error
			var hpanicked bool
			if !lib.WithDeadline(90*time.Second, func() {
				herr, hpanicked, _ = lib.Try(func() error { return pw.server.HandleReadWriter(connCtx, 0, rw) })
			}) {
				res.Violate(lib.Violation{Sig: "server-hangs-in-HandleReadWriter", What: "HandleReadWriter does not return for " + sc.req + " when the handler writes to its connection", Replay: map[string]any{"scenario": sc.name, "request": sc.req}})
				return
			}
			if hpanicked {
				res.Violate(lib.Violation{Sig: "server-panics", What: "HandleReadWriter panicked for " + sc.req + " (" + sc.name + "): " + herr.Error(), Replay: map[string]any{"scenario": sc.name, "request": sc.req}})
				return
			}
			var errs []error
			select {
			case errs = <-pw.pushErrs:
			case <-time.After(90 * time.Second):
				res.Violate(lib.Violation{Sig: "handler-connection-write-blocks-forever", What: "a handler goroutine writing to jsonrpc.ConnFromContext(ctx) is still blocked 90 s after HandleReadWriter returned (" + sc.name + ")", Replay: map[string]any{"scenario": sc.name, "request": sc.req}})
				return
			}
			gotWire := strings.Join(rw.wire(), " ")
			var refused []string
			for k, e := range errs {
				if e != nil {
					refused = append(refused, fmt.Sprintf("p%d", k))
					if !strings.Contains(e.Error(), "initial response") || !errors.Is(e, errWire) {
						res.Mismatch(lib.Mismatch{Sig: "conn: a refused push does not report the failure of the initial response", Input: sc.name, Model: "wraps the write error", Impl: e.Error()})
					}
				}
			}
			res.Compared(1)
			res.Case("conn:"+sc.name+fmt.Sprint(round), true)
			res.Hit("conn:" + sc.name)
			replay := map[string]any{"scenario": sc.name, "request": sc.req, "via": "HandleReadWriter"}
			if gotWire != wantWire || strings.Join(refused, " ") != wantRefused || (herr != nil) != !sc.writeOk {
				res.Mismatch(lib.Mismatch{Sig: "conn: wire / refused pushes differ", Input: replay, Model: wantWire + " | " + wantRefused,
					Impl: fmt.Sprintf("%s | %s (HandleReadWriter error: %v)", gotWire, strings.Join(refused, " "), herr)})
			}
			// the property: what the client reads first after its request is the response to it
			if sc.hasResp && sc.writeOk && !strings.HasPrefix(gotWire, "r") {
				res.Violate(lib.Violation{Sig: "handler-message-precedes-response-on-connection",
					What:   "HandleReadWriter(" + sc.req + "), handler starts a goroutine that writes to ConnFromContext(ctx): the wire carries " + gotWire + " — a pushed message before (or instead of) the response to the request",
					Replay: replay})
			}
			// … and when the response could not be written, nothing else may follow in its place (the connection
			// is unusable: HandleReadWriter says so to its caller, and every later write of a handler is refused)
			if sc.hasResp && !sc.writeOk && gotWire != "" {
				res.Violate(lib.Violation{Sig: "handler-message-written-in-place-of-failed-response",
					What:   "HandleReadWriter(" + sc.req + ") with a writer that fails on the response: the handler's goroutine still gets its messages on the wire (" + gotWire + ") — the client reads a pushed message where the response to its request belongs",
					Replay: replay})
			}
			// accessors
			pw.mu.Lock()
			conn := pw.conns[len(pw.conns)-1]
			okCtx := pw.ctxOK[len(pw.ctxOK)-1]
			pw.mu.Unlock()
			res.Compared(1)
			switch {
			case !okCtx || conn == nil:
				res.Mismatch(lib.Mismatch{Sig: "conn: ConnFromContext finds no connection under HandleReadWriter", Input: sc.name})
			case conn.Context().Value(ctxKeyT{}) != round:
				res.Mismatch(lib.Mismatch{Sig: "conn: Conn.Context is not the connection context", Input: sc.name})
			case !conn.Equal(conn) || conn.Equal(foreignConn{}) || (firstConn != nil && conn.Equal(firstConn)):
				res.Mismatch(lib.Mismatch{Sig: "conn: Conn.Equal wrong (same / foreign / other connection)", Input: sc.name})
			}
			if firstConn == nil {
				firstConn = conn
			}
		}
	}
	// no connection in the context: HandleReader, HTTP; a foreign value under the key
	if c, ok := jsonrpc.ConnFromContext(context.Background()); ok || c != nil {
		res.Mismatch(lib.Mismatch{Sig: "conn: ConnFromContext invents a connection", Input: "empty context"})
	}
	if _, ok := jsonrpc.ConnFromContext(context.WithValue(context.Background(), jsonrpc.ConnKey{}, 42)); ok {
		res.Mismatch(lib.Mismatch{Sig: "conn: ConnFromContext accepts a value that is no Conn", Input: "ConnKey -> 42"})
	}
	if c, ok := jsonrpc.ConnFromContext(context.WithValue(context.Background(), jsonrpc.ConnKey{}, jsonrpc.Conn(foreignConn{}))); !ok || c == nil {
		res.Mismatch(lib.Mismatch{Sig: "conn: ConnFromContext rejects a Conn set by a transport", Input: "ConnKey -> foreign Conn"})
	}
	res.Compared(3)
	var out []byte
	err, hrPanicked, _ := lib.Try(func() error {
		o, _, e := pw.server.HandleReader(context.Background(), strings.NewReader(`{"jsonrpc":"2.0","method":"sub","id":1}`))
		out = o
		return e
	})
	if hrPanicked {
		res.Violate(lib.Violation{Sig: "server-panics", What: "[conn tie] HandleReader panicked on a request whose handler asks for its connection: " + err.Error(),
			Replay: map[string]any{"input_text": `{"jsonrpc":"2.0","method":"sub","id":1}`}})
		return
	}
	<-pw.pushErrs
	if err != nil || !bytes.Contains(out, []byte("no-connection")) {
		res.Mismatch(lib.Mismatch{Sig: "conn: a handler under HandleReader sees a connection", Input: "HandleReader", Impl: string(out)})
	}
	res.Compared(1)

	// through the WebSocket transport: response, then the pushes, in this order, for every request of a session
	shutdown := make(chan struct{})
	defer close(shutdown)
	ws := httptest.NewServer(jsonrpc.NewWebsocket(pw.server, shutdown, log.NewNopZapLogger()))
	defer ws.Close()
	ctx, cancel := context.WithTimeout(context.Background(), 150*time.Second)
	defer cancel()
	c, _, err := websocket.Dial(ctx, ws.URL, nil)
	if err != nil {
		res.Fatalf("conn tie: dial: %v", err)
		return
	}
	defer c.CloseNow()
	for round := 0; round < 10; round++ {
		if err := c.Write(ctx, websocket.MessageText, []byte(fmt.Sprintf(`{"jsonrpc":"2.0","method":"sub","id":%d}`, 100+round))); err != nil {
			res.Fatalf("conn tie: ws write: %v", err)
			return
		}
		var got []string
		for k := 0; k < 1+nPushes; k++ {
			_, data, err := c.Read(ctx)
			if err != nil {
				res.Violate(lib.Violation{Sig: "websocket-connection-closed", What: fmt.Sprintf("websocket session with a pushing handler: read %d of request %d fails: %v", k, round, err), Replay: map[string]any{"scenario": "ws-push", "round": round}})
				return
			}
			s := string(data)
			switch {
			case strings.Contains(s, fmt.Sprintf(`"id":%d`, 100+round)) && strings.Contains(s, "subscribed"):
				got = append(got, "r")
			case strings.Contains(s, `"pushed"`):
				var n int
				fmt.Sscanf(s[strings.Index(s, `"n":`)+4:], "%d", &n)
				got = append(got, fmt.Sprintf("p%d", n))
			default:
				got = append(got, "?"+s)
			}
		}
		<-pw.pushErrs
		res.Compared(1)
		res.Hit("conn:ws-push")
		want, _, _ := ask(true, true)
		if g := strings.Join(got, " "); g != want {
			res.Mismatch(lib.Mismatch{Sig: "conn: websocket wire differs", Input: round, Model: want, Impl: g})
			if !strings.HasPrefix(g, "r") {
				res.Violate(lib.Violation{Sig: "handler-message-precedes-response-on-connection",
					What:   "websocket: request to a handler that writes to its connection from a goroutine: the client reads " + g + " — a pushed message before the response to its request",
					Replay: map[string]any{"scenario": "ws-push", "round": round}})
			}
		}
	}
}

// wsLimit: WithMaxConnections(2). The third client is refused (503 after the 5 s the server waits for a
// slot); when a client has gone its slot is free again — for any number of connections over time.
func (rn *runner) wsLimit() (wait func()) {
	res := rn.res
	wait = func() {}
	pw, err := newPushWorld()
	if err != nil {
		res.Fatalf("ws limit: %v", err)
		return
	}
	const ops = "uuucuccducdduuccdd" // exactly one refusal (it costs the 5 s the server waits for a slot)
	a, err := rn.drv.Ask("limit 2 " + ops)
	model := strings.Fields(a)
	if err != nil || len(model) != len(ops) {
		res.Fatalf("ws limit: driver answered %q (%v)", a, err)
		return
	}
	done := make(chan struct{})
	wait = func() {
		select {
		case <-done:
		case <-time.After(300 * time.Second):
			res.Fatalf("ws limit: the stage did not finish")
		}
	}
	go func() {
		defer close(done)
		rn.wsLimitRun(pw, ops, model)
	}()
	return wait
}

func (rn *runner) wsLimitRun(pw *pushWorld, ops string, model []string) {
	res := rn.res
	shutdown := make(chan struct{})
	defer close(shutdown)
	ws := httptest.NewServer(jsonrpc.NewWebsocket(pw.server, shutdown, log.NewNopZapLogger()).WithMaxConnections(2))
	defer ws.Close()
	var open []*websocket.Conn
	dial := func() (*websocket.Conn, int, error) {
		ctx, cancel := context.WithTimeout(context.Background(), 150*time.Second)
		defer cancel()
		c, resp, err := websocket.Dial(ctx, ws.URL, nil)
		status := 0
		if resp != nil {
			status = resp.StatusCode
		}
		if err == nil { // the connection really works
			if err = c.Write(ctx, websocket.MessageText, []byte(`{"jsonrpc":"2.0","method":"noargs","id":1}`)); err == nil {
				_, _, err = c.Read(ctx)
			}
		}
		return c, status, err
	}
	for i, op := range ops {
		res.Compared(1)
		res.Hit("ws-limit:" + string(op) + ":" + model[i])
		replay := map[string]any{"max_connections": 2, "ops": ops[:i+1]}
		if op == 'u' { // no websocket handshake: Accept fails, the slot must be free again afterwards
			status := 0
			ctx, cancel := context.WithTimeout(context.Background(), 150*time.Second)
			if req, err := http.NewRequestWithContext(ctx, http.MethodGet, ws.URL, nil); err == nil {
				if resp, err := (&http.Client{Transport: &http.Transport{DisableKeepAlives: true}}).Do(req); err == nil {
					status = resp.StatusCode
					resp.Body.Close()
				}
			}
			cancel()
			if status == 0 {
				res.Fatalf("ws limit: a plain HTTP request got no answer of the server (overloaded machine?)")
				return
			}
			if (status != http.StatusServiceUnavailable) != (model[i] == "1") {
				res.Mismatch(lib.Mismatch{Sig: "ws limit: a request that is no handshake is answered differently", Input: replay, Model: model[i], Impl: fmt.Sprint(status)})
				if status == http.StatusServiceUnavailable {
					res.Violate(lib.Violation{Sig: "websocket-refuses-connection-below-the-limit",
						What:   fmt.Sprintf("jsonrpc.Websocket.WithMaxConnections(2) after %q (u = a plain HTTP request that is no websocket handshake, c = a client connects, d = the oldest client closes): %d connections are open, yet the server answers 503 Too many connections: requests that never became connections still count", ops[:i+1], len(open)),
						Replay: replay})
				}
				return
			}
			continue
		}
		if op == 'd' {
			c := open[0]
			open = open[1:]
			c.Close(websocket.StatusNormalClosure, "")
			// the server side of the connection needs a moment to leave ServeHTTP and release its slot; the
			// next connect waits up to 5 s for it inside the server, no settling needed here
			continue
		}
		c, status, err := dial()
		if err != nil && status != http.StatusServiceUnavailable {
			// neither upgraded nor refused: the harness could not talk to the server (overloaded machine)
			res.Fatalf("ws limit: connecting failed without an answer of the server: status=%d %v", status, err)
			return
		}
		accepted := err == nil
		if accepted {
			open = append(open, c)
		}
		if accepted != (model[i] == "1") {
			res.Mismatch(lib.Mismatch{Sig: "ws limit: connection accepted / refused differs", Input: replay, Model: model[i], Impl: fmt.Sprintf("accepted=%v status=%d err=%v", accepted, status, err)})
			if !accepted {
				res.Violate(lib.Violation{Sig: "websocket-refuses-connection-below-the-limit",
					What:   fmt.Sprintf("jsonrpc.Websocket.WithMaxConnections(2) after %q (c = a client connects and exchanges one request, d = the oldest client closes): %d connections are open, the next client is refused (status %d, %v): connections that ended still count", ops[:i+1], len(open), status, err),
					Replay: replay})
			}
			return
		}
		if !accepted && status != http.StatusServiceUnavailable {
			res.Mismatch(lib.Mismatch{Sig: "ws limit: a refused connection is not answered 503", Input: replay, Model: "503", Impl: fmt.Sprint(status, err)})
		}
	}
	for _, c := range open {
		c.CloseNow()
	}
	res.Case("ws-limit", true)
}
