//go:build verif

package main

// Round 5 — what the server does AROUND the response (lean/JunoModel/C11/ModelEvents.lean, driver ops `hdrs`, `inx`,
// `logobj`): the calls on the server's EventListener (OnNewRequest / OnRequestHandled / OnRequestFailed), the
// http.Header HandleReader returns (the header of a 3-value handler; for a batch the merge of the headers of the
// answered entries), the response headers HTTP.ServeHTTP sets (Content-Type, the handler's header copied over it,
// Content-Encoding: gzip or Content-Length), the calls on the transports' NewRequestListener, and — with a logger
// at trace level — Request.MarshalLogObject and the logging branches of handleRequest (which a nop logger skips).

import (
	"bytes"
	"compress/gzip"
	"context"
	"encoding/hex"
	"encoding/json"
	"fmt"
	"io"
	"net/http"
	"net/http/httptest"
	"sort"
	"strconv"
	"strings"
	"sync"
	"time"

	"github.com/NethermindEth/juno/jsonrpc"
	"github.com/NethermindEth/juno/utils/log"
	"github.com/coder/websocket"
	"verif/harness/lib"
)

type evRec struct {
	mu  sync.Mutex
	evs []string // n<hex method> h<hex method> f<hex method>, as the driver writes them
}

func hexOfStr(s string) string {
	if s == "" {
		return "-"
	}
	return hex.EncodeToString([]byte(s))
}

func (e *evRec) add(s string) {
	e.mu.Lock()
	e.evs = append(e.evs, s)
	e.mu.Unlock()
}

func (e *evRec) take() []string {
	e.mu.Lock()
	defer e.mu.Unlock()
	out := e.evs
	e.evs = nil
	return out
}

func (e *evRec) listener() *jsonrpc.SelectiveListener {
	return &jsonrpc.SelectiveListener{
		OnNewRequestCb:     func(m string) { e.add("n" + hexOfStr(m)) },
		OnRequestHandledCb: func(m string, _ time.Duration) { e.add("h" + hexOfStr(m)) },
		OnRequestFailedCb:  func(m string, _ any) { e.add("f" + hexOfStr(m)) },
	}
}

func eventsWorld(pool int) WorldSpec {
	P := func(n string, opt bool, ty string) ParamSpec { return ParamSpec{n, opt, ty} }
	return WorldSpec{Pool: pool, Methods: []MethodSpec{
		{Name: "noargs", Beh: "echo"},
		{Name: "echo", Beh: "echo", Ctx: true, Params: []ParamSpec{P("a", false, "any"), P("b", true, "ptrInt")}},
		{Name: "h1", Beh: "echo", Hdr: true, Params: []ParamSpec{P("s", false, "str")}},
		{Name: "h2", Beh: "echo", Hdr: true, Ctx: true, Params: []ParamSpec{P("x", true, "int"), P("y", true, "str")}},
		{Name: "ctype", Beh: "echo", Hdr: true},
		{Name: "hfail", Beh: "fail", Hdr: true, Params: []ParamSpec{P("data", true, "raw")}},
		{Name: "hint", Beh: "internal", Hdr: true},
		{Name: "internal", Beh: "internal", Ctx: true},
		{Name: "both", Beh: "both", Hdr: true, Params: []ParamSpec{P("x", true, "int")}},
		{Name: "nilres", Beh: "nilres", Hdr: true},
		{Name: "nanhdr", Beh: "unmarshalable", Hdr: true, Ctx: true},
		{Name: "nan", Beh: "unmarshalable", Params: []ParamSpec{P("x", true, "int")}},
		{Name: "boom", Beh: "panic", Params: []ParamSpec{P("x", true, "raw")}},
		{Name: "boomhdr", Beh: "panic", Hdr: true},
		{Name: "zero", Beh: "zeroint", Hdr: true, Params: []ParamSpec{P("x", true, "ptrInt")}},
		{Name: "fail0", Beh: "failzero"},
	}}
}

func (w *World) hdrsLine() string {
	var names []string
	for _, m := range w.Spec.Methods {
		if m.Hdr {
			names = append(names, strTok(m.Name))
		}
	}
	return fmt.Sprintf("hdrs %d %s", len(names), strings.Join(names, " "))
}

// eventsInputs: every method as request / notification / null id / unbindable / by name, unknown methods, invalid
// requests, and batches mixing them (so that a header or a listener call of one entry can be lost or duplicated)
func eventsInputs(w *World, r *lib.RNG, nBatches, nRandom int) [][]byte {
	var singles []string
	id := 0
	for _, m := range w.Spec.Methods {
		name := string(jStr(m.Name).bytes(nil))
		good := "[]"
		switch m.Name {
		case "echo":
			good = `[{"k":1},7]`
		case "h1":
			good = `["x"]`
		case "h2":
			good = `{"y":"named"}`
		}
		bad := `[1,2,3,4,5]`
		id++
		singles = append(singles,
			fmt.Sprintf(`{"jsonrpc":"2.0","method":%s,"params":%s,"id":%d}`, name, good, id),
			fmt.Sprintf(`{"jsonrpc":"2.0","method":%s,"params":%s}`, name, good),
			fmt.Sprintf(`{"jsonrpc":"2.0","method":%s,"params":%s,"id":null}`, name, good),
			fmt.Sprintf(`{"jsonrpc":"2.0","method":%s,"params":%s,"id":"s%d"}`, name, bad, id),
			fmt.Sprintf(`{"jsonrpc":"2.0","method":%s,"params":%s}`, name, bad),
			fmt.Sprintf(`{"jsonrpc":"2.0","method":%s,"params":%s,"id":[%d]}`, name, good, id),
			fmt.Sprintf(`{"jsonrpc":"1.0","method":%s,"id":%d}`, name, id))
	}
	singles = append(singles, `{"jsonrpc":"2.0","method":"nope","id":1}`, `{"jsonrpc":"2.0","method":"nope"}`, `42`, `{"jsonrpc":"2.0","id":3}`,
		`{"jsonrpc":"2.0","method":"h1","params":{"s":"a","zzz":1},"id":4}`, `{"jsonrpc":"2.0","method":5,"id":1}`, `null`, `"x"`,
		`{"jsonrpc":"2.0","method":"h1","params":[null],"id":5}`, `{"jsonrpc":"2.0","method":"h2","params":[null,null],"id":6}`)
	var out [][]byte
	for _, s := range singles {
		out = append(out, []byte(s))
	}
	out = append(out, []byte(`[]`), []byte(`[`), []byte(``), []byte(`  [1,2]`), []byte(`{"jsonrpc":"2.0","method":"h1","params":["x"],"id":1`))
	for i := 0; i < nBatches; i++ {
		k := lib.Pick(r, []int{1, 2, 2, 3, 3, 4, 5, 6, 8, 12})
		parts := make([]string, k)
		for j := range parts {
			parts[j] = lib.Pick(r, singles)
		}
		out = append(out, []byte("["+strings.Join(parts, ",")+"]"))
	}
	g := &Gen{r: r.Fork(1), w: w}
	for i := 0; i < nRandom; i++ {
		out = append(out, g.input())
	}
	return out
}

func parseHeaderPart(s string) (map[string][]string, error) {
	out := map[string][]string{}
	s = strings.TrimSpace(s)
	if s == "-" || s == "" {
		return out, nil
	}
	unhex := func(h string) (string, error) {
		if h == "-" {
			return "", nil
		}
		b, err := hex.DecodeString(h)
		return string(b), err
	}
	for _, tok := range strings.Fields(s) {
		kv := strings.SplitN(tok, ":", 2)
		if len(kv) != 2 {
			return nil, fmt.Errorf("header token %q", tok)
		}
		k, err := unhex(kv[0])
		if err != nil {
			return nil, err
		}
		for _, hv := range strings.Split(kv[1], ",") {
			v, err := unhex(hv)
			if err != nil {
				return nil, err
			}
			out[k] = append(out[k], v)
		}
	}
	return out, nil
}

func sortedCopy(xs []string) []string {
	out := append([]string(nil), xs...)
	sort.Strings(out)
	return out
}

func sameStrings(a, b []string, ordered bool) bool {
	if !ordered {
		a, b = sortedCopy(a), sortedCopy(b)
	}
	return strings.Join(a, "\x00") == strings.Join(b, "\x00") && len(a) == len(b)
}

func headerDiff(model map[string][]string, real http.Header, ordered bool, watch []string) string {
	keys := map[string]bool{}
	for k := range model {
		keys[k] = true
	}
	for _, k := range watch {
		keys[k] = true
	}
	if watch == nil {
		for k := range real {
			keys[k] = true
		}
	}
	var ks []string
	for k := range keys {
		ks = append(ks, k)
	}
	sort.Strings(ks)
	for _, k := range ks {
		if !sameStrings(model[k], real[k], ordered) {
			return fmt.Sprintf("header %s: model %q, implementation %q", k, model[k], real[k])
		}
	}
	return ""
}

func (rn *runner) eventsTie(r *lib.RNG) {
	res := rn.res
	for _, pool := range []int{1, 3} {
		rec := &evRec{}
		w, err := NewWorldOpt(eventsWorld(pool), log.NewNopZapLogger(), rec.listener())
		if err != nil {
			res.Fatalf("events world: %v", err)
			return
		}
		if err := rn.setWorld(w); err != nil {
			res.Fatalf("events world: %v", err)
			return
		}
		if a, err := rn.drv.Ask(w.hdrsLine()); err != nil || a != "ok" {
			res.Fatalf("events world: driver hdrs: %q %v", a, err)
			return
		}
		// the same server behind a trace-level logger: the logging branches run, the answers must not change
		var logBuf lockedBuffer
		tl, err := log.NewZapLogger(log.NewLevel(log.TRACE), log.WithJSON(true), log.WithWriter(&logBuf))
		if err != nil {
			res.Fatalf("events world: trace logger: %v", err)
			return
		}
		wt, err := NewWorldOpt(eventsWorld(pool), tl, nil)
		if err != nil {
			res.Fatalf("events world (trace): %v", err)
			return
		}
		inputs := eventsInputs(w, r.Fork(uint64(pool)), rn.f.Scale(120, 2500), rn.f.Scale(250, 6000))
		lines := make([]string, len(inputs))
		for i, in := range inputs {
			lines[i] = "inx 0 " + inArgs(in, len(in))
		}
		answers, err := rn.drv.AskAll(lines)
		if err != nil || len(answers) != len(lines) {
			res.Fatalf("events: driver: %v (%d of %d answers)", err, len(answers), len(lines))
			return
		}
		for i, in := range inputs {
			rec.take()
			w.reset()
			var o Obs
			var hdr http.Header
			done := lib.WithDeadline(20*time.Second, func() {
				err, panicked, stack := lib.Try(func() error {
					out, h, err := w.Server.HandleReader(context.Background(), bytes.NewReader(in))
					o.Out, hdr = out, h
					return err
				})
				if panicked {
					o.Panicked, o.PanicMsg = true, err.Error()+"\n"+firstLines(stack, 12)
				} else {
					o.Err = err
				}
			})
			if !done {
				o = Obs{Hung: true}
			}
			o.Calls, o.RecErrs = w.taken()
			evs := rec.take()
			res.Case(fmt.Sprintf("events:%d:%s", pool, in), true)
			res.Hit("events:inputs")
			for _, e := range evs {
				res.Hit("events:" + map[byte]string{'n': "OnNewRequest", 'h': "OnRequestHandled", 'f': "OnRequestFailed"}[e[0]])
			}
			if len(hdr) > 0 {
				res.Hit("events:header-returned")
				if len(hdr["X-Verif-Method"]) > 1 {
					res.Hit("events:header-merged-from-several-entries")
				}
			}
			for _, v := range judge(w, in, o) {
				res.Violate(lib.Violation{Sig: v.Sig, What: "[listener world] " + v.What, Replay: mkReplay(w, in, "")})
			}
			if o.Hung || o.Panicked {
				continue
			}
			if hdr == nil {
				res.Mismatch(lib.Mismatch{Sig: "events: HandleReader returned a nil header", Input: describe(in)})
			}
			if answers[i] == "dk" {
				res.Hit("events:model-dont-know")
				continue
			}
			parts := strings.Split(answers[i], " | ")
			if len(parts) != 3 {
				res.Fatalf("events: driver answered %q to %s", answers[i], lines[i])
				return
			}
			res.Compared(1)
			batch := isBatchShaped(in)
			ordered := !batch || pool == 1
			var mev []string
			if strings.TrimSpace(parts[0]) != "-" {
				mev = strings.Fields(parts[0])
			}
			bad := func(why string) {
				res.Mismatch(lib.Mismatch{Sig: "events: " + why, Input: map[string]any{"pool": pool, "input": describe(in)}, Model: answers[i],
					Impl: map[string]any{"events": evs, "header": hdr, "out": string(o.Out), "calls": callsText(o.Calls)}})
			}
			if !sameStrings(mev, evs, ordered) {
				bad("listener calls differ")
				continue
			}
			mh, perr := parseHeaderPart(parts[1])
			if perr != nil {
				res.Fatalf("events: driver header unreadable: %q", parts[1])
				return
			}
			if d := headerDiff(mh, hdr, ordered, nil); d != "" {
				bad("header returned by HandleReader differs: " + d)
				continue
			}
			// model-free cross-check: OnRequestHandled once per handler invocation, per method
			nh := map[string]int{}
			for _, e := range evs {
				if e[0] == 'h' {
					nh[e[1:]]++
				}
			}
			nc := map[string]int{}
			for _, c := range o.Calls {
				nc[hexOfStr(c.Method)]++
			}
			same := len(nh) == len(nc)
			for k, n := range nc {
				same = same && nh[k] == n
			}
			if !same {
				bad(fmt.Sprintf("OnRequestHandled calls %v differ from the handler invocations %v", nh, nc))
			}
			// the trace-level twin
			rn.traceTwin(wt, &logBuf, in, o, batch)
		}
		rn.eventsHTTP(w, rec, inputs, r.Fork(uint64(100+pool)))
	}
}

type lockedBuffer struct {
	mu sync.Mutex
	b  bytes.Buffer
}

func (l *lockedBuffer) Write(p []byte) (int, error) {
	l.mu.Lock()
	defer l.mu.Unlock()
	return l.b.Write(p)
}

func (l *lockedBuffer) take() []byte {
	l.mu.Lock()
	defer l.mu.Unlock()
	out := append([]byte(nil), l.b.Bytes()...)
	l.b.Reset()
	return out
}

// traceTwin: the same input on a server that logs at trace level must be answered identically; every decoded
// request is logged through Request.MarshalLogObject with the members the model names
func (rn *runner) traceTwin(wt *World, buf *lockedBuffer, in []byte, ref Obs, batch bool) {
	res := rn.res
	buf.take()
	o := wt.handle(in)
	logged := buf.take()
	res.Hit("log:trace-inputs")
	if o.Panicked || o.Hung || o.Err != nil {
		for _, v := range judge(wt, in, o) {
			res.Violate(lib.Violation{Sig: v.Sig, What: "[logger at trace level] " + v.What, Replay: mkReplay(wt, in, "")})
		}
		return
	}
	res.Compared(1)
	if !sameOutputs(ref.Out, o.Out, batch) || callsText(sortedCalls(ref.Calls)) != callsText(sortedCalls(o.Calls)) {
		res.Mismatch(lib.Mismatch{Sig: "log: a server logging at trace level answers differently", Input: describe(in),
			Model: map[string]string{"out": string(ref.Out), "calls": callsText(ref.Calls)}, Impl: map[string]string{"out": string(o.Out), "calls": callsText(o.Calls)}})
		return
	}
	// the request values that are decoded and reach handleRequest
	raw, err := firstValue(in)
	if err != nil {
		return
	}
	tree, err := parseTree(raw)
	if err != nil {
		return
	}
	entries := []*J{tree}
	if batch {
		if wt.Spec.BatchDisabled || len(tree.A) == 0 {
			entries = nil
		} else {
			entries = tree.A
		}
	}
	var lines []string
	for _, e := range entries {
		var sb strings.Builder
		sb.WriteString("logobj v ")
		e.tokens(&sb)
		lines = append(lines, sb.String())
	}
	answers, err := rn.drv.AskAll(lines)
	if err != nil || len(answers) != len(lines) {
		res.Fatalf("log: driver: %v", err)
		return
	}
	var want []string
	for _, a := range answers {
		if a != "none" {
			want = append(want, a)
		}
	}
	var got []string
	for _, ln := range bytes.Split(logged, []byte("\n")) {
		if len(ln) == 0 {
			continue
		}
		var rec struct {
			Msg string          `json:"msg"`
			Req json.RawMessage `json:"req"`
		}
		if err := json.Unmarshal(ln, &rec); err != nil {
			res.Mismatch(lib.Mismatch{Sig: "log: a log line is not JSON", Input: describe(in), Impl: string(ln)})
			return
		}
		res.Hit("log:line:" + rec.Msg)
		if rec.Msg != "Received request" {
			continue
		}
		var reqObj map[string]json.RawMessage
		if err := json.Unmarshal(rec.Req, &reqObj); err != nil {
			res.Mismatch(lib.Mismatch{Sig: "log: the logged request is not an object", Input: describe(in), Impl: string(ln)})
			return
		}
		var ms []string
		for _, k := range []string{"jsonrpc", "method", "id", "params"} {
			if _, ok := reqObj[k]; ok {
				ms = append(ms, k)
			}
		}
		if len(ms) != len(reqObj) {
			ms = append(ms, "?unexpected-member")
		}
		got = append(got, strings.Join(ms, " "))
	}
	res.Compared(1)
	if !sameStrings(want, got, false) {
		res.Mismatch(lib.Mismatch{Sig: "log: the logged request objects differ from Request.MarshalLogObject of the model", Input: describe(in),
			Model: want, Impl: got})
	}
}

// eventsHTTP: the response headers of HTTP.ServeHTTP and the transport's NewRequestListener
func (rn *runner) eventsHTTP(w *World, rec *evRec, inputs [][]byte, r *lib.RNG) {
	res := rn.res
	var mu sync.Mutex
	anyCalls := 0
	h := jsonrpc.NewHTTP(w.Server, log.NewNopZapLogger()).WithListener(&jsonrpc.SelectiveListener{OnNewRequestCb: func(m string) {
		mu.Lock()
		if m == "any" {
			anyCalls++
		} else {
			anyCalls += 1000
		}
		mu.Unlock()
	}})
	hs := httptest.NewServer(h)
	defer hs.Close()
	client := &http.Client{Timeout: 30 * time.Second, Transport: &http.Transport{DisableCompression: true}}
	n := rn.f.Scale(220, 3000)
	if n > len(inputs) {
		n = len(inputs)
	}
	// the hand-written inputs first (they come first in `inputs`), then a sample of the rest
	pickIdx := make([]int, 0, n)
	for i := 0; i < len(inputs) && len(pickIdx) < n*2/3; i++ {
		pickIdx = append(pickIdx, i)
	}
	for len(pickIdx) < n {
		pickIdx = append(pickIdx, r.Intn(len(inputs)))
	}
	for k, idx := range pickIdx {
		in := inputs[idx]
		gz := k%2 == 0
		method := "POST"
		if k%17 == 16 {
			method = lib.Pick(r, []string{"GET", "PUT", "DELETE", "HEAD"})
		}
		g := 0
		if gz {
			g = 1
		}
		ans, err := rn.drv.Ask(fmt.Sprintf("inx %d %s", g, inArgs(in, len(in))))
		if err != nil {
			res.Fatalf("events http: driver: %v", err)
			return
		}
		rec.take()
		w.reset()
		mu.Lock()
		anyCalls = 0
		mu.Unlock()
		req, _ := http.NewRequest(method, hs.URL+"/", bytes.NewReader(in))
		req.Header.Set("Content-Type", "application/json")
		if gz {
			req.Header.Set("Accept-Encoding", lib.Pick(r, []string{"gzip", "gzip, deflate, br", "deflate, gzip;q=0.5"}))
		} else if k%4 == 1 {
			req.Header.Set("Accept-Encoding", "identity")
		}
		resp, err := client.Do(req)
		if err != nil {
			res.Violate(lib.Violation{Sig: "connection-dropped-instead-of-answer", What: "[http, listener world] " + err.Error() + " for " + describe(in), Replay: mkReplay(w, in, "http")})
			continue
		}
		body, _ := io.ReadAll(resp.Body)
		resp.Body.Close()
		mu.Lock()
		got := anyCalls
		mu.Unlock()
		res.Case(fmt.Sprintf("events-http:%s:%v:%s", method, gz, in), true)
		res.Hit("events:http:" + method)
		res.Compared(1)
		wantAny := 0
		if method == "POST" {
			wantAny = 1
		}
		if got != wantAny {
			res.Mismatch(lib.Mismatch{Sig: "events: calls of the HTTP transport's OnNewRequest differ", Input: map[string]string{"method": method, "body": describe(in)},
				Model: fmt.Sprintf("%d × OnNewRequest(\"any\")", wantAny), Impl: got})
		}
		if method != "POST" {
			if evs := rec.take(); len(evs) > 0 {
				res.Mismatch(lib.Mismatch{Sig: "events: a non-POST request reaches the server's listener", Input: method, Impl: evs})
			}
			continue
		}
		if ans == "dk" {
			continue
		}
		parts := strings.Split(ans, " | ")
		if len(parts) != 3 {
			res.Fatalf("events http: driver answered %q", ans)
			return
		}
		mh, perr := parseHeaderPart(parts[2])
		if perr != nil {
			res.Fatalf("events http: driver header unreadable: %q", parts[2])
			return
		}
		bad := func(why string) {
			res.Mismatch(lib.Mismatch{Sig: "events: http " + why, Input: map[string]any{"gzip": gz, "input": describe(in)}, Model: parts[2],
				Impl: map[string]any{"status": resp.StatusCode, "header": resp.Header, "body": short(body)}})
		}
		plain := body
		if resp.Header.Get("Content-Encoding") == "gzip" {
			res.Hit("events:http:gzip-body")
			zr, zerr := gzip.NewReader(bytes.NewReader(body))
			if zerr == nil {
				plain, zerr = io.ReadAll(zr)
			}
			if zerr != nil {
				res.Violate(lib.Violation{Sig: "http-gzip-body-corrupt", What: "[http] the gzip body does not decode: " + zerr.Error() + " for " + describe(in), Replay: mkReplay(w, in, "http")})
				continue
			}
		}
		// Content-Length: the model says whether juno sets it; its value must be the number of bytes sent
		if cl := resp.Header.Get("Content-Length"); cl != "" && cl != strconv.Itoa(len(body)) {
			res.Violate(lib.Violation{Sig: "http-content-length-wrong", What: fmt.Sprintf("[http] Content-Length %s, %d bytes sent, input %s", cl, len(body), describe(in)), Replay: mkReplay(w, in, "http")})
		}
		if _, ok := mh["Content-Length"]; ok {
			res.Hit("events:http:content-length-set")
			if resp.Header.Get("Content-Length") == "" {
				bad("Content-Length is missing")
			}
			delete(mh, "Content-Length")
		}
		if d := headerDiff(mh, resp.Header, false, []string{"Content-Type", "Content-Encoding", "X-Verif-Method", "X-Verif-Argc", "Retry-After"}); d != "" {
			bad("response headers differ: " + d)
			continue
		}
		if len(resp.Header["Content-Type"]) == 1 && resp.Header.Get("Content-Type") != "application/json" {
			res.Hit("events:http:content-type-overridden-by-handler")
		}
		// what was sent must be what HandleReader gives for this input
		direct := w.handle(in)
		if !sameOutputs(direct.Out, plain, isBatchShaped(in)) {
			res.Mismatch(lib.Mismatch{Sig: "transport-http-differs-from-HandleReader", Input: describe(in), Model: string(direct.Out), Impl: string(plain)})
		}
	}
}

// wsParamsTie: Websocket.WithConnParams (ReadLimit straddled: limit-1, limit, limit+1 bytes), WithListener (one
// OnNewRequest("any") per message), the shutdown channel (the connection is closed by the server, status 1011),
// and Error.CloneWithData. A frame within the read limit must be answered like any other request.
func (rn *runner) wsParamsTie() {
	res := rn.res
	w, err := NewWorld(fixedWorld(false, 2))
	if err != nil {
		res.Fatalf("ws params: %v", err)
		return
	}
	const limit = 3000
	var mu sync.Mutex
	anyCalls := 0
	shutdown := make(chan struct{})
	wsh := jsonrpc.NewWebsocket(w.Server, shutdown, log.NewNopZapLogger()).
		WithConnParams(&jsonrpc.WebsocketConnParams{ReadLimit: limit, WriteDuration: 20 * time.Second}).
		WithListener(&jsonrpc.SelectiveListener{OnNewRequestCb: func(m string) {
			mu.Lock()
			if m == "any" {
				anyCalls++
			} else {
				anyCalls += 1000
			}
			mu.Unlock()
		}})
	srv := httptest.NewServer(wsh)
	defer srv.Close()
	mk := func(n int) []byte { // a request of exactly n bytes
		base := `{"jsonrpc":"2.0","method":"hdr","params":[""],"id":"L"}`
		return []byte(strings.Replace(base, `""`, `"`+strings.Repeat("a", n-len(base))+`"`, 1))
	}
	for _, n := range []int{limit - 1, limit, limit + 1, 2 * limit} {
		c := &wsClient{url: srv.URL, timeout: 20 * time.Second}
		if err := c.dial(); err != nil {
			res.Fatalf("ws params: dial: %v", err)
			return
		}
		in := mk(n)
		mu.Lock()
		anyCalls = 0
		mu.Unlock()
		w.reset()
		msgs, hung, xerr := c.exchange([][]byte{in})
		c.conn.CloseNow()
		calls, _ := w.taken()
		calls = dropSentinelCall(calls)
		res.Case(fmt.Sprintf("ws-params:%d", n), true)
		res.Compared(1)
		replay := map[string]any{"via": "ws", "read_limit": limit, "frame_bytes": n, "input_text": string(in)}
		if n <= limit {
			res.Hit("ws-params:frame-within-limit")
			direct := w.handle(in)
			switch {
			case hung:
				res.Violate(lib.Violation{Sig: "server-hangs", What: fmt.Sprintf("[ws, ReadLimit %d] a frame of %d bytes is not answered", limit, n), Replay: replay})
			case xerr != nil || len(msgs) != 1 || !sameOutputs(direct.Out, msgs[0], false):
				res.Violate(lib.Violation{Sig: "websocket-frame-within-read-limit-not-answered",
					What:   fmt.Sprintf("[ws, WithConnParams(ReadLimit %d)] a request frame of %d bytes must be answered like over HandleReader (%s); got %d message(s) %s, error %v", limit, n, short(direct.Out), len(msgs), short(bytes.Join(msgs, nil)), xerr),
					Replay: replay})
			}
			mu.Lock()
			got := anyCalls
			mu.Unlock()
			if xerr == nil && got != 2 { // the request and the sentinel
				res.Mismatch(lib.Mismatch{Sig: "ws params: calls of the WebSocket transport's OnNewRequest differ", Input: replay, Model: "2 (request, sentinel)", Impl: got})
			}
		} else {
			res.Hit("ws-params:frame-over-limit")
			status := websocket.CloseStatus(xerr)
			// the library reads one byte beyond the limit before it refuses: a frame of limit+1 bytes whose JSON value
			// is complete is still answered, then the connection is closed while the rest of the frame is discarded
			if n == limit+1 && status == websocket.StatusMessageTooBig {
				continue
			}
			if xerr == nil || len(msgs) != 0 || len(calls) != 0 || status != websocket.StatusMessageTooBig {
				res.Mismatch(lib.Mismatch{Sig: "ws params: a frame over the read limit is not refused by closing the connection (1009)", Input: replay,
					Model: "no response, no handler call, close status 1009", Impl: map[string]any{"messages": len(msgs), "calls": callsText(calls), "err": fmt.Sprint(xerr), "status": int(status)}})
			}
		}
	}
	// shutdown: the server ends every connection
	c := &wsClient{url: srv.URL, timeout: 20 * time.Second}
	if err := c.dial(); err != nil {
		res.Fatalf("ws params: dial: %v", err)
		return
	}
	if msgs, _, err := c.exchange([][]byte{[]byte(`{"jsonrpc":"2.0","method":"noargs","id":1}`)}); err != nil || len(msgs) != 1 {
		res.Fatalf("ws params: the connection does not work before shutdown: %v", err)
		return
	}
	close(shutdown)
	ctx, cancel := context.WithTimeout(context.Background(), 20*time.Second)
	_, _, rerr := c.conn.Read(ctx)
	defer cancel()
	c.conn.CloseNow()
	res.Hit("ws-params:shutdown")
	res.Compared(1)
	// (the cancelled context makes the library drop the TCP connection; the 1011 close frame of ServeHTTP's last
	// lines can no longer be sent: the client sees the connection end, with or without a close frame)
	if rerr == nil || ctx.Err() != nil {
		res.Mismatch(lib.Mismatch{Sig: "ws params: closing the shutdown channel does not end the connection", Model: "connection ended by the server", Impl: fmt.Sprint(rerr)})
	}
	// Error.CloneWithData: a copy with the data, the original untouched
	orig := jsonrpc.Err(jsonrpc.InvalidParams, "old")
	cl := orig.CloneWithData(42)
	res.Compared(1)
	if cl == orig || cl.Data != 42 || orig.Data != "old" || cl.Code != orig.Code || cl.Message != orig.Message {
		res.Mismatch(lib.Mismatch{Sig: "Error.CloneWithData does not copy", Model: "copy with data 42, original keeps \"old\"", Impl: fmt.Sprintf("%+v / %+v", cl, orig)})
	}
}
