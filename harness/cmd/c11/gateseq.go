//go:build verif

package main

// Round 6 — one POST at the gate from arrival to the return of HTTP.ServeHTTP (lean: postGateOps / Gate.St.posts,
// driver op `gatepost`). SEQUENTIAL traffic through jsonrpc.HTTP.WithGate: every kind of POST — answered request,
// parse error, single notification, batch of notifications only, notification of an unknown method, a handler that
// panics / fails / returns an unmarshallable value, a request that arrives with an expired deadline — and after
// each of them (once the server has left ServeHTTP) Running() = Queued() = 0 and the next request is admitted.
// The gate's capacity must not depend on what kind of request went through it before: a slot that is not given
// back for requests that write nothing (notifications) silences the server after maxConcurrent+maxQueue of them.

import (
	"context"
	"fmt"
	"net/http/httptest"
	"strings"
	"time"

	"github.com/NethermindEth/juno/jsonrpc"
	"github.com/NethermindEth/juno/utils/log"
	"verif/harness/lib"
)

type gatePost struct {
	class string // Hit name
	exit  byte   // gatepost letter: A answered, S silent, a dead context
	body  string
	dead  bool // sent to the server whose request deadline has expired before the gate is reached
	// what the client must see: status 200 and a JSON body (answered), status 200 and no body (silent), 503 (dead)
}

func gatePostKinds() []gatePost {
	return []gatePost{
		{"request", 'A', `{"jsonrpc":"2.0","method":"noargs","id":1}`, false},
		{"notification", 'S', `{"jsonrpc":"2.0","method":"noargs"}`, false},
		{"notification-batch", 'S', `[{"jsonrpc":"2.0","method":"noargs"},{"jsonrpc":"2.0","method":"noargs"}]`, false},
		{"notification-unknown-method", 'S', `{"jsonrpc":"2.0","method":"nope"}`, false},
		{"notification-bad-params", 'S', `{"jsonrpc":"2.0","method":"noargs","params":[1,2,3]}`, false},
		{"parse-error", 'A', `{"jsonrpc":`, false},
		{"empty-body", 'A', ``, false},
		{"invalid-request", 'A', `{"jsonrpc":"1.0","id":3}`, false},
		{"batch", 'A', `[{"jsonrpc":"2.0","method":"noargs","id":1},{"jsonrpc":"2.0","method":"noargs"}]`, false},
		{"handler-panics", 'A', `{"jsonrpc":"2.0","method":"boom","id":4}`, false},
		{"handler-panics-notification", 'S', `{"jsonrpc":"2.0","method":"boom"}`, false},
		{"handler-unmarshallable", 'A', `{"jsonrpc":"2.0","method":"nan","id":5}`, false},
		{"handler-fails", 'A', `{"jsonrpc":"2.0","method":"fail","id":6}`, false},
		{"expired-deadline", 'a', `{"jsonrpc":"2.0","method":"noargs","id":7}`, true},
	}
}

func (rn *runner) gateSequential(r *lib.RNG) {
	res := rn.res
	kinds := gatePostKinds()
	spec := WorldSpec{Pool: 2, Methods: []MethodSpec{{Name: "noargs", Beh: "echo"}, {Name: "boom", Beh: "panic"},
		{Name: "nan", Beh: "unmarshalable"}, {Name: "fail", Beh: "fail"}}}
	for _, cq := range [][2]uint64{{1, 0}, {1, 1}, {2, 0}, {3, 2}} {
		c, q := uint(cq[0]), cq[1]
		w, err := NewWorld(spec)
		if err != nil {
			res.Fatalf("gate sequential: %v", err)
			return
		}
		g := jsonrpc.NewGate(c, q)
		hs := httptest.NewServer(jsonrpc.NewHTTP(w.Server, log.NewNopZapLogger()).WithGate(g))
		hsT := httptest.NewServer(jsonrpc.NewHTTP(w.Server, log.NewNopZapLogger()).WithGate(g).WithRequestTimeout(time.Nanosecond))
		// the script: every kind once in random order, then runs of one silent kind longer than c+q (the history a
		// leaked slot needs), each followed by a request
		var script []gatePost
		perm := make([]int, len(kinds))
		for i := range perm {
			perm[i] = i
		}
		for i := len(perm) - 1; i > 0; i-- {
			j := r.Intn(i + 1)
			perm[i], perm[j] = perm[j], perm[i]
		}
		for _, i := range perm {
			script = append(script, kinds[i])
		}
		for _, k := range kinds {
			if k.exit != 'S' && k.class != "expired-deadline" && k.class != "handler-panics" {
				continue
			}
			for i := uint64(0); i < uint64(c)+q+1; i++ {
				script = append(script, k)
			}
			script = append(script, kinds[0])
		}
		var exits strings.Builder
		for _, k := range script {
			exits.WriteByte(k.exit)
		}
		ans, err := rn.drv.Ask(fmt.Sprintf("gatepost %d %d %s", c, q, exits.String()))
		model := strings.Fields(ans)
		if err != nil || len(model) != len(script) {
			res.Fatalf("gate sequential: driver answered %q (%v)", ans, err)
			hs.Close()
			hsT.Close()
			return
		}
		var sent []string
		replay := func() map[string]any {
			return map[string]any{"via": "http-gate", "maxConcurrent": c, "maxQueue": q, "posts_in_order_one_at_a_time": sent}
		}
		broken := false
		for i, k := range script {
			url := hs.URL
			if k.dead {
				url = hsT.URL
			}
			sent = append(sent, k.body)
			a := post(context.Background(), url, k.body)
			res.Hit("gate-seq:" + k.class)
			res.Case(fmt.Sprintf("gate-seq:%d:%d:%d:%s", c, q, i, k.class), true)
			// the server leaves ServeHTTP (and gives the slot back) a moment after the client has its answer
			idle := settle(func() bool { return g.Running() == 0 && g.Queued() == 0 })
			if !idle {
				res.Violate(lib.Violation{Sig: "gate-keeps-counting-requests-that-have-left",
					What: fmt.Sprintf("jsonrpc.HTTP with Gate(%d,%d), requests sent one at a time: after POST %d (%s, %q, answered status=%d body=%q err=%v) and with no request in flight Running=%d Queued=%d (both must be 0): the slot is never given back",
						c, q, i+1, k.class, k.body, a.status, short([]byte(a.body)), a.err, g.Running(), g.Queued()),
					Replay: replay()})
				broken = true
				break
			}
			if a.err != nil {
				res.Violate(lib.Violation{Sig: "connection-dropped-instead-of-answer",
					What:   fmt.Sprintf("jsonrpc.HTTP with Gate(%d,%d), requests one at a time: POST %d (%s, %q): %v", c, q, i+1, k.class, k.body, a.err),
					Replay: replay()})
				broken = true
				break
			}
			if !k.dead && a.status == 503 {
				res.Violate(lib.Violation{Sig: "http-gate-refuses-request-on-idle-server",
					What: fmt.Sprintf("jsonrpc.HTTP with Gate(%d,%d), requests sent one at a time (each answered before the next is sent, Running=Queued=0 in between): POST %d (%s, %q) is refused with 503 %q",
						c, q, i+1, k.class, k.body, a.body),
					Replay: replay()})
				broken = true
				break
			}
			// the model: outcome of Acquire and the three counters after the POST
			res.Compared(1)
			want := model[i]
			if k.dead && a.status == 200 {
				// the 1 ns deadline had not expired yet when Acquire looked at the context: an admitted request
				res.Hit("gate-seq:expired-deadline-not-yet-expired")
				want = strings.Replace(want, "ctxErr", "admitted", 1)
			}
			outcome := "admitted"
			if a.status == 503 && strings.Contains(a.body, "timed out") {
				outcome = "ctxErr"
			} else if a.status == 503 {
				outcome = "busy"
			}
			got := fmt.Sprintf("%s:%d/%d/%d", outcome, g.Running(), g.Queued(), g.Rejected())
			if got != want {
				res.Mismatch(lib.Mismatch{Sig: "gate: a POST that is alone at the gate leaves a trace", Input: replay(), Model: want, Impl: got})
				broken = true
				break
			}
			okShape := false
			switch k.exit {
			case 'A':
				okShape = a.status == 200 && strings.HasPrefix(strings.TrimSpace(a.body), "{") || a.status == 200 && strings.HasPrefix(strings.TrimSpace(a.body), "[")
			case 'S':
				okShape = a.status == 200 && a.body == ""
			case 'a':
				okShape = a.status == 503 || a.status == 200
			}
			if !okShape {
				res.Mismatch(lib.Mismatch{Sig: "gate: a POST through the gate is answered unlike the same POST without a gate", Input: replay(),
					Model: string(k.exit), Impl: fmt.Sprintf("status=%d body=%q", a.status, short([]byte(a.body)))})
			}
		}
		hs.Close()
		hsT.Close()
		if broken {
			return
		}
	}
}
