//go:build verif

package main

// Concurrent requests on ONE server: the worker pool is shared by every HTTP request and WebSocket connection
// of a node. N clients post batches and single requests to one world (pool of 1–2 workers, slow handlers that
// wait for the request deadline next to quick ones); every client judges its own responses with the unchanged
// oracle (ids are unique per client), and at the end the recorded invocations must be exactly the union of
// what every request demands. In the thorough tier the same stage runs again in a child built with -race.

import (
	"bytes"
	"crypto/sha1"
	"encoding/hex"
	"encoding/json"
	"fmt"
	"io"
	"net/http"
	"net/http/httptest"
	"os"
	"os/exec"
	"strings"
	"sync"
	"time"

	"github.com/NethermindEth/juno/jsonrpc"
	"github.com/NethermindEth/juno/utils/log"
	"verif/harness/lib"
)

func concRequests(r *lib.RNG, client, n int) [][]byte {
	id := 0
	entry := func() string {
		id++
		tag := fmt.Sprintf("c%d-%d", client, id)
		switch r.Intn(10) {
		case 0, 1:
			return fmt.Sprintf(`{"jsonrpc":"2.0","method":"slow","params":[%q],"id":%q}`, tag, tag)
		case 2:
			return fmt.Sprintf(`{"jsonrpc":"2.0","method":"slow","params":{"tag":%q}}`, tag)
		case 3, 4, 5:
			return fmt.Sprintf(`{"jsonrpc":"2.0","method":"quick","params":[%d,%q],"id":%q}`, id, tag, tag)
		case 6:
			return fmt.Sprintf(`{"jsonrpc":"2.0","method":"nope","id":%q}`, tag)
		case 7:
			return fmt.Sprintf(`{"jsonrpc":"1.0","id":%q}`, tag)
		case 8:
			return fmt.Sprintf(`{"jsonrpc":"2.0","method":"fail","params":[%q],"id":%q}`, tag, tag)
		default:
			return fmt.Sprintf(`{"jsonrpc":"2.0","method":"quick","params":[%d,%q]}`, id, tag)
		}
	}
	var out [][]byte
	for i := 0; i < n; i++ {
		if r.Chance(1, 3) {
			out = append(out, []byte(entry()))
			continue
		}
		k := r.Range(2, 7)
		parts := make([]string, k)
		for j := range parts {
			parts[j] = entry()
		}
		out = append(out, []byte("["+strings.Join(parts, ",")+"]"))
	}
	return out
}

// concurrentStage runs in this process; returns false if it could not run
func concurrentStage(res *lib.Result, seed uint64, thorough bool) {
	r := lib.NewRNG(seed).Fork(9090)
	clients, perClient := 8, 12
	if thorough {
		clients, perClient = 16, 60
	}
	for _, pool := range []int{1, 2} {
		w, err := NewWorld(deadlineWorld(pool))
		if err != nil {
			res.Fatalf("concurrent stage: %v", err)
			return
		}
		hs := httptest.NewServer(jsonrpc.NewHTTP(w.Server, log.NewNopZapLogger()).WithRequestTimeout(20 * time.Millisecond))
		w.reset()
		var wg sync.WaitGroup
		var mu sync.Mutex
		want := map[string]int{}
		outOfOrder := 0
		for c := 0; c < clients; c++ {
			reqs := concRequests(r.Fork(uint64(pool*1000+c)), pool*100+c, perClient)
			wg.Add(1)
			go func() {
				defer wg.Done()
				client := &http.Client{Timeout: 30 * time.Second}
				for _, in := range reqs {
					resp, err := client.Post(hs.URL, "application/json", bytes.NewReader(in))
					var o Obs
					if err != nil {
						o.Dropped = "http: " + err.Error()
					} else {
						o.Out, _ = io.ReadAll(resp.Body)
						resp.Body.Close()
					}
					res.Case(fmt.Sprintf("conc:%d:%s", pool, in), true)
					res.Hit("concurrent:requests")
					// the invocations are checked globally: give the oracle what this request demands
					raw, _ := firstValue(in)
					tree, _ := parseTree(raw)
					var entries []*J
					if tree.K == '[' {
						entries = tree.A
					} else {
						entries = []*J{tree}
					}
					var ids []string
					for _, e := range entries {
						ce := classify(w, e)
						if call, unk := ce.expectedCall(); call != nil && !unk {
							o.Calls = append(o.Calls, *call)
							mu.Lock()
							want[call.String()]++
							mu.Unlock()
						}
						if ce.kind == ekCall {
							ids = append(ids, ce.id.S)
						}
					}
					if t := parseBody(o.Out); t != nil && t.K == '[' && len(t.A) == len(ids) {
						for k, x := range t.A {
							if idv := x.get("id"); idv != nil && idv.S != ids[k] {
								mu.Lock()
								outOfOrder++
								mu.Unlock()
								break
							}
						}
					}
					for _, v := range judge(w, in, o) {
						res.Violate(lib.Violation{Sig: v.Sig, What: fmt.Sprintf("[%d concurrent clients, pool of %d, 20 ms deadline] ", clients, pool) + v.What,
							Replay: map[string]any{"world": w.Spec, "via": "http-concurrent", "input_text": string(in)}})
					}
				}
			}()
		}
		done := lib.WithDeadline(4*time.Minute, wg.Wait)
		hs.Close()
		if !done {
			res.Violate(lib.Violation{Sig: "server-hangs", What: fmt.Sprintf("concurrent clients on a pool of %d did not finish", pool), Replay: map[string]any{"via": "http-concurrent", "pool": pool}})
			return
		}
		res.HitN("concurrent:batch-answered-out-of-request-order", outOfOrder)
		calls, recErrs := w.taken()
		got := map[string]int{}
		for _, c := range calls {
			got[c.String()]++
		}
		for _, p := range recErrs {
			res.Violate(lib.Violation{Sig: "handler-got-unusable-argument", What: "[concurrent] " + p, Replay: map[string]any{"via": "http-concurrent"}})
		}
		for k, n := range want {
			if got[k] != n {
				res.Violate(lib.Violation{Sig: "concurrent-requests-invocation-lost-or-duplicated", What: fmt.Sprintf("pool of %d: %s demanded %d time(s), ran %d time(s)", pool, k, n, got[k]),
					Replay: map[string]any{"via": "http-concurrent", "pool": pool}})
				break
			}
		}
		for k, n := range got {
			if want[k] != n {
				res.Violate(lib.Violation{Sig: "concurrent-requests-invocation-lost-or-duplicated", What: fmt.Sprintf("pool of %d: %s ran %d time(s), demanded %d", pool, k, n, want[k]),
					Replay: map[string]any{"via": "http-concurrent", "pool": pool}})
				break
			}
		}
	}
}

// raceChild: thorough tier — the concurrent stage again in a twin of this harness built with -race
func raceChild(res *lib.Result, f lib.Flags) {
	repo := os.Getenv("VERIF_REPO")
	if repo == "" {
		repo = "/repo"
	}
	tag := ""
	args := []string{"build", "-race"}
	if repo != "/repo" {
		sum := sha1.Sum([]byte(repo))
		tag = "-" + hex.EncodeToString(sum[:])[:8]
		args = append(args, "-modfile=/verif/.build/go"+tag+".mod")
	}
	bin := "/verif/.build/vh-c11-race" + tag
	args = append(args, "-tags", "verif", "-o", bin, "./cmd/c11")
	cmd := exec.Command("go", args...)
	cmd.Dir = "/verif/harness"
	cmd.Env = os.Environ()
	if out, err := cmd.CombinedOutput(); err != nil {
		res.Fatalf("race twin not built: %v: %s", err, lastBytes(string(out), 600))
		return
	}
	outFile, err := os.CreateTemp("", "c11-race-*.json")
	if err != nil {
		res.Fatalf("race child: %v", err)
		return
	}
	outFile.Close()
	defer os.Remove(outFile.Name())
	child := exec.Command(bin, "--seed", fmt.Sprint(f.Seed), "--tier", "quick", "--out", outFile.Name())
	child.Env = append(os.Environ(), "C11_MODE=conc", "GORACE=halt_on_error=1 exitcode=66")
	var buf bytes.Buffer
	child.Stdout, child.Stderr = &buf, &buf
	runErr := child.Run()
	text := buf.String()
	var cr struct {
		Cases        int             `json:"cases"`
		Distribution map[string]int  `json:"distribution"`
		Violations   []lib.Violation `json:"violations"`
		Fatal        []string        `json:"fatal"`
	}
	b, _ := os.ReadFile(outFile.Name())
	switch {
	case strings.Contains(text, "DATA RACE"):
		i := strings.Index(text, "WARNING: DATA RACE")
		res.Violate(lib.Violation{Sig: "data-race-in-jsonrpc-server", What: "race detector: " + lastBytes(text[i:min(len(text), i+2500)], 2500),
			Replay: map[string]any{"kind": "race-build", "seed": f.Seed}})
	case runErr != nil:
		res.Fatalf("race child failed: %v: %s", runErr, lastBytes(text, 800))
	case len(b) == 0 || json.Unmarshal(b, &cr) != nil:
		res.Fatalf("race child wrote no result")
	default:
		for k, v := range cr.Distribution {
			res.HitN("race:"+k, v)
		}
		for _, v := range cr.Violations {
			v.What = "[-race build] " + v.What
			res.Violate(v)
		}
		for _, ft := range cr.Fatal {
			res.Fatalf("race child: %s", ft)
		}
		if cr.Distribution["concurrent:requests"] < 100 {
			res.Fatalf("race child ran only %d concurrent requests", cr.Distribution["concurrent:requests"])
		}
	}
}

func lastBytes(s string, n int) string {
	if len(s) > n {
		return s[len(s)-n:]
	}
	return s
}
