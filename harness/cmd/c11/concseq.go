//go:build verif

package main

// Round 5 — concurrent actors with a SEQUENTIAL oracle per actor. One server, deterministic handlers; every input
// is first answered alone (the reference), then 8 actors send their inputs at the same time over four ways in
// (HandleReader directly, HTTP with gzip, HTTP without, one WebSocket connection each). Every answer must be
// the reference answer for that input — byte-for-byte as JSON, including the drawn text of a parse error, which
// comes out of a per-request window buffer — and the union of the handler invocations must be the union of the
// references. Anything the server shares between requests by mistake (a scratch buffer, a pooled writer given
// back too early, a window that is not per request) shows up here and nowhere in the sequential families.
// Thorough tier: the same stage runs in the -race twin (conc.go, raceChild).

import (
	"bytes"
	"compress/gzip"
	"context"
	"fmt"
	"io"
	"net/http"
	"net/http/httptest"
	"sync"
	"time"

	"github.com/NethermindEth/juno/jsonrpc"
	"github.com/NethermindEth/juno/utils/log"
	"verif/harness/lib"
)

func httpPostRaw(client *http.Client, url string, in []byte, gz bool) (body []byte, hdr http.Header, status int, err error) {
	req, _ := http.NewRequest("POST", url, bytes.NewReader(in))
	req.Header.Set("Content-Type", "application/json")
	if gz {
		req.Header.Set("Accept-Encoding", "gzip")
	}
	resp, err := client.Do(req)
	if err != nil {
		return nil, nil, 0, err
	}
	defer resp.Body.Close()
	raw, err := io.ReadAll(resp.Body)
	if err != nil {
		return nil, resp.Header, resp.StatusCode, err
	}
	if resp.Header.Get("Content-Encoding") == "gzip" {
		zr, zerr := gzip.NewReader(bytes.NewReader(raw))
		if zerr != nil {
			return raw, resp.Header, resp.StatusCode, fmt.Errorf("gzip body does not decode: %w", zerr)
		}
		plain, zerr := io.ReadAll(zr)
		if zerr != nil {
			return raw, resp.Header, resp.StatusCode, fmt.Errorf("gzip body does not decode: %w", zerr)
		}
		return plain, resp.Header, resp.StatusCode, nil
	}
	return raw, resp.Header, resp.StatusCode, nil
}

// bothParseErrors: two -32700 answers with id null. Over a transport the text drawn for a LONG input shows the
// bytes that had arrived when the error was found, which is a property of the network, not of the server.
func bothParseErrors(a, b []byte) bool {
	ok := func(x []byte) bool {
		t := parseBody(x)
		if t == nil || t.K != '{' {
			return false
		}
		e, id := t.get("error"), t.get("id")
		return e != nil && e.K == '{' && e.get("code") != nil && e.get("code").S == "-32700" && id != nil && id.K == 'n'
	}
	return ok(a) && ok(b)
}

// slowReader delivers its bytes in small segments and yields in between, like a client on a slow link: the
// request is still being read while other requests come and go (the result does not depend on the timing).
type slowReader struct {
	b   []byte
	seg int
}

func (s *slowReader) Read(p []byte) (int, error) {
	if len(s.b) == 0 {
		return 0, io.EOF
	}
	time.Sleep(20 * time.Microsecond)
	n := min(len(p), s.seg, len(s.b))
	copy(p, s.b[:n])
	s.b = s.b[n:]
	return n, nil
}

func concSeqStage(res *lib.Result, seed uint64, thorough bool) {
	r := lib.NewRNG(seed).Fork(60606)
	w, err := NewWorld(eventsWorld(3))
	if err != nil {
		res.Fatalf("concurrent actors: %v", err)
		return
	}
	// the pool of inputs: requests of every kind, batches, parse errors whose answer draws the input
	pool := eventsInputs(w, r.Fork(1), 40, 60)
	pe := parseErrorInputs(0, 4, false)
	for i := 0; i < 40 && len(pe) > 0; i++ {
		pool = append(pool, pe[r.Intn(len(pe))])
	}
	pt := prettyTextInputs()
	for i := 0; i < 40 && len(pt) > 0; i++ {
		pool = append(pool, pt[r.Intn(len(pt))])
	}
	for i := 0; i < 12; i++ { // long requests: bodies that do not fit one read / one gzip block
		pool = append(pool, []byte(fmt.Sprintf(`{"jsonrpc":"2.0","method":"h1","params":["%s"],"id":"long-%d"}`,
			bytes.Repeat([]byte{byte('a' + i)}, 3000+i*1777), i)))
		pool = append(pool, append(bytes.Repeat([]byte{byte('a' + i), ' '}, 400+i*57), []byte("\n{\"x\": ]")...))
	}
	type refT struct {
		o     Obs
		slow  []byte // the answer when the bytes arrive through a slowReader (the drawn window of a parse error differs)
		batch bool
	}
	ref := make([]refT, len(pool))
	for i, in := range pool {
		o := w.handle(in)
		if o.Panicked || o.Hung || o.Err != nil {
			for _, v := range judge(w, in, o) {
				res.Violate(lib.Violation{Sig: v.Sig, What: "[reference run of the concurrent-actor stage] " + v.What, Replay: mkReplay(w, in, "")})
			}
			return
		}
		so := w.handleWith(context.Background(), &slowReader{b: in, seg: 41})
		if so.Panicked || so.Hung || so.Err != nil {
			for _, v := range judge(w, in, so) {
				res.Violate(lib.Violation{Sig: v.Sig, What: "[reference run of the concurrent-actor stage, slow reader] " + v.What, Replay: mkReplay(w, in, "")})
			}
			return
		}
		ref[i] = refT{o, so.Out, isBatchShaped(in)}
	}
	hs := httptest.NewServer(jsonrpc.NewHTTP(w.Server, log.NewNopZapLogger()))
	defer hs.Close()
	shutdown := make(chan struct{})
	wss := httptest.NewServer(jsonrpc.NewWebsocket(w.Server, shutdown, log.NewNopZapLogger()))
	defer wss.Close()
	defer close(shutdown)

	actors, perActor := 8, 70
	if thorough {
		actors, perActor = 16, 400
	}
	w.reset()
	var mu sync.Mutex
	want := map[string]int{}
	reported := 0
	var wg sync.WaitGroup
	start := make(chan struct{})
	for a := 0; a < actors; a++ {
		a := a
		ar := r.Fork(uint64(100 + a))
		idxs := make([]int, perActor)
		for k := range idxs {
			idxs[k] = ar.Intn(len(pool))
		}
		wg.Add(1)
		go func() {
			defer wg.Done()
			via := []string{"HandleReader", "http-gzip", "http", "ws", "slow-reader", "slow-reader", "http-gzip", "ws"}[a%8]
			client := &http.Client{Timeout: 60 * time.Second, Transport: &http.Transport{DisableCompression: true}}
			var wc *wsClient
			if via == "ws" {
				wc = &wsClient{url: wss.URL, timeout: 60 * time.Second}
				if err := wc.dial(); err != nil {
					res.Fatalf("concurrent actors: websocket dial: %v", err)
					return
				}
				defer wc.conn.CloseNow()
			}
			<-start
			for _, idx := range idxs {
				in, rf := pool[idx], ref[idx]
				var out []byte
				var failure string
				wantOut := rf.o.Out
				switch via {
				case "HandleReader", "slow-reader":
					var rd io.Reader = bytes.NewReader(in)
					if via == "slow-reader" {
						rd, wantOut = &slowReader{b: in, seg: 41}, rf.slow
					}
					done := lib.WithDeadline(60*time.Second, func() {
						err, panicked, _ := lib.Try(func() error {
							o, _, err := w.Server.HandleReader(context.Background(), rd)
							out = o
							return err
						})
						if panicked || err != nil {
							failure = fmt.Sprintf("HandleReader failed: %v", err)
						}
					})
					if !done {
						failure = "HandleReader did not return"
					}
				case "http-gzip", "http":
					body, _, status, err := httpPostRaw(client, hs.URL, in, via == "http-gzip")
					out = body
					if err != nil {
						failure = "http: " + err.Error()
					} else if status != 200 {
						failure = fmt.Sprintf("http status %d", status)
					}
				case "ws":
					msgs, hung, err := wc.exchange([][]byte{in})
					switch {
					case hung:
						failure = "websocket: no answer"
					case err != nil:
						failure = "websocket: " + err.Error()
					case len(msgs) > 1:
						failure = fmt.Sprintf("websocket: %d messages for one request", len(msgs))
					case len(msgs) == 1:
						out = msgs[0]
					}
				}
				res.Case(fmt.Sprintf("concseq:%s:%s", via, in), true)
				res.Hit("concurrent-actors:" + via)
				res.Compared(1)
				mu.Lock()
				for _, c := range rf.o.Calls {
					want[c.String()]++
				}
				mu.Unlock()
				if failure == "" && (sameOutputs(wantOut, out, rf.batch) ||
					(via != "HandleReader" && via != "slow-reader" && len(in) > 400 && bothParseErrors(wantOut, out))) {
					continue
				}
				mu.Lock()
				reported++
				first := reported <= 6
				mu.Unlock()
				if !first {
					continue
				}
				if failure == "" {
					failure = "answer " + short(out)
				}
				res.Violate(lib.Violation{Sig: "answer-differs-under-concurrent-requests",
					What: fmt.Sprintf("[%d concurrent actors, this one over %s] the request %s is answered %s when it is sent alone; among concurrent requests: %s",
						actors, via, describe(in), short(wantOut), failure),
					Replay: map[string]any{"world": w.Spec, "via": "concurrent-" + via, "input_text": string(in), "actors": actors, "seed": seed}})
				if via == "ws" && failure != "" && out == nil {
					return // the connection is gone
				}
			}
		}()
	}
	close(start)
	if !lib.WithDeadline(5*time.Minute, wg.Wait) {
		res.Violate(lib.Violation{Sig: "server-hangs", What: "concurrent actors did not finish", Replay: map[string]any{"via": "concurrent-actors", "seed": seed}})
		return
	}
	calls, _ := w.taken()
	got := map[string]int{}
	for _, c := range calls {
		if c.Method == "noargs" && len(c.Args) == 0 {
			continue // websocket sentinels
		}
		got[c.String()]++
	}
	for k, n := range want {
		if k == "noargs()" {
			continue
		}
		if got[k] != n {
			res.Violate(lib.Violation{Sig: "concurrent-requests-invocation-lost-or-duplicated",
				What: fmt.Sprintf("concurrent actors: %s demanded %d time(s), ran %d time(s)", k, n, got[k]), Replay: map[string]any{"via": "concurrent-actors", "seed": seed}})
			break
		}
	}
	for k, n := range got {
		if want[k] != n {
			res.Violate(lib.Violation{Sig: "concurrent-requests-invocation-lost-or-duplicated",
				What: fmt.Sprintf("concurrent actors: %s ran %d time(s), demanded %d", k, n, want[k]), Replay: map[string]any{"via": "concurrent-actors", "seed": seed}})
			break
		}
	}
}
