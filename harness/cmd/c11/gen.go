//go:build verif

package main

import (
	"encoding/json"
	"fmt"
	"strings"

	"verif/harness/lib"
)

type Gen struct {
	r      *lib.RNG
	w      *World
	nextID int64
}

func raw(s string) *J { // literal number / keyword helper
	switch s {
	case "null":
		return jNull()
	case "true":
		return jBool(true)
	case "false":
		return jBool(false)
	}
	return jNum(s)
}

var stringPool = []string{"", "x", "abc", "héllo", "a\"b\\c", "\u0000", "<>&", " ", "0x3", "2.0", "ſ", "\U0001F44D", "a, b", "id"}

func (g *Gen) str() string {
	if g.r.Chance(1, 10) {
		n := g.r.Range(1, 40)
		var sb strings.Builder
		for i := 0; i < n; i++ {
			sb.WriteRune(lib.Pick(g.r, []rune{'a', 'Z', '0', ' ', '"', '\\', '/', 'é', 'ſ', '\n', 0x7f, 0x1, 0x2028, 0x1F600, 0xFFFD}))
		}
		return sb.String()
	}
	return lib.Pick(g.r, stringPool)
}

var numPool = []string{"0", "1", "-1", "42", "-0", "7", "100", "999999999999999", "1.5", "1e2", "1E2", "-1.0e-3", "1e400",
	"9223372036854775807", "9223372036854775808", "-9223372036854775808", "-9223372036854775809",
	"12345678901234567890", "1000000000000000", "123456789012345678901234567890", "0.0", "2e0"}

// value: an arbitrary JSON value (for `any` / `raw` parameters, ids, garbage members)
func (g *Gen) value(depth int) *J {
	k := g.r.Intn(12)
	if depth <= 0 && k >= 8 {
		k = g.r.Intn(8)
	}
	switch k {
	case 0:
		return jNull()
	case 1:
		return jBool(g.r.Bool())
	case 2, 3:
		if g.r.Chance(3, 4) {
			return jNum(lib.Pick(g.r, []string{"0", "1", "-1", "42", "7", "100", "-0", "999999999999999"}))
		}
		return jNum(lib.Pick(g.r, numPool))
	case 4, 5, 6, 7:
		return jStr(g.str())
	case 8, 9:
		n := g.r.Intn(4)
		out := &J{K: '[', A: []*J{}}
		for i := 0; i < n; i++ {
			out.A = append(out.A, g.value(depth-1))
		}
		return out
	default:
		n := g.r.Intn(4)
		out := &J{K: '{', O: []KV{}}
		for i := 0; i < n; i++ {
			key := lib.Pick(g.r, []string{"a", "b", "z", "A", "k", "", "é"})
			out.O = append(out.O, KV{key, g.value(depth - 1)})
		}
		return out
	}
}

func hexDigits(r *lib.RNG, n int) string {
	var sb strings.Builder
	for i := 0; i < n; i++ {
		sb.WriteByte("0123456789abcdefABCDEF"[r.Intn(22)])
	}
	return sb.String()
}

// forType: a value aimed at parameter type ty: mostly acceptable, boundaries, some unacceptable.
func (g *Gen) forType(ty string) *J {
	r := g.r
	if r.Chance(1, 25) {
		return g.value(2) // anything
	}
	intOK := []string{"0", "1", "-1", "42", "-0", "9223372036854775807", "-9223372036854775808", "5", "2"}
	intBad := []*J{raw("9223372036854775808"), raw("-9223372036854775809"), raw("1.0"), raw("1e2"), raw("1.5"),
		jStr("1"), jBool(true), jArr(raw("1")), jObj(), raw("123456789012345678901234567890")}
	switch ty {
	case "any", "raw":
		return g.value(3)
	case "int":
		switch {
		case r.Chance(7, 10):
			return jNum(lib.Pick(r, intOK))
		case r.Chance(1, 6):
			return jNull()
		}
		return lib.Pick(r, intBad)
	case "ptrInt":
		switch {
		case r.Chance(6, 10):
			return jNum(lib.Pick(r, intOK))
		case r.Chance(1, 2):
			return jNull()
		}
		return lib.Pick(r, intBad)
	case "str":
		switch {
		case r.Chance(8, 10):
			return jStr(g.str())
		case r.Chance(1, 4):
			return jNull()
		}
		return lib.Pick(r, []*J{raw("1"), jBool(false), jArr(), jObj(), jArr(jStr("x"))})
	case "bool":
		switch {
		case r.Chance(8, 10):
			return jBool(r.Bool())
		case r.Chance(1, 4):
			return jNull()
		}
		return lib.Pick(r, []*J{raw("0"), raw("1"), jStr("true"), jArr(), jObj()})
	case "ints":
		switch r.Intn(10) {
		case 0:
			return jNull()
		case 1:
			return jArr()
		case 2:
			return lib.Pick(r, []*J{jArr(jNull()), jArr(raw("1"), jNull()), jArr(raw("1"), jStr("2")), jArr(raw("1.5")),
				jStr("x"), jObj(), jArr(jArr(raw("1"))), raw("3"), jArr(raw("9223372036854775808"))})
		}
		n := r.Range(1, 4)
		out := &J{K: '[', A: []*J{}}
		for i := 0; i < n; i++ {
			out.A = append(out.A, jNum(lib.Pick(r, intOK)))
		}
		return out
	case "vstruct":
		A := func(v *J) KV { return kv("A", v) }
		return lib.Pick(r, []*J{
			jObj(A(raw("1"))), jObj(A(raw("5"))), jObj(A(raw("1"))), jObj(A(raw("9223372036854775807"))), jObj(A(raw("2"))),
			jObj(A(raw("0"))), jObj(A(raw("-1"))), jObj(kv("a", raw("2"))), jObj(A(raw("1")), A(raw("0"))),
			jObj(A(raw("0")), kv("a", raw("3"))), jObj(A(jNull())), jObj(A(raw("3")), A(jNull())), jObj(), jNull(),
			jObj(A(jStr("1"))), jObj(A(raw("1")), kv("B", raw("2"))), jObj(A(raw("1.0"))), jArr(), raw("3"),
			jObj(A(raw("9223372036854775808"))), jObj(A(jStr("x")), A(raw("1"))), jObj(kv("B", raw("1"))),
		})
	case "vslice":
		switch r.Intn(8) {
		case 0:
			return lib.Pick(r, []*J{jNull(), jArr(), jObj(), raw("1"), jArr(jNull()), jArr(raw("1")), jArr(jArr())})
		}
		out := &J{K: '[', A: []*J{}}
		for k := r.Range(1, 3); k > 0; k-- {
			out.A = append(out.A, g.forType("vstruct"))
		}
		return out
	case "vmap":
		switch r.Intn(8) {
		case 0:
			return lib.Pick(r, []*J{jNull(), jObj(), jArr(), raw("1"), jStr("x")})
		}
		out := &J{K: '{', O: []KV{}}
		for k := r.Range(1, 3); k > 0; k-- {
			val := g.forType("vstruct")
			if r.Chance(1, 5) {
				val = jNull()
			}
			out.O = append(out.O, KV{lib.Pick(r, []string{"a", "b", "expectedkey", "", "A"}), val})
		}
		return out
	case "bounds":
		ma := lib.Pick(r, []*J{jStr("0x0"), jStr("0x1"), jStr("0xffffffffffffffff"), jStr("0xffffffffffffffff"),
			jStr("0x10000000000000000"), jStr("0x8000000000000000"), jStr("0X1"), jStr("0x"), jStr("1"), jStr("0xg"),
			raw("1"), jNull(), nil, jStr("0x" + strings.Repeat("f", 64)), jStr("0x7" + strings.Repeat("f", 62)),
			jStr("0x00000001"), jStr("0xFFFFFFFFFFFFFFFF"), jStr("0x1ffffffffffffffff"), jStr("0x" + hexDigits(r, r.Range(1, 18))),
			jStr("0x800000000000011000000000000000000000000000000000000000000000000"),
			jStr("0x800000000000011000000000000000000000000000000000000000000000001"),
			jStr("0x" + strings.Repeat("0", 64) + "1"), jStr("0x_1"), jStr(" 0x1")})
		ver := lib.Pick(r, []*J{jStr("0x3"), jStr("0x3"), jStr("0x3"), jStr("0x100000000000000000000000000000003"),
			jStr("0x100000000000000000000000000000003"), jStr("0x03"), jStr("0x1"), jStr("0x4"), jStr("0x2"),
			jStr("0x100000000000000000000000000000004"), jStr("0x10000000000000000000000000000003"), nil, jNull(), raw("3"), jStr("3")})
		mp := lib.Pick(r, []*J{jStr("0x0"), jStr("0x1"), jStr("0xffffffffffffffffffffffffffffffff"), jStr("0xffffffffffffffffffffffffffffffff"),
			jStr("0x100000000000000000000000000000000"), jStr("0x80000000000000000000000000000000"), jStr("0x10000000000000000"),
			jStr("0x" + hexDigits(r, r.Range(1, 34))), jStr("0x7" + strings.Repeat("f", 62)), nil, jNull(), raw("5"), jStr("0x"), jStr("12")})
		if r.Chance(1, 2) { // an acceptable struct, at the boundaries
			ma = jStr(lib.Pick(r, []string{"0x0", "0xffffffffffffffff", "0x8000000000000000", "0X1f", "0x00ff"}))
			mp = jStr(lib.Pick(r, []string{"0x0", "0xffffffffffffffffffffffffffffffff", "0x80000000000000000000000000000000", "0x10000000000000000"}))
			ver = jStr(lib.Pick(r, []string{"0x3", "0x100000000000000000000000000000003", "0x03"}))
			if r.Chance(1, 6) { // exactly one field just beyond its limit
				switch r.Intn(3) {
				case 0:
					ma = jStr("0x10000000000000000")
				case 1:
					mp = jStr("0x100000000000000000000000000000000")
				default:
					ver = jStr(lib.Pick(r, []string{"0x2", "0x4", "0x100000000000000000000000000000002", "0x200000000000000000000000000000003"}))
				}
			}
		}
		out := &J{K: '{', O: []KV{}}
		kMa, kVer := "max_amount", "version"
		if mp != nil {
			k := "max_price_per_unit"
			if r.Chance(1, 20) {
				k = lib.Pick(r, []string{"MAX_PRICE_PER_UNIT", "Max_price_per_unit", "max_price"})
			}
			out.O = append(out.O, KV{k, mp})
		}
		if r.Chance(1, 15) {
			kMa = lib.Pick(r, []string{"MAX_AMOUNT", "Max_Amount", "maxamount"})
		}
		if r.Chance(1, 15) {
			kVer = lib.Pick(r, []string{"Version", "VERSION", "verſion"})
		}
		if ma != nil {
			out.O = append(out.O, KV{kMa, ma})
		}
		if ver != nil {
			out.O = append(out.O, KV{kVer, ver})
		}
		if r.Chance(1, 12) {
			out.O = append(out.O, KV{"extra", raw("1")})
		}
		if r.Chance(1, 12) && ma != nil {
			out.O = append(out.O, KV{"max_amount", lib.Pick(r, []*J{jStr("0x5"), jNull(), jStr("0x10000000000000000")})})
		}
		if r.Bool() {
			lib.Shuffle(r, out.O)
		}
		if r.Chance(1, 20) {
			return lib.Pick(r, []*J{jNull(), jArr(), raw("1"), jStr("0x3")})
		}
		return out
	}
	return jNull()
}

func (g *Gen) idValue() *J {
	r := g.r
	switch r.Intn(20) {
	case 0:
		return jNull()
	case 1:
		return lib.Pick(r, []*J{raw("1.5"), raw("1e2"), raw("1E2"), raw("1.0"), raw("-0"), raw("0"), raw("-7"), raw("1e-2")})
	case 2:
		return lib.Pick(r, []*J{jBool(true), jBool(false), jArr(raw("1")), jArr(), jObj(), jObj(kv("a", raw("1")))})
	case 3:
		return lib.Pick(r, []*J{raw("123456789012345678901234567890"), raw("18446744073709551616"), raw("-9223372036854775809"), raw("1e400")})
	case 4, 5, 6:
		return jStr(lib.Pick(r, []string{"", "a", "1", "id-7", "é", "\u0000", "<x>", "null", "sentinel"}))
	case 7:
		return jStr(g.str())
	case 8:
		return raw("1") // deliberately colliding ids
	}
	g.nextID++
	return jInt(g.nextID)
}

// params for a known method: mostly bindable, with systematic corruptions
func (g *Gen) paramsFor(ms *MethodSpec) *J {
	r := g.r
	total, req := len(ms.Params), ms.required()
	switch r.Intn(24) {
	case 0:
		return nil
	case 1:
		return jArr()
	case 2:
		return jObj()
	case 3:
		return lib.Pick(r, []*J{raw("44"), jStr("x"), jBool(true), jNull(), raw("1.5")})
	}
	if r.Bool() { // positional
		n := total
		if total > req {
			n = r.Range(req, total)
		}
		switch r.Intn(12) {
		case 0:
			n = total + 1
		case 1:
			if req > 0 {
				n = req - 1
			}
		case 2:
			n = r.Range(0, total+2)
		}
		out := &J{K: '[', A: []*J{}}
		for i := 0; i < n; i++ {
			if i < total {
				out.A = append(out.A, g.forType(ms.Params[i].Ty))
			} else {
				out.A = append(out.A, g.value(1))
			}
		}
		return out
	}
	out := &J{K: '{', O: []KV{}}
	for _, p := range ms.Params {
		if p.Optional && r.Bool() {
			continue
		}
		if !p.Optional && r.Chance(1, 14) {
			continue // missing required
		}
		out.O = append(out.O, KV{p.Name, g.forType(p.Ty)})
	}
	if r.Chance(1, 10) {
		out.O = append(out.O, KV{lib.Pick(r, []string{"extra", "zzz", "A", "B", "params", "c, d"}), g.value(1)})
		if r.Bool() {
			out.O = append(out.O, KV{lib.Pick(r, []string{"other", "q"}), g.value(0)})
		}
	}
	if r.Chance(1, 12) && len(ms.Params) > 0 { // duplicate member: the last one counts in Go
		p := lib.Pick(r, ms.Params)
		out.O = append(out.O, KV{p.Name, g.forType(p.Ty)})
	}
	if r.Chance(1, 15) && len(ms.Params) > 0 { // names are matched exactly, not case-folded
		p := lib.Pick(r, ms.Params)
		out.O = append(out.O, KV{strings.ToUpper(p.Name) + "x"[:r.Intn(2)], g.forType(p.Ty)})
	}
	if r.Bool() {
		lib.Shuffle(r, out.O)
	}
	return out
}

func (g *Gen) methodSpec() *MethodSpec {
	return &g.w.Spec.Methods[g.r.Intn(len(g.w.Spec.Methods))]
}

// request: a Request object with every member independently present / absent / ill-typed.
func (g *Gen) request() *J {
	r := g.r
	out := &J{K: '{', O: []KV{}}
	// jsonrpc
	switch r.Intn(24) {
	case 0:
	case 1:
		out.O = append(out.O, KV{"jsonrpc", lib.Pick(r, []*J{jStr("1.0"), jStr("2"), jStr("2.00"), jStr(""), jStr("2.0 ")})})
	case 2:
		out.O = append(out.O, KV{"jsonrpc", lib.Pick(r, []*J{raw("2"), raw("2.0"), jNull(), jBool(true), jArr(jStr("2.0")), jObj()})})
	default:
		out.O = append(out.O, KV{"jsonrpc", jStr("2.0")})
	}
	// method + params
	ms := g.methodSpec()
	switch r.Intn(24) {
	case 0:
		ms = nil
	case 1:
		out.O = append(out.O, KV{"method", jStr(lib.Pick(r, []string{"nope", "", "Echo", "echo ", "rpc.discover", strings.ToUpper(ms.Name)}))})
		if r.Bool() {
			ms = nil
		}
	case 2:
		out.O = append(out.O, KV{"method", lib.Pick(r, []*J{raw("5"), jNull(), jBool(true), jArr(jStr(ms.Name)), jObj()})})
	default:
		out.O = append(out.O, KV{"method", jStr(ms.Name)})
	}
	var params *J
	if ms != nil {
		params = g.paramsFor(ms)
	} else if r.Bool() {
		params = lib.Pick(r, []*J{jArr(), jArr(raw("1")), jObj(kv("a", raw("1"))), raw("3"), jNull()})
	}
	if params != nil {
		out.O = append(out.O, KV{"params", params})
	}
	// id
	if !r.Chance(1, 6) {
		out.O = append(out.O, KV{"id", g.idValue()})
	}
	// Go-specific decoding corners
	if r.Chance(1, 12) {
		out.O = append(out.O, KV{lib.Pick(r, []string{"extra", "result", "error", "jsonrpc2", "i d", "ıd"}), g.value(1)})
	}
	if r.Chance(1, 14) && len(out.O) > 0 { // case-folded member name
		i := r.Intn(len(out.O))
		variants := map[string][]string{"jsonrpc": {"JSONRPC", "JsonRpc", "jſonrpc", "jsonRPC"}, "method": {"Method", "METHOD"},
			"params": {"Params", "PARAMS", "paramſ"}, "id": {"ID", "Id", "iD"}}
		if v, ok := variants[out.O[i].K]; ok {
			out.O[i].K = lib.Pick(r, v)
		}
	}
	if r.Chance(1, 14) && len(out.O) > 0 { // duplicate member
		i := r.Intn(len(out.O))
		k := out.O[i].K
		var v *J
		switch r.Intn(4) {
		case 0:
			v = jNull()
		case 1:
			v = g.value(1)
		case 2:
			v = out.O[i].V
		default:
			switch k {
			case "id":
				v = g.idValue()
			case "method":
				v = jStr(g.methodSpec().Name)
			case "jsonrpc":
				v = jStr("2.0")
			default:
				v = g.value(2)
			}
		}
		if r.Bool() {
			out.O = append(out.O, KV{k, v})
		} else {
			out.O = append([]KV{{k, v}}, out.O...)
		}
	}
	if r.Chance(1, 3) {
		lib.Shuffle(r, out.O)
	}
	return out
}

func (g *Gen) entry() *J {
	if g.r.Chance(1, 12) {
		return lib.Pick(g.r, []*J{raw("1"), jStr("x"), jNull(), jBool(true), jArr(), jArr(g.request()), jObj(), raw("1.5")})
	}
	return g.request()
}

func (g *Gen) layout() *layout {
	r := g.r
	switch r.Intn(4) {
	case 0:
		return nil
	case 1:
		return &layout{ws: func() string { return " " }}
	case 2:
		return &layout{ws: func() string { return lib.Pick(r, []string{"", " ", "\n", "\t", "\r\n", "  \n\t"}) },
			escape: func(c rune) bool { return r.Chance(1, 6) }}
	}
	return &layout{escape: func(c rune) bool { return c > 0x7f || r.Chance(1, 10) }}
}

func (g *Gen) blanks() string {
	r := g.r
	n := 0
	switch r.Intn(16) {
	case 0:
		n = lib.Pick(r, []int{126, 127, 128, 129, 130, 255, 256, 257, 600})
	case 1, 2:
		n = r.Range(1, 6)
	}
	var sb strings.Builder
	for i := 0; i < n; i++ {
		sb.WriteByte(" \t\r\n   "[r.Intn(7)])
	}
	return sb.String()
}

func (g *Gen) suffix() string {
	r := g.r
	if r.Chance(5, 6) {
		return lib.Pick(r, []string{"", "", "", "\n", " ", "\r\n"})
	}
	return lib.Pick(r, []string{" trailing", "]", "}", "{}", "[]", ",", "\x00", " 1", `{"jsonrpc":"2.0","method":"noargs","id":99}`, "\xff"})
}

// mutate: byte-level damage of otherwise meaningful input
func (g *Gen) mutate(b []byte) []byte {
	r := g.r
	b = append([]byte(nil), b...)
	n := r.Range(1, 3)
	for i := 0; i < n && len(b) > 0; i++ {
		p := r.Intn(len(b))
		switch r.Intn(8) {
		case 0:
			b = b[:p]
		case 1:
			b = append(b[:p], b[p+1:]...)
		case 2:
			b[p] = lib.Pick(r, []byte{'"', '{', '}', '[', ']', ',', ':', ' ', '0', 'n', '\\', 0, 0xff, 'e', '.', '-'})
		case 3:
			c := lib.Pick(r, []byte{'"', '{', '}', '[', ']', ',', ':', ' ', '1', '\\', 0xc3, 'u'})
			b = append(b[:p], append([]byte{c}, b[p:]...)...)
		case 4:
			b[p] ^= 1 << uint(r.Intn(8))
		case 5:
			q := r.Intn(len(b))
			b[p], b[q] = b[q], b[p]
		case 6:
			b = append(b[:p], append([]byte(lib.Pick(r, []string{`\ud800`, `\u0000`, `null`, `1e999`, `"id"`, `,,`, `[[`})), b[p:]...)...)
		case 7:
			q := r.Range(p, len(b))
			b = append(b[:p], b[q:]...)
		}
	}
	return b
}

var garbagePool = []string{"{", "}", "[", "]", ":", ",", `"`, `"jsonrpc"`, `"2.0"`, `"method"`, `"id"`, `"params"`, "null", "true", "1", "-", "e",
	" ", "\n", `\`, "\x00", "\xff", "\xef\xbb\xbf", `"echo"`, "1.5", "{}", "[]"}

func (g *Gen) input() []byte {
	r := g.r
	var body []byte
	switch k := r.Intn(20); {
	case k < 7:
		body = g.request().bytes(g.layout())
	case k < 14:
		n := lib.Pick(r, []int{1, 1, 2, 2, 3, 3, 4, 5, 6, 8})
		if r.Chance(1, 40) {
			n = r.Range(30, 120)
		}
		out := &J{K: '[', A: []*J{}}
		for i := 0; i < n; i++ {
			out.A = append(out.A, g.entry())
		}
		body = out.bytes(g.layout())
	case k < 17:
		var src *J
		if r.Bool() {
			src = g.request()
		} else {
			src = jArr(g.entry(), g.entry())
		}
		body = g.mutate(src.bytes(g.layout()))
	case k < 18:
		body = g.value(3).bytes(g.layout())
	default:
		n := r.Range(0, 12)
		var sb strings.Builder
		for i := 0; i < n; i++ {
			if r.Chance(1, 5) {
				sb.Write(r.Bytes(r.Range(1, 4)))
			} else {
				sb.WriteString(lib.Pick(r, garbagePool))
			}
		}
		body = []byte(sb.String())
	}
	return []byte(g.blanks() + string(body) + g.suffix())
}

// corpus: inputs run first in every world: the leads of DESIGN §7 L12, the examples of the
// JSON-RPC 2.0 specification, syntactic corner cases.
func corpus(w *World) [][]byte {
	var out [][]byte
	add := func(s ...string) {
		for _, x := range s {
			out = append(out, []byte(x))
		}
	}
	m0 := w.Spec.Methods[0].Name
	q := func(s string) string { return string(jStr(s).bytes(nil)) }
	add("", " ", "\n\t\r ", "[", "]", "{", "}", "[]", "[ ]", " [\n]", "{}", "null", "true", "false", "42", "-1.5e3", `"x"`, `"`,
		"[1]", "[1,2,3]", "[[]]", "[null]", "[{}]", "[[[]]]", "nul", "[1", "[1,", `{"a"`, `{"a":`, `{"a":1,}`, "[1,]", "\x00", "\xff\xfe",
		"\xef\xbb\xbf{}", "{}{}", "[][]", "[] x", "{} x", "1 2", "nullnull", "-", "1e", "0123", `{"jsonrpc":"2.0","method":`+q(m0)+`,"id":1`,
		strings.Repeat("[", 10001), strings.Repeat("[", 10001)+strings.Repeat("]", 10001),
		strings.Repeat("[", 3000)+strings.Repeat("]", 3000),
		`{"a":`+strings.Repeat("[", 3000)+strings.Repeat("]", 3000)+`}`,
		`{"jsonrpc":"2.0","method":`+q(m0)+`,"params":`+strings.Repeat("[", 2000)+strings.Repeat("]", 2000)+`,"id":1}`,
	)
	blanks := []int{1, 127, 128, 129, 4096}
	for _, n := range blanks {
		b := strings.Repeat(" ", n)
		add(b, b+"[", b+"[]", b+`{"jsonrpc":"2.0","method":`+q(m0)+`,"id":1}`, b+`[{"jsonrpc":"2.0","method":`+q(m0)+`,"id":1}]`,
			b+`[{"jsonrpc":"2.0","method":`+q(m0)+`}]`, b+"[1]", strings.Repeat("\n", n)+`[{"jsonrpc":"2.0","method":"nope","id":"a"},2]`)
	}
	for i := range w.Spec.Methods {
		ms := &w.Spec.Methods[i]
		name := q(ms.Name)
		add(`{"jsonrpc":"2.0","method":`+name+`,"id":1}`, `{"jsonrpc":"2.0","method":`+name+`}`,
			`{"jsonrpc":"2.0","method":`+name+`,"id":null}`, `{"jsonrpc":"2.0","method":`+name+`,"params":[],"id":"s"}`,
			`{"jsonrpc":"2.0","method":`+name+`,"params":{},"id":2}`, `[{"jsonrpc":"2.0","method":`+name+`,"id":1},{"jsonrpc":"2.0","method":`+name+`}]`,
			`{"jsonrpc":"2.0","method":`+name+`,"params":null,"id":3}`, `{"jsonrpc":"2.0","method":`+name+`,"params":[null],"id":3}`,
			`{"jsonrpc":"2.0","method":`+name+`,"params":[1,2,3,4,5,6,7],"id":3}`, `{"jsonrpc":"2.0","method":`+name+`,"params":{"nosuch":1},"id":4}`)
	}
	add(`{"jsonrpc":"2.0","method":"nope","id":1}`, `{"jsonrpc":"2.0","method":"nope"}`, `{"jsonrpc":"2.0","method":"nope","id":null}`,
		`{"jsonrpc":"2.0","method":"nope","params":[1]}`, `[{"jsonrpc":"2.0","method":"nope"}]`, `[{"jsonrpc":"2.0","method":"nope"},{"jsonrpc":"2.0","method":"nope","id":5}]`,
		`{"jsonrpc":"2.0","method":1,"params":"bar"}`, `{"jsonrpc":"2.0","method":"foobar,"params":"bar","baz]`,
		`[{"jsonrpc":"2.0","method":"sum","params":[1,2,4],"id":"1"},{"jsonrpc":"2.0","method"]`,
		`{"jsonrpc":"1.0","id":1}`, `{"jsonrpc":"1.0","id":null}`, `{"jsonrpc":"1.0","id":1.5}`, `{"jsonrpc":"1.0","id":1e2}`, `{"jsonrpc":"1.0","id":[1]}`,
		`{"jsonrpc":"2.0"}`, `{"jsonrpc":"2.0","method":""}`, `{"jsonrpc":"2.0","method":"","id":1}`, `{"jsonrpc":2,"method":"x","id":1}`,
		`[{"jsonrpc":2,"method":"x","id":1}]`, `{"jsonrpc":"2.0","method":"x","params":44}`, `{"jsonrpc":"2.0","method":"x","params":"44","id":9}`,
		`{"jsonrpc":"2.0","method":"x","id":true}`, `{"jsonrpc":"2.0","method":"x","id":{}}`, `{"jsonrpc":"2.0","method":"x","id":[37]}`,
		`{"jsonrpc":"2.0","method":"x","id":44.37}`, `{"jsonrpc":"2.0","method":"x","id":1e2}`, `{"jsonrpc":"2.0","method":"x","id":123456789012345678901234567890}`,
		`{"JSONRPC":"2.0","Method":"nope","ID":7}`, `{"jſonrpc":"2.0","method":"nope","id":7}`, `{"jsonrpc":"2.0","method":"nope","method":null,"id":7,"id":null}`,
		`{"jsonrpc":"2.0","jsonrpc":null,"method":"nope","id":7}`, `{"jsonrpc":"2.0","jsonrpc":1,"method":"nope","id":7}`,
		`{"jsonrpc":"2.0","method":"nope","id":7} trailing`, `{"jsonrpc":"2.0","method":"nope","id":7}{"jsonrpc":"2.0","method":"nope","id":8}`,
		`{"jsonrpc":"2.0","method":"no\xffpe","id":"\xff"}`, `{"jsonrpc":"2.0","method":"nope","id":"\ud800"}`, `{"jsonrpc":"2.0","method":"nope","id":"\u0000"}`,
		`[1,"x",null,true,[],{}]`, `[[{"jsonrpc":"2.0","method":"nope","id":1}]]`,
	)
	return out
}

// exhaustive: every combination of absent / well-typed / ill-typed jsonrpc, method, params, id, as a
// single request and as a one-element batch. Only meaningful for the fixed world (method "opt3").
func exhaustive() [][]byte {
	ver := []string{"", `"jsonrpc":"2.0"`, `"jsonrpc":"1.0"`, `"jsonrpc":2`, `"jsonrpc":null`}
	meth := []string{"", `"method":"opt3"`, `"method":"nope"`, `"method":""`, `"method":5`, `"method":null`, `"method":"nilres"`}
	params := []string{"", `"params":[7]`, `"params":{"num":7}`, `"params":[7,true,"m"]`, `"params":{"msg":"m","num":7}`, `"params":[]`, `"params":{}`,
		`"params":[7,true,"m",1]`, `"params":["7"]`, `"params":{"flag":true}`, `"params":{"num":7,"x":1}`, `"params":44`, `"params":"x"`, `"params":null`, `"params":true`}
	id := []string{"", `"id":1`, `"id":"s"`, `"id":null`, `"id":1.5`, `"id":1e2`, `"id":true`, `"id":[1]`, `"id":{}`,
		`"id":123456789012345678901234567890`, `"id":-1`, `"id":""`}
	var out [][]byte
	for _, v := range ver {
		for _, m := range meth {
			for _, p := range params {
				for _, i := range id {
					var parts []string
					for _, x := range []string{v, m, p, i} {
						if x != "" {
							parts = append(parts, x)
						}
					}
					obj := "{" + strings.Join(parts, ",") + "}"
					out = append(out, []byte(obj), []byte("["+obj+"]"))
				}
			}
		}
	}
	return out
}

func describe(in []byte) string {
	if len(in) > 200 {
		return fmt.Sprintf("%q…(%d bytes)", in[:200], len(in))
	}
	return fmt.Sprintf("%q", in)
}

// bindingExhaustive: for some methods of the fixed world, every positional call of length 0..n+1 and
// every named call in which each argument is independently absent / acceptable / null / ill-typed,
// with and without an unknown name; as request and as notification.
func bindingExhaustive(spec WorldSpec) [][]byte {
	okVal := map[string]string{"any": `{"k":[1,"x"]}`, "raw": `[1.50,{"b":1,"a":2}]`, "int": `7`, "str": `"s"`, "bool": `true`, "ptrInt": `-3`,
		"ints": `[1,2]`, "vslice": `[{"A":1},{"A":9}]`, "vmap": `{"k":{"A":3},"n":null}`, "vstruct": `{"A":2}`, "bounds": `{"max_amount":"0x1","max_price_per_unit":"0x2","version":"0x3"}`}
	badVal := map[string]string{"any": `1e999`, "raw": `[[`, "int": `"7"`, "str": `5`, "bool": `"true"`, "ptrInt": `1.5`,
		"ints": `[1,"2"]`, "vslice": `[{"A":1},{"A":0}]`, "vmap": `{"k":{"A":3},"z":{"A":-1}}`, "vstruct": `{"A":0}`, "bounds": `{"max_amount":"0x10000000000000000","max_price_per_unit":"0x2","version":"0x3"}`}
	var out [][]byte
	for _, name := range []string{"opt3", "sub", "allopt", "list", "bnd", "vs", "vsl", "echo", "nilres"} {
		var ms *MethodSpec
		for i := range spec.Methods {
			if spec.Methods[i].Name == name {
				ms = &spec.Methods[i]
			}
		}
		if ms == nil {
			continue
		}
		n := len(ms.Params)
		emit := func(params string) {
			out = append(out, []byte(`{"jsonrpc":"2.0","method":"`+name+`","params":`+params+`,"id":1}`),
				[]byte(`{"jsonrpc":"2.0","method":"`+name+`","params":`+params+`}`))
		}
		choices := func(i int) []string {
			ty := ms.Params[min(i, n-1)].Ty
			c := []string{okVal[ty], "null", badVal[ty]}
			if ty == "raw" {
				c[2] = `"any value is fine"`
			}
			return c
		}
		// positional
		var rec func(k int, acc []string)
		rec = func(k int, acc []string) {
			emit("[" + strings.Join(acc, ",") + "]")
			if k > n {
				return
			}
			for _, c := range choices(k) {
				rec(k+1, append(append([]string(nil), acc...), c))
			}
		}
		if n > 0 {
			rec(0, nil)
		} else {
			emit("[]")
			emit("[1]")
		}
		// named
		total := 1
		for i := 0; i < n; i++ {
			total *= 4
		}
		for code := 0; code < total; code++ {
			for extra := 0; extra < 2; extra++ {
				var parts []string
				c := code
				for i := 0; i < n; i++ {
					if sel := c % 4; sel > 0 {
						b, _ := json.Marshal(ms.Params[i].Name)
						parts = append(parts, string(b)+":"+choices(i)[sel-1])
					}
					c /= 4
				}
				if extra == 1 {
					parts = append(parts, `"no_such_name":1`)
				}
				emit("{" + strings.Join(parts, ",") + "}")
			}
		}
	}
	return out
}

// parseErrorInputs: every combination of a run of leading blanks (0, 1, 127, 128, 129 of each kind; 4096 spaces / line
// feeds; mixed) with every truncation point of valid requests / batches and a syntax error at every offset.
// (The blanks are consumed by isBatch before the decoder starts; the parse-error printer maps decoder offsets
// back: an end-of-input error is located from the bytes read, a syntax error from the decoder's offset.)
func parseErrorInputs(part, parts int, thorough bool) [][]byte {
	docs := []string{
		`{"jsonrpc":"2.0","method":"opt3","params":[7,true,"é\n"],"id":1}`,
		"{\n  \"jsonrpc\": \"2.0\",\n  \"method\": \"noargs\",\n  \"id\": \"a\"\n}",
		`[{"jsonrpc":"2.0","method":"noargs","id":1}, {"jsonrpc":"2.0","method":"sub","params":{"minuend":5,"subtrahend":3}}]`,
		`[1,"x",{"jsonrpc":"2.0"}]`,
	}
	var prefixes []string
	prefixes = append(prefixes, "")
	for _, n := range []int{1, 2, 127, 128, 129} {
		for _, k := range []string{" ", "\t", "\r", "\n"} {
			prefixes = append(prefixes, strings.Repeat(k, n))
		}
	}
	prefixes = append(prefixes, " \n\t\r ", strings.Repeat(" \n", 70), strings.Repeat("\r\n", 300), strings.Repeat(" ", 4096), strings.Repeat("\n", 4096), strings.Repeat("\n", 511)+" ", strings.Repeat(" ", 513))
	var out [][]byte
	i := 0
	add := func(s string) {
		if i%parts == part {
			out = append(out, []byte(s))
		}
		i++
	}
	for _, pre := range prefixes {
		step := 1
		if len(pre) > 1000 && !thorough {
			step = 5
		}
		add(pre) // blanks only
		for _, d := range docs {
			for cut := 0; cut < len(d); cut += step {
				add(pre + d[:cut]) // ends before the value is complete
			}
			for pos := 0; pos < len(d); pos += step {
				add(pre + d[:pos] + "@" + d[pos+1:]) // a syntax error at every offset
				if pos%7 == 0 {
					add(pre + d[:pos] + "\n" + d[pos:] + " trailing") // line breaks shift line / position
				}
			}
		}
	}
	return out
}

// prettyTextInputs: unparsable inputs laid out to drive every branch and constant of the text part of
// pretty_error.go (round 4): offending lines of 78..82 and more runes with the error at every interesting
// distance from both ends (maxLineWidth 80, maxContextSize/2 = 37), fillers of 1-, 2-, 3-, 4-byte runes and
// invalid UTF-8, 0..5 context rows of 0..250 runes (maxContextRows 3, rows cut at 80, top row cut off by
// the 512-byte window), every byte value as the offending symbol in five parser states, the trailing-comma
// branch with the comma inside / outside the window, type errors whose offset has left the window
// (no caret), long scalars.
func prettyTextInputs() [][]byte {
	var out [][]byte
	add := func(s string) { out = append(out, []byte(s)) }
	fillers := []string{"a", "é", "€", "😀", "\xff", "a\xc3", "\xe2\x82"}
	as := []int{0, 1, 30, 33, 34, 35, 36, 37, 38, 40, 70, 74, 75, 76, 77, 78, 120}
	bs := []int{0, 1, 30, 36, 37, 38, 40, 43, 44, 45, 46, 80}
	for fi, f := range fillers {
		for _, a := range as {
			for _, b := range bs {
				if fi > 1 && (a+b)%3 != fi%3 { // thin out the rarer fillers
					continue
				}
				add(`["` + strings.Repeat(f, a) + `", @ "` + strings.Repeat(f, b) + `"]`)
			}
		}
		// the error at the very end / the very start of a long line; end of input inside a long line
		for _, n := range []int{76, 77, 78, 79, 80, 81, 150} {
			add(`["` + strings.Repeat(f, n))
			add(`@"` + strings.Repeat(f, n) + `"`)
			add(`["` + strings.Repeat(f, n) + `"` + "\n" + `@`)
		}
	}
	for _, f := range []string{"r", "é", "\xff"} {
		for nrows := 0; nrows <= 5; nrows++ {
			for _, rl := range []int{0, 1, 74, 75, 76, 77, 78, 150, 250} {
				var sb strings.Builder
				sb.WriteString("[\n")
				for k := 0; k < nrows; k++ {
					sb.WriteString(`"` + strings.Repeat(f, rl) + `",` + "\n")
				}
				add(sb.String() + "@")
				add(sb.String() + `"x" "y"`)
				add("\n\n" + sb.String() + `{"a" 1}`)
			}
		}
	}
	// every byte value as the offending symbol, in the five states expectedToken distinguishes
	for _, pre := range []string{"[", "{", `{"a"`, `{"a":1`, "[1", ""} {
		for c := 0; c < 256; c++ {
			add(pre + string([]byte{byte(c)}) + " tail")
		}
		for _, r := range []string{"é", "€", "😀", " ", " ", "�", "\u0085", "\xed\xa0\x80", "\xf4\x90\x80\x80", "\xc0\x80"} {
			add(pre + r)
		}
	}
	// trailing comma before } or ]: blanks between, the comma inside / outside the 512-byte window, nothing before
	for _, close := range []string{"]", "}"} {
		open := map[string]string{"]": "[1,", "}": `{"a":1,`}[close]
		for _, n := range []int{0, 1, 2, 100, 505, 508, 509, 510, 511, 512, 513, 600} {
			for _, bl := range []string{" ", "\n", "\t\r"} {
				add(open + strings.Repeat(bl, n) + close)
			}
		}
		add(close)
		add("  " + close)
		add(strings.Repeat(" ", 600) + close)
		add("," + close)
		add(" , " + close)
		add("[" + close + close)
	}
	// a type error whose offset is no longer inside the window when Decode returns (no caret is drawn)
	for _, n := range []int{300, 400, 440, 460, 470, 480, 490, 500, 505, 510, 511, 512, 513, 520, 600, 1200} {
		x := strings.Repeat("x", n)
		add(`{"jsonrpc":1,"method":"m","params":["` + x + `"],"id":1}`)
		add(`{"method":{"a":[true]},` + "\n" + `"params":["` + x + `"]}`)
		add(`{"jsonrpc":"2.0","params":["` + x + `"],"METHOD":[1,2]}`)
		add(`"` + x + `"`)
		add(strings.Repeat(" ", n) + `12345`)
		add(`{"jsonrpc":false,` + strings.Repeat("\n", n) + `"id":1}`)
	}
	for _, v := range []string{`1`, `1.5e3`, `true`, `[]`, `{}`, `"s"`, `[1]`, `{"a":1}`} {
		add(`{"jsonrpc":` + v + `,"method":"m","id":1}`)
		add(`{"method":` + v + `,"jsonrpc":"2.0"}`)
		add(`{"JsonRpc":` + v + `}`)
		add("\n \n" + v)
	}
	return out
}
