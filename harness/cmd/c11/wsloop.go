//go:build verif

package main

// Round 6 — the read loop of Websocket.ServeHTTP on the level of the connection's byte stream (lean: ModelWsLoop.lean,
// driver op `wsloop`). Sessions of 2–3 messages whose FIRST messages leave payload unread when HandleReadWriter
// returns: a complete JSON value (request, notification, batch) or a syntax error followed by a trailer of
// 0 … 65 537 bytes (straddling juno's 128-byte bufio.Reader, the 512-byte error window, the 4 KB / 32 KB / 64 KB
// buffers of the libraries), sent as one frame, as fragments cut inside the value, and as fragments cut inside the
// trailer. Every message must be handled exactly once, in order, from its first byte: the answers on the wire are
// the answers HandleReader gives for each message alone, and the transport listener is called once per message.

import (
	"bytes"
	"context"
	"fmt"
	"net/http/httptest"
	"strings"
	"sync"
	"time"

	"github.com/NethermindEth/juno/jsonrpc"
	"github.com/NethermindEth/juno/utils/log"
	"github.com/coder/websocket"
	"verif/harness/lib"
)

type wsLoopMsg struct {
	data  []byte
	cutAt []int // fragment boundaries (offsets into data); nil = one frame
}

// sendSession writes the messages (fragmented as asked), then a sentinel, and collects what comes back
func (c *wsClient) sendSession(msgs []wsLoopMsg, to time.Duration) (got [][]byte, hung bool, err error) {
	c.n++
	sentinelID := fmt.Sprintf("__sentinel__%d", c.n)
	sentinel := fmt.Sprintf(`{"jsonrpc":"2.0","method":"noargs","id":%q}`, sentinelID)
	ctx, cancel := context.WithTimeout(context.Background(), to)
	defer cancel()
	for _, m := range msgs {
		if err != nil {
			break
		}
		if len(m.cutAt) == 0 {
			err = c.conn.Write(ctx, websocket.MessageText, m.data)
			continue
		}
		wr, werr := c.conn.Writer(ctx, websocket.MessageText)
		if werr != nil {
			err = werr
			break
		}
		prev := 0
		for _, cut := range append(append([]int{}, m.cutAt...), len(m.data)) {
			if cut > prev && err == nil {
				_, err = wr.Write(m.data[prev:cut])
				prev = cut
			}
		}
		if cerr := wr.Close(); err == nil {
			err = cerr
		}
	}
	if err == nil {
		err = c.conn.Write(ctx, websocket.MessageText, []byte(sentinel))
	}
	for err == nil {
		var data []byte
		_, data, err = c.conn.Read(ctx)
		if err != nil {
			break
		}
		if strings.Contains(string(data), sentinelID) {
			return got, false, nil
		}
		got = append(got, data)
	}
	return got, ctx.Err() != nil, err
}

func (rn *runner) wsLoopTie(r *lib.RNG) {
	res := rn.res
	w, err := NewWorld(fixedWorld(false, 2))
	if err != nil {
		res.Fatalf("ws loop: %v", err)
		return
	}
	var mu sync.Mutex
	anyCalls := 0
	shutdown := make(chan struct{})
	defer close(shutdown)
	srv := httptest.NewServer(jsonrpc.NewWebsocket(w.Server, shutdown, log.NewNopZapLogger()).
		WithListener(&jsonrpc.SelectiveListener{OnNewRequestCb: func(m string) {
			mu.Lock()
			if m == "any" {
				anyCalls++
			} else {
				anyCalls += 1000000
			}
			mu.Unlock()
		}}))
	defer srv.Close()
	c := &wsClient{url: srv.URL}
	if err := c.dial(); err != nil {
		res.Fatalf("ws loop: dial: %v", err)
		return
	}
	defer func() { c.conn.CloseNow() }()
	trailers := []int{0, 1, 2, 63, 127, 128, 129, 255, 256, 383, 384, 385, 511, 512, 513, 1023, 1024, 4095, 4096, 4097, 8192, 32767, 32768, 32769, 65535, 65536, 65537}
	if rn.f.Thorough() {
		for k := 0; k < 300; k++ {
			trailers = append(trailers, r.Range(0, 200000))
		}
	}
	heads := []struct{ class, text string }{
		{"request", `{"jsonrpc":"2.0","method":"hdr","params":["first"],"id":"A%d"}`},
		{"notification", `{"jsonrpc":"2.0","method":"hdr","params":["silent-%d"]}`},
		{"batch", `[{"jsonrpc":"2.0","method":"noargs","id":"B%d"},{"jsonrpc":"2.0","method":"hdr","params":["x"]}]`},
		{"syntax-error", `{"jsonrpc":"2.0","method":"hdr","params":["cut-%d"],"id": ]`},
	}
	hangs := 0
	n := 0
	for ti, L := range trailers {
		for hi, h := range heads {
			for mode := 0; mode < 3; mode++ {
				if mode == 2 && L < 2 {
					continue
				}
				if hangs >= 2 {
					return
				}
				n++
				head := []byte(fmt.Sprintf(h.text, n))
				fill := byte(' ')
				if (ti+hi)%2 == 1 {
					fill = '}' // the decoder stops after the first value: what follows it in the frame is never parsed
				}
				first := wsLoopMsg{data: append(append([]byte{}, head...), bytes.Repeat([]byte{fill}, L)...)}
				switch mode {
				case 1: // cut inside the JSON value
					first.cutAt = []int{len(head) / 2}
				case 2: // value complete in the first frame, the trailer in two more
					first.cutAt = []int{len(head), len(head) + L/2}
				}
				second := wsLoopMsg{data: []byte(fmt.Sprintf(`{"jsonrpc":"2.0","method":"hdr","params":["second"],"id":"Z%d"}`, n))}
				third := wsLoopMsg{data: []byte(fmt.Sprintf(` {"jsonrpc":"2.0","method":"noargs","id":%d}`, n)), cutAt: []int{1, 9}}
				session := []wsLoopMsg{first, second}
				if n%3 == 0 {
					session = append(session, third)
				}
				// the model: frames as the client library cuts them (a fragmented message ends with an empty final frame)
				var line strings.Builder
				line.WriteString("wsloop -")
				for _, m := range session {
					fr := []string{}
					prev := 0
					for _, cut := range append(append([]int{}, m.cutAt...), len(m.data)) {
						if cut > prev {
							fr = append(fr, fmt.Sprint(cut-prev))
							prev = cut
						}
					}
					if len(m.cutAt) > 0 {
						fr = append(fr, "0")
					}
					if len(fr) == 0 {
						fr = []string{"0"}
					}
					// how much the decoder reads is not observable: the theorem holds for every amount; ask for "one buffer"
					fmt.Fprintf(&line, " %s %d 1", strings.Join(fr, ","), min(128, len(m.data)))
				}
				ans, err := rn.drv.Ask(line.String())
				wantModel := ""
				for i := range session {
					wantModel += fmt.Sprint(i) + " "
				}
				wantModel += fmt.Sprintf("| client listener=%d close=0", len(session))
				if err != nil || strings.HasPrefix(ans, "bad-op") {
					res.Fatalf("ws loop: driver answered %q (%v)", ans, err)
					return
				}
				// what HandleReader says for each message alone
				var wantWire [][]byte
				var wantBatch []bool
				var wantCalls []Call
				var texts []string
				crashes := false
				for _, m := range session {
					d, ok := rn.directOK(w, m.data, "ws-loop")
					if !ok {
						crashes = true
						break
					}
					if len(d.Out) > 0 {
						wantWire = append(wantWire, d.Out)
						wantBatch = append(wantBatch, isBatchShaped(m.data))
					}
					wantCalls = append(wantCalls, d.Calls...)
					if len(m.data) > 200 {
						texts = append(texts, fmt.Sprintf("%s… (%d bytes, frames cut at %v)", m.data[:120], len(m.data), m.cutAt))
					} else {
						texts = append(texts, fmt.Sprintf("%s (frames cut at %v)", m.data, m.cutAt))
					}
				}
				if crashes {
					continue
				}
				w.reset()
				mu.Lock()
				anyCalls = 0
				mu.Unlock()
				got, hung, xerr := c.sendSession(session, 60*time.Second)
				calls, _ := w.taken()
				calls = dropSentinelCall(calls)
				res.Case(fmt.Sprintf("ws-loop:%s:%d:%d", h.class, L, mode), true)
				res.Hit("ws-loop:" + h.class)
				res.Hit(fmt.Sprintf("ws-loop:mode-%d", mode))
				if L >= 32768 {
					res.Hit("ws-loop:trailer>=32K")
				}
				replay := map[string]any{"via": "ws-session", "world": w.Spec, "first_message_head": string(head), "trailer_bytes": L,
					"trailer_byte": string([]byte{fill}), "frames_cut_at": first.cutAt, "then": string(second.data), "messages": len(session)}
				if hung {
					hangs++
					res.Violate(lib.Violation{Sig: "server-hangs", What: "[ws loop] no answer within the deadline; messages " + strings.Join(texts, " | "), Replay: replay})
				} else if xerr != nil {
					res.Violate(lib.Violation{Sig: "websocket-connection-closed", What: "[ws loop] the server closed the connection: " + xerr.Error() + "; messages " + strings.Join(texts, " | "), Replay: replay})
				}
				if hung || xerr != nil {
					c.conn.CloseNow()
					if err := c.dial(); err != nil {
						res.Fatalf("ws loop: re-dial: %v", err)
						return
					}
					continue
				}
				res.Compared(2)
				ok := len(got) == len(wantWire)
				for i := 0; ok && i < len(got); i++ {
					// (the text drawn in a parse-error answer shows the bytes that had arrived when the error was found:
					// it depends on how the message was cut into frames, not on the server)
					ok = sameOutputs(wantWire[i], got[i], wantBatch[i]) || bothParseErrors(wantWire[i], got[i])
				}
				if !ok {
					res.Violate(lib.Violation{Sig: "websocket-session-responses-lost-duplicated-or-reordered",
						What: fmt.Sprintf("[ws loop] messages %s: expected the responses %s in this order, got %s", strings.Join(texts, " | "),
							strings.Join(sessionText(wantWire), " | "), strings.Join(sessionText(got), " | ")), Replay: replay})
				}
				if callsText(sortedCalls(wantCalls)) != callsText(sortedCalls(calls)) {
					res.Violate(lib.Violation{Sig: "websocket-session-invocations-differ",
						What: fmt.Sprintf("[ws loop] messages %s: expected invocations %s, got %s", strings.Join(texts, " | "), callsText(wantCalls), callsText(calls)), Replay: replay})
				}
				mu.Lock()
				gotAny := anyCalls
				mu.Unlock()
				impl := fmt.Sprintf("| client listener=%d close=0", gotAny-1) // minus the sentinel
				if ans != wantModel || !strings.HasSuffix(ans, impl) {
					res.Mismatch(lib.Mismatch{Sig: "ws loop: messages handled / listener calls differ from the model", Input: replay, Model: ans,
						Impl: map[string]any{"expected-by-harness": wantModel, "listener calls without the sentinel": gotAny - 1, "responses": len(got)}})
				}
			}
		}
	}
}
