//go:build verif

package main

// Tie of ModelRegister.lean (round 4): jsonrpc.Server.RegisterMethods on handlers of every signature shape
// (non-functions, a context first / elsewhere / twice, 0..4 return values of the three kinds the code
// distinguishes, parameter-name counts that match or not) — the error class and how many methods are
// registered afterwards (RegisterMethods stops at the first rejected method; the earlier ones stay).

import (
	"context"
	"fmt"
	"reflect"
	"strings"

	"github.com/NethermindEth/juno/jsonrpc"
	"github.com/NethermindEth/juno/utils/log"
	"verif/harness/lib"
)

type regDecl struct {
	name    string
	nparams int
	isFunc  bool
	ins     string // c = context.Context, o = int
	outs    string // e = *jsonrpc.Error, h = http.Header, o = any
}

func (d regDecl) token() string {
	dash := func(s string) string {
		if s == "" {
			return "-"
		}
		return s
	}
	f := 0
	if d.isFunc {
		f = 1
	}
	return fmt.Sprintf("%s %d %d %s %s", strTok(d.name), d.nparams, f, dash(d.ins), dash(d.outs))
}

func (d regDecl) method() jsonrpc.Method {
	ps := make([]jsonrpc.Parameter, d.nparams)
	for i := range ps {
		ps[i] = jsonrpc.Parameter{Name: fmt.Sprintf("p%d", i)}
	}
	if !d.isFunc {
		return jsonrpc.Method{Name: d.name, Params: ps, Handler: 42}
	}
	var in, out []reflect.Type
	for _, c := range d.ins {
		if c == 'c' {
			in = append(in, ctxType)
		} else {
			in = append(in, reflect.TypeOf(0))
		}
	}
	for _, c := range d.outs {
		switch c {
		case 'e':
			out = append(out, errPtrType)
		case 'h':
			out = append(out, headerType)
		default:
			out = append(out, anyType)
		}
	}
	fn := reflect.MakeFunc(reflect.FuncOf(in, out, false), func([]reflect.Value) []reflect.Value {
		vs := make([]reflect.Value, len(out))
		for i, t := range out {
			vs[i] = reflect.Zero(t)
		}
		return vs
	})
	return jsonrpc.Method{Name: d.name, Params: ps, Handler: fn.Interface()}
}

func regErrClass(err error) string {
	if err == nil {
		return "ok"
	}
	for text, cls := range map[string]string{
		"handler must be a function":            "notFunc",
		"number of non-context function params": "paramCount",
		"handler must return 2 or 3 values":     "returnCount",
		"second return value must be a *jsonrpc.Error": "secondNotError",
		"third return value must be a *jsonrpc.Error":  "thirdNotError",
		"second return value must be a http.Header":    "secondNotHeader",
	} {
		if strings.Contains(err.Error(), text) {
			return "err:" + cls
		}
	}
	return "err:?" + err.Error()
}

func allStrings(alphabet string, maxLen int) []string {
	out := []string{""}
	prev := []string{""}
	for l := 1; l <= maxLen; l++ {
		var next []string
		for _, p := range prev {
			for _, c := range alphabet {
				next = append(next, p+string(c))
			}
		}
		out = append(out, next...)
		prev = next
	}
	return out
}

func (rn *runner) registerTie(r *lib.RNG) {
	res := rn.res
	var singles []regDecl
	for _, ins := range allStrings("co", 3) {
		for _, outs := range allStrings("eho", 4) {
			for np := 0; np <= 3; np++ {
				singles = append(singles, regDecl{"m", np, true, ins, outs})
			}
		}
	}
	singles = append(singles, regDecl{"m", 0, false, "", ""}, regDecl{"m", 2, false, "", ""})
	var lists [][]regDecl
	for _, d := range singles {
		lists = append(lists, []regDecl{d})
	}
	// lists: mostly acceptable declarations with a rejected one somewhere
	good := []regDecl{{"", 0, true, "", "oe"}, {"", 1, true, "co", "oe"}, {"", 2, true, "oo", "ohe"}, {"", 0, true, "c", "ohe"}, {"", 1, true, "o", "oe"}}
	for k := 0; k < rn.f.Scale(300, 3000); k++ {
		n := r.Range(2, 5)
		var l []regDecl
		for i := 0; i < n; i++ {
			var d regDecl
			if r.Chance(1, 4) {
				d = singles[r.Intn(len(singles))]
			} else {
				d = good[r.Intn(len(good))]
			}
			d.name = fmt.Sprintf("m%d", i)
			if r.Chance(1, 6) && i > 0 {
				d.name = "m0" // registered twice: the later one replaces the earlier one (no new entry)
			}
			l = append(l, d)
		}
		lists = append(lists, l)
	}
	lines := make([]string, len(lists))
	for i, l := range lists {
		var sb strings.Builder
		fmt.Fprintf(&sb, "reg %d", len(l))
		for _, d := range l {
			sb.WriteString(" " + d.token())
		}
		lines[i] = sb.String()
	}
	answers, err := rn.drv.AskAll(lines)
	if err != nil || len(answers) != len(lines) {
		res.Fatalf("register tie: %v", err)
		return
	}
	for i, l := range lists {
		s := jsonrpc.NewServer(1, log.NewNopZapLogger())
		ms := make([]jsonrpc.Method, len(l))
		for k, d := range l {
			ms[k] = d.method()
		}
		var rerr error
		rerr, panicked, _ := lib.Try(func() error { return s.RegisterMethods(ms...) })
		if panicked {
			res.Mismatch(lib.Mismatch{Sig: "register: RegisterMethods panics", Input: lines[i], Model: answers[i], Impl: rerr.Error()})
			continue
		}
		// how many of the declared methods the server knows afterwards (distinct names: a name registered
		// again replaces its entry; the model counts entries, so compare per declaration)
		registered := 0
		for _, d := range l {
			var out []byte
			reqText := fmt.Sprintf(`{"jsonrpc":"2.0","method":%q,"id":1}`, d.name)
			herr, panicked, stack := lib.Try(func() error {
				o, _, e := s.HandleReader(context.Background(), strings.NewReader(reqText))
				out = o
				return e
			})
			if panicked {
				res.Violate(lib.Violation{Sig: "server-panics", What: "[register tie] the server panicked on " + reqText + ": " + herr.Error() + "\n" + firstLines(stack, 12),
					Replay: map[string]any{"declarations": lines[i], "input_text": reqText}})
				continue
			}
			if herr == nil && !strings.Contains(string(out), "-32601") {
				registered++
			}
		}
		// the model's count is the number of accepted declarations; turn it into "declarations whose name is
		// known afterwards": every declaration whose name equals the name of an accepted one
		f := strings.Fields(answers[i])
		if len(f) != 2 {
			res.Fatalf("register tie: driver answered %q", answers[i])
			return
		}
		var accepted int
		fmt.Sscanf(f[1], "%d", &accepted)
		known := map[string]bool{}
		for k := 0; k < accepted && k < len(l); k++ {
			known[l[k].name] = true
		}
		wantKnown := 0
		for _, d := range l {
			if known[d.name] {
				wantKnown++
			}
		}
		res.Compared(1)
		res.Hit("register:" + f[0])
		if len(l) > 1 {
			res.Hit("register:list")
		}
		if got := regErrClass(rerr); got != f[0] || registered != wantKnown {
			res.Mismatch(lib.Mismatch{Sig: "register: RegisterMethods differs", Input: lines[i], Model: answers[i] + fmt.Sprintf(" (names known afterwards: %d)", wantKnown),
				Impl: fmt.Sprintf("%s (names known afterwards: %d)", got, registered)})
		}
	}
	res.Case("register", true)
}
