//go:build verif

package main

// Tie of ModelPretty.lean (jsonrpc/pretty_error.go): for every input answered with a parse error the
// line / position the real server prints must be the one the model computes from the same reads
// (the reader stack of HandleReader is rebuilt here from the same standard-library pieces to learn
// which chunks the decoder pulled and which error it returned).

import (
	"bufio"
	"bytes"
	"context"
	"encoding/hex"
	"encoding/json"
	"errors"
	"fmt"
	"io"
	"reflect"
	"regexp"
	"strconv"
	"strings"
	"unicode/utf8"

	"github.com/NethermindEth/juno/jsonrpc"
	"verif/harness/lib"
)

type chunkRec struct {
	lens []int
	all  []byte
}

func (c *chunkRec) Write(p []byte) (int, error) {
	c.lens = append(c.lens, len(p))
	c.all = append(c.all, p...)
	return len(p), nil
}

// traceDecode: the `pretty` request for the driver, "" if HandleReader does not get a decode error
func traceDecode(input []byte, batchDisabled bool, consumeBlanks bool) string {
	l, _ := traceDecode2(input, batchDisabled, consumeBlanks)
	return l
}

func hexTok(s string) string {
	if s == "" {
		return "-"
	}
	return hex.EncodeToString([]byte(s))
}

// traceDecode2: the `pretty` request and the `ptext` request (the same reads and error, plus what the
// pretty printer takes from the error value: err.Error(), Field, Type, Value)
func traceDecode2(input []byte, batchDisabled bool, consumeBlanks bool) (string, string) {
	return traceDecodeReader(bytes.NewReader(input), batchDisabled, consumeBlanks)
}

type failingReader struct{ err error }

func (f failingReader) Read([]byte) (int, error) { return 0, f.err }

// readerFailures: the request stream breaks with an error that is neither a JSON error nor EOF (a dropped
// connection, http.MaxBytesError, the websocket read limit): `errorOffset` knows no offset for it and the
// answer's data is the error text alone (`!ok` branch of prettyParseError). Also io.ErrUnexpectedEOF and
// io.EOF delivered by the reader itself.
func (rn *runner) readerFailures(w *World) {
	res := rn.res
	docs := []string{`{"jsonrpc":"2.0","method":"noargs","id":1}`, "  \n [1,\n2", strings.Repeat(" ", 200) + `{"a":` + strings.Repeat("1", 600)}
	errs := []error{errors.New("verif: connection reset by peer"), io.ErrUnexpectedEOF, io.ErrClosedPipe, fmt.Errorf("wrapped: %w", io.ErrUnexpectedEOF),
		&json.SyntaxError{Offset: 3}, &json.UnmarshalTypeError{Value: "number", Offset: 2, Field: "verif.field", Type: reflect.TypeOf("")}}
	var lines []string
	var outs [][]byte
	for _, d := range docs {
		for _, cut := range []int{0, 1, 5, len(d) / 2, len(d) - 1} {
			for _, e := range errs {
				if cut > len(d) {
					continue
				}
				mk := func() io.Reader { return io.MultiReader(strings.NewReader(d[:cut]), failingReader{e}) }
				o := w.handleWith(context.Background(), mk())
				if o.Hung || o.Panicked {
					res.Violate(lib.Violation{Sig: "server-panics-or-hangs-on-failing-request-stream", What: fmt.Sprintf("HandleReader on %q followed by the read error %q: %s", d[:cut], e, o.PanicMsg), Replay: map[string]any{"prefix": d[:cut], "error": e.Error()}})
					continue
				}
				_, tl := traceDecodeReader(mk(), w.Spec.BatchDisabled, rn.cfg.peek == "-")
				if tl == "" {
					res.Fatalf("reader failure family: no decode error for %q + %v", d[:cut], e)
					continue
				}
				lines = append(lines, tl)
				outs = append(outs, o.Out)
			}
		}
	}
	answers, err := rn.drv.AskAll(lines)
	if err != nil || len(answers) != len(lines) {
		res.Fatalf("reader failure family: %v", err)
		return
	}
	for k := range lines {
		got, ok := realData(outs[k])
		res.Compared(1)
		res.Hit("ptext:failing-reader")
		want, ok2 := renderSegments(answers[k])
		if !ok || !ok2 || asMarshalled(want) != got {
			res.Mismatch(lib.Mismatch{Sig: "pretty_error: text of the parse-error answer differs (failing request stream)", Input: lines[k], Model: answers[k] + " = " + want, Impl: string(outs[k])})
		}
		if strings.Contains(lines[k], " other ") {
			res.Hit("ptext:err-other")
		}
	}
}

func traceDecodeReader(rd io.Reader, batchDisabled bool, consumeBlanks bool) (string, string) {
	rec := &chunkRec{}
	br := bufio.NewReaderSize(io.TeeReader(rd, rec), 128) // server.go: bufferSize
	batch := false
	skipped := 0
	if consumeBlanks { // isBatch since 4590891: blanks are consumed one by one, their number is unlimited
		for {
			buf, err := br.Peek(1)
			if err != nil {
				break
			}
			if c := buf[0]; c == ' ' || c == '\t' || c == '\r' || c == '\n' {
				if _, err := br.Discard(1); err != nil {
					break
				}
				skipped++
				continue
			}
			batch = buf[0] == '['
			break
		}
	} else { // before: Peek(n) through the 128-byte buffer
		for n := 1; ; n++ {
			buf, err := br.Peek(n)
			if err != nil {
				break
			}
			if c := buf[n-1]; c == ' ' || c == '\t' || c == '\r' || c == '\n' {
				continue
			}
			batch = buf[n-1] == '['
			break
		}
	}
	dec := json.NewDecoder(br)
	dec.UseNumber()
	var err error
	switch {
	case !batch:
		err = dec.Decode(new(jsonrpc.Request))
	case !batchDisabled:
		var b []json.RawMessage
		err = dec.Decode(&b)
	default:
		return "", ""
	}
	if err == nil {
		return "", ""
	}
	var se *json.SyntaxError
	var te *json.UnmarshalTypeError
	kind := "other"
	switch {
	case errors.As(err, &se):
		kind = fmt.Sprintf("syntax %d", se.Offset)
	case errors.As(err, &te):
		kind = fmt.Sprintf("type %d", te.Offset)
	case errors.Is(err, io.ErrUnexpectedEOF), errors.Is(err, io.EOF):
		kind = "eof"
	}
	var sb strings.Builder
	fmt.Fprintf(&sb, "pretty %d %d", skipped, len(rec.lens))
	for _, l := range rec.lens {
		fmt.Fprintf(&sb, " %d", l)
	}
	if len(rec.all) == 0 {
		sb.WriteString(" -")
	} else {
		sb.WriteString(" " + hex.EncodeToString(rec.all))
	}
	sb.WriteString(" " + kind)
	field, ty, val := "", "", ""
	if te != nil && se == nil {
		field, val = te.Field, te.Value
		if te.Type != nil {
			ty = te.Type.String()
		}
	}
	line := sb.String()
	return line, "ptext" + strings.TrimPrefix(line, "pretty") + " " + hexTok(err.Error()) + " " + hexTok(field) + " " + hexTok(ty) + " " + hexTok(val)
}

// renderSegments: the text the model computed, with the two %q forms it leaves to Go's fmt filled in
func renderSegments(answer string) (string, bool) {
	var sb strings.Builder
	for _, tok := range strings.Fields(answer) {
		if len(tok) < 2 {
			return "", false
		}
		switch tok[0] {
		case 'b', 'Q':
			var b []byte
			if tok[1:] != "-" {
				var err error
				if b, err = hex.DecodeString(tok[1:]); err != nil {
					return "", false
				}
			}
			if tok[0] == 'b' {
				sb.Write(b)
			} else {
				sb.WriteString(strconv.Quote(string(b)))
			}
		case 'q':
			cp, err := strconv.ParseUint(tok[1:], 16, 32)
			if err != nil {
				return "", false
			}
			sb.WriteString(strconv.QuoteRune(rune(cp)))
		default:
			return "", false
		}
	}
	return sb.String(), true
}

// asMarshalled: a Go string after json.Marshal + decoding (every invalid UTF-8 byte becomes U+FFFD)
func asMarshalled(s string) string {
	b, err := json.Marshal(s)
	if err != nil {
		return s
	}
	var out string
	if json.Unmarshal(b, &out) != nil {
		return s
	}
	return out
}

// realData: the `data` string of a -32700 answer
func realData(out []byte) (string, bool) {
	t := parseBody(out)
	if t == nil || t.K != '{' {
		return "", false
	}
	e := t.get("error")
	if e.get("code") == nil || e.get("code").S != "-32700" || e.get("data") == nil || e.get("data").K != 's' {
		return "", false
	}
	return e.get("data").S, true
}

var posRe = regexp.MustCompile(`\[line (\d+), position (\d+)\]$`)

// realPosition: "L C" printed by the server in the data of its -32700 answer, "none" if it drew no caret
func realPosition(out []byte) (string, bool) {
	t := parseBody(out)
	if t == nil || t.K != '{' {
		return "", false
	}
	e := t.get("error")
	if e.get("code") == nil || e.get("code").S != "-32700" || e.get("data") == nil || e.get("data").K != 's' {
		return "", false
	}
	if m := posRe.FindStringSubmatch(e.get("data").S); m != nil {
		return m[1] + " " + m[2], true
	}
	return "none", true
}

func (rn *runner) prettyTie(w *World, inputs [][]byte, outs [][]byte) {
	res := rn.res
	var lines, tlines []string
	var idx []int
	for i, in := range inputs {
		if len(in) > 16<<10 || outs[i] == nil {
			continue
		}
		if _, ok := realPosition(outs[i]); !ok {
			continue
		}
		if l, tl := traceDecode2(in, w.Spec.BatchDisabled, rn.cfg.peek == "-"); l != "" {
			lines = append(lines, l)
			tlines = append(tlines, tl)
			idx = append(idx, i)
		}
	}
	if len(lines) == 0 {
		return
	}
	answers, err := rn.drv.AskAll(lines)
	if err != nil {
		res.Fatalf("pretty tie: %v", err)
		res.Mismatch(lib.Mismatch{Sig: "harness-run-aborted", Model: err.Error()})
		return
	}
	for k, i := range idx {
		got, _ := realPosition(outs[i])
		res.Compared(1)
		if got == "none" {
			res.Hit("pretty:no-caret")
		} else {
			res.Hit("pretty:caret")
		}
		if answers[k] != got {
			res.Mismatch(lib.Mismatch{Sig: "pretty_error: line/position differ", Input: describe(inputs[i]), Model: answers[k], Impl: got + " in " + string(outs[i])})
		}
	}
	// the whole text of the answer's data (describeError, offendingLine, truncateAround, precedingLines, drawMarker)
	tanswers, err := rn.drv.AskAll(tlines)
	if err != nil || len(tanswers) != len(tlines) {
		res.Fatalf("pretty text tie: %v (%d of %d answers)", err, len(tanswers), len(tlines))
		return
	}
	for k, i := range idx {
		got, _ := realData(outs[i])
		res.Compared(1)
		if tanswers[k] == "panic" {
			// the checked model says a slice of pretty_error.go is out of range here: the server must have panicked
			res.Mismatch(lib.Mismatch{Sig: "pretty_error: the model predicts a panic, the server answered", Input: describe(inputs[i]), Model: "panic", Impl: got})
			continue
		}
		want, ok := renderSegments(tanswers[k])
		if !ok {
			res.Fatalf("pretty text tie: driver answered %q to %s", tanswers[k], describe(inputs[i]))
			continue
		}
		prettyTextHits(res, got)
		for _, tok := range strings.Fields(tanswers[k]) {
			switch tok[0] {
			case 'q':
				res.Hit("ptext:%q-of-non-ascii-rune")
			case 'Q':
				res.Hit("ptext:%q-of-field-name")
			}
		}
		if asMarshalled(want) != got {
			res.Mismatch(lib.Mismatch{Sig: "pretty_error: text of the parse-error answer differs", Input: describe(inputs[i]), Model: asMarshalled(want), Impl: got})
		}
	}
}

// prettyTextHits: which branches of the text builder an answer went through
func prettyTextHits(res *lib.Result, data string) {
	rows := strings.Split(data, "\n")
	// layout: [context rows] offending line, caret line, message
	if len(rows) < 3 {
		res.Hit("ptext:no-caret")
		return
	}
	res.Hit(fmt.Sprintf("ptext:context-rows-%d", len(rows)-3))
	line := rows[len(rows)-3]
	n := utf8.RuneCountInString(line)
	switch {
	case strings.HasPrefix(line, "...") && strings.HasSuffix(line, "...") && n == 80:
		res.Hit("ptext:line-cut-both-sides")
	case strings.HasPrefix(line, "...") && n > 70:
		res.Hit("ptext:line-cut-left")
	case strings.HasSuffix(line, "...") && n > 70:
		res.Hit("ptext:line-cut-right")
	case n == 80:
		res.Hit("ptext:line-exactly-80")
	default:
		res.Hit("ptext:line-short")
	}
	for _, r := range rows[:len(rows)-3] {
		if utf8.RuneCountInString(r) == 77 && strings.HasSuffix(r, "...") { // 74 runes + the ellipsis
			res.Hit("ptext:context-row-cut")
			break
		}
	}
	msg := rows[len(rows)-1]
	for _, c := range []string{"unexpected trailing comma", "unexpected end of input", "expected a JSON object", "should be", ", expected a value",
		"expected a string key", "expected ',' or '}'", "expected ':'", "expected ',' or ']'", "invalid character", "exceeded max depth"} {
		if strings.Contains(msg, c) {
			res.Hit("ptext:msg:" + c)
		}
	}
}
