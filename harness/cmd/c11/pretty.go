//go:build verif

package main

// Tie of ModelPretty.lean (jsonrpc/pretty_error.go): for every input answered with a parse error the
// line / position the real server prints must be the one the model computes from the same reads
// (the reader stack of HandleReader is rebuilt here from the same standard-library pieces to learn
// which chunks the decoder pulled and which error it returned).

import (
	"bufio"
	"bytes"
	"encoding/hex"
	"encoding/json"
	"errors"
	"fmt"
	"io"
	"regexp"
	"strings"

	"github.com/NethermindEth/juno/jsonrpc"
	"verif/harness/lib"
)

type chunkRec struct {
	lens []int
	all  []byte
}

func (c *chunkRec) Write(p []byte) (int, error) {
	c.lens = append(c.lens, len(p))
	c.all = append(c.all, p...)
	return len(p), nil
}

// traceDecode: the `pretty` request for the driver, "" if HandleReader does not get a decode error
func traceDecode(input []byte, batchDisabled bool, consumeBlanks bool) string {
	rec := &chunkRec{}
	br := bufio.NewReaderSize(io.TeeReader(bytes.NewReader(input), rec), 128) // server.go: bufferSize
	batch := false
	skipped := 0
	if consumeBlanks { // isBatch since 4590891: blanks are consumed one by one, their number is unlimited
		for {
			buf, err := br.Peek(1)
			if err != nil {
				break
			}
			if c := buf[0]; c == ' ' || c == '\t' || c == '\r' || c == '\n' {
				if _, err := br.Discard(1); err != nil {
					break
				}
				skipped++
				continue
			}
			batch = buf[0] == '['
			break
		}
	} else { // before: Peek(n) through the 128-byte buffer
		for n := 1; ; n++ {
			buf, err := br.Peek(n)
			if err != nil {
				break
			}
			if c := buf[n-1]; c == ' ' || c == '\t' || c == '\r' || c == '\n' {
				continue
			}
			batch = buf[n-1] == '['
			break
		}
	}
	dec := json.NewDecoder(br)
	dec.UseNumber()
	var err error
	switch {
	case !batch:
		err = dec.Decode(new(jsonrpc.Request))
	case !batchDisabled:
		var b []json.RawMessage
		err = dec.Decode(&b)
	default:
		return ""
	}
	if err == nil {
		return ""
	}
	var se *json.SyntaxError
	var te *json.UnmarshalTypeError
	kind := "other"
	switch {
	case errors.As(err, &se):
		kind = fmt.Sprintf("syntax %d", se.Offset)
	case errors.As(err, &te):
		kind = fmt.Sprintf("type %d", te.Offset)
	case errors.Is(err, io.ErrUnexpectedEOF), errors.Is(err, io.EOF):
		kind = "eof"
	}
	var sb strings.Builder
	fmt.Fprintf(&sb, "pretty %d %d", skipped, len(rec.lens))
	for _, l := range rec.lens {
		fmt.Fprintf(&sb, " %d", l)
	}
	if len(rec.all) == 0 {
		sb.WriteString(" -")
	} else {
		sb.WriteString(" " + hex.EncodeToString(rec.all))
	}
	sb.WriteString(" " + kind)
	return sb.String()
}

var posRe = regexp.MustCompile(`\[line (\d+), position (\d+)\]$`)

// realPosition: "L C" printed by the server in the data of its -32700 answer, "none" if it drew no caret
func realPosition(out []byte) (string, bool) {
	t := parseBody(out)
	if t == nil || t.K != '{' {
		return "", false
	}
	e := t.get("error")
	if e.get("code") == nil || e.get("code").S != "-32700" || e.get("data") == nil || e.get("data").K != 's' {
		return "", false
	}
	if m := posRe.FindStringSubmatch(e.get("data").S); m != nil {
		return m[1] + " " + m[2], true
	}
	return "none", true
}

func (rn *runner) prettyTie(w *World, inputs [][]byte, outs [][]byte) {
	res := rn.res
	var lines []string
	var idx []int
	for i, in := range inputs {
		if len(in) > 16<<10 || outs[i] == nil {
			continue
		}
		if _, ok := realPosition(outs[i]); !ok {
			continue
		}
		if l := traceDecode(in, w.Spec.BatchDisabled, rn.cfg.peek == "-"); l != "" {
			lines = append(lines, l)
			idx = append(idx, i)
		}
	}
	if len(lines) == 0 {
		return
	}
	answers, err := rn.drv.AskAll(lines)
	if err != nil {
		res.Fatalf("pretty tie: %v", err)
		res.Mismatch(lib.Mismatch{Sig: "harness-run-aborted", Model: err.Error()})
		return
	}
	for k, i := range idx {
		got, _ := realPosition(outs[i])
		res.Compared(1)
		if got == "none" {
			res.Hit("pretty:no-caret")
		} else {
			res.Hit("pretty:caret")
		}
		if answers[k] != got {
			res.Mismatch(lib.Mismatch{Sig: "pretty_error: line/position differ", Input: describe(inputs[i]), Model: answers[k], Impl: got + " in " + string(outs[i])})
		}
	}
}
