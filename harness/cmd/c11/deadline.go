//go:build verif

package main

// Request deadlines and a saturated worker pool: a batch larger than the pool, with handlers that
// outlast the request deadline, must still get one response per non-notification entry (an error
// response would be fine; omission is not), and every valid entry's handler must still run once.
// Run over HandleReader (context deadline), HTTP (WithRequestTimeout) and WebSocket (WithRequestTimeout).

import (
	"bytes"
	"context"
	"fmt"
	"io"
	"net/http"
	"os"
	"net/http/httptest"
	"strings"
	"time"

	"github.com/NethermindEth/juno/jsonrpc"
	"github.com/NethermindEth/juno/utils/log"
	"verif/harness/lib"
)

func deadlineWorld(pool int) WorldSpec {
	P := func(n string, opt bool, ty string) ParamSpec { return ParamSpec{n, opt, ty} }
	return WorldSpec{Pool: pool, Methods: []MethodSpec{
		{Name: "slow", Beh: "waitctx", Ctx: true, Params: []ParamSpec{P("tag", true, "raw")}},
		{Name: "slowhdr", Beh: "waitctx", Ctx: true, Hdr: true},
		{Name: "noargs", Beh: "echo"},
		{Name: "quick", Beh: "echo", Ctx: true, Params: []ParamSpec{P("a", false, "int"), P("b", true, "str")}},
		{Name: "fail", Beh: "fail", Params: []ParamSpec{P("data", true, "raw")}},
	}}
}

// batches whose entries queue behind slow handlers
func deadlineInputs(r *lib.RNG, n int) [][]byte {
	id := 0
	entry := func() string {
		id++
		switch r.Intn(12) {
		case 0, 1, 2, 3:
			return fmt.Sprintf(`{"jsonrpc":"2.0","method":"slow","params":[%d],"id":%d}`, id, id)
		case 4:
			return fmt.Sprintf(`{"jsonrpc":"2.0","method":"slowhdr","id":"s%d"}`, id)
		case 5:
			return fmt.Sprintf(`{"jsonrpc":"2.0","method":"slow","params":{"tag":"n%d"}}`, id) // slow notification
		case 6, 7:
			return fmt.Sprintf(`{"jsonrpc":"2.0","method":"quick","params":[%d,"q"],"id":%d}`, id, id)
		case 8:
			return lib.Pick(r, []string{`1`, `{"jsonrpc":"1.0","id":` + fmt.Sprint(id) + `}`, `[]`, `null`, `{"jsonrpc":"2.0","method":5,"id":1}`})
		case 9:
			return fmt.Sprintf(`{"jsonrpc":"2.0","method":"nope","id":%d}`, id)
		case 10:
			return fmt.Sprintf(`{"jsonrpc":"2.0","method":"quick","params":["x"],"id":%d}`, id)
		default:
			return fmt.Sprintf(`{"jsonrpc":"2.0","method":"fail","params":[%d],"id":%d}`, id, id)
		}
	}
	var out [][]byte
	// the shapes that matter, deterministically: slow first, then entries that have to wait for a slot
	out = append(out,
		[]byte(`[{"jsonrpc":"2.0","method":"slow","id":1},{"jsonrpc":"2.0","method":"noargs","id":2},{"jsonrpc":"2.0","method":"noargs","id":3}]`),
		[]byte(`[{"jsonrpc":"2.0","method":"slow","id":1},{"jsonrpc":"2.0","method":"slow","id":2},{"jsonrpc":"2.0","method":"slow","id":3},{"jsonrpc":"2.0","method":"quick","params":[4],"id":4},7,{"jsonrpc":"2.0","method":"nope","id":6}]`),
		[]byte(`[{"jsonrpc":"2.0","method":"slow"},{"jsonrpc":"2.0","method":"slow","id":"a"},{"jsonrpc":"1.0","id":"b"},{"jsonrpc":"2.0","method":"noargs","id":"c"},null]`),
		[]byte(`{"jsonrpc":"2.0","method":"slow","params":["single"],"id":9}`),
		[]byte(`{"jsonrpc":"2.0","method":"slow"}`))
	for i := 0; i < n; i++ {
		k := r.Range(3, 9)
		parts := make([]string, k)
		for j := range parts {
			parts[j] = entry()
		}
		if r.Chance(2, 3) {
			parts[0] = fmt.Sprintf(`{"jsonrpc":"2.0","method":"slow","params":["first"],"id":%d}`, 100000+i)
		}
		out = append(out, []byte("["+strings.Join(parts, ",")+"]"))
	}
	return out
}

func (rn *runner) deadlines(r *lib.RNG) {
	res := rn.res
	const timeout = 25 * time.Millisecond
	inputs := deadlineInputs(r, rn.f.Scale(14, 300))
	for _, pool := range []int{1, 2} {
		spec := deadlineWorld(pool)
		w, err := NewWorld(spec)
		if err != nil {
			res.Fatalf("deadline world: %v", err)
			return
		}
		if err := rn.setWorld(w); err != nil {
			res.Fatalf("deadline world: %v", err)
			return
		}
		lines := make([]string, len(inputs))
		for i, in := range inputs {
			lines[i], _, _ = inLine(in)
		}
		answers, err := rn.drv.AskAll(lines)
		if err != nil {
			res.Fatalf("deadline world: %v", err)
			return
		}
		hs := httptest.NewServer(jsonrpc.NewHTTP(w.Server, log.NewNopZapLogger()).WithRequestTimeout(timeout))
		shutdown := make(chan struct{})
		ws := httptest.NewServer(jsonrpc.NewWebsocket(w.Server, shutdown, log.NewNopZapLogger()).WithRequestTimeout(timeout))
		c := &wsClient{url: ws.URL}
		wsOK := c.dial() == nil
		for i, in := range inputs {
			via := []string{"HandleReader", "http", "ws"}[(i+pool)%3]
			if i < 5 {
				via = "HandleReader"
			}
			var o Obs
			switch via {
			case "HandleReader":
				ctx, cancel := context.WithTimeout(context.Background(), timeout)
				o = w.handleWith(ctx, bytes.NewReader(in))
				cancel()
			case "http":
				w.reset()
				resp, err := (&http.Client{Timeout: 20 * time.Second}).Post(hs.URL, "application/json", bytes.NewReader(in))
				if err != nil && os.IsTimeout(err) {
					// the CLIENT's patience ran out: on a machine that is 20-30x oversubscribed a 25 ms server deadline plus a
					// handful of goroutine switches can take longer than 20 s (seen once in round 6, load average 450). Wall-clock
					// time must not decide: ask again with a long deadline; only a server that does not answer then either hangs
					res.Hit("deadline:http-retry-after-client-timeout")
					w.reset()
					resp, err = (&http.Client{Timeout: 240 * time.Second}).Post(hs.URL, "application/json", bytes.NewReader(in))
					if err != nil && os.IsTimeout(err) {
						o.Hung = true
					}
				}
				if o.Hung {
				} else if err != nil {
					o.Dropped = "http: " + err.Error()
				} else {
					o.Out, _ = io.ReadAll(resp.Body)
					resp.Body.Close()
				}
				o.Calls, o.RecErrs = w.taken()
			case "ws":
				if !wsOK {
					res.Fatalf("deadline family: websocket connection not available")
					continue
				}
				w.reset()
				// the sentinel must not be a slow method: "noargs" answers at once
				msgs, hung, err := c.exchange([][]byte{in})
				o.Hung = hung
				if err != nil && !hung {
					o.Dropped = "ws: " + err.Error()
				}
				if len(msgs) > 0 {
					o.Out = msgs[0]
				}
				calls, recErrs := w.taken()
				o.Calls, o.RecErrs = dropSentinelCall(calls), recErrs
				if err != nil {
					c.conn.CloseNow()
					wsOK = c.dial() == nil
				}
			}
			res.Case(fmt.Sprintf("deadline:%d:%s:%s", pool, via, in), true)
			res.Hit("deadline:" + via)
			res.Compared(1)
			if why := compare(answers[i], o, isBatchShaped(in)); why != "" && !o.Hung && !o.Panicked && o.Dropped == "" {
				if len(why) > 1200 {
					why = why[:1200]
				}
				res.Mismatch(lib.Mismatch{Sig: "deadline (" + via + "): " + why, Input: describe(in), Model: modelText(answers[i]),
					Impl: map[string]string{"out": string(o.Out), "calls": callsText(o.Calls)}})
			}
			for _, v := range judge(w, in, o) {
				sig := v.Sig
				if sig == "request-without-response" {
					sig = "request-without-response-after-deadline"
				}
				res.Violate(lib.Violation{Sig: sig, What: fmt.Sprintf("[%s, pool of %d, request deadline %v, slow handlers] ", via, pool, timeout) + v.What,
					Replay: map[string]any{"world": w.Spec, "via": via, "deadline_ms": timeout.Milliseconds(), "input_text": string(in)}})
			}
		}
		if wsOK {
			c.conn.CloseNow()
		}
		close(shutdown)
		ws.Close()
		hs.Close()
	}
}
