//go:build verif

package main

// Direct tie of rpc/v10/validator.go: the two custom validations and `required` on *felt.Felt,
// over every bit-length boundary of the felt range, against the Lean model (`felt` request) and an
// independent math/big oracle.

import (
	"fmt"
	"math/big"
	"strings"

	"github.com/NethermindEth/juno/core/felt"
	rpcv10 "github.com/NethermindEth/juno/rpc/v10"
	"verif/harness/lib"
)

type vMax64 struct {
	F *felt.Felt `validate:"required,felt_max_bits=64"`
}
type vMax128 struct {
	F *felt.Felt `validate:"required,felt_max_bits=128"`
}
type vVersion struct {
	F *felt.Felt `validate:"required,version_0x3"`
}

func (rn *runner) validatorTie() {
	res := rn.res
	v := rpcv10.Validator()
	p, _ := new(big.Int).SetString("800000000000011000000000000000000000000000000000000000000000001", 16)
	var vals []*big.Int
	one := big.NewInt(1)
	for k := 0; k <= 251; k++ {
		b := new(big.Int).Lsh(one, uint(k))
		for _, d := range []int64{-1, 0, 1, 2, 3} {
			x := new(big.Int).Add(b, big.NewInt(d))
			if x.Sign() >= 0 && x.Cmp(p) < 0 {
				vals = append(vals, x)
			}
		}
	}
	vals = append(vals, new(big.Int).Sub(p, one), big.NewInt(3), big.NewInt(4), big.NewInt(0x30), big.NewInt(0x33))
	q := new(big.Int).Lsh(one, 128)
	for _, d := range []int64{2, 3, 4} {
		vals = append(vals, new(big.Int).Add(q, big.NewInt(d)))
	}
	vals = append(vals, new(big.Int).Add(new(big.Int).Lsh(one, 129), big.NewInt(3)), new(big.Int).Add(new(big.Int).Lsh(one, 127), big.NewInt(3)))
	lines := make([]string, len(vals))
	for i, x := range vals {
		lines[i] = "felt " + strTok("0x"+x.Text(16))
	}
	answers, err := rn.drv.AskAll(lines)
	if err != nil {
		res.Fatalf("validator tie: %v", err)
		res.Mismatch(lib.Mismatch{Sig: "harness-run-aborted", Model: err.Error()})
		return
	}
	b01 := func(b bool) string {
		if b {
			return "1"
		}
		return "0"
	}
	for i, x := range vals {
		f := new(felt.Felt)
		if _, err := f.SetString("0x" + x.Text(16)); err != nil {
			res.Fatalf("validator tie: felt %s: %v", x.Text(16), err)
			continue
		}
		var m64, m128, ver bool
		err, panicked, _ := lib.Try(func() error {
			m64 = v.Struct(vMax64{f}) == nil
			m128 = v.Struct(vMax128{f}) == nil
			ver = v.Struct(vVersion{f}) == nil
			return nil
		})
		replay := map[string]string{"felt": "0x" + x.Text(16)}
		if panicked {
			res.Violate(lib.Violation{Sig: "validator-panics", What: "validator panicked on 0x" + x.Text(16) + ": " + err.Error(), Replay: replay})
			continue
		}
		res.Case("validator:"+x.Text(16), true)
		res.Hit("validator:values")
		res.Compared(1)
		impl := fmt.Sprintf("%s %d %s %s %s", x.Text(16), x.BitLen(), b01(m64), b01(m128), b01(ver))
		if answers[i] != impl {
			res.Mismatch(lib.Mismatch{Sig: "validator: model and rpc/v10 validator differ", Input: "0x" + x.Text(16), Model: answers[i], Impl: impl})
		}
		// oracle: what the tags mean
		isVer := x.Cmp(big.NewInt(3)) == 0 || x.Cmp(new(big.Int).Add(q, big.NewInt(3))) == 0
		if m64 != (x.BitLen() <= 64) || m128 != (x.BitLen() <= 128) {
			res.Violate(lib.Violation{Sig: "felt-max-bits-accepts-or-rejects-wrong-values",
				What: fmt.Sprintf("felt 0x%s has %d bits: felt_max_bits=64 says %v, felt_max_bits=128 says %v", x.Text(16), x.BitLen(), m64, m128), Replay: replay})
		}
		if ver != isVer {
			res.Violate(lib.Violation{Sig: "version-0x3-accepts-or-rejects-wrong-values",
				What: fmt.Sprintf("felt 0x%s: version_0x3 says %v", x.Text(16), ver), Replay: replay})
		}
	}
	// `required` on a nil pointer
	if v.Struct(vMax64{nil}) == nil || v.Struct(vVersion{nil}) == nil {
		res.Violate(lib.Violation{Sig: "required-accepts-nil-felt", What: "a nil *felt.Felt passes `required`", Replay: map[string]string{"felt": "nil"}})
	}
	// The model's default configuration (junoCfg) must be the code's. A switch may differ only in the direction
	// of its proposed repair (the fix has been applied to the tree and junoCfg not yet flipped): a regression of
	// an applied fix, or any other value, is a mismatch.
	ans, err := rn.drv.Ask("defaults")
	df := strings.Fields(ans)
	pf := strings.Fields(rn.cfg.String())
	ok := err == nil && len(df) == len(pf)
	for i := 0; ok && i < len(df); i++ {
		repaired := "1"
		if i == 0 {
			repaired = "-"
		}
		if pf[i] != df[i] && pf[i] != repaired {
			ok = false
		}
	}
	if !ok {
		res.Mismatch(lib.Mismatch{Sig: "junoCfg (Lean) differs from the behaviour probed on the real server", Model: ans, Impl: rn.cfg.String()})
	}
}
