//go:build verif

package main

// The answer of the server must not depend on how the request bytes arrive: the same bytes read in
// segments of any sizes (a short read is legal for every io.Reader; TCP, chunked HTTP bodies and
// fragmented WebSocket messages produce them) must give the same response and the same handler
// invocations as one full read. The windowBuffer behind the TeeReader in HandleReader sees exactly
// the slices the JSON decoder reads into, so a Write that keeps (instead of copies) its argument would
// corrupt bytes the decoder has scanned but not yet unmarshalled: only segmented reads of requests
// larger than the decoder's first buffers expose that. Requests here carry position-dependent content,
// so a corrupted byte anywhere changes the recorded handler arguments.

import (
	"bufio"
	"bytes"
	"context"
	"fmt"
	"io"
	"net"
	"net/http"
	"net/http/httptest"
	"strings"
	"time"

	"github.com/NethermindEth/juno/jsonrpc"
	"github.com/NethermindEth/juno/utils/log"
	"github.com/coder/websocket"
	"verif/harness/lib"
)

// segReader returns the data in reads of the given sizes (cycled); size 0 = "half of what is asked for".
type segReader struct {
	data    []byte
	sizes   []int
	i       int
	dataErr bool // deliver the last bytes together with io.EOF (iotest.DataErrReader style)
}

func (s *segReader) Read(p []byte) (int, error) {
	if len(s.data) == 0 {
		return 0, io.EOF
	}
	if len(p) == 0 {
		return 0, nil
	}
	n := s.sizes[s.i%len(s.sizes)]
	s.i++
	if n == 0 {
		n = max(1, len(p)/2)
	}
	n = min(n, len(p), len(s.data))
	copy(p, s.data[:n])
	s.data = s.data[n:]
	if len(s.data) == 0 && s.dataErr {
		return n, io.EOF
	}
	return n, nil
}

type segPattern struct {
	name    string
	sizes   []int
	dataErr bool
}

var segPatterns = []segPattern{
	{"1", []int{1}, false}, {"half", []int{0}, false}, {"127", []int{127}, false}, {"128", []int{128}, false},
	{"511", []int{511}, false}, {"512", []int{512}, false}, {"513", []int{513}, false}, {"700", []int{700}, false},
	{"128-700-200", []int{128, 700, 200}, false}, {"128-600-511-600-10", []int{128, 600, 511, 600, 10}, false},
	{"128-512-1", []int{128, 512, 1}, false}, {"128-1000-300-64", []int{128, 1000, 300, 64}, true},
	{"3-640-511", []int{3, 640, 511}, false}, {"128-2000-100", []int{128, 2000, 100}, true},
}

func randomPattern(r *lib.RNG) segPattern {
	n := r.Range(2, 7)
	p := segPattern{name: "rnd", dataErr: r.Bool()}
	for i := 0; i < n; i++ {
		p.sizes = append(p.sizes, lib.Pick(r, []int{1, 2, 17, 127, 128, 129, 300, 511, 512, 513, 600, 700, 1024, 1500, 4096, 0}))
	}
	p.name = fmt.Sprint(p.sizes)
	return p
}

// positional text: every 8 bytes spell their own offset
func positional(n int) string {
	var sb strings.Builder
	for sb.Len() < n {
		fmt.Fprintf(&sb, "%07d|", sb.Len())
	}
	return sb.String()[:n]
}

// segInputs: mid-size and large requests (0.6 KB – 40 KB) whose parameters are position dependent
func segInputs(r *lib.RNG, n int) [][]byte {
	var out [][]byte
	one := func(size int, id int) string {
		switch r.Intn(5) {
		case 0: // one long string
			return fmt.Sprintf(`{"jsonrpc":"2.0","method":"hdr","params":["%s"],"id":%d}`, positional(size), id)
		case 1: // named, string somewhere in the middle of other members
			return fmt.Sprintf(`{"jsonrpc":"2.0","id":"%s","params":{"y":"%s","x":%d},"method":"allopt"}`, positional(40), positional(size), id)
		case 2: // many increasing integers
			var sb strings.Builder
			for k := 0; sb.Len() < size; k++ {
				if k > 0 {
					sb.WriteByte(',')
				}
				fmt.Fprintf(&sb, "%d", 1000000+k)
			}
			return fmt.Sprintf(`{"jsonrpc":"2.0","method":"list","params":[[%s],{"tail":"%s"}],"id":%d}`, sb.String(), positional(90), id)
		case 3: // nested generic value
			var sb strings.Builder
			for k := 0; sb.Len() < size; k++ {
				if k > 0 {
					sb.WriteByte(',')
				}
				fmt.Fprintf(&sb, `{"k%05d":["%s",%d,true,null]}`, k, positional(24), k)
			}
			return fmt.Sprintf(`{"jsonrpc":"2.0","method":"echo","params":{"a":[%s],"b":%d},"id":%d}`, sb.String(), id, id)
		default: // raw parameter with whitespace inside
			return fmt.Sprintf("{\"jsonrpc\":\"2.0\",\n \"method\":\"fail\",\n \"params\":[ {\"p\":\"%s\",\n\t\"q\":[1, 2 ,3]} ],\n \"id\":%d}", positional(size), id)
		}
	}
	sizes := []int{500, 700, 900, 1100, 1300, 1500, 1700, 2000, 2600, 3300, 5000, 9000, 20000, 40000}
	for i := 0; i < n; i++ {
		size := sizes[i%len(sizes)] + r.Intn(200)
		switch r.Intn(4) {
		case 0: // batch of several mid-size requests
			var parts []string
			for k := r.Range(2, 5); k > 0; k-- {
				parts = append(parts, one(size/3+50, 1000*i+k))
			}
			out = append(out, []byte("["+strings.Join(parts, ", ")+"]"))
		case 1: // leading blanks move every boundary
			out = append(out, []byte(strings.Repeat(" ", r.Range(1, 120))+one(size, i)))
		default:
			out = append(out, []byte(one(size, i)))
		}
	}
	// a large valid request cut off / damaged near the end: the parse error must be the same, too
	big := one(3000, 7)
	out = append(out, []byte(big[:len(big)-1]), []byte(big[:2000]+"@"+big[2000:]))
	return out
}

// dropParseErrorText: the text drawn for a -32700 answer shows the bytes read so far, which legitimately
// depends on the segmentation; code, message and id must not
func dropParseErrorText(out []byte) []byte {
	t := parseBody(out)
	if t == nil || t.K != '{' {
		return out
	}
	e := t.get("error")
	if e == nil || e.K != '{' || e.get("code") == nil || e.get("code").S != "-32700" {
		return out
	}
	e2 := &J{K: '{'}
	for _, m := range e.O {
		if m.K != "data" {
			e2.O = append(e2.O, m)
		}
	}
	t2 := &J{K: '{'}
	for _, m := range t.O {
		if m.K == "error" {
			m.V = e2
		}
		t2.O = append(t2.O, m)
	}
	return t2.bytes(nil)
}

func sameObs(a, b Obs, batch bool) bool {
	return sameOutputs(dropParseErrorText(a.Out), dropParseErrorText(b.Out), batch) && callsText(sortedCalls(a.Calls)) == callsText(sortedCalls(b.Calls)) &&
		a.Panicked == b.Panicked && a.Hung == b.Hung && (a.Err == nil) == (b.Err == nil)
}

func (rn *runner) segmentViolation(w *World, via string, in []byte, pat segPattern, base, o Obs) {
	rn.res.Violate(lib.Violation{Sig: "answer-depends-on-how-the-request-bytes-are-segmented",
		What: fmt.Sprintf("[%s] %d-byte request read in segments %s: response %s, invocations %s; read in one piece: response %s, invocations %s",
			via, len(in), pat.name, short(o.Out), short([]byte(callsText(o.Calls))), short(base.Out), short([]byte(callsText(base.Calls)))),
		Replay: map[string]any{"world": w.Spec, "via": via, "segments": pat.sizes, "data_err": pat.dataErr, "input_text": string(in)}})
}

// segmented: every input through segmenting readers over HandleReader; a sample through chunked HTTP
// bodies and fragmented WebSocket messages.
func (rn *runner) segmented(w *World, r *lib.RNG, inputs [][]byte) {
	res := rn.res
	inputs = append(segInputs(r, rn.f.Scale(70, 1500)), inputs...)
	// ---- HandleReader ----
	for i, in := range inputs {
		base := w.handle(in)
		batch := isBatchShaped(in)
		pats := segPatterns
		if len(in) < 600 { // small requests: three patterns are enough
			pats = []segPattern{segPatterns[i%len(segPatterns)], segPatterns[(i+5)%len(segPatterns)], randomPattern(r)}
		} else {
			pats = append(append([]segPattern(nil), pats...), randomPattern(r), randomPattern(r))
		}
		for _, pat := range pats {
			o := w.handleWith(context.Background(), &segReader{data: in, sizes: pat.sizes, dataErr: pat.dataErr})
			res.Case("seg:"+pat.name+":"+string(in), len(in) >= 600)
			res.Hit("segmented:HandleReader")
			res.Compared(1)
			if !sameObs(base, o, batch) {
				rn.segmentViolation(w, "HandleReader", in, pat, base, o)
			}
			if len(in) >= 600 {
				for _, v := range judge(w, in, o) {
					res.Violate(lib.Violation{Sig: v.Sig, What: "[segments " + pat.name + "] " + v.What[:min(len(v.What), 900)],
						Replay: map[string]any{"world": w.Spec, "via": "HandleReader", "segments": pat.sizes, "input_text": string(in)}})
				}
			}
		}
	}
	// ---- HTTP: chunked body, one chunk per segment, written separately ----
	hs := httptest.NewServer(jsonrpc.NewHTTP(w.Server, log.NewNopZapLogger()))
	defer hs.Close()
	addr := strings.TrimPrefix(hs.URL, "http://")
	nHTTP := rn.f.Scale(24, 300)
	for i := 0; i < nHTTP && i < len(inputs); i++ {
		in := inputs[i]
		pat := segPatterns[8+i%6]
		base, ok := rn.directOK(w, in, "http-chunked")
		if !ok {
			continue
		}
		w.reset()
		body, err := chunkedPost(addr, in, pat)
		calls, recErrs := w.taken()
		o := Obs{Out: body, Calls: calls, RecErrs: recErrs}
		if err != nil {
			o.Dropped = "chunked POST failed: " + err.Error()
		}
		res.Case("seg-http:"+pat.name+":"+string(in), true)
		res.Hit("segmented:http-chunked")
		res.Compared(1)
		if o.Dropped != "" {
			res.Violate(lib.Violation{Sig: "connection-dropped-instead-of-answer", What: "[http chunked " + pat.name + "] " + o.Dropped,
				Replay: map[string]any{"via": "http-chunked", "segments": pat.sizes, "input_text": string(in)}})
		} else if !sameObs(base, o, isBatchShaped(in)) {
			rn.segmentViolation(w, "http-chunked", in, pat, base, o)
		}
	}
	// ---- WebSocket: one message sent as several frames ----
	shutdown := make(chan struct{})
	ws := httptest.NewServer(jsonrpc.NewWebsocket(w.Server, shutdown, log.NewNopZapLogger()))
	defer ws.Close()
	defer close(shutdown)
	c := &wsClient{url: ws.URL}
	if err := c.dial(); err != nil {
		res.Fatalf("segmented ws: dial failed: %v", err)
		return
	}
	defer c.conn.CloseNow()
	nWS := rn.f.Scale(40, 500)
	wsHangs := 0
	for i := 0; i < nWS && i < len(inputs); i++ {
		in := inputs[i]
		pat := segPatterns[(7+i)%len(segPatterns)]
		base, ok := rn.directOK(w, in, "ws-fragments")
		if !ok {
			continue
		}
		w.reset()
		msgs, hung, err := c.exchangeFragments(in, pat.sizes)
		calls, _ := w.taken()
		o := Obs{Calls: dropSentinelCall(calls), Hung: hung}
		if len(msgs) > 0 {
			o.Out = msgs[0]
		}
		res.Case("seg-ws:"+pat.name+":"+string(in), true)
		res.Hit("segmented:ws-fragments")
		res.Compared(1)
		switch {
		case hung:
			res.Violate(lib.Violation{Sig: "server-hangs", What: "[ws fragments " + pat.name + "] no answer", Replay: map[string]any{"via": "ws-fragments", "segments": pat.sizes, "input_text": string(in)}})
			c.conn.CloseNow()
			if wsHangs++; wsHangs >= 3 || c.dial() != nil {
				return
			}
		case err != nil:
			res.Violate(lib.Violation{Sig: "connection-dropped-instead-of-answer", What: "[ws fragments " + pat.name + "] " + err.Error(),
				Replay: map[string]any{"via": "ws-fragments", "segments": pat.sizes, "input_text": string(in)}})
			if c.dial() != nil {
				return
			}
		case len(msgs) > 1 || !sameObs(base, o, isBatchShaped(in)):
			rn.segmentViolation(w, "ws-fragments", in, pat, base, o)
		}
	}
}

// chunkedPost writes a POST with a chunked body on a raw connection, one chunk per segment with a short
// pause, so that the server's body reader delivers the segments one by one.
func chunkedPost(addr string, in []byte, pat segPattern) ([]byte, error) {
	conn, err := net.DialTimeout("tcp", addr, 5*time.Second)
	if err != nil {
		return nil, err
	}
	defer conn.Close()
	conn.SetDeadline(time.Now().Add(30 * time.Second))
	if tc, ok := conn.(*net.TCPConn); ok {
		tc.SetNoDelay(true)
	}
	if _, err := io.WriteString(conn, "POST / HTTP/1.1\r\nHost: verif\r\nContent-Type: application/json\r\nTransfer-Encoding: chunked\r\nConnection: close\r\n\r\n"); err != nil {
		return nil, err
	}
	data := in
	for i := 0; len(data) > 0; i++ {
		n := pat.sizes[i%len(pat.sizes)]
		if n == 0 {
			n = 64
		}
		n = min(n, len(data))
		if _, err := fmt.Fprintf(conn, "%x\r\n%s\r\n", n, data[:n]); err != nil {
			return nil, err
		}
		data = data[n:]
		time.Sleep(1500 * time.Microsecond)
	}
	if _, err := io.WriteString(conn, "0\r\n\r\n"); err != nil {
		return nil, err
	}
	resp, err := http.ReadResponse(bufio.NewReader(conn), nil)
	if err != nil {
		return nil, err
	}
	defer resp.Body.Close()
	body, err := io.ReadAll(resp.Body)
	if err != nil {
		return nil, err
	}
	if resp.StatusCode != 200 {
		return body, fmt.Errorf("status %d", resp.StatusCode)
	}
	return bytes.TrimSpace(body), nil
}

// exchangeFragments sends one message as several frames (one per segment), then the sentinel.
func (c *wsClient) exchangeFragments(msg []byte, sizes []int) (got [][]byte, hung bool, err error) {
	c.n++
	sentinelID := fmt.Sprintf("__sentinel__%d", c.n)
	sentinel := fmt.Sprintf(`{"jsonrpc":"2.0","method":"noargs","id":%q}`, sentinelID)
	ctx, cancel := context.WithTimeout(context.Background(), 10*time.Second)
	defer cancel()
	wr, err := c.conn.Writer(ctx, websocket.MessageText)
	if err == nil {
		data := msg
		for i := 0; len(data) > 0 && err == nil; i++ {
			n := sizes[i%len(sizes)]
			if n == 0 {
				n = 64
			}
			n = min(n, len(data))
			_, err = wr.Write(data[:n])
			data = data[n:]
		}
		if cerr := wr.Close(); err == nil {
			err = cerr
		}
	}
	if err == nil {
		err = c.conn.Write(ctx, websocket.MessageText, []byte(sentinel))
	}
	for err == nil {
		var data []byte
		_, data, err = c.conn.Read(ctx)
		if err != nil {
			break
		}
		if strings.Contains(string(data), sentinelID) {
			return got, false, nil
		}
		got = append(got, data)
	}
	return got, ctx.Err() != nil, err
}
