//go:build verif

package main

// Round 6 — "bad parameters" for the broadcasted transaction (lean: ModelTxRules.lean, driver op `txrule`). The
// parameter of starknet_addInvokeTransaction / addDeclareTransaction / addDeployAccountTransaction is decoded into
// juno's real *rpcv10.BroadcastedTransaction and validated by the real rpcv10.Validator() — whose custom type
// function for TransactionType is what makes the `required_if=Type X` / `excluded_unless=Type INVOKE` tags work —
// behind a recording handler of the real handler's type (shadow table). For every transaction type (and an absent
// `type`), the exact set of members its type needs, every single omission, every single addition and random
// subsets: refused with -32602 (handler not run) or handed to the handler exactly once, as the model says; and,
// independent of the model, the members the Starknet API makes mandatory for the type (sender_address / calldata
// for INVOKE, contract_class / sender_address for DECLARE, class_hash / contract_address_salt /
// constructor_calldata for DEPLOY_ACCOUNT) must never be missing from a transaction that reaches the handler.

import (
	"context"
	"encoding/json"
	"fmt"
	"strings"
	"time"

	"github.com/NethermindEth/juno/blockchain/networks"
	"github.com/NethermindEth/juno/jsonrpc"
	"github.com/NethermindEth/juno/rpc"
	"github.com/NethermindEth/juno/utils/log"
	"verif/harness/lib"
)

// the members in the order of TxRules.Field.all, with a well-formed value each
var txFields = []struct{ lean, member, value string }{
	{"type", "type", ""},
	{"version", "version", `"0x3"`},
	{"nonce", "nonce", `"0x1"`},
	{"contractAddressSalt", "contract_address_salt", `"0x5"`},
	{"classHash", "class_hash", `"0x6"`},
	{"constructorCalldata", "constructor_calldata", `["0x7"]`},
	{"senderAddress", "sender_address", `"0x8"`},
	{"signature", "signature", `[]`},
	{"calldata", "calldata", `["0x9","0xa"]`},
	{"resourceBounds", "resource_bounds", `{"l1_gas":{"max_amount":"0x1","max_price_per_unit":"0x2"},"l2_gas":{"max_amount":"0x3","max_price_per_unit":"0x4"},"l1_data_gas":{"max_amount":"0x5","max_price_per_unit":"0x6"}}`},
	{"tip", "tip", `"0x0"`},
	{"paymasterData", "paymaster_data", `[]`},
	{"accountDeploymentData", "account_deployment_data", `[]`},
	{"nonceDAMode", "nonce_data_availability_mode", `"L1"`},
	{"feeDAMode", "fee_data_availability_mode", `"L2"`},
	{"proofFacts", "proof_facts", `["0xb"]`},
	{"contractClass", "contract_class", `{"sierra_program":["0x1","0x2"],"contract_class_version":"0.1.0","entry_points_by_type":{"CONSTRUCTOR":[],"EXTERNAL":[{"function_idx":0,"selector":"0x1"}],"L1_HANDLER":[]},"abi":"[]"}`},
	{"proof", "proof", `"AAAA"`},
}

var txTypes = []struct {
	lean, json string
	needs      []string // members of the type (lean names) besides the eight common ones
	mandatory  []string // members the Starknet API requires of a broadcasted transaction of this type (JSON names)
}{
	{"invoke", "INVOKE", []string{"senderAddress", "calldata", "accountDeploymentData"}, []string{"sender_address", "calldata"}},
	{"declare", "DECLARE", []string{"senderAddress", "accountDeploymentData", "contractClass"}, []string{"sender_address", "contract_class"}},
	{"deployAccount", "DEPLOY_ACCOUNT", []string{"contractAddressSalt", "classHash", "constructorCalldata"}, []string{"contract_address_salt", "class_hash", "constructor_calldata"}},
	{"deploy", "DEPLOY", []string{"contractAddressSalt", "classHash", "constructorCalldata"}, nil},
	{"l1Handler", "L1_HANDLER", nil, nil},
	{"unknown", "", nil, nil},
}

var txCommon = []string{"version", "nonce", "signature", "resourceBounds", "tip", "paymasterData", "nonceDAMode", "feeDAMode"}

func (rn *runner) txRulesTie(r *lib.RNG) {
	res := rn.res
	var methods []jsonrpc.Method
	if err, panicked, _ := lib.Try(func() error {
		h := rpc.New(nil, nil, nil, "verif", log.NewNopZapLogger(), &networks.Mainnet)
		methods, _ = h.MethodsV0_10()
		return nil
	}); err != nil || panicked {
		res.Fatalf("tx rules: real method table not available: %v", err)
		return
	}
	st, err := newShadowTable("v0_10", methods)
	if err != nil {
		res.Fatalf("tx rules: %v", err)
		return
	}
	entry := []struct{ method, param string }{{"starknet_addInvokeTransaction", "invoke_transaction"},
		{"starknet_addDeclareTransaction", "declare_transaction"}, {"starknet_addDeployAccountTransaction", "deploy_account_transaction"}}
	idx := map[string]int{}
	for i, f := range txFields {
		idx[f.lean] = i
	}
	n := 0
	for ti, ty := range txTypes {
		base := make([]bool, len(txFields))
		base[0] = ty.json != ""
		for _, f := range append(append([]string{}, txCommon...), ty.needs...) {
			base[idx[f]] = true
		}
		var sets [][]bool
		sets = append(sets, base)
		for i := 1; i < len(txFields); i++ { // every single omission / addition
			s := append([]bool{}, base...)
			s[i] = !s[i]
			sets = append(sets, s)
		}
		for k := 0; k < rn.f.Scale(30, 600); k++ { // random subsets near the base set
			s := append([]bool{}, base...)
			for j := 0; j < r.Range(2, 4); j++ {
				i := r.Range(1, len(txFields)-1)
				s[i] = !s[i]
			}
			sets = append(sets, s)
		}
		for si, present := range sets {
			var members []string
			var bits strings.Builder
			for i, f := range txFields {
				if !present[i] {
					bits.WriteByte('0')
					continue
				}
				bits.WriteByte('1')
				v := f.value
				if i == 0 {
					v = `"` + ty.json + `"`
				}
				members = append(members, fmt.Sprintf("%q:%s", f.member, v))
			}
			// member order must not matter: rotate
			if len(members) > 1 {
				k := (si + ti) % len(members)
				members = append(members[k:], members[:k]...)
			}
			e := entry[(si+ti)%len(entry)]
			n++
			var in string
			if n%2 == 0 {
				in = fmt.Sprintf(`{"jsonrpc":"2.0","method":%q,"params":[{%s}],"id":%d}`, e.method, strings.Join(members, ","), n)
			} else {
				in = fmt.Sprintf(`{"jsonrpc":"2.0","method":%q,"params":{%q:{%s}},"id":%d}`, e.method, e.param, strings.Join(members, ","), n)
			}
			want, err := rn.drv.Ask("txrule " + ty.lean + " " + bits.String())
			if err != nil || (want != "ok" && want != "refused") {
				res.Fatalf("tx rules: driver answered %q (%v)", want, err)
				return
			}
			before := st.calls.Load()
			var out []byte
			var herr error
			var panicMsg string
			done := lib.WithDeadline(30*time.Second, func() {
				err, panicked, stack := lib.Try(func() error {
					o, _, e := st.server.HandleReader(context.Background(), strings.NewReader(in))
					out = o
					return e
				})
				if panicked {
					panicMsg = err.Error() + "\n" + firstLines(stack, 14)
				} else {
					herr = err
				}
			})
			ran := st.calls.Load() - before
			res.Case("tx-rules:"+in, true)
			res.Hit("tx-rules:" + ty.lean)
			replay := map[string]string{"table": "v0_10 (handlers replaced by recording functions of the same type, real rpcv10.Validator())", "input": in}
			switch {
			case !done:
				res.Violate(lib.Violation{Sig: "server-hangs", What: "[broadcasted transaction] no answer for " + in, Replay: replay})
				continue
			case panicMsg != "":
				res.Violate(lib.Violation{Sig: "server-panics-decoding-real-parameter-types", What: "[broadcasted transaction] " + in + ": " + panicMsg, Replay: replay})
				continue
			case herr != nil:
				res.Violate(lib.Violation{Sig: "server-returns-go-error", What: "[broadcasted transaction] " + in + ": " + herr.Error(), Replay: replay})
				continue
			}
			var resp struct {
				Result json.RawMessage `json:"result"`
				Error  *struct {
					Code int             `json:"code"`
					Data json.RawMessage `json:"data"`
				} `json:"error"`
			}
			if err := json.Unmarshal(out, &resp); err != nil {
				res.Violate(lib.Violation{Sig: "output-not-json", What: "[broadcasted transaction] " + in + " -> " + string(out), Replay: replay})
				continue
			}
			got := "?"
			switch {
			case resp.Error != nil && resp.Error.Code == -32602 && ran == 0:
				got = "refused"
				res.Hit("tx-rules:refused")
			case ran == 1 && (resp.Error == nil || resp.Error.Code == 1):
				got = "ok"
				res.Hit("tx-rules:accepted")
			default:
				res.Violate(lib.Violation{Sig: "real-parameter-types-wrong-outcome",
					What: fmt.Sprintf("[broadcasted transaction] %s -> %s with %d invocation(s)", in, out, ran), Replay: replay})
				continue
			}
			// the property, without the model: a transaction that reaches its handler carries what its type must carry
			if got == "ok" {
				for _, m := range ty.mandatory {
					have := false
					for i, f := range txFields {
						have = have || (f.member == m && present[i])
					}
					if !have {
						res.Violate(lib.Violation{Sig: "broadcasted-transaction-without-mandatory-member-reaches-handler",
							What: fmt.Sprintf("a %s transaction without %q is bad parameters (-32602); it was decoded, validated and handed to the handler: %s -> %s",
								ty.json, m, in, out), Replay: replay})
						break
					}
				}
			}
			res.Compared(1)
			if got != want {
				res.Mismatch(lib.Mismatch{Sig: "tx rules: validation of the broadcasted transaction differs from the tag table", Input: in, Model: want,
					Impl: got + " " + string(out)})
			}
		}
	}
}
