//go:build verif

package main

// The property oracle: judges the REAL server's output and handler invocations against the
// JSON-RPC 2.0 text and the property statement, without using the Lean model or any juno code.
//
// It is deliberately three-valued. Where the specification leaves room (null ids, Go's
// case-insensitive / duplicate member handling, `null` for a non-pointer parameter, numbers that
// pass through float64, fractional or exponent ids, an empty method name, params: null) an entry is
// "fuzzy" and only the universal requirements apply to it.

import (
	"fmt"
	"math/big"
	"strings"
	"sync"
	"unicode"
)

// histogram of what the oracle actually judged (flushed into the result at the end)
var (
	statMu sync.Mutex
	stats  = map[string]int{}
	// the dispatcher's documented rule for null arguments (4d3f28e), probed on the real server
	oracleNullRule bool
)

func statHit(name string) {
	statMu.Lock()
	stats[name]++
	statMu.Unlock()
}

type Verdict struct {
	Sig  string
	What string
}

const (
	ekInvalid = iota // not a valid Request object: exactly one error response, no invocation
	ekNotif          // valid Request without id: no response
	ekNullID         // valid Request with "id": null: response with id null, or none
	ekCall           // valid Request with a string / integer id: exactly one response with that id
	ekFuzzy          // specification-ambiguous: universal requirements only
)

type entry struct {
	kind   int
	id     *J
	method string
	params *J // nil = absent
	// expectations for valid requests
	known     bool        // method is registered
	ms        *MethodSpec // if known
	bind      int         // bindOK, bindNo, bindUnknown
	args      []*J        // if bindOK
	matched   bool
	diagnosed bool // its (wrong) answer has been reported; do not also report the consequences for the invocation log
	src       *J
}

const (
	bindOK = iota
	bindNo
	bindUnknown
)

func foldASCII(s string) string {
	var sb strings.Builder
	for _, r := range s {
		for {
			r2 := unicode.SimpleFold(r)
			if r2 <= r {
				r = r2
				break
			}
			r = r2
		}
		sb.WriteRune(r)
	}
	return sb.String()
}

var requestMembers = map[string]string{"JSONRPC": "jsonrpc", "METHOD": "method", "PARAMS": "params", "ID": "id"}

func isIntLiteral(t string) bool {
	if strings.HasPrefix(t, "-") {
		t = t[1:]
	}
	if t == "" {
		return false
	}
	for _, c := range t {
		if c < '0' || c > '9' {
			return false
		}
	}
	return true
}

func hasDupKeys(j *J) bool {
	switch j.K {
	case '[':
		for _, e := range j.A {
			if hasDupKeys(e) {
				return true
			}
		}
	case '{':
		seen := map[string]bool{}
		for _, m := range j.O {
			if seen[m.K] || hasDupKeys(m.V) {
				return true
			}
			seen[m.K] = true
		}
	}
	return false
}

func hasUnsafeNum(j *J) bool {
	switch j.K {
	case '#':
		t := strings.TrimPrefix(j.S, "-")
		return !isIntLiteral(j.S) || len(t) > 15
	case '[':
		for _, e := range j.A {
			if hasUnsafeNum(e) {
				return true
			}
		}
	case '{':
		for _, m := range j.O {
			if hasUnsafeNum(m.V) {
				return true
			}
		}
	}
	return false
}

func inInt64(t string) bool {
	n, ok := new(big.Int).SetString(t, 10)
	return ok && n.IsInt64()
}

func normInt(t string) *J {
	n, _ := new(big.Int).SetString(t, 10)
	return jNum(n.String())
}

// fit: does JSON value v denote a value of parameter type ty, and which?
func fit(ty string, v *J) (*J, int) {
	switch ty {
	case "any", "raw":
		if hasDupKeys(v) || (ty == "any" && hasUnsafeNum(v)) {
			return nil, bindUnknown
		}
		return v, bindOK
	case "int", "ptrInt":
		switch v.K {
		case '#':
			if isIntLiteral(v.S) && inInt64(v.S) {
				return normInt(v.S), bindOK
			}
			return nil, bindNo
		case 'n':
			if ty == "ptrInt" {
				return jNull(), bindOK
			}
			return nil, bindUnknown
		}
		return nil, bindNo
	case "str":
		switch v.K {
		case 's':
			return v, bindOK
		case 'n':
			return nil, bindUnknown
		}
		return nil, bindNo
	case "bool":
		switch v.K {
		case 't', 'f':
			return v, bindOK
		case 'n':
			return nil, bindUnknown
		}
		return nil, bindNo
	case "ints":
		switch v.K {
		case '[':
			out := &J{K: '[', A: []*J{}}
			for _, e := range v.A {
				if e.K == 'n' {
					return nil, bindUnknown
				}
				if e.K != '#' || !isIntLiteral(e.S) || !inInt64(e.S) {
					return nil, bindNo
				}
				out.A = append(out.A, normInt(e.S))
			}
			return out, bindOK
		case 'n':
			return nil, bindUnknown
		}
		return nil, bindNo
	case "vstruct":
		switch v.K {
		case '{':
			if len(v.O) == 0 {
				return nil, bindNo // A = 0 violates min=1
			}
			if len(v.O) != 1 || v.O[0].K != "A" {
				return nil, bindUnknown
			}
			a := v.O[0].V
			if a.K == 'n' {
				return nil, bindUnknown
			}
			if a.K != '#' || !isIntLiteral(a.S) || !inInt64(a.S) {
				return nil, bindNo
			}
			n, _ := new(big.Int).SetString(a.S, 10)
			if n.Sign() <= 0 {
				return nil, bindNo
			}
			return jObj(kv("A", normInt(a.S))), bindOK
		case 'n':
			return nil, bindUnknown
		}
		return nil, bindNo
	case "vslice", "vmap":
		// every element / value is a vstruct; a nil pointer (map value null) is not validated
		var items []KV
		switch {
		case v.K == '[' && ty == "vslice":
			for _, e := range v.A {
				items = append(items, KV{"", e})
			}
		case v.K == '{' && ty == "vmap":
			if hasDupKeys(v) {
				return nil, bindUnknown
			}
			items = v.O
		case v.K == 'n':
			return nil, bindUnknown
		default:
			return nil, bindNo
		}
		out := &J{K: v.K}
		unknown, no := false, false
		for _, it := range items {
			var a *J
			st := bindOK
			if ty == "vmap" && it.V.K == 'n' {
				a = jNull()
			} else {
				a, st = fit("vstruct", it.V)
			}
			switch st {
			case bindNo:
				no = true
			case bindUnknown:
				unknown = true
			}
			if v.K == '[' {
				out.A = append(out.A, a)
			} else {
				out.O = append(out.O, KV{it.K, a})
			}
		}
		switch {
		case no && !unknown:
			return nil, bindNo
		case no || unknown:
			return nil, bindUnknown
		}
		if out.A == nil {
			out.A = []*J{}
		}
		return out, bindOK
	case "bounds":
		switch v.K {
		case '{':
			fields := map[string]*J{}
			for _, m := range v.O {
				switch m.K {
				case "max_amount", "max_price_per_unit", "version":
					if fields[m.K] != nil {
						return nil, bindUnknown
					}
					fields[m.K] = m.V
				default:
					return nil, bindUnknown
				}
			}
			if len(fields) != 3 {
				return nil, bindNo // all three are required
			}
			var ns [3]*big.Int
			unknown := false
			for i, k := range []string{"max_amount", "max_price_per_unit", "version"} {
				n, st := canonicalFelt(fields[k])
				if st == bindNo {
					return nil, bindNo
				}
				if st == bindUnknown {
					unknown = true
				}
				ns[i] = n
			}
			if unknown {
				return nil, bindUnknown
			}
			q := new(big.Int).Lsh(big.NewInt(1), 128)
			q.Add(q, big.NewInt(3))
			verOK := ns[2].Cmp(big.NewInt(3)) == 0 || ns[2].Cmp(q) == 0
			if ns[0].BitLen() > 64 || ns[1].BitLen() > 128 || !verOK {
				return nil, bindNo
			}
			return jObj(kv("max_amount", jStr("0x"+ns[0].Text(16))), kv("max_price_per_unit", jStr("0x"+ns[1].Text(16))),
				kv("version", jStr("0x"+ns[2].Text(16)))), bindOK
		case 'n':
			return nil, bindUnknown
		}
		return nil, bindNo
	}
	return nil, bindUnknown
}

// canonicalFelt: "0x" + 1..62 hex digits is certainly a felt; other strings are left to felt's parser
// (unknown); non-strings are certainly not felts; null is a missing required value.
func canonicalFelt(v *J) (*big.Int, int) {
	switch v.K {
	case 's':
		s := v.S
		if len(s) >= 3 && len(s) <= 64 && s[0] == '0' && s[1] == 'x' {
			n, ok := new(big.Int).SetString(s[2:], 16)
			if ok && !strings.ContainsAny(s[2:], "_+-") {
				return n, bindOK
			}
			return nil, bindNo
		}
		if !strings.HasPrefix(s, "0x") && !strings.HasPrefix(s, "0X") {
			return nil, bindNo
		}
		return nil, bindUnknown
	case 'n':
		return nil, bindNo
	}
	return nil, bindNo
}

func zeroOf(ty string) *J {
	switch ty {
	case "int":
		return jNum("0")
	case "str":
		return jStr("")
	case "bool":
		return jBool(false)
	case "vstruct":
		return jObj(kv("A", jNum("0")))
	case "bounds":
		return jObj(kv("max_amount", jNull()), kv("max_price_per_unit", jNull()), kv("version", jNull()))
	}
	return jNull()
}

// bindArgs: the argument vector the caller supplied, by position or by name.
func bindArgs(ms *MethodSpec, params *J) ([]*J, int) {
	total, req := len(ms.Params), ms.required()
	args := make([]*J, total)
	unknown := false
	setArg := func(i int, v *J) bool {
		if v.K == 'n' && oracleNullRule {
			// null = "not given": zero value for an optional parameter, never a value of a required one
			if !ms.Params[i].Optional {
				return false
			}
			args[i] = zeroOf(ms.Params[i].Ty)
			return true
		}
		a, st := fit(ms.Params[i].Ty, v)
		switch st {
		case bindNo:
			return false
		case bindUnknown:
			unknown = true
		}
		args[i] = a
		return true
	}
	switch {
	case params == nil || (params.K == '[' && len(params.A) == 0) || (params.K == '{' && len(params.O) == 0):
		if req > 0 {
			return nil, bindNo
		}
		for i, p := range ms.Params {
			args[i] = zeroOf(p.Ty)
		}
	case params.K == '[':
		n := len(params.A)
		if n > total || n < req {
			return nil, bindNo
		}
		if !ms.optionalTail() && n < total {
			return nil, bindUnknown // which parameters were omitted is not defined by position
		}
		for i := 0; i < n; i++ {
			if !setArg(i, params.A[i]) {
				if unknown {
					return nil, bindUnknown
				}
				return nil, bindNo
			}
		}
		for i := n; i < total; i++ {
			args[i] = zeroOf(ms.Params[i].Ty)
		}
	case params.K == '{':
		seen := map[string]bool{}
		for _, m := range params.O {
			if seen[m.K] {
				return nil, bindUnknown // duplicate member
			}
			seen[m.K] = true
		}
		idx := map[string]int{}
		for i, p := range ms.Params {
			idx[p.Name] = i
		}
		for k := range seen {
			if _, ok := idx[k]; !ok {
				return nil, bindNo // a name the method does not have
			}
		}
		for i, p := range ms.Params {
			v := params.get(p.Name)
			if v == nil {
				if !p.Optional {
					return nil, bindNo
				}
				args[i] = zeroOf(p.Ty)
				continue
			}
			if !setArg(i, v) {
				if unknown {
					return nil, bindUnknown
				}
				return nil, bindNo
			}
		}
	default:
		return nil, bindUnknown
	}
	if unknown {
		return nil, bindUnknown
	}
	return args, bindOK
}

func classify(w *World, v *J) *entry {
	e := &entry{src: v, kind: ekInvalid}
	if v.K != '{' {
		return e
	}
	seen := map[string]int{}
	for _, m := range v.O {
		if exact, ok := requestMembers[foldASCII(m.K)]; ok {
			if m.K != exact {
				e.kind = ekFuzzy // Go matches member names case-insensitively; the text does not
				return e
			}
			seen[exact]++
			if seen[exact] > 1 {
				e.kind = ekFuzzy // duplicate member: which one counts is not specified
				return e
			}
		}
	}
	idv := v.get("id")
	if idv != nil && (idv.K == 's' || idv.K == '#') {
		e.id = idv // detectable id, may be echoed in an Invalid Request answer
	}
	ver, meth, params := v.get("jsonrpc"), v.get("method"), v.get("params")
	if ver == nil || ver.K != 's' || ver.S != "2.0" {
		return e
	}
	if meth == nil || meth.K != 's' {
		return e
	}
	if meth.S == "" {
		e.kind = ekFuzzy
		return e
	}
	if params != nil {
		switch params.K {
		case '[', '{':
		case 'n':
			e.kind = ekFuzzy
			return e
		default:
			return e
		}
	}
	switch {
	case idv == nil:
		e.kind = ekNotif
	case idv.K == 'n':
		e.kind = ekNullID
	case idv.K == 's':
		e.kind = ekCall
	case idv.K == '#':
		if isIntLiteral(idv.S) {
			e.kind = ekCall
		} else {
			e.kind = ekFuzzy // fractional / exponent ids: SHOULD NOT, so either treatment is fine
			return e
		}
	default:
		return e // bool, array, object id
	}
	e.method, e.params = meth.S, params
	if ms, ok := w.byName[meth.S]; ok {
		e.known, e.ms = true, ms
		e.args, e.bind = bindArgs(ms, params)
	}
	return e
}

// ---- response objects ----------------------------------------------------------------------

type respInfo struct {
	src       *J
	id        *J
	hasResult bool
	result    *J
	hasError  bool
	code      string
	message   string
	data      *J
}

// checkResponseObject: the universal shape requirements of §5 of the specification.
func checkResponseObject(r *J) (*respInfo, *Verdict) {
	bad := func(sig, f string, a ...any) (*respInfo, *Verdict) {
		return nil, &Verdict{Sig: sig, What: fmt.Sprintf(f, a...) + ": " + r.String()}
	}
	if r.K != '{' {
		return bad("response-not-an-object", "a response is not a JSON object")
	}
	ri := &respInfo{src: r}
	seen := map[string]bool{}
	for _, m := range r.O {
		if seen[m.K] {
			return bad("response-duplicate-member", "member %q twice", m.K)
		}
		seen[m.K] = true
		switch m.K {
		case "jsonrpc":
			if m.V.K != 's' || m.V.S != "2.0" {
				return bad("response-wrong-version", "jsonrpc member is not \"2.0\"")
			}
		case "result":
			ri.hasResult, ri.result = true, m.V
		case "error":
			ri.hasError = true
			if m.V.K != '{' {
				return bad("response-error-not-object", "error member is not an object")
			}
			es := map[string]bool{}
			for _, em := range m.V.O {
				if es[em.K] {
					return bad("response-error-malformed", "error member %q twice", em.K)
				}
				es[em.K] = true
				switch em.K {
				case "code":
					if em.V.K != '#' || !isIntLiteral(em.V.S) {
						return bad("response-error-malformed", "error code is not an integer")
					}
					ri.code = em.V.S
				case "message":
					if em.V.K != 's' {
						return bad("response-error-malformed", "error message is not a string")
					}
					ri.message = em.V.S
				case "data":
					ri.data = em.V
				default:
					return bad("response-error-malformed", "unexpected error member %q", em.K)
				}
			}
			if !es["code"] || !es["message"] {
				return bad("response-error-malformed", "error without code or message")
			}
		case "id":
			ri.id = m.V // its type is judged against the request it answers
		default:
			return bad("response-unexpected-member", "unexpected member %q", m.K)
		}
	}
	if !seen["jsonrpc"] {
		return bad("response-wrong-version", "no jsonrpc member")
	}
	if ri.id == nil {
		return bad("response-without-id", "no id member")
	}
	if ri.hasResult && ri.hasError {
		return bad("response-has-result-and-error", "both result and error")
	}
	return ri, nil
}

func sameID(a, b *J) bool {
	if a == nil || b == nil {
		return false
	}
	return a.K == b.K && a.S == b.S
}

// accepts: may response r be the answer to entry e? single = not inside a batch.
// Returns ok and, for the known deviations, a verdict that is reported when the match is used.
func (e *entry) accepts(w *World, r *respInfo, single bool) (bool, *Verdict) {
	isNull := r.id.K == 'n'
	neither := !r.hasResult && !r.hasError
	switch e.kind {
	case ekInvalid:
		if !r.hasError {
			return false, nil
		}
		var verdict *Verdict
		switch {
		case r.code == "-32600":
		case single && r.code == "-32700" && isNull && e.goDecodeFails():
			// juno's deliberate choice (pinned by its tests): a type error of Decode(*Request) is a "parse error"
			verdict = &Verdict{Sig: "single-invalid-request-answered-with-parse-error",
				What: "valid JSON that is not a Request object must be answered -32600 (it is, inside a batch); as a single request it gets " + r.src.String() + " for " + e.src.String()}
		default:
			return false, nil
		}
		// id null, or the request's own id member echoed verbatim
		idv := e.src.get("id")
		switch {
		case isNull:
			return true, verdict
		case idv != nil && (idv.K == 's' || idv.K == '#') && sameJSON(idv, r.id):
			return true, verdict
		case idv != nil && idv.K == r.id.K && (sameJSON(idv, r.id) || idv.K == '[' || idv.K == '{'):
			// not a String / Number / Null: an illegal response id (an array / object has been through a Go map)
			return true, &Verdict{Sig: "invalid-request-echoes-structured-id",
				What: "an Invalid Request answer carries the request's id although it is not a string, a number or null: " + r.src.String() + " for " + e.src.String()}
		}
		return false, nil
	case ekFuzzy:
		if neither {
			if e.mayCallNilres(w) {
				return true, nilResultVerdict(r, e)
			}
			return false, nil
		}
		if isNull {
			return true, nil
		}
		if e.src.K != '{' {
			return false, nil
		}
		// any member that case-folds to "id" may have been taken as the id
		for _, m := range e.src.O {
			if foldASCII(m.K) == "ID" && (sameJSON(m.V, r.id) || (m.V.K == r.id.K && (m.V.K == '[' || m.V.K == '{'))) {
				return true, nil
			}
		}
		return false, nil
	case ekNotif:
		// never acceptable; the known deviation is recognised so that it gets its own signature
		if isNull && r.hasError && ((!e.known && r.code == "-32601") || (e.known && e.bind != bindOK && r.code == "-32602")) {
			return true, &Verdict{Sig: "notification-answered-with-error",
				What: "a Request without id (a notification) must not be answered; got " + r.src.String() + " for " + e.src.String()}
		}
		return false, nil
	case ekNullID, ekCall:
		if e.kind == ekNullID && !isNull {
			return false, nil
		}
		if e.kind == ekCall && !sameID(e.id, r.id) {
			return false, nil
		}
		if !e.known {
			return r.hasError && r.code == "-32601", nil
		}
		switch e.bind {
		case bindNo:
			return r.hasError && r.code == "-32602", nil
		case bindUnknown:
			if neither {
				if e.ms.Beh == "nilres" {
					return true, nilResultVerdict(r, e)
				}
				return false, nil
			}
			return true, nil
		}
		// the handler ran with e.args
		switch e.ms.Beh {
		case "echo", "waitctx":
			return r.hasResult && sameJSON(&J{K: '[', A: e.args}, r.result), nil
		case "typednil":
			return r.hasResult && r.result.K == 'n', nil
		case "nilres":
			if r.hasResult && r.result.K == 'n' {
				return true, nil
			}
			if neither {
				return true, nilResultVerdict(r, e)
			}
			return false, nil
		case "fail":
			if !r.hasError || r.code != "44" || r.message != "Expected Error" {
				return false, nil
			}
			if len(e.args) == 0 {
				return r.data == nil, nil
			}
			return r.data != nil && sameJSON(e.args[0], r.data), nil
		case "internal":
			return r.hasError && r.code == "-32603" && r.data == nil, nil
		case "unmarshalable", "panic":
			// the handler failed: the request must still be answered, with an error (-32603 is the obvious one)
			return r.hasError && r.code == "-32603", nil
		case "both":
			return r.hasError && r.code == "7" && !r.hasResult, nil
		case "zeroint":
			return r.hasResult && r.result.K == '#' && r.result.S == "0", nil
		case "emptystr":
			return r.hasResult && r.result.K == 's' && r.result.S == "", nil
		case "falseres":
			return r.hasResult && r.result.K == 'f', nil
		case "failzero":
			return r.hasError && r.code == "0" && r.message == "" && r.data != nil && r.data.K == '#' && r.data.S == "0", nil
		}
	}
	return false, nil
}

// goDecodeFails: json.Decode into jsonrpc.Request returns a type error for this value (not an object, or
// an ill-typed jsonrpc / method member) — the only shape for which the -32700 deviation is "known"
func (e *entry) goDecodeFails() bool {
	if e.src.K == 'n' {
		return false
	}
	if e.src.K != '{' {
		return true
	}
	for _, k := range []string{"jsonrpc", "method"} {
		if v := e.src.get(k); v != nil && v.K != 's' && v.K != 'n' {
			return true
		}
	}
	return false
}

// callsBeh: the entry (plainly) calls a handler with this behaviour
func (e *entry) callsBeh(w *World, behs ...string) bool {
	beh := ""
	if e.known && e.ms != nil {
		beh = e.ms.Beh
	} else if e.kind == ekFuzzy && e.src.K == '{' {
		for _, m := range e.src.O {
			if foldASCII(m.K) == "METHOD" && m.V.K == 's' {
				if ms, ok := w.byName[m.V.S]; ok {
					beh = ms.Beh
				}
			}
		}
	}
	for _, b := range behs {
		if b == beh {
			return true
		}
	}
	return false
}

func nilResultVerdict(r *respInfo, e *entry) *Verdict {
	return &Verdict{Sig: "nil-result-response-has-neither-result-nor-error",
		What: "handler returned (nil, nil); the response has neither result nor error: " + r.src.String() + " for " + e.src.String()}
}

// mayCallNilres: some member that Go would take as the method names a handler returning (nil, nil)
func (e *entry) mayCallNilres(w *World) bool {
	if e.src.K != '{' {
		return false
	}
	for _, m := range e.src.O {
		if foldASCII(m.K) == "METHOD" && m.V.K == 's' {
			if ms, ok := w.byName[m.V.S]; ok && ms.Beh == "nilres" {
				return true
			}
		}
	}
	return false
}

func (e *entry) mustRespond() bool {
	return e.kind == ekInvalid || e.kind == ekCall || e.kind == ekNullID
}

// expectedCall: the invocation this entry must cause (nil: none, unknown=true: cannot say)
func (e *entry) expectedCall() (c *Call, unknown bool) {
	switch e.kind {
	case ekInvalid:
		return nil, false
	case ekFuzzy:
		return nil, true
	}
	if !e.known {
		return nil, false
	}
	switch e.bind {
	case bindNo:
		return nil, false
	case bindUnknown:
		return nil, true
	}
	return &Call{Method: e.method, Args: e.args}, false
}

// soleEntry: the classified request of a single (non-batch) input
func soleEntry(w *World, input []byte) (*entry, error) {
	raw, err := firstValue(input)
	if err != nil {
		return nil, err
	}
	t, err := parseTree(raw)
	if err != nil {
		return nil, err
	}
	if t.K == '[' {
		return nil, fmt.Errorf("batch")
	}
	return classify(w, t), nil
}

type Obs struct {
	Out      []byte
	Err      error
	Panicked bool
	PanicMsg string
	Hung     bool
	Dropped  string // a transport connection was closed / reset by the server instead of an answer
	Calls    []Call
	RecErrs  []string
}

func short(b []byte) string {
	if len(b) > 300 {
		return fmt.Sprintf("%q…(%d bytes)", b[:300], len(b))
	}
	return fmt.Sprintf("%q", b)
}

// judge evaluates the property on one input.
func judge(w *World, input []byte, o Obs) []Verdict {
	var vs []Verdict
	add := func(sig, f string, a ...any) {
		vs = append(vs, Verdict{Sig: sig, What: fmt.Sprintf(f, a...) + " | input " + short(input) + " | output " + short(o.Out)})
	}
	if o.Panicked {
		if t, err := soleEntry(w, input); err == nil && t.callsBeh(w, "panic") {
			add("handler-panic-escapes-to-transport", "the handler of %s panicked and the panic escaped HandleReader (no recover): %s", t.src.String(), firstLines(o.PanicMsg, 2))
		} else {
			add("server-panics", "the server panicked: %s", o.PanicMsg)
		}
		return vs
	}
	if o.Dropped != "" {
		add("connection-dropped-instead-of-answer", "%s", o.Dropped)
		return vs
	}
	if o.Hung {
		add("server-hangs", "the server did not answer within the deadline")
		return vs
	}
	if o.Err != nil {
		if t, err := soleEntry(w, input); err == nil && t.callsBeh(w, "unmarshalable") {
			add("unmarshallable-result-go-error-no-response", "the handler of %s returned a value json.Marshal rejects: HandleReader returns a Go error and no response (HTTP: 500 with an empty body, WebSocket: connection closed): %v", t.src.String(), o.Err)
		} else {
			add("server-returns-go-error", "HandleReader returned an error instead of a response: %v", o.Err)
		}
		return vs
	}
	for _, p := range o.RecErrs {
		add("handler-got-unusable-argument", "%s", p)
	}

	// what was sent
	lead := 0
	for lead < len(input) && strings.IndexByte(" \t\r\n", input[lead]) >= 0 {
		lead++
	}
	raw, perr := firstValue(input)
	var tree *J
	if perr == nil {
		var err error
		if tree, err = parseTree(raw); err != nil {
			add("harness-cannot-reparse", "harness: %v", err)
			return vs
		}
	}

	// what came back
	var out *J
	if len(o.Out) > 0 {
		oraw, err := firstValue(o.Out)
		if err == nil {
			out, err = parseTree(oraw)
		}
		if err != nil || len(strings.TrimSpace(string(o.Out[len(oraw):]))) != 0 {
			add("output-not-json", "the output is not one JSON value")
			return vs
		}
	}

	singleError := func(codes ...string) bool {
		if out == nil {
			return false
		}
		ri, v := checkResponseObject(out)
		if v != nil || !ri.hasError || ri.id.K != 'n' {
			return false
		}
		for _, c := range codes {
			if ri.code == c {
				return true
			}
		}
		return false
	}

	if perr != nil {
		firstIsBracket := lead < len(input) && input[lead] == '['
		if w.Spec.BatchDisabled && firstIsBracket && singleError("-32600") {
			// batches are refused at the first byte, before the rest is parsed: an admissible reading
		} else if !singleError("-32700") {
			add("unparsable-input-not-answered-with-32700", "input is not JSON; expected one error object with code -32700 and id null")
		}
		if len(o.Calls) > 0 {
			add("handler-invoked-for-unparsable-input", "handlers ran: %v", o.Calls)
		}
		return vs
	}

	var entries []*entry
	batch := tree.K == '['
	if batch {
		if singleError("-32700") {
			if lead >= 128 {
				add("batch-after-128-blanks-answered-with-parse-error",
					"a valid JSON array preceded by %d blanks is answered with -32700 instead of being handled as a batch", lead)
			} else {
				add("batch-answered-with-parse-error", "a valid JSON array is answered with -32700")
			}
			if len(o.Calls) > 0 {
				add("handler-invoked-for-rejected-batch", "handlers ran: %v", o.Calls)
			}
			return vs
		}
		if w.Spec.BatchDisabled {
			if !singleError("-32600") {
				add("disabled-batch-not-answered-with-32600", "batches are disabled; expected one error object with code -32600")
			}
			if len(o.Calls) > 0 {
				add("handler-invoked-for-disabled-batch", "handlers ran: %v", o.Calls)
			}
			return vs
		}
		if len(tree.A) == 0 {
			if !singleError("-32600") {
				add("empty-batch-not-answered-with-32600", "empty batch; expected one error object with code -32600 and id null")
			}
			if len(o.Calls) > 0 {
				add("handler-invoked-for-empty-batch", "handlers ran: %v", o.Calls)
			}
			return vs
		}
		for _, e := range tree.A {
			entries = append(entries, classify(w, e))
		}
	} else {
		entries = []*entry{classify(w, tree)}
	}

	for _, e := range entries {
		statHit("oracle:entry:" + []string{"invalid", "notification", "null-id", "call", "fuzzy"}[e.kind])
		if e.known && (e.kind == ekCall || e.kind == ekNotif || e.kind == ekNullID) {
			statHit("oracle:bind:" + []string{"ok", "refused", "unknown"}[e.bind])
		}
	}
	// responses
	var resps []*J
	switch {
	case out == nil:
	case batch:
		if out.K != '[' {
			add("batch-not-answered-with-array", "the answer to a batch is not an array")
			return vs
		}
		if len(out.A) == 0 {
			add("batch-answered-with-empty-array", "the answer to a batch is an empty array")
		}
		resps = out.A
	default:
		if out.K != '{' {
			add("single-request-not-answered-with-object", "the answer to a single request is not an object")
			return vs
		}
		resps = []*J{out}
	}
	// assign responses to requests: maximum bipartite matching, preferring strict readings, then
	// the ambiguous entries, and only then the known deviation "a notification is answered"
	type edge struct {
		ok   bool
		v    *Verdict
		tier int
	}
	var infos []*respInfo
	for _, r := range resps {
		ri, v := checkResponseObject(r)
		if v != nil {
			vs = append(vs, Verdict{Sig: v.Sig, What: v.What + " | input " + short(input)})
			continue
		}
		infos = append(infos, ri)
	}
	edges := make([][]edge, len(infos))
	for i, ri := range infos {
		edges[i] = make([]edge, len(entries))
		for k, e := range entries {
			ok, v := e.accepts(w, ri, !batch)
			// requests that must be answered are served first (an augmenting path never
			// un-matches an entry), then null ids, then ambiguous entries, then the deviation
			// (an entry whose bindability the oracle cannot decide accepts any outcome with its id: it must
			// not take the response of an entry with a definite expectation and the same id)
			tier := 0
			switch {
			case e.kind == ekNotif:
				tier = 4
			case e.kind == ekFuzzy:
				tier = 3
			case e.kind == ekNullID:
				tier = 2
			case e.kind == ekCall && e.known && e.bind == bindUnknown:
				tier = 1
			}
			edges[i][k] = edge{ok, v, tier}
		}
	}
	entryOf := make([]int, len(infos))
	respOf := make([]int, len(entries))
	for i := range entryOf {
		entryOf[i] = -1
	}
	for k := range respOf {
		respOf[k] = -1
	}
	for tier := 0; tier <= 4; tier++ {
		var try func(i int, seen []bool) bool
		try = func(i int, seen []bool) bool {
			for k := range entries {
				if !edges[i][k].ok || edges[i][k].tier > tier || seen[k] {
					continue
				}
				seen[k] = true
				if respOf[k] == -1 || try(respOf[k], seen) {
					respOf[k], entryOf[i] = i, k
					return true
				}
			}
			return false
		}
		for i := range infos {
			if entryOf[i] == -1 {
				try(i, make([]bool, len(entries)))
			}
		}
	}
	for i := range infos {
		if k := entryOf[i]; k != -1 {
			entries[k].matched = true
			if v := edges[i][k].v; v != nil {
				vs = append(vs, *v)
			}
		}
	}
	// Left-over responses: name the cause. A response that carries the id of a request still
	// waiting for its answer is that request answered wrongly (not "a lost request" plus "a stray
	// response").
	for i, ri := range infos {
		if entryOf[i] != -1 {
			continue
		}
		if !ri.hasResult && !ri.hasError {
			add("response-has-neither-result-nor-error", "response %s has neither result nor error", ri.src.String())
			continue
		}
		var partner *entry
		for _, e := range entries {
			if e.matched {
				continue
			}
			switch e.kind {
			case ekCall:
				if sameID(e.id, ri.id) {
					partner = e
				}
			case ekNullID, ekInvalid:
				if ri.id.K == 'n' || sameJSON(e.src.get("id"), ri.id) {
					partner = e
				}
			}
			if partner != nil {
				break
			}
		}
		if partner == nil {
			for _, e := range entries {
				if !e.matched && e.kind == ekNotif && ri.id.K == 'n' {
					partner = e
					break
				}
			}
		}
		if partner == nil && !batch && len(entries) == 1 && !entries[0].matched && entries[0].kind != ekFuzzy {
			// a single request has a single possible addressee
			partner = entries[0]
			if partner.kind == ekCall && !(ri.hasError && ri.id.K == 'n') {
				partner.matched, partner.diagnosed = true, true
				add("response-carries-wrong-id", "request %s is answered with %s", partner.src.String(), ri.src.String())
				continue
			}
		}
		if partner == nil {
			add("response-matches-no-request", "response %s carries an id that no unanswered request of the input has (wrong id, or a duplicate)", ri.src.String())
			continue
		}
		partner.matched, partner.diagnosed = true, true
		got := "result " + ri.result.String()
		if ri.hasError {
			got = "error " + ri.code
		}
		switch partner.kind {
		case ekNotif:
			add("notification-answered", "the notification %s is answered with %s", partner.src.String(), ri.src.String())
		case ekInvalid:
			if ri.hasError {
				add("invalid-request-answered-with-wrong-error-code", "invalid request %s: expected -32600, got %s", partner.src.String(), got)
			} else {
				add("invalid-request-answered-with-result", "invalid request %s is answered with %s", partner.src.String(), got)
			}
		default:
			want := ""
			switch {
			case !partner.known:
				want = "error -32601"
			case partner.bind == bindNo:
				want = "error -32602"
			case partner.bind == bindOK:
				want = "the outcome of " + (&Call{Method: partner.method, Args: partner.args}).String() + " (handler behaviour " + partner.ms.Beh + ")"
			}
			switch {
			case strings.HasPrefix(want, "error") && ri.hasError:
				add("request-answered-with-wrong-error-code", "request %s: expected %s, got %s", partner.src.String(), want, got)
			case strings.HasPrefix(want, "error"):
				add("failing-request-answered-with-result", "request %s: expected %s, got %s", partner.src.String(), want, got)
			case ri.hasError && (ri.code == "-32602" || ri.code == "-32601" || ri.code == "-32600" || ri.code == "-32700"):
				add("valid-request-rejected", "request %s: expected %s, got %s", partner.src.String(), want, ri.src.String())
			default:
				add("request-answered-with-wrong-outcome", "request %s: expected %s, got %s", partner.src.String(), want, ri.src.String())
			}
		}
	}
	for _, e := range entries {
		if e.mustRespond() && !e.matched {
			switch {
			case e.kind == ekNullID:
				add("request-with-null-id-not-answered", "a Request with \"id\": null is not a notification and must be answered (with id null); no response for %s", e.src.String())
			case e.callsBeh(w, "unmarshalable") && e.bind != bindNo:
				add("unmarshallable-result-entry-dropped-from-batch", "the handler of %s returned a value json.Marshal rejects: the entry is silently missing from the batch response", e.src.String())
			case e.callsBeh(w, "panic") && e.bind != bindNo:
				add("handler-panic-swallowed-entry-dropped-from-batch", "the handler of %s panicked: the worker pool swallowed the panic and the entry is missing from the batch response", e.src.String())
			default:
				add("request-without-response", "no response for request %s", e.src.String())
			}
		}
	}

	// invocations: each valid request exactly once with the supplied arguments
	want := map[string]int{}
	unknownCalls := 0
	for _, e := range entries {
		c, unk := e.expectedCall()
		if e.diagnosed {
			c, unk = nil, true
		}
		if unk {
			unknownCalls++
		} else if c != nil {
			want[c.String()]++
		}
	}
	got := map[string]int{}
	for _, c := range o.Calls {
		got[c.String()]++
	}
	extra := 0
	for k, n := range got {
		if n > want[k] {
			extra += n - want[k]
		}
	}
	for k, n := range want {
		if got[k] < n {
			add("handler-not-invoked-with-supplied-arguments", "expected %d invocation(s) of %s, saw %d; all invocations: %v", n, k, got[k], o.Calls)
		}
	}
	if extra > unknownCalls {
		add("handler-invoked-more-than-once-or-with-other-arguments", "unexpected invocations (wanted %v): %v", want, o.Calls)
	}
	return vs
}
