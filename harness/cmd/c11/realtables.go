//go:build verif

package main

// The method tables juno really serves (rpc/handlers.go, v0.8 / v0.9 / v0.10): they must satisfy
// the hypotheses of `positional_named_same_args` (distinct names, optional parameters form a tail),
// register on a real jsonrpc.Server, and behave like the model on the paths that end before a
// handler is invoked (the handlers have nil dependencies and must never run here).

import (
	"fmt"
	"strings"

	"github.com/NethermindEth/juno/blockchain/networks"
	"github.com/NethermindEth/juno/jsonrpc"
	"github.com/NethermindEth/juno/rpc"
	"github.com/NethermindEth/juno/utils/log"
	"verif/harness/lib"
)

func (rn *runner) realTables() {
	res := rn.res
	var tables map[string][]jsonrpc.Method
	err, panicked, _ := lib.Try(func() error {
		h := rpc.New(nil, nil, nil, "verif", log.NewNopZapLogger(), &networks.Mainnet)
		v10, _ := h.MethodsV0_10()
		v9, _ := h.MethodsV0_9()
		v8, _ := h.MethodsV0_8()
		tables = map[string][]jsonrpc.Method{"v0_10": v10, "v0_9": v9, "v0_8": v8}
		return nil
	})
	if err != nil || panicked {
		res.Fatalf("real method tables not available: %v", err)
		res.Mismatch(lib.Mismatch{Sig: "real-method-tables-not-constructible", Model: fmt.Sprint(err)})
		return
	}
	for _, ver := range []string{"v0_8", "v0_9", "v0_10"} {
		methods := tables[ver]
		spec := WorldSpec{Pool: 2}
		seen := map[string]bool{}
		for _, m := range methods {
			ms := MethodSpec{Name: m.Name, Beh: "echo"}
			if seen[m.Name] {
				res.Violate(lib.Violation{Sig: "real-table-duplicate-method", What: ver + ": method registered twice: " + m.Name,
					Replay: map[string]string{"table": ver, "method": m.Name}})
			}
			seen[m.Name] = true
			pn := map[string]bool{}
			for _, p := range m.Params {
				if pn[p.Name] {
					res.Violate(lib.Violation{Sig: "real-table-duplicate-parameter-name", What: ver + ": " + m.Name + " has two parameters named " + p.Name,
						Replay: map[string]string{"table": ver, "method": m.Name}})
				}
				pn[p.Name] = true
				ms.Params = append(ms.Params, ParamSpec{Name: p.Name, Optional: p.Optional, Ty: "any"})
			}
			if !ms.optionalTail() {
				res.Violate(lib.Violation{Sig: "real-table-required-parameter-after-optional",
					What:   ver + ": " + m.Name + " has a required parameter after an optional one: a short positional call silently zero-fills it",
					Replay: map[string]string{"table": ver, "method": m.Name}})
			}
			spec.Methods = append(spec.Methods, ms)
			res.Hit("real-table:" + ver + ":methods")
		}
		s := jsonrpc.NewServer(2, log.NewNopZapLogger()).WithValidator(versionValidator(ver))
		if err := s.RegisterMethods(methods...); err != nil {
			res.Violate(lib.Violation{Sig: "real-table-does-not-register", What: ver + ": " + err.Error(), Replay: map[string]string{"table": ver}})
			continue
		}
		// a world whose Server is the real table (handlers must not be reached)
		w := &World{Spec: spec, Server: s, byName: map[string]*MethodSpec{}}
		for i := range w.Spec.Methods {
			w.byName[w.Spec.Methods[i].Name] = &w.Spec.Methods[i]
		}
		if err := rn.setWorld(w); err != nil {
			res.Fatalf("real tables: %v", err)
			return
		}
		var inputs [][]byte
		for _, m := range w.Spec.Methods {
			name := string(jStr(m.Name).bytes(nil))
			tooMany := "[" + strings.TrimSuffix(strings.Repeat("null,", len(m.Params)+1), ",") + "]"
			inputs = append(inputs,
				[]byte(`{"jsonrpc":"2.0","method":`+name+`,"params":`+tooMany+`,"id":1}`),
				[]byte(`{"jsonrpc":"2.0","method":`+name+`,"params":{"__no_such_parameter__":1},"id":"x"}`),
				[]byte(`[{"jsonrpc":"2.0","method":`+name+`,"params":`+tooMany+`,"id":2},{"jsonrpc":"1.0","method":`+name+`,"id":3}]`))
			if m.required() > 0 {
				inputs = append(inputs, []byte(`{"jsonrpc":"2.0","method":`+name+`,"id":4}`),
					[]byte(`{"jsonrpc":"2.0","method":`+name+`,"params":[],"id":5}`))
			}
		}
		inputs = append(inputs, []byte(`{"jsonrpc":"2.0","method":"starknet_noSuchMethod","id":1}`), []byte(`[]`), []byte(`[1]`))
		lines := make([]string, len(inputs))
		for i, in := range inputs {
			lines[i], _, _ = inLine(in)
		}
		answers, err := rn.drv.AskAll(lines)
		if err != nil {
			res.Fatalf("real tables: %v", err)
			return
		}
		for i, in := range inputs {
			o := w.handleReal(in)
			res.Case(ver+":"+string(in), true)
			res.Hit("real-table:" + ver + ":inputs")
			res.Compared(1)
			if why := compare(answers[i], o, in[0] == '['); why != "" && !o.Panicked && !o.Hung {
				res.Mismatch(lib.Mismatch{Sig: "real-table " + ver + ": " + why, Input: describe(in), Model: modelText(answers[i]), Impl: string(o.Out)})
			}
			for _, v := range judge(w, in, o) {
				res.Violate(lib.Violation{Sig: v.Sig, What: "[" + ver + " table] " + v.What, Replay: map[string]string{"table": ver, "input": string(in)}})
			}
		}
	}
}
