//go:build verif

package main

// Tie of ModelGate.lean (round 4): jsonrpc/gate.go driven directly (scripts of Acquire / Release / cancelled
// waiters on a real Gate, counters compared with the model after every operation) and through
// jsonrpc.HTTP.WithGate (503 answers, Retry-After, queued requests whose client leaves or whose deadline
// expires, and — the property — a server that has become idle again answers the next request).

import (
	"context"
	"encoding/hex"
	"errors"
	"fmt"
	"io"
	"math"
	"net/http"
	"net/http/httptest"
	"reflect"
	"strings"
	"time"

	"github.com/NethermindEth/juno/jsonrpc"
	"github.com/NethermindEth/juno/utils/log"
	"verif/harness/lib"
)

// manualCtx: a context the harness ends at will, as cancelled or as timed out
type manualCtx struct {
	context.Context
	done chan struct{}
	err  error
}

func newManualCtx() *manualCtx { return &manualCtx{Context: context.Background(), done: make(chan struct{})} }
func (m *manualCtx) Done() <-chan struct{} { return m.done }
func (m *manualCtx) Err() error {
	select {
	case <-m.done:
		return m.err
	default:
		return nil
	}
}
func (m *manualCtx) end(err error) { m.err = err; close(m.done) }

var gateBrokenScripts int // only touched by the goroutine that runs the gate scripts

type gateRes struct {
	id  int
	err error
}

// settle polls cond until it holds (the code under test needs a moment to reach its select / to return);
// the deadline is generous and only decides between "agrees" and "does not agree", never an oracle by itself
func settle(cond func() bool) bool {
	deadline := time.Now().Add(30 * time.Second)
	for i := 0; ; i++ {
		if cond() {
			return true
		}
		if time.Now().After(deadline) {
			return false
		}
		if i < 200 {
			time.Sleep(20 * time.Microsecond)
		} else {
			time.Sleep(time.Millisecond)
		}
	}
}

func gateErrName(err error) string {
	switch {
	case err == nil:
		return "admitted"
	case errors.Is(err, jsonrpc.ErrServerBusy):
		return "busy"
	case errors.Is(err, context.Canceled), errors.Is(err, context.DeadlineExceeded):
		return "ctxErr"
	}
	return "error:" + err.Error()
}

// gateScript runs one random script on a real Gate; the model is asked after every operation (the whole
// prefix is replayed by the driver) and tells what must happen; which operations are enabled is taken from
// what the real gate did.
func (rn *runner) gateScript(r *lib.RNG, c uint, q uint64, n int) {
	res := rn.res
	g := jsonrpc.NewGate(c, q)
	results := make(chan gateRes, 64)
	cancels := map[int]func(){}
	ctxs := map[int]*manualCtx{}
	var waiters, holders []int
	ops := ""
	nextID := 0
	replay := func() map[string]any { return map[string]any{"maxConcurrent": c, "maxQueue": q, "ops": ops} }
	broken := false
	fail := func(what string, model string) {
		if !broken {
			gateBrokenScripts++
		}
		broken = true
		res.Hit("gate:script-disagrees-with-model")
		res.Mismatch(lib.Mismatch{Sig: "gate: " + what, Input: replay(), Model: model,
			Impl: fmt.Sprintf("Running=%d Queued=%d Rejected=%d", g.Running(), g.Queued(), g.Rejected())})
	}
	defer func() {
		for _, cf := range cancels {
			cf()
		}
	}()
	ask := func() (outcome string, run, queued, rej int64, max string, ok bool) {
		a, err := rn.drv.Ask(fmt.Sprintf("gate %d %d %s", c, q, ops))
		fs := strings.Fields(a)
		if err != nil || len(fs) != len(ops)+1 || !strings.HasPrefix(fs[0], "max=") {
			res.Fatalf("gate tie: driver answered %q (%v)", a, err)
			return
		}
		last := fs[len(fs)-1]
		i := strings.IndexByte(last, ':')
		if i < 0 {
			res.Fatalf("gate tie: driver answered %q", a)
			return
		}
		if _, err := fmt.Sscanf(last[i+1:], "%d/%d/%d", &run, &queued, &rej); err != nil {
			res.Fatalf("gate tie: driver answered %q", a)
			return
		}
		return last[:i], run, queued, rej, strings.TrimPrefix(fs[0], "max="), true
	}
	take := func(want string) (int, bool) { // the next goroutine that returns from Acquire
		select {
		case gr := <-results:
			// independent of the model: ErrServerBusy although fewer requests than the configured capacity
			// (maxConcurrent + maxQueue, saturating) are in progress or queued — counted by the harness itself
			capacity := uint64(c) + q
			if capacity < q { // more than 2^64-1: unlimited
				capacity = math.MaxUint64
			}
			if inFlight := uint64(len(holders) + len(waiters)); errors.Is(gr.err, jsonrpc.ErrServerBusy) && inFlight < capacity {
				res.Violate(lib.Violation{Sig: "gate-refuses-request-below-capacity",
					What:   fmt.Sprintf("jsonrpc.Gate(%d,%d) after %q: Acquire = ErrServerBusy although only %d requests hold a slot or wait (capacity: %d concurrent + %d queued)", c, q, ops, len(holders)+len(waiters), c, q),
					Replay: replay()})
			}
			if gateErrName(gr.err) != want {
				fail(fmt.Sprintf("Acquire returned %s", gateErrName(gr.err)), want)
				return gr.id, false
			}
			return gr.id, true
		case <-time.After(30 * time.Second):
			fail("Acquire does not return", want)
			return 0, false
		}
	}
	remove := func(xs []int, id int) []int {
		for i, x := range xs {
			if x == id {
				return append(xs[:i:i], xs[i+1:]...)
			}
		}
		return xs
	}
	// maxRequests: the saturating sum of NewGate
	if mr := reflect.ValueOf(g).Elem().FieldByName("maxRequests"); mr.IsValid() {
		ops = ""
		a, err := rn.drv.Ask(fmt.Sprintf("gate %d %d d", c, q))
		if fs := strings.Fields(a); err == nil && len(fs) == 2 {
			res.Compared(1)
			if fs[0] != fmt.Sprintf("max=%d", mr.Uint()) {
				fail(fmt.Sprintf("NewGate computes maxRequests=%d", mr.Uint()), fs[0])
			}
		} else {
			res.Fatalf("gate tie: driver answered %q (%v)", a, err)
		}
	} else {
		res.Hit("gate:maxRequests-field-not-found")
	}
scriptLoop:
	for step := 0; step < n; step++ {
		choices := []byte{'a', 'a', 'a', 'd'}
		if len(holders) > 0 {
			choices = append(choices, 'r', 'r')
		}
		if len(waiters) > 0 {
			choices = append(choices, 'x', 'x')
		}
		op := choices[r.Intn(len(choices))]
		ops += string(op)
		want, run, queued, rej, _, ok := ask()
		if !ok {
			break scriptLoop
		}
		res.Hit("gate:op:" + string(op) + ":" + want)
		switch op {
		case 'a':
			id := nextID
			nextID++
			ctx := newManualCtx()
			ctxs[id] = ctx
			cancels[id] = func() {
				if ctx.Err() == nil {
					ctx.end(context.Canceled)
				}
			}
			go func() { results <- gateRes{id, g.Acquire(ctx)} }()
			if want == "queued" {
				if !settle(func() bool { return int64(g.Queued()) == queued || len(results) > 0 }) || len(results) > 0 {
					if len(results) > 0 {
						take(want) // it returned instead of queueing: let the capacity oracle look at what it returned
					} else {
						fail("Acquire should block in the queue", fmt.Sprintf("queued, Queued=%d", queued))
					}
					break scriptLoop
				}
				waiters = append(waiters, id)
			} else {
				got, ok := take(want)
				if !ok || got != id {
					break scriptLoop
				}
				if want == "admitted" {
					holders = append(holders, id)
				}
			}
		case 'd':
			ctx, cancel := context.WithCancel(context.Background())
			cancel()
			var err error
			if !lib.WithDeadline(60*time.Second, func() { err = g.Acquire(ctx) }) || gateErrName(err) != want {
				fail("Acquire with a cancelled context: "+gateErrName(err), want)
				break scriptLoop
			}
		case 'r':
			holders = holders[1:]
			if !lib.WithDeadline(60*time.Second, g.Release) {
				fail("Release blocks", want)
				break scriptLoop
			}
			if want == "admitted" { // the slot went to a waiter
				id, ok := take("admitted")
				if !ok {
					break scriptLoop
				}
				waiters = remove(waiters, id)
				holders = append(holders, id)
			}
		case 'x':
			id := waiters[r.Intn(len(waiters))]
			if r.Bool() { // the request deadline expires while queued
				ctxs[id].end(context.DeadlineExceeded)
				res.Hit("gate:waiter-deadline-exceeded")
			} else { // the client goes away
				ctxs[id].end(context.Canceled)
				res.Hit("gate:waiter-cancelled")
			}
			got, ok := take("ctxErr")
			if !ok || got != id {
				if ok {
					fail("another goroutine returned when a waiter was cancelled", want)
				}
				break scriptLoop
			}
			waiters = remove(waiters, id)
		}
		res.Compared(1)
		if !settle(func() bool {
			return int64(g.Running()) == run && int64(g.Queued()) == queued && int64(g.Rejected()) == rej
		}) {
			fail("counters differ after "+string(op), fmt.Sprintf("%s Running=%d Queued=%d Rejected=%d", want, run, queued, rej))
			break scriptLoop
		}
	}
	// the property behind the bookkeeping: when every request has left, the gate has forgotten all of them.
	// (Also after a disagreement with the model: whatever the gate did, everybody leaves now.)
	for id, cf := range cancels {
		_ = id
		cf()
	}
	drain := time.After(5 * time.Second)
drainLoop:
	for pending := len(waiters); pending > 0; {
		select {
		case gr := <-results:
			if gr.err == nil {
				holders = append(holders, gr.id)
			}
			pending--
		case <-drain:
			break drainLoop
		}
	}
	for range holders {
		if !lib.WithDeadline(5*time.Second, g.Release) {
			break
		}
	}
	_ = broken
	res.Case(fmt.Sprintf("gate:%d:%d:%s", c, q, ops), true)
	if !settle(func() bool { return g.Running() == 0 && g.Queued() == 0 }) {
		res.Violate(lib.Violation{Sig: "gate-keeps-counting-requests-that-have-left",
			What:   fmt.Sprintf("jsonrpc.Gate(%d,%d) after %q and after every holder released / every waiter cancelled: Running=%d Queued=%d (both must be 0): the capacity is lost for good", c, q, ops, g.Running(), g.Queued()),
			Replay: replay()})
		return
	}
	if c >= 1 {
		ctx, cancel := context.WithCancel(context.Background())
		defer cancel()
		var err error
		if !lib.WithDeadline(60*time.Second, func() { err = g.Acquire(ctx) }) || err != nil {
			res.Violate(lib.Violation{Sig: "gate-refuses-request-on-idle-server",
				What:   fmt.Sprintf("jsonrpc.Gate(%d,%d) after %q, idle again: Acquire = %v", c, q, ops, err),
				Replay: replay()})
			return
		}
		g.Release()
	}
}

func (rn *runner) gateTie(r *lib.RNG) {
	cs := []uint{0, 1, 1, 2, 3}
	for k := 0; k < rn.f.Scale(160, 3000); k++ {
		if gateBrokenScripts >= 2 {
			break // the gate does not behave like the model: two scripts with their replays are enough
		}
		c := cs[r.Intn(len(cs))]
		qs := []uint64{0, 0, 1, 1, 2, 3, math.MaxUint64, math.MaxUint64 - 1, math.MaxUint64 - uint64(c), math.MaxUint64 - uint64(c) + 1, math.MaxUint64 - uint64(c) - 1}
		rn.gateScript(r.Fork(uint64(k)), c, qs[r.Intn(len(qs))], r.Range(4, 18))
	}
	for _, cq := range [][2]uint64{{1, 1}, {1, 0}, {2, 2}} {
		rn.gateHTTP(uint(cq[0]), cq[1])
	}
}

type httpAns struct {
	status     int
	body       string
	retryAfter string
	ctype      string
	err        error
}

func post(ctx context.Context, url string, body string) httpAns {
	req, err := http.NewRequestWithContext(ctx, http.MethodPost, url, strings.NewReader(body))
	if err != nil {
		return httpAns{err: err}
	}
	resp, err := (&http.Client{Timeout: 150 * time.Second, Transport: &http.Transport{DisableCompression: true, DisableKeepAlives: true}}).Do(req)
	if err != nil {
		return httpAns{err: err}
	}
	defer resp.Body.Close()
	b, err := io.ReadAll(resp.Body)
	return httpAns{status: resp.StatusCode, body: string(b), retryAfter: resp.Header.Get("Retry-After"), ctype: resp.Header.Get("Content-Type"), err: err}
}

// gateHTTP: c slots, q queue positions, all taken; what the next request, a leaving client and an expiring
// deadline get; then everything finishes and the server must answer again.
func (rn *runner) gateHTTP(c uint, q uint64) {
	res := rn.res
	spec := WorldSpec{Pool: 4, Methods: []MethodSpec{{Name: "noargs", Beh: "echo"}, {Name: "hold", Beh: "echo", Hold: true}}}
	w, err := NewWorld(spec)
	if err != nil {
		res.Fatalf("gate http: %v", err)
		return
	}
	if err := rn.setWorld(w); err != nil {
		res.Fatalf("gate http: %v", err)
		return
	}
	w.entered = make(chan string, 16)
	w.holdCh = make(chan struct{})
	g := jsonrpc.NewGate(c, q)
	hs := httptest.NewServer(jsonrpc.NewHTTP(w.Server, log.NewNopZapLogger()).WithGate(g))
	defer hs.Close()
	hsT := httptest.NewServer(jsonrpc.NewHTTP(w.Server, log.NewNopZapLogger()).WithGate(g).WithRequestTimeout(150 * time.Millisecond))
	defer hsT.Close()
	name := fmt.Sprintf("gate-http(%d,%d)", c, q)
	replay := func(step string) map[string]any {
		return map[string]any{"maxConcurrent": c, "maxQueue": q, "scenario": "all slots held, queue full", "step": step}
	}
	const holdReq, plainReq = `{"jsonrpc":"2.0","method":"hold","id":"h"}`, `{"jsonrpc":"2.0","method":"noargs","id":7}`
	model := func(adm, method, body string) []string {
		a, err := rn.drv.Ask(fmt.Sprintf("httpg %s %s 1 %s", adm, method, inArgs([]byte(body), httpBodyLimit)))
		if err != nil || strings.HasPrefix(a, "bad-op") {
			res.Fatalf("gate http: driver answered %q (%v)", a, err)
			return nil
		}
		return strings.Fields(a)
	}
	// compare one answer with the model: status, Retry-After, http.Error text or JSON body
	check := func(step, adm, method, body string, a httpAns) {
		m := model(adm, method, body)
		if m == nil {
			return
		}
		res.Compared(1)
		res.Hit("gate:http:" + adm + ":" + method)
		text := ""
		if m[4] != "-" {
			b, _ := hex.DecodeString(m[4])
			text = string(b)
		}
		mt, _, perr := fromTokens(m[5:])
		okBody := perr == nil && (text != "" && a.body == text || text == "" && sameBody(bodyOf(mt), []byte(a.body), false))
		if a.err != nil || fmt.Sprint(a.status) != m[0] || (m[3] == "1") != (a.retryAfter == "1") || !okBody || (m[1] == "1") != strings.HasPrefix(a.ctype, "application/json") {
			res.Mismatch(lib.Mismatch{Sig: "gate: HTTP answer differs (" + adm + " " + method + ")", Input: replay(step), Model: strings.Join(m[:5], " ") + " " + text,
				Impl: fmt.Sprintf("status=%d retry-after=%q content-type=%q body=%q err=%v", a.status, a.retryAfter, a.ctype, a.body, a.err)})
		}
	}
	heldAns := make(chan httpAns, 16)
	for i := uint(0); i < c; i++ {
		go func() { heldAns <- post(context.Background(), hs.URL, holdReq) }()
	}
	for i := uint(0); i < c; i++ {
		select {
		case <-w.entered:
		case a := <-heldAns:
			// nobody is being served yet and fewer than c requests have arrived: this one must be admitted
			res.Violate(lib.Violation{Sig: "http-gate-refuses-request-on-idle-server",
				What: fmt.Sprintf("jsonrpc.HTTP with Gate(%d,%d): request %d of the first %d (as many as there are slots) is not admitted: status=%d body=%q err=%v",
					c, q, i+1, c, a.status, a.body, a.err),
				Replay: replay("first-requests")})
			close(w.holdCh)
			return
		case <-time.After(90 * time.Second):
			res.Fatalf("%s: a held request never reached its handler", name)
			close(w.holdCh)
			return
		}
	}
	queuedAns := make(chan httpAns, 16)
	var queuedCancel []context.CancelFunc
	for i := uint64(0); i < q; i++ {
		ctx, cancel := context.WithCancel(context.Background())
		queuedCancel = append(queuedCancel, cancel)
		body := plainReq
		if i == 0 {
			// the client that will leave sends no body: net/http watches a connection for a disconnect only once
			// the request body has been read to its end, and a queued request has not read anything yet
			body = ""
		}
		go func() { queuedAns <- post(ctx, hs.URL, body) }()
	}
	if !settle(func() bool { return g.Running() == int(c) && g.Queued() == int(q) }) {
		res.Mismatch(lib.Mismatch{Sig: "gate: requests are not queued behind the busy slots", Input: replay("fill"), Model: fmt.Sprintf("Running=%d Queued=%d", c, q), Impl: fmt.Sprintf("Running=%d Queued=%d", g.Running(), g.Queued())})
		close(w.holdCh)
		return
	}
	// full: the next POST is refused, other methods are answered without consulting the gate
	check("busy", "busy", "post", plainReq, post(context.Background(), hs.URL, plainReq))
	if req, err := http.NewRequest(http.MethodGet, hs.URL+"/", nil); err == nil {
		if resp, err := http.DefaultClient.Do(req); err == nil {
			b, _ := io.ReadAll(resp.Body)
			resp.Body.Close()
			check("get-while-busy", "busy", "get", "", httpAns{status: resp.StatusCode, body: string(b), retryAfter: resp.Header.Get("Retry-After"), ctype: resp.Header.Get("Content-Type")})
		}
	}
	rejected := uint64(1)
	left := q
	if q > 0 {
		// the client of a queued request leaves: its place in the queue is free again
		queuedCancel[0]()
		if a := <-queuedAns; a.err == nil {
			res.Mismatch(lib.Mismatch{Sig: "gate: a request whose client left was answered", Input: replay("client-gone"), Model: "no answer", Impl: fmt.Sprint(a)})
		}
		left--
		if !settle(func() bool { return g.Queued() == int(left) }) {
			res.Mismatch(lib.Mismatch{Sig: "gate: the queue position of a client that left is not freed", Input: replay("client-gone"), Model: fmt.Sprintf("Queued=%d", left), Impl: fmt.Sprintf("Queued=%d", g.Queued())})
		}
		res.Hit("gate:http:client-gone")
		// a request whose deadline expires while it is queued
		check("deadline", "deadline", "post", plainReq, post(context.Background(), hsT.URL, plainReq))
		if !settle(func() bool { return g.Queued() == int(left) }) {
			res.Mismatch(lib.Mismatch{Sig: "gate: the queue position of a request that timed out is not freed", Input: replay("deadline"), Model: fmt.Sprintf("Queued=%d", left), Impl: fmt.Sprintf("Queued=%d", g.Queued())})
		}
	} else {
		// with a request deadline: refused as busy — unless the (short) deadline had already expired when the
		// request reached the gate, which Acquire reports first; both are answers of the unchanged code
		a := post(context.Background(), hsT.URL, plainReq)
		if strings.Contains(a.body, "timed out") {
			check("busy-with-timeout", "deadline", "post", plainReq, a)
		} else {
			check("busy-with-timeout", "busy", "post", plainReq, a)
			rejected++
		}
	}
	// everything finishes
	close(w.holdCh)
	for i := uint(0); i < c; i++ {
		check("held-finishes", "admitted", "post", holdReq, <-heldAns)
	}
	for i := uint64(0); i < left; i++ {
		check("queued-finishes", "admitted", "post", plainReq, <-queuedAns)
	}
	res.Compared(1)
	if g.Rejected() != rejected {
		res.Mismatch(lib.Mismatch{Sig: "gate: Rejected() differs", Input: replay("end"), Model: fmt.Sprint(rejected), Impl: fmt.Sprint(g.Rejected())})
	}
	res.Case(name, true)
	idle := settle(func() bool { return g.Running() == 0 && g.Queued() == 0 })
	a := post(context.Background(), hs.URL, plainReq)
	if !idle || a.err != nil || a.status != 200 || !strings.Contains(a.body, `"result"`) {
		res.Violate(lib.Violation{Sig: "http-gate-refuses-request-on-idle-server",
			What: fmt.Sprintf("jsonrpc.HTTP with Gate(%d,%d): %d requests held every slot, %d waited in the queue, one client left, one request timed out while queued, then all finished. "+
				"Now idle, Running=%d Queued=%d (must be 0/0), and the next request is answered status=%d body=%q err=%v instead of 200 with a result: the server answers nobody any more",
				c, q, c, q, g.Running(), g.Queued(), a.status, a.body, a.err),
			Replay: replay("idle-again")})
		return
	}
	check("idle-again", "admitted", "post", plainReq, a)
}
