//go:build verif

package main

// Shadow tables: juno's REAL method tables (rpc.Handler.MethodsV0_8/9/10) with every handler replaced by a
// recording function of exactly the same reflect.Type, on a real jsonrpc.Server with the validator the node
// installs for that version. Every parameter position is fuzzed with a pool of JSON shapes, so the real
// parameter types' UnmarshalJSON methods, `validateParam` on the real structs and the validators' custom type
// functions (which panic on unexpected types) are what decodes the arguments. Oracle: no panic, no hang, no Go
// error, well-formed output; the answer is -32602 (and the handler did not run) or the handler's own outcome
// (and it ran exactly once).

import (
	"context"
	"encoding/json"
	"fmt"
	"reflect"
	"strings"
	"sync/atomic"
	"time"

	"github.com/NethermindEth/juno/blockchain/networks"
	"github.com/NethermindEth/juno/jsonrpc"
	"github.com/NethermindEth/juno/rpc"
	rpcv10 "github.com/NethermindEth/juno/rpc/v10"
	rpcv8 "github.com/NethermindEth/juno/rpc/v8"
	rpcv9 "github.com/NethermindEth/juno/rpc/v9"
	"github.com/NethermindEth/juno/utils/log"
	"verif/harness/lib"
)

func versionValidator(ver string) jsonrpc.Validator {
	switch ver {
	case "v0_8":
		return rpcv8.Validator()
	case "v0_9":
		return rpcv9.Validator()
	}
	return rpcv10.Validator()
}

var shadowShapes = []string{
	`null`, `true`, `0`, `1`, `-1`, `1.5`, `1e400`, `18446744073709551616`, `""`, `"x"`, `"latest"`, `"pending"`, `"pre_confirmed"`, `"l1_accepted"`,
	`"0x0"`, `"0x1"`, `"0x"`, `"0xzz"`, `"0x800000000000011000000000000000000000000000000000000000000000001"`, `"0X1"`, `"1"`,
	`[]`, `[null]`, `["0x1"]`, `["0x1","0x2"]`, `[["0x1"],[],["0x2","0x3"]]`, `[1,2]`, `[{}]`, `["SKIP_VALIDATE"]`, `["SKIP_FEE_CHARGE","SKIP_VALIDATE"]`, `["NOPE"]`,
	`{}`, `{"block_number":1}`, `{"block_number":null}`, `{"block_number":-1}`, `{"block_number":"1"}`, `{"block_hash":"0x1"}`, `{"block_hash":null}`,
	`{"block_hash":"0x1","block_number":1}`, `{"x":1}`,
	`{"from_block":{"block_number":0},"to_block":"latest","address":"0x1","keys":[["0x1"]],"chunk_size":10}`,
	`{"chunk_size":0}`, `{"chunk_size":10,"continuation_token":"0-0"}`, `{"chunk_size":10,"keys":"x","address":[1]}`,
	`{"type":"INVOKE","version":"0x3","sender_address":"0x1","calldata":[],"signature":[],"nonce":"0x0","tip":"0x0","paymaster_data":[],"account_deployment_data":[],"nonce_data_availability_mode":"L1","fee_data_availability_mode":"L1","resource_bounds":{"l1_gas":{"max_amount":"0x1","max_price_per_unit":"0x1"},"l2_gas":{"max_amount":"0x0","max_price_per_unit":"0x0"},"l1_data_gas":{"max_amount":"0x1","max_price_per_unit":"0x1"}}}`,
	`{"type":"INVOKE","version":"0x1"}`, `{"type":"DECLARE","version":"0x3"}`, `{"type":"DEPLOY_ACCOUNT"}`, `{"type":"NOPE","version":"0x3"}`, `{"type":5}`, `{"version":"0x3"}`,
	`{"type":"INVOKE","version":"0x3","resource_bounds":{"l1_gas":{"max_amount":"0x10000000000000000","max_price_per_unit":"0x1"}}}`,
	`{"contract_address":"0x1","entry_point_selector":"0x2","calldata":["0x3"]}`, `{"contract_address":"0x1"}`, `{"contract_address":1,"entry_point_selector":[],"calldata":{}}`,
	`{"from_address":"0x1","to_address":"0x2","entry_point_selector":"0x3","payload":[]}`, `{"from_address":"0xzz"}`,
	`[{"type":"INVOKE","version":"0x3"}]`, `[{"contract_address":"0x1","storage_keys":["0x1"]}]`, `{"class_hashes":["0x1"],"contract_addresses":[],"contracts_storage_keys":[]}`,
	`{"a":{"b":{"c":[1,{"d":null}]}}}`, `"\u0000"`, `[[[[[[[[[[1]]]]]]]]]]`,
}

type shadowTable struct {
	ver     string
	server  *jsonrpc.Server
	methods []jsonrpc.Method
	calls   atomic.Int64
}

func newShadowTable(ver string, methods []jsonrpc.Method) (*shadowTable, error) {
	st := &shadowTable{ver: ver, methods: methods}
	errT := reflect.TypeOf((*jsonrpc.Error)(nil))
	shadow := make([]jsonrpc.Method, len(methods))
	for i, m := range methods {
		ht := reflect.TypeOf(m.Handler)
		outs := make([]reflect.Type, ht.NumOut())
		for k := range outs {
			outs[k] = ht.Out(k)
		}
		// a zero result that json.Marshal accepts, or else a handler error
		zeroOK := false
		if _, panicked, _ := lib.Try(func() error {
			_, err := json.Marshal(reflect.Zero(outs[0]).Interface())
			zeroOK = err == nil
			return nil
		}); panicked {
			zeroOK = false
		}
		fn := reflect.MakeFunc(ht, func(args []reflect.Value) []reflect.Value {
			st.calls.Add(1)
			res := make([]reflect.Value, len(outs))
			for k, t := range outs {
				res[k] = reflect.Zero(t)
			}
			if !zeroOK {
				res[len(outs)-1] = reflect.ValueOf(&jsonrpc.Error{Code: 1, Message: "shadow"})
			}
			_ = errT
			return res
		})
		shadow[i] = jsonrpc.Method{Name: m.Name, Params: m.Params, Handler: fn.Interface()}
	}
	s := jsonrpc.NewServer(2, log.NewNopZapLogger()).WithValidator(versionValidator(ver))
	if err := s.RegisterMethods(shadow...); err != nil {
		return nil, err
	}
	st.server = s
	return st, nil
}

func (rn *runner) shadowTables(r *lib.RNG) {
	res := rn.res
	var tables map[string][]jsonrpc.Method
	if err, panicked, _ := lib.Try(func() error {
		h := rpc.New(nil, nil, nil, "verif", log.NewNopZapLogger(), &networks.Mainnet)
		v10, _ := h.MethodsV0_10()
		v9, _ := h.MethodsV0_9()
		v8, _ := h.MethodsV0_8()
		tables = map[string][]jsonrpc.Method{"v0_10": v10, "v0_9": v9, "v0_8": v8}
		return nil
	}); err != nil || panicked {
		res.Fatalf("shadow tables: real method tables not available: %v", err)
		return
	}
	for _, ver := range []string{"v0_8", "v0_9", "v0_10"} {
		st, err := newShadowTable(ver, tables[ver])
		if err != nil {
			res.Fatalf("shadow tables %s: %v", ver, err)
			continue
		}
		for _, m := range st.methods {
			n := len(m.Params)
			if n == 0 {
				continue
			}
			name, _ := json.Marshal(m.Name)
			for pos := 0; pos < n; pos++ {
				for si, shape := range shadowShapes {
					if !rn.f.Thorough() && (si+pos)%2 == 1 && n > 2 {
						continue // quick tier: half of the shapes per position for the wide methods
					}
					vals := make([]string, n)
					for k := range vals {
						vals[k] = lib.Pick(r, shadowShapes)
					}
					vals[pos] = shape
					var params string
					if (si+pos)%3 == 0 {
						parts := make([]string, n)
						for k, p := range m.Params {
							pn, _ := json.Marshal(p.Name)
							parts[k] = string(pn) + ":" + vals[k]
						}
						params = "{" + strings.Join(parts, ",") + "}"
					} else {
						params = "[" + strings.Join(vals, ",") + "]"
					}
					in := fmt.Sprintf(`{"jsonrpc":"2.0","method":%s,"params":%s,"id":%d}`, name, params, si)
					rn.shadowOne(st, in)
				}
			}
		}
	}
}

func (rn *runner) shadowOne(st *shadowTable, in string) {
	res := rn.res
	before := st.calls.Load()
	var out []byte
	var herr error
	var panicMsg string
	done := lib.WithDeadline(20*time.Second, func() {
		err, panicked, stack := lib.Try(func() error {
			o, _, e := st.server.HandleReader(context.Background(), strings.NewReader(in))
			out = o
			return e
		})
		if panicked {
			panicMsg = err.Error() + "\n" + firstLines(stack, 14)
		} else {
			herr = err
		}
	})
	ran := st.calls.Load() - before
	res.Case("shadow:"+st.ver+":"+in, true)
	res.Hit("shadow:requests")
	replay := map[string]string{"table": st.ver, "input": in}
	switch {
	case !done:
		res.Violate(lib.Violation{Sig: "server-hangs", What: "[real " + st.ver + " parameter types] no answer for " + in, Replay: replay})
		return
	case panicMsg != "":
		res.Violate(lib.Violation{Sig: "server-panics-decoding-real-parameter-types", What: "[real " + st.ver + " parameter types] " + in + ": " + panicMsg, Replay: replay})
		return
	case herr != nil:
		res.Violate(lib.Violation{Sig: "server-returns-go-error", What: "[real " + st.ver + " parameter types] " + in + ": " + herr.Error(), Replay: replay})
		return
	}
	t := parseBody(out)
	var ri *respInfo
	if t != nil {
		ri, _ = checkResponseObject(t)
	}
	switch {
	case ri == nil || ri.id == nil || ri.id.K != '#':
		res.Violate(lib.Violation{Sig: "real-parameter-types-malformed-answer", What: "[real " + st.ver + "] " + in + " -> " + string(out), Replay: replay})
	case ri.hasError && ri.code == "-32602":
		res.Hit("shadow:refused")
		if ran != 0 {
			res.Violate(lib.Violation{Sig: "handler-invoked-although-params-refused", What: "[real " + st.ver + "] " + in + " -> " + string(out), Replay: replay})
		}
	case (ri.hasResult || (ri.hasError && ri.code == "1")) && ran == 1:
		res.Hit("shadow:accepted")
	default:
		res.Violate(lib.Violation{Sig: "real-parameter-types-wrong-outcome", What: fmt.Sprintf("[real %s] %s -> %s with %d invocation(s)", st.ver, in, out, ran), Replay: replay})
	}
}
