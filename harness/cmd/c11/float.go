//go:build verif

package main

// Direct tie of ModelFloat.lean: number literal -> float64 -> json.Marshal, against Go itself.
// (A number that reaches a handler parameter of type `any` makes exactly this trip.)

import (
	"encoding/json"
	"fmt"
	"math"
	"math/big"
	"strconv"
	"strings"

	"verif/harness/lib"
)

func goRoundTrip(lit string) string {
	var v any
	if err := json.Unmarshal([]byte(lit), &v); err != nil {
		return "err"
	}
	b, err := json.Marshal(v)
	if err != nil {
		return "err"
	}
	return string(b)
}

func (rn *runner) floatTie(r *lib.RNG) {
	res := rn.res
	lits := []string{"0", "-0", "0.0", "-0.0", "0e5", "1", "-1", "10", "100", "1e2", "1E2", "1e+2", "1.0", "1.50", "0.1", "0.2", "0.3", "0.30000000000000004",
		"1e21", "999999999999999999999", "1000000000000000000000", "999999999999999934463", "999999999999999934464", "1e-6", "0.000001", "9.999999999999999e-7", "0.0000009999999999999999", "1e-7",
		"9007199254740992", "9007199254740993", "9007199254740994", "9007199254740995", "18014398509481985", "1e23", "8.41e21", "5e-324", "4.9e-324", "2.5e-324", "2.4703282292062327e-324",
		"2.4703282292062328e-324", "2e-324", "1e-400", "-1e-400", "1e400", "-1e400", "1e309", "1.7976931348623157e308", "1.7976931348623158e308", "1.7976931348623159e308",
		"179769313486231580793728971405303415079934132710037826936173778980444968292764750946649017977587207096330286416692887910946555547851940402630657488671505820681908902000708383676273854845817711531764475730270069855571366959622842914819860834936475292719074168444365510704342711559699508093042880177904174497791",
		"179769313486231580793728971405303415079934132710037826936173778980444968292764750946649017977587207096330286416692887910946555547851940402630657488671505820681908902000708383676273854845817711531764475730270069855571366959622842914819860834936475292719074168444365510704342711559699508093042880177904174497792",
		"2.2250738585072014e-308", "2.2250738585072011e-308", "2.225073858507201e-308", "4.450147717014403e-308", "123456789012345678901234567890", "0.1e-99999", "1e99999999", "1e-99999999", "12345678901234567890e-20",
		"1.2345678901234567890123456789", "0.000000000000000000000000000000000000000001", "100000000000000000000000", "1e22", "1e-5", "0.00001", "123456.789e3", "4.35", "0.000001234", "5e-7", "2e0", "17", "999999999999999"}
	for i := 0; i < rn.f.Scale(6000, 200000); i++ {
		switch r.Intn(6) {
		case 0, 1: // a random float64, shortest or over-long digits, possibly perturbed
			x := math.Float64frombits(r.Uint64())
			if math.IsNaN(x) || math.IsInf(x, 0) {
				continue
			}
			s := strconv.FormatFloat(x, byte("efg"[r.Intn(3)]), lib.Pick(r, []int{-1, -1, 17, 20, 5, 1}), 64)
			if strings.ContainsAny(s, "IN") {
				continue
			}
			lits = append(lits, strings.Replace(s, "e+", "e", r.Intn(2)))
		case 2: // the exact midpoint between two adjacent float64 (and a digit beside it)
			x := math.Abs(math.Float64frombits(r.Uint64()))
			if math.IsNaN(x) || math.IsInf(x, 0) || x == 0 {
				continue
			}
			y := math.Nextafter(x, math.Inf(1))
			if math.IsInf(y, 0) {
				continue
			}
			mid := new(big.Float).SetPrec(2200).Add(new(big.Float).SetPrec(2200).SetFloat64(x), new(big.Float).SetPrec(2200).SetFloat64(y))
			mid.Quo(mid, big.NewFloat(2))
			t := mid.Text('e', 800)
			lits = append(lits, trimExp(t))
			if r.Bool() {
				lits = append(lits, trimExp(mid.Text('e', r.Range(15, 40))))
			}
		case 3: // random decimal
			var sb strings.Builder
			if r.Chance(1, 4) {
				sb.WriteByte('-')
			}
			n := r.Range(1, 25)
			sb.WriteByte("123456789"[r.Intn(9)])
			for k := 1; k < n; k++ {
				sb.WriteByte("0123456789"[r.Intn(10)])
			}
			if r.Bool() {
				sb.WriteByte('.')
				for k := r.Range(1, 22); k > 0; k-- {
					sb.WriteByte("0123456789"[r.Intn(10)])
				}
			}
			if r.Chance(2, 3) {
				fmt.Fprintf(&sb, "%s%d", lib.Pick(r, []string{"e", "E", "e+", "e-", "e-"}), lib.Pick(r, []int{r.Intn(30), r.Intn(330), 0, 21, 22, 6, 7, 308, 309, 323, 324}))
			}
			lits = append(lits, sb.String())
		case 4: // integers around 2^k and 10^k
			k := r.Range(0, 80)
			b := new(big.Int).Lsh(big.NewInt(1), uint(k))
			if r.Bool() {
				b = new(big.Int).Exp(big.NewInt(10), big.NewInt(int64(r.Range(0, 30))), nil)
			}
			b.Add(b, big.NewInt(int64(r.Range(-3, 3))))
			if b.Sign() >= 0 {
				lits = append(lits, b.String())
			}
		default: // small decimals near the %e / %f switch
			lits = append(lits, fmt.Sprintf("%d.%de-%d", r.Intn(10), r.Intn(100000), r.Range(4, 9)), fmt.Sprintf("%de%d", r.Range(1, 9999), r.Range(17, 22)))
		}
	}
	var lines, kept []string
	for _, l := range lits {
		if !json.Valid([]byte(l)) || strings.ContainsAny(l, " \n") {
			continue
		}
		kept = append(kept, l)
		lines = append(lines, "f64 "+l)
	}
	answers, err := rn.drv.AskAll(lines)
	if err != nil {
		res.Fatalf("float tie: %v", err)
		res.Mismatch(lib.Mismatch{Sig: "harness-run-aborted", Model: err.Error()})
		return
	}
	for i, l := range kept {
		want := goRoundTrip(l)
		res.Case("f64:"+l, true)
		res.Compared(1)
		switch {
		case want == "err":
			res.Hit("f64:overflow")
		case strings.ContainsAny(want, "e"):
			res.Hit("f64:%e")
		default:
			res.Hit("f64:%f")
		}
		if answers[i] != want {
			res.Mismatch(lib.Mismatch{Sig: "float64 round trip: model and Go differ", Input: l, Model: answers[i], Impl: want})
		}
	}
}

func trimExp(t string) string { // big.Float writes e+05; JSON accepts that as well
	return t
}
