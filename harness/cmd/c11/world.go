//go:build verif

package main

import (
	"context"
	"encoding/json"
	"fmt"
	"math"
	"net/http"
	"reflect"
	"strings"
	"sync"
	"time"

	"github.com/NethermindEth/juno/core/felt"
	"github.com/NethermindEth/juno/jsonrpc"
	rpcv10 "github.com/NethermindEth/juno/rpc/v10"
	"github.com/NethermindEth/juno/utils/log"
	"verif/harness/lib"
)

// Parameter types of the recording handlers (names shared with the Lean driver).
var ptypes = []string{"any", "raw", "int", "str", "bool", "ptrInt", "ints", "vstruct", "bounds", "vslice", "vmap"}

type vstruct struct {
	A int `validate:"min=1"`
}

// the two custom validations of rpc/v10/validator.go, used the way rpc/v10/transaction_types.go does
type bounds struct {
	MaxAmount       *felt.Felt `json:"max_amount" validate:"required,felt_max_bits=64"`
	MaxPricePerUnit *felt.Felt `json:"max_price_per_unit" validate:"required,felt_max_bits=128"`
	Version         *felt.Felt `json:"version" validate:"required,version_0x3"`
}

var (
	anyType    = reflect.TypeOf((*any)(nil)).Elem()
	ctxType    = reflect.TypeOf((*context.Context)(nil)).Elem()
	errPtrType = reflect.TypeOf((*jsonrpc.Error)(nil))
	headerType = reflect.TypeOf(http.Header{})
	goTypes    = map[string]reflect.Type{
		"any":     anyType,
		"raw":     reflect.TypeOf(json.RawMessage{}),
		"int":     reflect.TypeOf(int(0)),
		"str":     reflect.TypeOf(""),
		"bool":    reflect.TypeOf(false),
		"ptrInt":  reflect.TypeOf((*int)(nil)),
		"ints":    reflect.TypeOf([]int(nil)),
		"vstruct": reflect.TypeOf(vstruct{}),
		"bounds":  reflect.TypeOf(bounds{}),
		"vslice":  reflect.TypeOf([]vstruct(nil)),
		"vmap":    reflect.TypeOf(map[string]*vstruct(nil)),
	}
)

type ParamSpec struct {
	Name     string `json:"name"`
	Optional bool   `json:"optional"`
	Ty       string `json:"ty"`
}

type MethodSpec struct {
	Name   string      `json:"name"`
	Beh    string      `json:"beh"` // echo fail internal nilres typednil both zeroint emptystr falseres failzero …
	Ctx    bool        `json:"ctx"` // handler takes a context.Context first
	Hdr    bool        `json:"hdr"` // handler returns (result, http.Header, *Error)
	Hold   bool        `json:"hold,omitempty"` // the handler reports that it was entered and blocks until the harness releases it
	Params []ParamSpec `json:"params"`
}

func (m *MethodSpec) required() int {
	n := 0
	for _, p := range m.Params {
		if !p.Optional {
			n++
		}
	}
	return n
}

// optionalTail: every optional parameter comes after every required one
func (m *MethodSpec) optionalTail() bool {
	seenOpt := false
	for _, p := range m.Params {
		if p.Optional {
			seenOpt = true
		} else if seenOpt {
			return false
		}
	}
	return true
}

type WorldSpec struct {
	Methods       []MethodSpec `json:"methods"`
	BatchDisabled bool         `json:"batch_disabled"`
	Pool          int          `json:"pool"`
}

type Call struct {
	Method string
	Args   []*J
}

func (c Call) String() string {
	parts := make([]string, len(c.Args))
	for i, a := range c.Args {
		parts[i] = a.String()
	}
	return c.Method + "(" + strings.Join(parts, ",") + ")"
}

// World is one real jsonrpc.Server with recording handlers.
type World struct {
	Spec   WorldSpec
	Server *jsonrpc.Server
	byName map[string]*MethodSpec

	mu      sync.Mutex
	calls   []Call
	recErrs []string

	// for handlers with Hold: entry notifications and the release signal (gate.go)
	entered chan string
	holdCh  chan struct{}
}

func (w *World) reset() {
	w.mu.Lock()
	w.calls = nil
	w.recErrs = nil
	w.mu.Unlock()
}

func (w *World) taken() ([]Call, []string) {
	w.mu.Lock()
	defer w.mu.Unlock()
	return append([]Call(nil), w.calls...), append([]string(nil), w.recErrs...)
}

func (w *World) handler(ms MethodSpec) any {
	in := []reflect.Type{}
	if ms.Ctx {
		in = append(in, ctxType)
	}
	for _, p := range ms.Params {
		in = append(in, goTypes[p.Ty])
	}
	resType := anyType
	if ms.Beh == "typednil" {
		resType = reflect.TypeOf((*int)(nil))
	}
	out := []reflect.Type{resType, errPtrType}
	if ms.Hdr {
		out = []reflect.Type{resType, headerType, errPtrType}
	}
	name, beh, hdr, ctx := ms.Name, ms.Beh, ms.Hdr, ms.Ctx
	hold := ms.Hold
	fn := func(args []reflect.Value) []reflect.Value {
		var problems []string
		if hold && w.entered != nil {
			w.entered <- name
			select {
			case <-w.holdCh:
			case <-time.After(60 * time.Second):
				problems = append(problems, name+": the harness never released the held handler")
			}
		}
		if ctx {
			if args[0].IsNil() {
				problems = append(problems, name+": nil context")
			} else if beh == "waitctx" {
				// a slow handler: it outlasts the request deadline, then answers like echo
				select {
				case <-args[0].Interface().(context.Context).Done():
				case <-time.After(15 * time.Second):
					problems = append(problems, name+": the request context was never cancelled")
				}
			}
			args = args[1:]
		}
		raws := make([]json.RawMessage, len(args))
		trees := make([]*J, len(args))
		for i, a := range args {
			b, err := json.Marshal(a.Interface())
			if err != nil {
				problems = append(problems, fmt.Sprintf("%s: arg %d does not marshal: %v", name, i, err))
				b = []byte("null")
			}
			raws[i] = b
			t, err := parseTree(b)
			if err != nil {
				problems = append(problems, fmt.Sprintf("%s: arg %d: %v", name, i, err))
				t = jNull()
			}
			trees[i] = t
		}
		w.mu.Lock()
		w.calls = append(w.calls, Call{Method: name, Args: trees})
		w.recErrs = append(w.recErrs, problems...)
		w.mu.Unlock()

		res := reflect.Zero(resType)
		errV := reflect.Zero(errPtrType)
		echo := func() {
			if len(raws) == 0 {
				raws = []json.RawMessage{}
			}
			res = reflect.New(resType).Elem()
			res.Set(reflect.ValueOf(raws))
		}
		switch beh {
		case "echo", "waitctx":
			echo()
		case "fail":
			e := &jsonrpc.Error{Code: 44, Message: "Expected Error"}
			if len(raws) > 0 {
				e.Data = raws[0]
			}
			errV = reflect.ValueOf(e)
		case "internal":
			errV = reflect.ValueOf(jsonrpc.Err(jsonrpc.InternalError, nil))
		case "nilres", "typednil":
			// zero values: untyped nil inside `any`, resp. a nil *int
		case "unmarshalable":
			res = reflect.New(resType).Elem()
			res.Set(reflect.ValueOf(math.NaN())) // json.Marshal: unsupported value
		case "panic":
			panic("verif: handler failure")
		case "both":
			echo()
			errV = reflect.ValueOf(&jsonrpc.Error{Code: 7, Message: "both"})
		// round 5: results and errors that are legitimately "zero" — a 0, an empty string, false, an error whose
		// code, message and data are zero values — must reach the caller as they are, not as null / absent
		case "zeroint":
			res = reflect.New(resType).Elem()
			res.Set(reflect.ValueOf(0))
		case "emptystr":
			res = reflect.New(resType).Elem()
			res.Set(reflect.ValueOf(""))
		case "falseres":
			res = reflect.New(resType).Elem()
			res.Set(reflect.ValueOf(false))
		case "failzero":
			errV = reflect.ValueOf(&jsonrpc.Error{Code: 0, Message: "", Data: 0})
		}
		if hdr {
			h := http.Header{}
			h.Set("X-Verif-Method", name)
			h.Set("X-Verif-Argc", fmt.Sprint(len(raws)))
			if name == "ctype" {
				h.Set("Content-Type", "text/plain")
			}
			return []reflect.Value{res, reflect.ValueOf(h), errV}
		}
		return []reflect.Value{res, errV}
	}
	return reflect.MakeFunc(reflect.FuncOf(in, out, false), fn).Interface()
}

func NewWorld(spec WorldSpec) (*World, error) { return NewWorldOpt(spec, log.NewNopZapLogger(), nil) }

// NewWorldOpt: a world whose server logs to `logger` and (if non-nil) reports to `listener`
func NewWorldOpt(spec WorldSpec, logger log.StructuredLogger, listener jsonrpc.EventListener) (*World, error) {
	w := &World{Spec: spec, byName: map[string]*MethodSpec{}}
	if spec.Pool <= 0 {
		spec.Pool = 4
	}
	s := jsonrpc.NewServer(spec.Pool, logger).WithValidator(rpcv10.Validator())
	if listener != nil {
		s.WithListener(listener)
	}
	s.DisableBatchRequests(spec.BatchDisabled)
	for i := range spec.Methods {
		ms := spec.Methods[i]
		ps := make([]jsonrpc.Parameter, len(ms.Params))
		for j, p := range ms.Params {
			ps[j] = jsonrpc.Parameter{Name: p.Name, Optional: p.Optional}
		}
		if err := s.RegisterMethods(jsonrpc.Method{Name: ms.Name, Params: ps, Handler: w.handler(ms)}); err != nil {
			return nil, fmt.Errorf("register %s: %w", ms.Name, err)
		}
		w.byName[ms.Name] = &w.Spec.Methods[i]
	}
	w.Server = s
	return w, nil
}

// tblLine is the `tbl` request that gives the Lean driver the same method table.
func (w *World) tblLine() string {
	var sb strings.Builder
	fmt.Fprintf(&sb, "tbl %d", len(w.Spec.Methods))
	for _, m := range w.Spec.Methods {
		fmt.Fprintf(&sb, " %s %s %d", strTok(m.Name), m.Beh, len(m.Params))
		for _, p := range m.Params {
			o := 0
			if p.Optional {
				o = 1
			}
			fmt.Fprintf(&sb, " %s %d %s", strTok(p.Name), o, p.Ty)
		}
	}
	return sb.String()
}

// fixedWorld: one method per signature shape the server supports.
func fixedWorld(batchDisabled bool, pool int) WorldSpec {
	P := func(n string, opt bool, ty string) ParamSpec { return ParamSpec{n, opt, ty} }
	return WorldSpec{BatchDisabled: batchDisabled, Pool: pool, Methods: []MethodSpec{
		{Name: "noargs", Beh: "echo"},
		{Name: "ctxonly", Beh: "echo", Ctx: true},
		{Name: "echo", Beh: "echo", Params: []ParamSpec{P("a", false, "any"), P("b", true, "ptrInt")}},
		{Name: "sub", Beh: "echo", Ctx: true, Params: []ParamSpec{P("minuend", false, "int"), P("subtrahend", false, "int")}},
		{Name: "opt3", Beh: "echo", Params: []ParamSpec{P("num", false, "ptrInt"), P("flag", true, "bool"), P("msg", true, "any")}},
		{Name: "allopt", Beh: "echo", Ctx: true, Hdr: true, Params: []ParamSpec{P("x", true, "int"), P("y", true, "str")}},
		{Name: "hdr", Beh: "echo", Hdr: true, Params: []ParamSpec{P("s", false, "str")}},
		{Name: "vs", Beh: "echo", Params: []ParamSpec{P("param", false, "vstruct")}},
		{Name: "bnd", Beh: "echo", Ctx: true, Params: []ParamSpec{P("bounds", false, "bounds"), P("tag", true, "raw")}},
		{Name: "list", Beh: "echo", Params: []ParamSpec{P("xs", false, "ints"), P("raw", true, "raw")}},
		{Name: "vsl", Beh: "echo", Ctx: true, Params: []ParamSpec{P("items", false, "vslice"), P("byname", true, "vmap")}},
		{Name: "fail", Beh: "fail", Params: []ParamSpec{P("data", true, "raw")}},
		{Name: "internal", Beh: "internal", Hdr: true},
		{Name: "nilres", Beh: "nilres", Params: []ParamSpec{P("x", true, "int")}},
		{Name: "typednil", Beh: "typednil"},
		{Name: "both", Beh: "both", Params: []ParamSpec{P("x", true, "int")}},
		{Name: "zero", Beh: "zeroint", Params: []ParamSpec{P("x", true, "ptrInt")}},
		{Name: "empty", Beh: "emptystr", Ctx: true},
		{Name: "no", Beh: "falseres", Hdr: true, Params: []ParamSpec{P("x", true, "bool")}},
		{Name: "fail0", Beh: "failzero", Params: []ParamSpec{P("x", true, "int")}},
	}}
}

// faultyWorld: handlers that return an unmarshallable value or panic, next to well-behaved ones
func faultyWorld(pool int) WorldSpec {
	P := func(n string, opt bool, ty string) ParamSpec { return ParamSpec{n, opt, ty} }
	return WorldSpec{Pool: pool, Methods: []MethodSpec{
		{Name: "noargs", Beh: "echo"},
		{Name: "echo", Beh: "echo", Ctx: true, Params: []ParamSpec{P("a", false, "any"), P("b", true, "ptrInt")}},
		{Name: "nan", Beh: "unmarshalable", Params: []ParamSpec{P("x", true, "int")}},
		{Name: "nanhdr", Beh: "unmarshalable", Ctx: true, Hdr: true},
		{Name: "boom", Beh: "panic", Params: []ParamSpec{P("x", true, "raw")}},
		{Name: "boomctx", Beh: "panic", Ctx: true},
		{Name: "fail", Beh: "fail", Params: []ParamSpec{P("data", true, "raw")}},
	}}
}

var paramNamePool = []string{"a", "b", "c", "block_id", "A", "ſ", "id", "params", "x y", "é", "a,b", ""}
var methodNamePool = []string{"m0", "m1", "m2", "starknet_call", "Method", "méthode", "m 3", "rpc.x", "2.0", "m,4"}

// randomWorld: random table (parameter counts, optional flags anywhere, types, shapes).
func randomWorld(r *lib.RNG) WorldSpec {
	spec := WorldSpec{Pool: r.Range(1, 8), BatchDisabled: r.Chance(1, 8)}
	names := append([]string(nil), methodNamePool...)
	lib.Shuffle(r, names)
	nm := r.Range(2, 7)
	for i := 0; i < nm; i++ {
		m := MethodSpec{Name: names[i], Ctx: r.Bool(), Hdr: r.Chance(1, 4)}
		m.Beh = lib.Pick(r, []string{"echo", "echo", "echo", "echo", "echo", "fail", "internal", "nilres", "typednil", "both",
			"zeroint", "emptystr", "falseres", "failzero"})
		pn := append([]string(nil), paramNamePool...)
		lib.Shuffle(r, pn)
		np := lib.Pick(r, []int{0, 1, 1, 2, 2, 3, 3, 4, 5})
		tail := r.Chance(4, 5) // optional parameters form a tail in most tables
		firstOpt := r.Range(0, np)
		for k := 0; k < np; k++ {
			opt := k >= firstOpt
			if !tail {
				opt = r.Bool()
			}
			m.Params = append(m.Params, ParamSpec{Name: pn[k], Optional: opt, Ty: lib.Pick(r, ptypes)})
		}
		spec.Methods = append(spec.Methods, m)
	}
	if r.Chance(1, 5) { // a name registered twice: the later registration replaces the earlier one
		dup := spec.Methods[r.Intn(len(spec.Methods))]
		dup.Beh = lib.Pick(r, []string{"echo", "fail", "both"})
		dup.Ctx = !dup.Ctx
		if len(dup.Params) > 0 && r.Bool() {
			dup.Params = dup.Params[:len(dup.Params)-1]
		} else {
			dup.Params = append(append([]ParamSpec(nil), dup.Params...), ParamSpec{Name: "dupextra", Optional: r.Bool(), Ty: lib.Pick(r, ptypes)})
		}
		spec.Methods = append(spec.Methods, dup)
	}
	return spec
}
