//go:build verif

package main

import (
	"bytes"
	"encoding/hex"
	"encoding/json"
	"fmt"
	"io"
	"sort"
	"strconv"
	"strings"
)

// J is a JSON value as Go's decoder sees it with UseNumber: numbers keep their literal text,
// objects keep member order and duplicate members.
type J struct {
	K byte // 'n' null, 't' true, 'f' false, '#' number, 's' string, '[' array, '{' object
	S string
	A []*J
	O []KV
}

type KV struct {
	K string
	V *J
}

func jNull() *J            { return &J{K: 'n'} }
func jBool(b bool) *J      { return &J{K: map[bool]byte{true: 't', false: 'f'}[b]} }
func jNum(t string) *J     { return &J{K: '#', S: t} }
func jInt(i int64) *J      { return &J{K: '#', S: strconv.FormatInt(i, 10)} }
func jStr(s string) *J     { return &J{K: 's', S: s} }
func jArr(xs ...*J) *J     { return &J{K: '[', A: xs} }
func jObj(kvs ...KV) *J    { return &J{K: '{', O: kvs} }
func kv(k string, v *J) KV { return KV{k, v} }

func (j *J) get(k string) *J {
	if j == nil || j.K != '{' {
		return nil
	}
	for _, m := range j.O {
		if m.K == k {
			return m.V
		}
	}
	return nil
}

func (j *J) count(k string) int {
	n := 0
	if j != nil && j.K == '{' {
		for _, m := range j.O {
			if m.K == k {
				n++
			}
		}
	}
	return n
}

// firstValue returns the first JSON value of the stream exactly as the server's decoder
// delimits it (same scanner: json.Decoder.Decode), or an error if it does not parse.
func firstValue(in []byte) (json.RawMessage, error) {
	dec := json.NewDecoder(bytes.NewReader(in))
	var raw json.RawMessage
	if err := dec.Decode(&raw); err != nil {
		return nil, err
	}
	return raw, nil
}

// parseTree turns syntactically valid JSON into a J, keeping duplicates and order.
func parseTree(raw []byte) (*J, error) {
	dec := json.NewDecoder(bytes.NewReader(raw))
	dec.UseNumber()
	v, err := parseTok(dec)
	if err != nil {
		return nil, err
	}
	if _, err := dec.Token(); err != io.EOF {
		return nil, fmt.Errorf("trailing data after JSON value")
	}
	return v, nil
}

func parseTok(dec *json.Decoder) (*J, error) {
	t, err := dec.Token()
	if err != nil {
		return nil, err
	}
	switch x := t.(type) {
	case nil:
		return jNull(), nil
	case bool:
		return jBool(x), nil
	case json.Number:
		return jNum(string(x)), nil
	case string:
		return jStr(x), nil
	case json.Delim:
		switch x {
		case '[':
			out := &J{K: '[', A: []*J{}}
			for dec.More() {
				e, err := parseTok(dec)
				if err != nil {
					return nil, err
				}
				out.A = append(out.A, e)
			}
			if _, err := dec.Token(); err != nil {
				return nil, err
			}
			return out, nil
		case '{':
			out := &J{K: '{', O: []KV{}}
			for dec.More() {
				kt, err := dec.Token()
				if err != nil {
					return nil, err
				}
				ks, ok := kt.(string)
				if !ok {
					return nil, fmt.Errorf("non-string key")
				}
				e, err := parseTok(dec)
				if err != nil {
					return nil, err
				}
				out.O = append(out.O, KV{ks, e})
			}
			if _, err := dec.Token(); err != nil {
				return nil, err
			}
			return out, nil
		}
	}
	return nil, fmt.Errorf("unexpected token %v", t)
}

// ---- token form for the Lean driver -----------------------------------------------------

func strTok(s string) string { return "s" + hex.EncodeToString([]byte(s)) }

func (j *J) tokens(sb *strings.Builder) {
	switch j.K {
	case 'n', 't', 'f':
		sb.WriteByte(j.K)
	case '#':
		sb.WriteByte('#')
		sb.WriteString(j.S)
	case 's':
		sb.WriteString(strTok(j.S))
	case '[':
		sb.WriteString("[" + strconv.Itoa(len(j.A)))
		for _, e := range j.A {
			sb.WriteByte(' ')
			e.tokens(sb)
		}
	case '{':
		sb.WriteString("{" + strconv.Itoa(len(j.O)))
		for _, m := range j.O {
			sb.WriteByte(' ')
			sb.WriteString(strTok(m.K))
			sb.WriteByte(' ')
			m.V.tokens(sb)
		}
	}
}

func fromTokens(toks []string) (*J, []string, error) {
	if len(toks) == 0 {
		return nil, nil, fmt.Errorf("out of tokens")
	}
	t, rest := toks[0], toks[1:]
	switch t[0] {
	case 'n', 't', 'f':
		if len(t) != 1 {
			return nil, nil, fmt.Errorf("bad token %q", t)
		}
		return &J{K: t[0]}, rest, nil
	case '#':
		return jNum(t[1:]), rest, nil
	case 's':
		b, err := hex.DecodeString(t[1:])
		if err != nil {
			return nil, nil, err
		}
		return jStr(string(b)), rest, nil
	case '[':
		n, err := strconv.Atoi(t[1:])
		if err != nil {
			return nil, nil, err
		}
		out := &J{K: '[', A: make([]*J, 0, n)}
		for i := 0; i < n; i++ {
			var e *J
			e, rest, err = fromTokens(rest)
			if err != nil {
				return nil, nil, err
			}
			out.A = append(out.A, e)
		}
		return out, rest, nil
	case '{':
		n, err := strconv.Atoi(t[1:])
		if err != nil {
			return nil, nil, err
		}
		out := &J{K: '{', O: make([]KV, 0, n)}
		for i := 0; i < n; i++ {
			var k, e *J
			k, rest, err = fromTokens(rest)
			if err != nil || k.K != 's' {
				return nil, nil, fmt.Errorf("bad key token")
			}
			e, rest, err = fromTokens(rest)
			if err != nil {
				return nil, nil, err
			}
			out.O = append(out.O, KV{k.S, e})
		}
		return out, rest, nil
	}
	return nil, nil, fmt.Errorf("bad token %q", t)
}

// ---- canonical text (objects sorted by key, stable) and comparison ----------------------

const opaqueMarker = "\x01?"

func (j *J) canon(sb *strings.Builder) {
	switch j.K {
	case 'n':
		sb.WriteString("null")
	case 't':
		sb.WriteString("true")
	case 'f':
		sb.WriteString("false")
	case '#':
		sb.WriteString(j.S)
	case 's':
		b, _ := json.Marshal(j.S)
		sb.Write(b)
	case '[':
		sb.WriteByte('[')
		for i, e := range j.A {
			if i > 0 {
				sb.WriteByte(',')
			}
			e.canon(sb)
		}
		sb.WriteByte(']')
	case '{':
		ms := append([]KV(nil), j.O...)
		sort.SliceStable(ms, func(a, b int) bool { return ms[a].K < ms[b].K })
		sb.WriteByte('{')
		for i, m := range ms {
			if i > 0 {
				sb.WriteByte(',')
			}
			b, _ := json.Marshal(m.K)
			sb.Write(b)
			sb.WriteByte(':')
			m.V.canon(sb)
		}
		sb.WriteByte('}')
	}
}

func (j *J) String() string {
	if j == nil {
		return "<none>"
	}
	var sb strings.Builder
	j.canon(&sb)
	return sb.String()
}

// sameJSON compares two values modulo object member order. A model-side opaque marker matches
// any implementation value.
func sameJSON(model, impl *J) bool {
	if model == nil || impl == nil {
		return model == impl
	}
	if model.K == 's' && model.S == opaqueMarker {
		return true
	}
	if model.K != impl.K {
		return false
	}
	switch model.K {
	case '#', 's':
		return model.S == impl.S
	case '[':
		if len(model.A) != len(impl.A) {
			return false
		}
		for i := range model.A {
			if !sameJSON(model.A[i], impl.A[i]) {
				return false
			}
		}
	case '{':
		if len(model.O) != len(impl.O) {
			return false
		}
		a := append([]KV(nil), model.O...)
		b := append([]KV(nil), impl.O...)
		sort.SliceStable(a, func(x, y int) bool { return a[x].K < a[y].K })
		sort.SliceStable(b, func(x, y int) bool { return b[x].K < b[y].K })
		for i := range a {
			if a[i].K != b[i].K || !sameJSON(a[i].V, b[i].V) {
				return false
			}
		}
	}
	return true
}

func sortedBytes(s string) string {
	b := []byte(s)
	sort.Slice(b, func(i, j int) bool { return b[i] < b[j] })
	return string(b)
}

// ---- writer with a choice of layout (used by the generator) ------------------------------

type layout struct {
	ws     func() string // whitespace between tokens
	escape func(rune) bool
}

func (j *J) write(sb *strings.Builder, l *layout) {
	ws := func() {
		if l != nil && l.ws != nil {
			sb.WriteString(l.ws())
		}
	}
	switch j.K {
	case 'n':
		sb.WriteString("null")
	case 't':
		sb.WriteString("true")
	case 'f':
		sb.WriteString("false")
	case '#':
		sb.WriteString(j.S)
	case 's':
		writeString(sb, j.S, l)
	case '[':
		sb.WriteByte('[')
		for i, e := range j.A {
			if i > 0 {
				sb.WriteByte(',')
			}
			ws()
			e.write(sb, l)
		}
		ws()
		sb.WriteByte(']')
	case '{':
		sb.WriteByte('{')
		for i, m := range j.O {
			if i > 0 {
				sb.WriteByte(',')
			}
			ws()
			writeString(sb, m.K, l)
			ws()
			sb.WriteByte(':')
			ws()
			m.V.write(sb, l)
		}
		ws()
		sb.WriteByte('}')
	}
}

func writeString(sb *strings.Builder, s string, l *layout) {
	sb.WriteByte('"')
	for _, r := range s {
		switch {
		case r == '"':
			sb.WriteString(`\"`)
		case r == '\\':
			sb.WriteString(`\\`)
		case r < 0x20:
			fmt.Fprintf(sb, `\u%04x`, r)
		case l != nil && l.escape != nil && r < 0x10000 && l.escape(r):
			fmt.Fprintf(sb, `\u%04x`, r)
		default:
			sb.WriteRune(r)
		}
	}
	sb.WriteByte('"')
}

func (j *J) bytes(l *layout) []byte {
	var sb strings.Builder
	j.write(&sb, l)
	return []byte(sb.String())
}
