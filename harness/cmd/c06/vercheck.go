//go:build verif

package main

import (
	"fmt"
	"strings"

	"github.com/NethermindEth/juno/core"
	"verif/harness/lib"
)

// ---------------------------------------------------------------------------------------------
// core.ParseBlockVersion / core.CheckBlockVersion (the first check of verifyBlockSuccession inside
// Store) against the Lean transcription (`parseBlockVersion`, `checkBlockVersion`; driver op `ver`):
// every string over a small alphabet up to length 5, boundary strings around core.LatestVer, the
// 31-byte limit, uint64 overflow, signs, blanks, non-ASCII digits, and random strings.
// ---------------------------------------------------------------------------------------------

func realVersion(v string) string {
	sv, err := core.ParseBlockVersion(v)
	if err != nil {
		switch m := err.Error(); {
		case strings.Contains(m, "bytes long"):
			return "err:too-long"
		case strings.Contains(m, "cannot parse"):
			return "err:bad-number"
		default:
			return "err:" + m
		}
	}
	sup := 0
	if core.CheckBlockVersion(v) == nil {
		sup = 1
	}
	return fmt.Sprintf("ok %d %d %d supported=%d", sv.Major(), sv.Minor(), sv.Patch(), sup)
}

func versionStrings(f lib.Flags) []string {
	var out []string
	alpha := []string{"0", "1", "5", ".", "x"}
	var rec func(prefix string, left int)
	rec = func(prefix string, left int) {
		out = append(out, prefix)
		if left == 0 {
			return
		}
		for _, a := range alpha {
			rec(prefix+a, left-1)
		}
	}
	rec("", 5)
	out = append(out,
		"0.14.1", "0.14.2", "0.14.0", "0.14", "0.15", "0.15.0", "0.13.2", "0.13.4", "0.0.0", "1.0.0", "1.14.1", "0.14.99999", "0.014.1", "00.14.1", "00.015.1",
		"0.18446744073709551615.0", "0.18446744073709551616.0", "18446744073709551615", "18446744073709551616", "0.14.18446744073709551616",
		"0.14.1.x", "0.14.1.", "0.14..1", ".0.14", "0.14.x", "0.x.1", "x.14.1", "+0.14.1", "-0.14.1", " 0.14.1", "0.14.1 ", "0_0.14.1", "0x0.14.1", "0.1_4.1",
		"٠.14.1", "0.14.1.é", "0。14。1", "0,14,1", "0.14.1\n", "\t0.14",
		"0.14."+strings.Repeat("0", 25)+"1", // 31 bytes
		"0.14."+strings.Repeat("0", 26)+"1", // 32 bytes
		strings.Repeat("0", 31), strings.Repeat("0", 32), strings.Repeat("9", 20), strings.Repeat("9", 19),
		"0.14.1."+strings.Repeat("x", 24), "0.14.1."+strings.Repeat("x", 25), // 31 / 32 bytes, garbage in the part that is not read
		"0.14.1."+strings.Repeat("x", 22)+"é", "0.14.1."+strings.Repeat("x", 23)+"é", // 31 / 32 BYTES with a 2-byte rune
		"0.15."+strings.Repeat("1", 26), "1."+strings.Repeat(".", 29), strings.Repeat(".", 31), strings.Repeat(".", 32),
	)
	r := lib.NewRNG(f.Seed ^ 0x7E12)
	chars := []byte("0123456789..  +-x")
	for i := 0; i < f.Scale(1500, 30000); i++ {
		n := r.Intn(34)
		b := make([]byte, n)
		for k := range b {
			if r.Chance(4, 5) {
				b[k] = chars[r.Intn(11)] // digits and dots
			} else {
				b[k] = chars[r.Intn(len(chars))]
			}
		}
		out = append(out, string(b))
	}
	// numerals around the limits, in every position
	for _, a := range []string{"0", "1", "14", "15", "18446744073709551615", "18446744073709551616"} {
		for _, b := range []string{"0", "13", "14", "15", "99", "18446744073709551615"} {
			for _, c := range []string{"", "0", "1", "x"} {
				v := a + "." + b
				if c != "" {
					v += "." + c
				}
				out = append(out, v)
			}
		}
	}
	return out
}

func checkVersions(f lib.Flags, res *lib.Result, drv *lib.Driver) {
	if drv == nil {
		return
	}
	seen := map[string]bool{}
	for _, v := range versionStrings(f) {
		if seen[v] {
			continue
		}
		seen[v] = true
		real := realVersion(v)
		model, err := drv.Ask("ver " + verHex(v))
		if err != nil {
			res.Fatalf("version check: Lean driver failed: %v", err)
			return
		}
		if model == "bad-op" {
			res.Fatalf("version check: the driver answered bad-op to version %q", v)
			return
		}
		res.Case("version/"+v, true)
		res.Compared(1)
		switch {
		case strings.HasSuffix(real, "supported=1"):
			res.Hit("version:supported")
		case strings.HasPrefix(real, "ok"):
			res.Hit("version:unsupported")
		default:
			res.Hit("version:" + real)
		}
		if real != model {
			res.Mismatch(lib.Mismatch{Sig: "version-gate-differs-from-model", Input: map[string]any{"version": v, "hex": verHex(v)}, Model: model, Impl: real})
		}
	}
}
