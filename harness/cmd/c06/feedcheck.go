//go:build verif

package main

import (
	"fmt"
	"strings"
	"time"

	"github.com/NethermindEth/juno/feed"
	"verif/harness/lib"
)

// ---------------------------------------------------------------------------------------------
// feed.Feed driven directly (single goroutine: Send is non-blocking, receiving is done with a
// non-blocking select, so every operation sequence has ONE outcome). The real type, the Lean model
// (`feed ...` driver ops) and a per-subscriber reference written without any shared state must
// agree on every answer.
// ---------------------------------------------------------------------------------------------

type feedOp struct {
	Kind string `json:"op"`            // sub | unsub | send | recv
	Arg  int    `json:"arg,omitempty"` // sub: 1 = keep-last; unsub/recv: handle; send: value
}

func (o feedOp) line() string { return fmt.Sprintf("feed %s %d", o.Kind, o.Arg) }

func runFeedReal(ops []feedOp) (outs []string, panicMsg string) {
	err, panicked, _ := lib.Try(func() error {
		f := feed.New[int]()
		var subs []*feed.Subscription[int]
		for _, op := range ops {
			switch op.Kind {
			case "sub":
				if op.Arg == 1 {
					subs = append(subs, f.SubscribeKeepLast())
				} else {
					subs = append(subs, f.Subscribe())
				}
				outs = append(outs, fmt.Sprintf("h%d", len(subs)-1))
			case "unsub":
				if op.Arg >= len(subs) {
					outs = append(outs, "bad-handle")
					continue
				}
				subs[op.Arg].Unsubscribe()
				outs = append(outs, "ok")
			case "send":
				f.Send(op.Arg)
				outs = append(outs, "ok")
			case "recv":
				if op.Arg >= len(subs) {
					outs = append(outs, "bad-handle")
					continue
				}
				select {
				case v, ok := <-subs[op.Arg].Recv():
					if ok {
						outs = append(outs, fmt.Sprintf("val %d", v))
					} else {
						outs = append(outs, "closed")
					}
				default:
					outs = append(outs, "empty")
				}
			}
		}
		return nil
	})
	if panicked {
		return outs, err.Error()
	}
	return outs, ""
}

// feedReference: what each subscriber must see, computed per subscriber alone.
func feedReference(ops []feedOp) []string {
	type sub struct {
		keepLast, closed bool
		buf              *int
	}
	var subs []*sub
	var outs []string
	for _, op := range ops {
		switch op.Kind {
		case "sub":
			subs = append(subs, &sub{keepLast: op.Arg == 1})
			outs = append(outs, fmt.Sprintf("h%d", len(subs)-1))
		case "unsub":
			if op.Arg >= len(subs) {
				outs = append(outs, "bad-handle")
				continue
			}
			subs[op.Arg].closed = true
			outs = append(outs, "ok")
		case "send":
			v := op.Arg
			for _, s := range subs {
				if !s.closed && (s.buf == nil || s.keepLast) {
					vv := v
					s.buf = &vv
				}
			}
			outs = append(outs, "ok")
		case "recv":
			if op.Arg >= len(subs) {
				outs = append(outs, "bad-handle")
				continue
			}
			s := subs[op.Arg]
			switch {
			case s.buf != nil:
				outs = append(outs, fmt.Sprintf("val %d", *s.buf))
				s.buf = nil
			case s.closed:
				outs = append(outs, "closed")
			default:
				outs = append(outs, "empty")
			}
		}
	}
	return outs
}

func kindOf(out string) string {
	if strings.HasPrefix(out, "val") {
		return "value"
	}
	return out
}

// feedSig classifies the first difference between the real feed and the reference.
func feedSig(ops []feedOp) (sig, what string) {
	got, pm := runFeedReal(ops)
	if pm != "" {
		return "feed-panics", pm
	}
	want := feedReference(ops)
	for i := range want {
		if i >= len(got) || got[i] != want[i] {
			g := "nothing"
			if i < len(got) {
				g = got[i]
			}
			if kindOf(g) == kindOf(want[i]) {
				return "feed-subscriber-receives-wrong-value", fmt.Sprintf("op %d (%s %d): got %q, must be %q", i, ops[i].Kind, ops[i].Arg, g, want[i])
			}
			return fmt.Sprintf("feed-subscriber-gets-%s-where-%s-is-due", kindOf(g), kindOf(want[i])),
				fmt.Sprintf("op %d (%s %d): got %q, must be %q", i, ops[i].Kind, ops[i].Arg, g, want[i])
		}
	}
	return "", ""
}

// shrinkFeed removes operations (renumbering handles) while the same signature stays.
func shrinkFeed(ops []feedOp, sig string) []feedOp {
	for changed := true; changed; {
		changed = false
		for i := len(ops) - 1; i >= 0; i-- {
			var cand []feedOp
			if ops[i].Kind == "sub" {
				h := 0
				for _, o := range ops[:i] {
					if o.Kind == "sub" {
						h++
					}
				}
				ok := true
				for j, o := range ops {
					if j == i {
						continue
					}
					if o.Kind == "unsub" || o.Kind == "recv" {
						if o.Arg == h {
							ok = false
							break
						}
						if o.Arg > h {
							o.Arg--
						}
					}
					cand = append(cand, o)
				}
				if !ok {
					continue
				}
			} else {
				cand = append(append([]feedOp{}, ops[:i]...), ops[i+1:]...)
			}
			if s, _ := feedSig(cand); s == sig {
				ops, changed = cand, true
			}
		}
	}
	return ops
}

func genFeedOps(r *lib.RNG) []feedOp {
	n := r.Range(4, 40)
	var ops []feedOp
	subs, v := 0, 0
	for i := 0; i < n; i++ {
		switch k := r.Intn(20); {
		case k < 5 || subs == 0:
			ops = append(ops, feedOp{"sub", b2i(r.Chance(1, 3))})
			subs++
		case k < 9:
			ops = append(ops, feedOp{"unsub", r.Intn(subs)})
		case k < 15:
			v++
			ops = append(ops, feedOp{"send", v})
		default:
			ops = append(ops, feedOp{"recv", r.Intn(subs)})
		}
	}
	return ops
}

// checkFeeds: exhaustive small space + random sequences + Tee.
func checkFeeds(f lib.Flags, res *lib.Result, drv *lib.Driver) {
	var seqs [][]feedOp
	// every sequence of length 6 over {sub, unsub 0, unsub 1, send, recv 1, recv 2}
	alpha := []feedOp{{"sub", 0}, {"unsub", 0}, {"unsub", 1}, {"send", 0}, {"recv", 1}, {"recv", 2}}
	L := 6
	idx := make([]int, L)
	for {
		seq := make([]feedOp, L)
		v := 0
		for i, a := range idx {
			seq[i] = alpha[a]
			if seq[i].Kind == "send" {
				v++
				seq[i].Arg = v
			}
		}
		seqs = append(seqs, seq)
		i := L - 1
		for ; i >= 0; i-- {
			idx[i]++
			if idx[i] < len(alpha) {
				break
			}
			idx[i] = 0
		}
		if i < 0 {
			break
		}
	}
	exhaustive := len(seqs)
	r := lib.NewRNG(f.Seed ^ 0xFEED5)
	for i := 0; i < f.Scale(3000, 60000); i++ {
		seqs = append(seqs, genFeedOps(r.Fork(uint64(i))))
	}
	res.HitN("feed-model:exhaustive-sequences(len 6, 6 ops)", exhaustive)
	res.HitN("feed-model:random-sequences", len(seqs)-exhaustive)
	// Lean model answers, in one batch
	var lines []string
	for _, s := range seqs {
		lines = append(lines, "feed-init fresh")
		for _, o := range s {
			lines = append(lines, o.line())
		}
	}
	var model []string
	if drv != nil {
		var err error
		model, err = drv.AskAll(lines)
		if err != nil {
			res.Fatalf("feed check: Lean driver failed: %v", err)
			model = nil
		}
	}
	pos := 0
	reported := map[string]bool{}
	for _, s := range seqs {
		got, pm := runFeedReal(s)
		want := feedReference(s)
		res.Case("feed/"+fmt.Sprint(s), len(s) > 0)
		for _, o := range s {
			res.Hit("feed-op:" + o.Kind)
		}
		if sig, what := feedSig(s); sig != "" && !reported[sig] {
			reported[sig] = true
			small := shrinkFeed(s, sig)
			_, what2 := feedSig(small)
			if what2 != "" {
				what = what2
			}
			res.Violate(lib.Violation{Sig: sig, What: "feed.Feed: " + what + " (each subscriber must receive exactly the values sent while it is subscribed, whatever other subscribers do)",
				Replay: map[string]any{"feed_ops": small, "real": first(runFeedReal(small)), "must_be": feedReference(small)}})
		}
		if model != nil {
			pos++ // feed-init
			for i := range s {
				m := model[pos]
				pos++
				res.Compared(1)
				g := "panic: " + pm
				if i < len(got) {
					g = got[i]
				}
				if m == "bad-op" {
					res.Fatalf("feed check: the driver answered bad-op to %q", s[i].line())
				}
				if m != g {
					res.Mismatch(lib.Mismatch{Sig: "feed-model-differs", Input: s, Model: m, Impl: g})
					pos += len(s) - i - 1
					break
				}
			}
		}
		_ = want
	}
	if len(reported) == 0 {
		// Tee forwards in a goroutine of its own: with a feed that already misbehaves a panic there
		// would take the harness down before the findings are written
		checkTee(res)
	} else {
		res.Fatalf("Tee check skipped: feed.Feed already differs from its reference (a panic in Tee's goroutine would kill the harness)")
	}
}

func first(a []string, _ string) []string { return a }

// checkTee: values sent on one feed and tee-ed into another arrive (paced: one value at a time),
// nothing arrives after the source subscription was unsubscribed, and an unrelated subscriber of the
// target feed leaving does not matter.
func checkTee(res *lib.Result) {
	startHeartbeat()
	f1, f2 := feed.New[int](), feed.New[int]()
	s1 := f1.Subscribe()
	feed.Tee(s1, f2)
	other := f2.Subscribe()
	s2 := f2.Subscribe()
	recv := func(s *feed.Subscription[int]) (int, bool) {
		deadline := beats.Load() + 300
		for beats.Load() < deadline {
			select {
			case v, ok := <-s.Recv():
				return v, ok
			default:
				time.Sleep(50 * time.Microsecond)
			}
		}
		return -1, false
	}
	for v := 1; v <= 20; v++ {
		if v == 7 {
			other.Unsubscribe()
		}
		f1.Send(v)
		if v < 7 {
			if g, ok := recv(other); !ok || g != v {
				res.Violate(lib.Violation{Sig: "tee-does-not-forward", What: fmt.Sprintf("second subscriber of the target feed got %d,%v for %d", g, ok, v)})
				return
			}
		}
		if g, ok := recv(s2); !ok || g != v {
			res.Violate(lib.Violation{Sig: "tee-does-not-forward", What: fmt.Sprintf("value %d sent on the source feed: subscriber of the target feed got %d,%v", v, g, ok),
				Replay: map[string]any{"value": v}})
			return
		}
		res.Hit("feed-tee:forwarded")
	}
	s1.Unsubscribe()
	f1.Send(99)
	time.Sleep(2 * time.Millisecond)
	select {
	case v := <-s2.Recv():
		res.Violate(lib.Violation{Sig: "tee-forwards-after-unsubscribe", What: fmt.Sprintf("value %d arrived after the tee-ed subscription was unsubscribed", v)})
	default:
	}
	res.Case("feed/tee", true)
}
