//go:build verif

package main

import (
	"context"
	"errors"
	"math/big"
	"reflect"
	"strings"
	"sync"
	"sync/atomic"
	"time"

	"github.com/NethermindEth/juno/blockchain/networks"
	"github.com/NethermindEth/juno/core"
	"github.com/NethermindEth/juno/core/felt"
	"github.com/NethermindEth/juno/starknet"
	junosync "github.com/NethermindEth/juno/sync"
	"verif/harness/lib"
)

// Faults are per-request probabilities in percent, drawn deterministically from
// (seed, request kind, height, how many times this height was asked before).
type Faults struct {
	ErrPct      int `json:"err_pct"`                 // BlockByNumber / BlockHeaderLatest fails
	DelayPct    int `json:"delay_pct"`               // answer computed, then held back for a while
	MaxDelayUs  int `json:"max_delay_us"`            //
	CorruptPct  int `json:"corrupt_pct"`             // a committed field is changed, the hash kept
	WrongNumPct int `json:"wrong_num_pct"`           // a valid block of another height is served
	StalePct    int `json:"stale_pct"`               // latest: an older header of the CURRENT chain
	ClassErrPct int `json:"class_err_pct,omitempty"` // (feeder-gateway data source) a class fetch fails
	// LIES (the answer is not true of any chain the source ever had):
	LieLatestPct int `json:"lie_latest_pct,omitempty"` // latest: fabricated hash at a height <= tip / header of a previous epoch's chain / number beyond the chain
	LieHashPct   int `json:"lie_hash_pct,omitempty"`   // BlockByNumber: a block whose Hash field (and more) is altered — fails verification
	// BlockByNumber: a SELF-CONSISTENT forged block — an honest block with another claimed state root /
	// another state diff / another OldRoot, block hash and state update hash RECOMPUTED, right number and
	// parent: SanityCheckNewHeight accepts it; only Store's root verification can refuse it
	ForgePct int `json:"forge_pct,omitempty"`
	// ForgeTwin: forged answers may also be VALID twins (another timestamp, hash recomputed, true
	// roots): a block that passes every check and may be stored; the honest chain does not contain it
	ForgeTwin bool `json:"forge_twin,omitempty"`
	// CorruptEachKind: the first answers for every height go through ALL corruption kinds of corrupt()
	// one after the other (kinds the block has nothing for are skipped), then the source is honest
	CorruptEachKind bool `json:"corrupt_each_kind,omitempty"`
	Budget          int  `json:"budget"` // at most this many faulty answers per (kind, height); then honest
	// Rules script particular interleavings (directed scenarios): applied before the random faults.
	Rules []Rule `json:"rules,omitempty"`
}

// Rule: while the source is in epoch Epoch, a request for Height fails ("fail"), or its answer is
// computed at once and handed over only when the node has stored UntilStores blocks ("hold";
// at most 3 s), or is the (valid) block Height+1 ("wrong-num"), or is the block with an altered hash
// ("hash-altered"), or a self-consistent forged block ("forged": any kind, "forged-root": another
// claimed state root); "latest-fabricated": BlockHeaderLatest answers (Height, random hash).
type Rule struct {
	Height      uint64 `json:"height"`
	Epoch       int    `json:"epoch"`
	Action      string `json:"action"`
	UntilStores int    `json:"until_stores,omitempty"`
	Times       int    `json:"times,omitempty"` // apply at most this many times (0 = always)
	// Matching ("latest-fabricated"): the next request for block Height is answered with that block
	// carrying the fabricated hash in its Hash field (header lie and block lie agree with each other;
	// the block cannot pass verification)
	Matching bool `json:"matching_block,omitempty"`
	// AnyEmpty: instead of Height, the rule applies (once per height) to every requested block whose
	// honest state diff is EMPTY
	AnyEmpty bool `json:"any_empty_diff_block,omitempty"`
	used     int
	done     map[uint64]bool
}

// Trigger says when the source moves to the next epoch's chain.
type Trigger struct {
	AtReq    uint64 `json:"at_req,omitempty"`    // when this many requests have been answered, or
	AtHeight *int   `json:"at_height,omitempty"` // when the node's height first reaches this value
	AtStores int    `json:"at_stores,omitempty"` // or when the node has stored this many blocks in total
	// or as soon as an answer for this height has been computed (it may still be in flight)
	AfterServed *uint64 `json:"after_served,omitempty"`
}

type source struct {
	rec    *recorder
	chains [][]*lib.Bundle // chains[e] = the source's chain during epoch e
	trig   []Trigger       // trig[e] moves from epoch e to e+1
	faults Faults
	seed   uint64
	net    *networks.Network
	// sane runs the node's SanityCheckNewHeight on a forged answer (the generator checks its own work)
	sane func(*lib.Bundle) error
	// registerValid: a forged twin is a fully valid block; the store oracle must know it
	registerValid func(*lib.Bundle)
	selfErr       string

	mu       sync.Mutex
	epoch    int
	reqs     uint64
	asked    map[string]int // per (kind,height): number of requests so far
	faulted  map[string]int // per (kind,height): number of faulty answers so far
	handed   []handedOut
	notFound time.Duration

	// logical-time quiescence: honest latest answers since the last commit
	honestLatest  atomic.Int64
	hits          map[string]int
	servedHeights map[uint64]bool
	inflight      int // BlockByNumber calls currently being answered
	maxInflight   int
	// watchers of the Persisted channels (see handedOut); byBlock (feeder mode only): the real data
	// source makes its own Persisted channel, the answer is found again by the identity of its Block
	status   *statusTracker
	done     chan struct{}
	watchers sync.WaitGroup
	byBlock  map[*core.Block]int
	nextKind map[uint64]int        // CorruptEachKind: next corruption kind per height
	lastKind map[uint64]int        // CorruptEachKind: index (in handed) of the last corrupted answer per height
	pairHash map[uint64]*felt.Felt // a fabricated latest header (n, H) to be backed by a block answer carrying H
}

type handedOut struct {
	ch    chan error
	num   uint64
	valid bool
	fault string
	// the delivery's outcome (what storeTask / verifierTask sent on Persisted), observed by a watcher
	// goroutine: servedIdx = log position of the answer, outIdx = length of the log when the outcome was
	// seen (the decision was taken between the two)
	servedIdx int
	outIdx    int
	got       bool
	err       error
}

var errNotFound = errors.New("scripted source: block not found")
var errInjected = errors.New("scripted source: injected failure")

func (s *source) hit(name string) { s.hits[name]++ } // callers hold s.mu

func (s *source) curChain() []*lib.Bundle { return s.chains[s.epoch] }

// advance moves to later epochs while their triggers have fired. Callers hold s.mu.
func (s *source) advance() {
	for s.epoch < len(s.trig) {
		t := s.trig[s.epoch]
		fire := false
		if t.AtReq > 0 && s.reqs >= t.AtReq {
			fire = true
		}
		if t.AtHeight != nil {
			if h, ok := s.rec.head(); ok && int(h.num) >= *t.AtHeight {
				fire = true
			} else if !ok && *t.AtHeight < 0 {
				fire = true
			}
		}
		if t.AtStores > 0 {
			s.rec.mu.Lock()
			n := s.rec.stores
			s.rec.mu.Unlock()
			if n >= t.AtStores {
				fire = true
			}
		}
		if t.AfterServed != nil && s.servedHeights[*t.AfterServed] {
			fire = true
		}
		if !fire {
			return
		}
		s.epoch++
		s.rec.add(entry{Kind: eEpoch, Epoch: s.epoch})
		s.honestLatest.Store(0)
	}
}

func (s *source) requests() uint64 {
	s.mu.Lock()
	defer s.mu.Unlock()
	return s.reqs
}

// stable: the last epoch is active (no further reorg will happen).
func (s *source) stable() bool {
	s.mu.Lock()
	defer s.mu.Unlock()
	return s.epoch == len(s.chains)-1
}

func (s *source) dice(kind string, height uint64, attempt int) *lib.RNG {
	k := uint64(0)
	for _, c := range kind {
		k = k*131 + uint64(c)
	}
	return lib.NewRNG(s.seed ^ (k * 0x9E3779B97F4A7C15) ^ (height * 0xD6E8FEB86659FD93) ^ (uint64(attempt) * 0xA24BAED4963EE407))
}

func sleepCtx(ctx context.Context, d time.Duration) error {
	if d <= 0 {
		return nil
	}
	t := time.NewTimer(d)
	defer t.Stop()
	select {
	case <-ctx.Done():
		return ctx.Err()
	case <-t.C:
		return nil
	}
}

func (s *source) BlockByNumber(ctx context.Context, n uint64) (junosync.CommittedBlock, error) {
	s.rec.active("a BlockByNumber request")
	if err := ctx.Err(); err != nil { // like an HTTP client: a cancelled context fails the request
		return junosync.CommittedBlock{}, err
	}
	if s.status != nil {
		s.status.fetchBegin(ctx)
		defer s.status.fetchEnd(ctx)
	}
	s.mu.Lock()
	s.inflight++
	if s.inflight > s.maxInflight {
		s.maxInflight = s.inflight
	}
	defer func() { s.mu.Lock(); s.inflight--; s.mu.Unlock() }()
	s.reqs++
	s.advance()
	key := "b"
	attempt := s.asked[key+u64s(n)]
	s.asked[key+u64s(n)]++
	chain := s.curChain()
	epoch := s.epoch
	r := s.dice(key, n, attempt)
	budgetLeft := s.faulted[key+u64s(n)] < s.faults.Budget
	var delay time.Duration
	if budgetLeft && r.Chance(s.faults.DelayPct, 100) && s.faults.MaxDelayUs > 0 {
		delay = time.Duration(1+r.Intn(s.faults.MaxDelayUs)) * time.Microsecond
		s.hit("fault:delay")
	}
	if n >= uint64(len(chain)) {
		s.hit("fetch:not-found")
		s.mu.Unlock()
		s.rec.add(entry{Kind: eServeErr, Req: n, Epoch: epoch, Fault: "not-found"})
		// like a network round trip: keeps the fetcher's retry loop from spinning at full speed
		_ = sleepCtx(ctx, s.notFound)
		return junosync.CommittedBlock{}, errNotFound
	}
	fault := ""
	ruleHash := false
	holdUntil := 0
	for ri := range s.faults.Rules {
		ru := &s.faults.Rules[ri]
		match := ru.Height == n
		if ru.AnyEmpty {
			match = diffSize(chain[n].SU.StateDiff) == 0 && !ru.done[n]
		}
		if match && ru.Epoch == epoch && (ru.Times == 0 || ru.used < ru.Times) {
			ru.used++
			if ru.AnyEmpty {
				if ru.done == nil {
					ru.done = map[uint64]bool{}
				}
				ru.done[n] = true
			}
			switch ru.Action {
			case "wrong-num":
				if int(n)+1 < len(chain) {
					fault = "rule-wrong-num"
				}
			case "hash-altered":
				fault = "hash-altered"
				ruleHash = true
				s.hit("rule:hash-altered")
			case "forged", "forged-root", "forged-version":
				fault = ru.Action
				s.hit("rule:" + ru.Action)
			case "fail":
				s.hit("rule:fail")
				s.mu.Unlock()
				s.rec.add(entry{Kind: eServeErr, Req: n, Epoch: epoch, Fault: "rule-fail"})
				_ = sleepCtx(ctx, s.notFound)
				return junosync.CommittedBlock{}, errInjected
			case "hold":
				holdUntil = ru.UntilStores
				s.hit("rule:hold")
			}
		}
	}
	var pairH *felt.Felt
	if h, ok := s.pairHash[n]; ok && fault == "" {
		delete(s.pairHash, n)
		pairH = h
		fault = "hash-altered"
	}
	eachKind := -1
	var eachB *lib.Bundle
	var eachHow string
	if s.faults.CorruptEachKind && fault == "" {
		// only when the node waits for exactly this block (its answer will be verified next), and the
		// next kind only after the previous one was seen to be REFUSED (not cancelled on the way)
		waiting := false
		s.rec.mu.Lock()
		waiting = uint64(len(s.rec.chain)) == n
		s.rec.mu.Unlock()
		k := s.nextKind[n]
		if last, ok := s.lastKind[n]; ok && k > 0 {
			h := s.handed[last]
			refused := h.got && h.err != nil && !errors.Is(h.err, context.Canceled) && !errors.Is(h.err, context.DeadlineExceeded)
			if !refused {
				k-- // serve that kind again
			}
		}
		if !waiting && k < nCorruptKinds {
			// a block further ahead is not served yet (a parallel fetcher asks for it): it would be stored
			// right after its predecessor without ever being asked for again
			s.hit("each-kind:not-served-ahead-of-the-head")
			s.mu.Unlock()
			s.rec.add(entry{Kind: eServeErr, Req: n, Epoch: epoch, Fault: "each-kind-not-yet"})
			_ = sleepCtx(ctx, s.notFound)
			return junosync.CommittedBlock{}, errInjected
		}
		if waiting {
			for ; k < nCorruptKinds; k++ {
				if c, how := corruptKind(chain[n], k, r, s.net); c != nil {
					eachKind, eachB, eachHow = k, c, how
					break
				}
			}
			if eachKind >= 0 {
				s.nextKind[n] = eachKind + 1
				fault = "corrupt"
			} else {
				s.nextKind[n] = nCorruptKinds
				delete(s.lastKind, n)
			}
		}
	}
	if budgetLeft && fault == "" {
		switch {
		case r.Chance(s.faults.ErrPct, 100):
			fault = "err"
		case r.Chance(s.faults.CorruptPct, 100):
			fault = "corrupt"
		case r.Chance(s.faults.LieHashPct, 100):
			fault = "hash-altered"
		case r.Chance(s.faults.ForgePct, 100):
			fault = "forged"
		case r.Chance(s.faults.WrongNumPct, 100) && len(chain) > 1:
			fault = "wrong-num"
		}
	}
	if fault != "" && fault != "rule-wrong-num" {
		s.faulted[key+u64s(n)]++
		s.hit("fault:" + fault)
	}
	var b *lib.Bundle
	valid := true
	orig := chain[n]
	switch fault {
	case "err":
		s.mu.Unlock()
		s.rec.add(entry{Kind: eServeErr, Req: n, Epoch: epoch, Fault: "err"})
		_ = sleepCtx(ctx, delay)
		return junosync.CommittedBlock{}, errInjected
	case "corrupt":
		var how string
		if eachKind >= 0 {
			b, how = eachB, eachHow
			s.hit("each-kind:" + how)
		} else {
			b, how = corrupt(chain[n], r, s.net)
		}
		if (how == "class-definition" || how == "undeclared-class-entry") && s.byBlock != nil {
			// feeder mode: class definitions are fetched one by one from the adapter, the bundle's map
			// never reaches the node — this answer is the honest block
			b, how = chain[n].Clone(), ""
			fault = ""
			s.hit("fetch:ok")
			break
		}
		s.hit("corrupt:" + how)
		valid = false
		fault = "corrupt:" + how
	case "hash-altered":
		var how string
		if pairH != nil {
			b, how = chain[n].Clone(), "hash(matching the fabricated latest header)"
			b.Block.Hash, b.SU.BlockHash = pairH, pairH
		} else {
			b, how = alterHash(chain[n], r, ruleHash)
		}
		s.hit("lie:" + how)
		valid = false
		fault = "corrupt:" + how
	case "forged", "forged-root", "forged-version":
		// a twin (valid, may be stored) only as the successor the node is waiting for: as an answer to
		// revertTask it would be an undetectable lie about a block the node holds
		twinOK := s.faults.ForgeTwin && fault == "forged"
		if h, ok := s.rec.head(); twinOK && ok && h.num >= n {
			twinOK = false
		}
		var how string
		var err error
		mode := ""
		if fault != "forged" {
			mode = fault[len("forged-"):]
		}
		b, how, err = forge(chain[n], r, s.net, mode, twinOK)
		if err == nil && s.sane != nil {
			if e := s.sane(b); e != nil {
				err = errors.New("SanityCheckNewHeight refuses the forged block (" + how + "): " + e.Error())
			}
		}
		if err != nil {
			if s.selfErr == "" {
				s.selfErr = err.Error()
			}
			b, how = chain[n].Clone(), ""
			fault = ""
			break
		}
		s.hit("forged:" + how)
		fault = "forged:" + how
		valid = how == "twin"
		if valid && s.registerValid != nil {
			s.registerValid(b)
		}
	case "rule-wrong-num":
		b = chain[n+1].Clone()
		orig = chain[n+1]
		s.hit("rule:wrong-num")
	case "wrong-num":
		m := uint64(r.Intn(len(chain)))
		if m == n {
			m = (n + 1) % uint64(len(chain))
		}
		b = chain[m].Clone()
		orig = chain[m]
	default:
		b = chain[n].Clone()
		s.hit("fetch:ok")
	}
	ch := make(chan error, 1)
	s.handed = append(s.handed, handedOut{ch: ch, num: b.Block.Number, valid: valid, fault: fault, servedIdx: -1, outIdx: -1})
	hi := len(s.handed) - 1
	if eachKind >= 0 {
		s.lastKind[n] = hi
	}
	if s.byBlock != nil {
		s.byBlock[b.Block] = hi
	}
	s.servedHeights[n] = true
	s.advance()
	s.mu.Unlock()
	// the answer exists from now on (it was true of the source at this moment), even if it
	// reaches the synchroniser later
	ent := entry{Kind: eServed, Req: n, Num: b.Block.Number, Hash: *b.Block.Hash, Parent: *b.Block.ParentHash,
		Valid: valid, Fault: fault, Epoch: epoch, Orig: *orig.Block.Hash, RootSame: true, DiffSame: true,
		Sane: valid || strings.HasPrefix(fault, "forged:"), Ver: b.Block.ProtocolVersion}
	if !valid || fault != "" {
		ent.RootSame = b.Block.GlobalStateRoot.Equal(orig.Block.GlobalStateRoot) && b.SU.NewRoot.Equal(orig.SU.NewRoot) &&
			b.SU.OldRoot.Equal(orig.SU.OldRoot)
		ent.DiffSame = reflect.DeepEqual(b.SU.StateDiff, orig.SU.StateDiff) && len(b.Classes) == len(orig.Classes)
	}
	at := s.rec.addIdx(ent)
	s.mu.Lock()
	s.handed[hi].servedIdx = at
	s.mu.Unlock()
	if err := sleepCtx(ctx, delay); err != nil {
		// computed but never handed over: the caller sees a failed request
		s.rec.add(entry{Kind: eServeErr, Req: n, Epoch: epoch, Fault: "cancelled-in-flight"})
		return junosync.CommittedBlock{}, err
	}
	if holdUntil > 0 {
		startHeartbeat()
		deadline := beats.Load() + 300 // 3 s of a healthy process (heartbeats, not wall clock)
		for beats.Load() < deadline && ctx.Err() == nil {
			s.rec.mu.Lock()
			n := s.rec.stores
			s.rec.mu.Unlock()
			if n >= holdUntil {
				break
			}
			time.Sleep(100 * time.Microsecond)
		}
		if ctx.Err() != nil {
			s.rec.add(entry{Kind: eServeErr, Req: n, Epoch: epoch, Fault: "cancelled-in-flight"})
			return junosync.CommittedBlock{}, ctx.Err()
		}
	}
	if s.byBlock == nil {
		s.watch(hi, ch)
	}
	return junosync.CommittedBlock{Block: b.Block, StateUpdate: b.SU, NewClasses: b.Classes, Persisted: ch}, nil
}

// watch notes WHEN the outcome of a delivery arrives on its Persisted channel (and puts it back for
// the accounting at the end of the run).
func (s *source) watch(hi int, ch chan error) {
	if s.done == nil {
		return
	}
	s.watchers.Add(1)
	go func() {
		defer s.watchers.Done()
		select {
		case e := <-ch:
			s.rec.mu.Lock()
			at := len(s.rec.log)
			s.rec.mu.Unlock()
			s.mu.Lock()
			s.handed[hi].outIdx, s.handed[hi].err, s.handed[hi].got = at, e, true
			s.mu.Unlock()
			ch <- e
		case <-s.done:
		}
	}()
}

// adopt (feeder mode): the real data source wrapped the block served as answer hi into a
// CommittedBlock with its own Persisted channel.
func (s *source) adopt(blk *core.Block, persisted chan error) {
	s.mu.Lock()
	hi, ok := s.byBlock[blk]
	if ok {
		delete(s.byBlock, blk)
		s.handed[hi].ch = persisted
	}
	s.mu.Unlock()
	if ok {
		s.watch(hi, persisted)
	}
}

func (s *source) BlockHeaderLatest(ctx context.Context) (*core.Header, error) {
	s.mu.Lock()
	s.reqs++
	s.advance()
	attempt := s.asked["l"]
	s.asked["l"]++
	chain := s.curChain()
	epoch := s.epoch
	r := s.dice("l", uint64(epoch), attempt)
	budgetLeft := s.faulted["l"+u64s(uint64(epoch))] < s.faults.Budget*4
	fault := ""
	if budgetLeft {
		switch {
		case r.Chance(s.faults.ErrPct, 100):
			fault = "err"
		case r.Chance(s.faults.StalePct, 100) && len(chain) > 1:
			fault = "stale"
		case r.Chance(s.faults.LieLatestPct, 100) && len(chain) > 0:
			fault = lib.Pick(r, []string{"fabricated", "fabricated", "prev-epoch", "beyond"})
			if fault == "prev-epoch" && epoch == 0 {
				fault = "fabricated"
			}
		}
	}
	lieHeight := -1
	pairRule := false
	for ri := range s.faults.Rules {
		ru := &s.faults.Rules[ri]
		if ru.Action == "latest-fabricated" && ru.Epoch == epoch && (ru.Times == 0 || ru.used < ru.Times) && len(chain) > 0 {
			// only when the node waits at the tip: that is when isReverting looks at the header
			if h, ok := s.rec.head(); ok && int(h.num) == len(chain)-1 {
				ru.used++
				fault, lieHeight = "fabricated", int(ru.Height)
				pairRule = ru.Matching
				s.hit("rule:latest-fabricated")
			}
		}
	}
	if len(chain) == 0 {
		fault = "empty"
	}
	if fault != "" && fault != "empty" {
		s.faulted["l"+u64s(uint64(epoch))]++
		s.hit("fault:latest-" + fault)
	}
	var delay time.Duration
	if budgetLeft && r.Chance(s.faults.DelayPct, 100) && s.faults.MaxDelayUs > 0 {
		delay = time.Duration(1+r.Intn(s.faults.MaxDelayUs)) * time.Microsecond
	}
	if fault == "err" || fault == "empty" {
		s.mu.Unlock()
		s.rec.add(entry{Kind: eLatestErr, Epoch: epoch, Fault: fault})
		_ = sleepCtx(ctx, delay)
		return nil, errInjected
	}
	idx := len(chain) - 1
	if fault == "stale" {
		idx = r.Intn(len(chain) - 1)
	}
	h := lib.DeepCopy(chain[idx].Block.Header).(*core.Header)
	switch fault {
	case "fabricated":
		n := r.Intn(len(chain))
		if lieHeight >= 0 && lieHeight < len(chain) {
			n = lieHeight
		}
		h = lib.DeepCopy(chain[n].Block.Header).(*core.Header)
		h.Hash = new(felt.Felt).SetBytes(r.Bytes(31))
		if pairRule || (lieHeight < 0 && s.faults.LieHashPct > 0 && r.Bool()) {
			// the lie will be backed by the block answer: BlockByNumber(n) carries this hash too
			s.pairHash[uint64(n)] = h.Hash
			s.hit("lie:latest-fabricated-to-be-backed-by-a-matching-block")
		}
	case "prev-epoch":
		old := s.chains[r.Intn(epoch)]
		if len(old) > 0 {
			h = lib.DeepCopy(old[len(old)-1].Block.Header).(*core.Header)
		}
	case "beyond":
		h.Number = uint64(len(chain) + r.Intn(3))
		h.Hash = new(felt.Felt).SetBytes(r.Bytes(31))
	}
	s.hit("latest:ok")
	s.mu.Unlock()
	s.rec.add(entry{Kind: eLatest, Num: h.Number, Hash: *h.Hash, Epoch: epoch, Fault: fault})
	if fault == "" && delay == 0 {
		s.honestLatest.Add(1)
	}
	if err := sleepCtx(ctx, delay); err != nil {
		s.rec.add(entry{Kind: eLatestErr, Epoch: epoch, Fault: "cancelled-in-flight"})
		return nil, err
	}
	if s.status != nil {
		s.status.polled(ctx, h)
	}
	return h, nil
}

func (s *source) PreConfirmedBlockByNumber(ctx context.Context, n uint64, id string, known uint64) (starknet.PreConfirmedUpdate, error) {
	return nil, errors.New("not implemented")
}

func (s *source) PreConfirmedBlockLatest(ctx context.Context, id string, known uint64) (starknet.PreConfirmedUpdate, uint64, error) {
	return nil, 0, errors.New("not implemented")
}

func (s *source) Class(ctx context.Context, h *felt.Felt) (core.ClassDefinition, error) {
	return nil, errors.New("not implemented")
}

func u64s(n uint64) string {
	const d = "0123456789"
	if n == 0 {
		return "0"
	}
	var b [20]byte
	i := len(b)
	for n > 0 {
		i--
		b[i] = d[n%10]
		n /= 10
	}
	return string(b[i:])
}

// alterHash returns a copy of b that claims another hash (it cannot pass verification): the hash
// alone, hash and parent hash, or number and hash.
func alterHash(b *lib.Bundle, r *lib.RNG, keepNumber bool) (*lib.Bundle, string) {
	c := b.Clone()
	nh := new(felt.Felt).SetBytes(r.Bytes(31))
	c.Block.Hash = nh
	c.SU.BlockHash = nh
	kinds := 3
	if keepNumber {
		kinds = 2
	}
	switch r.Intn(kinds) {
	case 0:
		return c, "hash"
	case 1:
		c.Block.ParentHash = new(felt.Felt).SetBytes(r.Bytes(31))
		return c, "hash+parent"
	default:
		c.Block.Number += 1 + uint64(r.Intn(2))
		return c, "number+hash"
	}
}

// forge returns a SELF-CONSISTENT variant of the honest block b: one thing is changed, then the block
// hash is recomputed (core.BlockHash, the function Finalise uses) and put into the header and the
// state update, so that header, hash and state update agree with each other exactly as
// SanityCheckNewHeight demands; number and parent hash stay right. Kinds:
//
//	state-root  another claimed GlobalStateRoot / NewRoot (preferred for EMPTY diffs: "nothing to re-hash")
//	state-diff  another storage value in the diff, the honest block's root claim kept
//	old-root    another StateUpdate.OldRoot (the hash does not commit to it)
//	twin        another timestamp: a fully VALID block (true roots) that is not the source's block
//	unsupported-version  a protocol version above the latest supported one (true roots, right number and
//	            parent): passes SanityCheckNewHeight; only CheckBlockVersion inside Store's
//	            verifyBlockSuccession refuses it
//
// mode: "" = any kind, "root" = state-root, "version" = unsupported-version.
func forge(b *lib.Bundle, r *lib.RNG, net *networks.Network, mode string, twinOK bool) (*lib.Bundle, string, error) {
	c := b.Clone()
	one := lib.F(1)
	kind := "state-root"
	switch mode {
	case "root":
	case "version":
		kind = "unsupported-version"
	default:
		switch k := r.Intn(12); {
		case k < 5:
		case k < 7 && diffSize(c.SU.StateDiff) > 0 && len(c.SU.StateDiff.StorageDiffs) > 0:
			kind = "state-diff"
		case k < 8:
			kind = "old-root"
		case k < 10:
			kind = "unsupported-version"
		case twinOK:
			kind = "twin"
		}
	}
	switch kind {
	case "state-root":
		var nr *felt.Felt
		if r.Bool() {
			nr = new(felt.Felt).Add(c.Block.GlobalStateRoot, one)
		} else {
			nr = new(felt.Felt).SetBytes(r.Bytes(31))
		}
		c.Block.GlobalStateRoot = nr
		c.SU.NewRoot = nr
		if diffSize(c.SU.StateDiff) == 0 {
			kind = "state-root(empty-diff)"
		}
	case "state-diff":
		for a, kv := range c.SU.StateDiff.StorageDiffs {
			for k, v := range kv {
				c.SU.StateDiff.StorageDiffs[a][k] = new(felt.Felt).Add(v, lib.F(2))
				break
			}
			break
		}
	case "old-root":
		c.SU.OldRoot = new(felt.Felt).Add(c.SU.OldRoot, one)
		return c, kind, nil
	case "twin":
		c.Block.Timestamp++
	case "unsupported-version":
		c.Block.ProtocolVersion = lib.Pick(r, unsupportedVersions)
	}
	h1, _, err := core.BlockHash(c.Block, c.SU.StateDiff, net, nil, core.DeprecatedTrieBackend)
	if err != nil {
		return nil, kind, errors.New("forge: BlockHash: " + err.Error())
	}
	h2, _, err := core.BlockHash(c.Block, c.SU.StateDiff, net, nil, core.TrieBackend)
	if err != nil {
		return nil, kind, errors.New("forge: BlockHash: " + err.Error())
	}
	if !h1.Equal(&h2) {
		return nil, kind, errors.New("forge: the two trie backends give different block hashes")
	}
	c.Block.Hash = &h1
	c.SU.BlockHash = &h1
	if c.Block.Hash.Equal(b.Block.Hash) {
		return nil, kind, errors.New("forge: the block hash does not depend on the forged field (" + kind + ")")
	}
	return c, kind, nil
}

// unsupportedVersions straddle core.LatestVer (0.14.1; CheckBlockVersion compares major and minor only)
var unsupportedVersions = []string{"0.15.0", "0.15", "0.99.7", "1.0.0", "1.14.1", "2.0.0", "0.18446744073709551615.0", "00.015.1"}

// corrupt returns a copy of b with one thing changed so that EXACTLY ONE of the checks of
// SanityCheckNewHeight fails (block hash / state-update hash agreement, header root / state-update root
// agreement, class hashes, transaction/receipt pairing, transaction hashes, the block hash and the
// commitments it covers). The block hash is kept, except for "root-split", where it is recomputed over
// the changed header. Every variant must be rejected by SanityCheckNewHeight.
const nCorruptKinds = 21

func corrupt(b *lib.Bundle, r *lib.RNG, net *networks.Network) (*lib.Bundle, string) {
	for try := 0; try < 12; try++ {
		if c, how := corruptKind(b, r.Intn(nCorruptKinds), r, net); c != nil {
			return c, how
		}
	}
	c := b.Clone()
	c.Block.Timestamp++
	return c, "timestamp"
}

// corruptKind applies corruption number kind to a copy of b; nil if this block has nothing of that kind
// to corrupt (no transaction, no event, no Sierra class, ...).
func corruptKind(b *lib.Bundle, kind int, r *lib.RNG, net *networks.Network) (*lib.Bundle, string) {
	c := b.Clone()
	one := lib.F(1)
	{
		switch kind {
		case 0:
			c.Block.Timestamp++
			return c, "timestamp"
		case 1:
			c.Block.SequencerAddress = new(felt.Felt).Add(c.Block.SequencerAddress, one)
			return c, "sequencer"
		case 2:
			// another state root, consistently in block and state update
			nr := new(felt.Felt).Add(c.Block.GlobalStateRoot, one)
			c.Block.GlobalStateRoot = nr
			c.SU.NewRoot = nr
			return c, "state-root"
		case 3:
			// a storage write the block hash does not commit to
			a := *lib.F(0x105)
			if c.SU.StateDiff.StorageDiffs == nil {
				c.SU.StateDiff.StorageDiffs = map[felt.Felt]map[felt.Felt]*felt.Felt{}
			}
			if c.SU.StateDiff.StorageDiffs[a] == nil {
				c.SU.StateDiff.StorageDiffs[a] = map[felt.Felt]*felt.Felt{}
			}
			c.SU.StateDiff.StorageDiffs[a][*lib.F(0x77)] = lib.F(0x99)
			return c, "state-diff"
		case 4:
			if len(c.Block.Receipts) == 0 {
				return nil, ""
			}
			rc := c.Block.Receipts[r.Intn(len(c.Block.Receipts))]
			rc.Fee = new(felt.Felt).Add(rc.Fee, one)
			return c, "receipt-fee"
		case 5:
			bh := new(felt.Felt).Add(c.SU.BlockHash, one)
			c.SU.BlockHash = bh
			return c, "su-block-hash"
		case 6:
			c.Block.ParentHash = new(felt.Felt).Add(c.Block.ParentHash, one)
			return c, "parent-hash"
		case 7:
			// (the block hash commits to the L2 gas price only from protocol version 0.13.4 on: for an
			// older block that field is not covered by anything and is left alone)
			sub := 4
			if c.Block.ProtocolVersion < "0.13.4" {
				sub = 3
			}
			switch r.Intn(sub) {
			case 0:
				c.Block.L1GasPriceETH = new(felt.Felt).Add(c.Block.L1GasPriceETH, one)
			case 1:
				c.Block.L1GasPriceSTRK = new(felt.Felt).Add(c.Block.L1GasPriceSTRK, one)
			case 2:
				c.Block.L1DataGasPrice = &core.GasPrice{PriceInWei: new(felt.Felt).Add(c.Block.L1DataGasPrice.PriceInWei, one), PriceInFri: c.Block.L1DataGasPrice.PriceInFri}
			default:
				c.Block.L2GasPrice = &core.GasPrice{PriceInWei: c.Block.L2GasPrice.PriceInWei, PriceInFri: new(felt.Felt).Add(c.Block.L2GasPrice.PriceInFri, one)}
			}
			return c, "gas-price"
		case 8:
			c.Block.L1DAMode = 1 - c.Block.L1DAMode
			return c, "l1-da-mode"
		case 9:
			// a field of a transaction changed, its recorded hash kept: only VerifyTransactions
			// (recomputation of the transaction hash) can see it
			if how := tamperTx(c.Block.Transactions, r, int(c.Block.Number%4)); how != "" {
				return c, "tx-field(" + how + ")"
			}
		case 10:
			var evs []*core.Event
			for _, rc := range c.Block.Receipts {
				evs = append(evs, rc.Events...)
			}
			if len(evs) == 0 {
				return nil, ""
			}
			ev := evs[r.Intn(len(evs))]
			if len(ev.Data) > 0 && r.Bool() {
				ev.Data[0] = *new(felt.Felt).Add(&ev.Data[0], one)
			} else if len(ev.Keys) > 0 && r.Bool() {
				ev.Keys[0] = *new(felt.Felt).Add(&ev.Keys[0], one)
			} else {
				ev.From = new(felt.Felt).Add(ev.From, one)
			}
			return c, "event"
		case 11:
			if len(c.Block.Receipts) == 0 {
				return nil, ""
			}
			rc := c.Block.Receipts[r.Intn(len(c.Block.Receipts))]
			if rc.Reverted {
				rc.RevertReason += "!"
			} else {
				rc.Reverted, rc.RevertReason = true, "reverted: tampered"
			}
			return c, "receipt-revert"
		case 12:
			for _, i := range perm(r, len(c.Block.Transactions)) {
				if sig := c.Block.Transactions[i].Signature(); len(sig) > 0 {
					sig[0] = *new(felt.Felt).Add(&sig[0], one)
					return c, "tx-signature"
				}
			}
		case 13:
			// the definition of a declared Sierra class changed, its class hash (the map key) kept: only
			// VerifyClassHashes can see it (Cairo-0 class hashes are not verified by juno, by design)
			for h, cl := range c.Classes {
				if sc, ok := cl.(*core.SierraClass); ok && len(sc.EntryPoints.External) > 0 {
					cp := lib.DeepCopy(sc).(*core.SierraClass)
					cp.EntryPoints.External[0].Selector = new(felt.Felt).Add(cp.EntryPoints.External[0].Selector, one)
					c.Classes[h] = cp
					return c, "class-definition"
				}
			}
		case 14:
			// the HEADER claims another state root than the state update (which keeps the true one); the
			// block hash is recomputed over the changed header, so the hash check passes: only the
			// comparison of the two roots in SanityCheckNewHeight can see it
			nr := new(felt.Felt).Add(c.Block.GlobalStateRoot, one)
			c.Block.GlobalStateRoot = nr
			h, _, err := core.BlockHash(c.Block, c.SU.StateDiff, net, nil, core.DeprecatedTrieBackend)
			if err != nil || h.Equal(b.Block.Hash) {
				return nil, ""
			}
			c.Block.Hash = &h
			c.SU.BlockHash = &h
			return c, "root-split(hash recomputed)"
		case 15:
			if r.Bool() {
				c.Block.TransactionCount++
			} else {
				c.Block.EventCount++
			}
			return c, "tx-or-event-count"
		case 16:
			// another SUPPORTED protocol version (the hash commits to the version string)
			vs := []string{"0.13.2", "0.13.3", "0.13.4", "0.13.5", "0.14.0", "0.14.1", "0.14.2"}
			if v := vs[r.Intn(len(vs))]; v != c.Block.ProtocolVersion {
				c.Block.ProtocolVersion = v
				return c, "protocol-version(supported)"
			}
		case 17:
			if n := len(c.Block.Transactions); n > 0 {
				c.Block.Transactions = c.Block.Transactions[:n-1]
				c.Block.Receipts = c.Block.Receipts[:n-1]
				return c, "drop-last-tx"
			}
		case 18:
			if n := len(c.Block.Transactions); n >= 2 {
				c.Block.Transactions[0], c.Block.Transactions[n-1] = c.Block.Transactions[n-1], c.Block.Transactions[0]
				c.Block.Receipts[0], c.Block.Receipts[n-1] = c.Block.Receipts[n-1], c.Block.Receipts[0]
				return c, "swap-txs"
			}
		case 19:
			if n := len(c.Block.Receipts); n > 0 {
				rc := c.Block.Receipts[r.Intn(n)]
				rc.TransactionHash = new(felt.Felt).Add(rc.TransactionHash, one)
				return c, "receipt-tx-hash"
			}
		case 20:
			// round 6: a block that DECLARES no class arrives with an entry in NewClasses all the same (the
			// feeder data source fetches the class of a deployed contract the state does not know; a lying
			// source can attach anything): a Sierra definition under a key that is not its class hash. Only
			// VerifyClassHashes, applied to EVERY entry of the map whatever the diff declares, can see it.
			sd := c.SU.StateDiff
			if len(sd.DeclaredV0Classes)+len(sd.DeclaredV1Classes) == 0 && len(b.Classes) == 0 {
				key := *lib.FHex("0xc0de0006")
				for _, ch := range sd.DeployedContracts {
					key = *ch
					break
				}
				c.Classes = map[felt.Felt]core.ClassDefinition{key: strayClass()}
				return c, "undeclared-class-entry"
			}
		}
	}
	return nil, ""
}

// strayClass: a well-formed Sierra class (its hash is NOT the key it is attached under).
func strayClass() *core.SierraClass {
	return &core.SierraClass{
		Abi:     "[abi stray]",
		AbiHash: lib.F(1600),
		EntryPoints: core.SierraEntryPointsByType{
			Constructor: []core.SierraEntryPoint{{Index: 0, Selector: lib.F(88)}},
			External:    []core.SierraEntryPoint{{Index: 1, Selector: lib.F(6001)}},
			L1Handler:   []core.SierraEntryPoint{},
		},
		Program:         []felt.Felt{*lib.F(1), *lib.F(6), *lib.F(0), *lib.F(66), *lib.F(5)},
		ProgramHash:     lib.F(2600),
		SemanticVersion: "0.1.0",
		Compiled: &core.CasmClass{
			Bytecode:        []felt.Felt{*lib.F(61), *lib.F(2), *lib.F(63), *lib.F(4)},
			CompilerVersion: "2.1.0",
			Prime:           new(big.Int).SetUint64(1),
			External:        []core.CasmEntryPoint{{Offset: 0, Builtins: []string{"range_check"}, Selector: lib.F(6001)}},
			L1Handler:       []core.CasmEntryPoint{},
			Constructor:     []core.CasmEntryPoint{{Offset: 1, Builtins: []string{}, Selector: lib.F(88)}},
		},
	}
}

// tamperTx changes one hashed field of one transaction (not a legacy Deploy: its hash is taken as
// given) and keeps the recorded transaction hash. prefer: the kind of transaction to pick if the block
// has one (0 invoke, 1 declare, 2 deploy-account, 3 l1-handler), so that a chain goes through all kinds.
func tamperTx(txs []core.Transaction, r *lib.RNG, prefer int) string {
	one := lib.F(1)
	kindOf := func(tx core.Transaction) int {
		switch tx.(type) {
		case *core.InvokeTransaction:
			return 0
		case *core.DeclareTransaction:
			return 1
		case *core.DeployAccountTransaction:
			return 2
		case *core.L1HandlerTransaction:
			return 3
		}
		return -1
	}
	order := perm(r, len(txs))
	for pass := 0; pass < 2; pass++ {
		for _, i := range order {
			if k := kindOf(txs[i]); k < 0 || (pass == 0 && k != prefer) {
				continue
			}
			switch t := txs[i].(type) {
			case *core.InvokeTransaction:
				if len(t.CallData) > 0 && r.Bool() {
					t.CallData[0] = *new(felt.Felt).Add(&t.CallData[0], one)
				} else if t.Nonce != nil {
					t.Nonce = new(felt.Felt).Add(t.Nonce, one)
				} else {
					t.EntryPointSelector = new(felt.Felt).Add(t.EntryPointSelector, one)
				}
				return "invoke"
			case *core.DeclareTransaction:
				t.ClassHash = new(felt.Felt).Add(t.ClassHash, one)
				return "declare"
			case *core.DeployAccountTransaction:
				t.ContractAddressSalt = new(felt.Felt).Add(t.ContractAddressSalt, one)
				return "deploy-account"
			case *core.L1HandlerTransaction:
				t.Nonce = new(felt.Felt).Add(t.Nonce, one)
				return "l1-handler"
			}
		}
	}
	return ""
}

// perm: a random permutation of 0..n-1
func perm(r *lib.RNG, n int) []int {
	p := make([]int, n)
	for i := range p {
		p[i] = i
	}
	for i := n - 1; i > 0; i-- {
		j := r.Intn(i + 1)
		p[i], p[j] = p[j], p[i]
	}
	return p
}
