//go:build verif

package main

import (
	"context"
	"errors"
	"reflect"
	"strings"
	"sync"
	"sync/atomic"
	"time"

	"github.com/NethermindEth/juno/blockchain/networks"
	"github.com/NethermindEth/juno/core"
	"github.com/NethermindEth/juno/core/felt"
	"github.com/NethermindEth/juno/starknet"
	junosync "github.com/NethermindEth/juno/sync"
	"verif/harness/lib"
)

// Faults are per-request probabilities in percent, drawn deterministically from
// (seed, request kind, height, how many times this height was asked before).
type Faults struct {
	ErrPct      int `json:"err_pct"`                 // BlockByNumber / BlockHeaderLatest fails
	DelayPct    int `json:"delay_pct"`               // answer computed, then held back for a while
	MaxDelayUs  int `json:"max_delay_us"`            //
	CorruptPct  int `json:"corrupt_pct"`             // a committed field is changed, the hash kept
	WrongNumPct int `json:"wrong_num_pct"`           // a valid block of another height is served
	StalePct    int `json:"stale_pct"`               // latest: an older header of the CURRENT chain
	ClassErrPct int `json:"class_err_pct,omitempty"` // (feeder-gateway data source) a class fetch fails
	// LIES (the answer is not true of any chain the source ever had):
	LieLatestPct int `json:"lie_latest_pct,omitempty"` // latest: fabricated hash at a height <= tip / header of a previous epoch's chain / number beyond the chain
	LieHashPct   int `json:"lie_hash_pct,omitempty"`   // BlockByNumber: a block whose Hash field (and more) is altered — fails verification
	// BlockByNumber: a SELF-CONSISTENT forged block — an honest block with another claimed state root /
	// another state diff / another OldRoot, block hash and state update hash RECOMPUTED, right number and
	// parent: SanityCheckNewHeight accepts it; only Store's root verification can refuse it
	ForgePct int `json:"forge_pct,omitempty"`
	// ForgeTwin: forged answers may also be VALID twins (another timestamp, hash recomputed, true
	// roots): a block that passes every check and may be stored; the honest chain does not contain it
	ForgeTwin bool `json:"forge_twin,omitempty"`
	Budget    int  `json:"budget"` // at most this many faulty answers per (kind, height); then honest
	// Rules script particular interleavings (directed scenarios): applied before the random faults.
	Rules []Rule `json:"rules,omitempty"`
}

// Rule: while the source is in epoch Epoch, a request for Height fails ("fail"), or its answer is
// computed at once and handed over only when the node has stored UntilStores blocks ("hold";
// at most 3 s), or is the (valid) block Height+1 ("wrong-num"), or is the block with an altered hash
// ("hash-altered"), or a self-consistent forged block ("forged": any kind, "forged-root": another
// claimed state root); "latest-fabricated": BlockHeaderLatest answers (Height, random hash).
type Rule struct {
	Height      uint64 `json:"height"`
	Epoch       int    `json:"epoch"`
	Action      string `json:"action"`
	UntilStores int    `json:"until_stores,omitempty"`
	Times       int    `json:"times,omitempty"` // apply at most this many times (0 = always)
	// AnyEmpty: instead of Height, the rule applies (once per height) to every requested block whose
	// honest state diff is EMPTY
	AnyEmpty bool `json:"any_empty_diff_block,omitempty"`
	used     int
	done     map[uint64]bool
}

// Trigger says when the source moves to the next epoch's chain.
type Trigger struct {
	AtReq    uint64 `json:"at_req,omitempty"`    // when this many requests have been answered, or
	AtHeight *int   `json:"at_height,omitempty"` // when the node's height first reaches this value
	AtStores int    `json:"at_stores,omitempty"` // or when the node has stored this many blocks in total
	// or as soon as an answer for this height has been computed (it may still be in flight)
	AfterServed *uint64 `json:"after_served,omitempty"`
}

type source struct {
	rec    *recorder
	chains [][]*lib.Bundle // chains[e] = the source's chain during epoch e
	trig   []Trigger       // trig[e] moves from epoch e to e+1
	faults Faults
	seed   uint64
	net    *networks.Network
	// sane runs the node's SanityCheckNewHeight on a forged answer (the generator checks its own work)
	sane func(*lib.Bundle) error
	// registerValid: a forged twin is a fully valid block; the store oracle must know it
	registerValid func(*lib.Bundle)
	selfErr       string

	mu       sync.Mutex
	epoch    int
	reqs     uint64
	asked    map[string]int // per (kind,height): number of requests so far
	faulted  map[string]int // per (kind,height): number of faulty answers so far
	handed   []handedOut
	notFound time.Duration

	// logical-time quiescence: honest latest answers since the last commit
	honestLatest  atomic.Int64
	hits          map[string]int
	servedHeights map[uint64]bool
	inflight      int // BlockByNumber calls currently being answered
	maxInflight   int
}

type handedOut struct {
	ch    chan error
	num   uint64
	valid bool
	fault string
}

var errNotFound = errors.New("scripted source: block not found")
var errInjected = errors.New("scripted source: injected failure")

func (s *source) hit(name string) { s.hits[name]++ } // callers hold s.mu

func (s *source) curChain() []*lib.Bundle { return s.chains[s.epoch] }

// advance moves to later epochs while their triggers have fired. Callers hold s.mu.
func (s *source) advance() {
	for s.epoch < len(s.trig) {
		t := s.trig[s.epoch]
		fire := false
		if t.AtReq > 0 && s.reqs >= t.AtReq {
			fire = true
		}
		if t.AtHeight != nil {
			if h, ok := s.rec.head(); ok && int(h.num) >= *t.AtHeight {
				fire = true
			} else if !ok && *t.AtHeight < 0 {
				fire = true
			}
		}
		if t.AtStores > 0 {
			s.rec.mu.Lock()
			n := s.rec.stores
			s.rec.mu.Unlock()
			if n >= t.AtStores {
				fire = true
			}
		}
		if t.AfterServed != nil && s.servedHeights[*t.AfterServed] {
			fire = true
		}
		if !fire {
			return
		}
		s.epoch++
		s.rec.add(entry{Kind: eEpoch, Epoch: s.epoch})
		s.honestLatest.Store(0)
	}
}

func (s *source) requests() uint64 {
	s.mu.Lock()
	defer s.mu.Unlock()
	return s.reqs
}

// stable: the last epoch is active (no further reorg will happen).
func (s *source) stable() bool {
	s.mu.Lock()
	defer s.mu.Unlock()
	return s.epoch == len(s.chains)-1
}

func (s *source) dice(kind string, height uint64, attempt int) *lib.RNG {
	k := uint64(0)
	for _, c := range kind {
		k = k*131 + uint64(c)
	}
	return lib.NewRNG(s.seed ^ (k * 0x9E3779B97F4A7C15) ^ (height * 0xD6E8FEB86659FD93) ^ (uint64(attempt) * 0xA24BAED4963EE407))
}

func sleepCtx(ctx context.Context, d time.Duration) error {
	if d <= 0 {
		return nil
	}
	t := time.NewTimer(d)
	defer t.Stop()
	select {
	case <-ctx.Done():
		return ctx.Err()
	case <-t.C:
		return nil
	}
}

func (s *source) BlockByNumber(ctx context.Context, n uint64) (junosync.CommittedBlock, error) {
	s.rec.active("a BlockByNumber request")
	if err := ctx.Err(); err != nil { // like an HTTP client: a cancelled context fails the request
		return junosync.CommittedBlock{}, err
	}
	s.mu.Lock()
	s.inflight++
	if s.inflight > s.maxInflight {
		s.maxInflight = s.inflight
	}
	defer func() { s.mu.Lock(); s.inflight--; s.mu.Unlock() }()
	s.reqs++
	s.advance()
	key := "b"
	attempt := s.asked[key+u64s(n)]
	s.asked[key+u64s(n)]++
	chain := s.curChain()
	epoch := s.epoch
	r := s.dice(key, n, attempt)
	budgetLeft := s.faulted[key+u64s(n)] < s.faults.Budget
	var delay time.Duration
	if budgetLeft && r.Chance(s.faults.DelayPct, 100) && s.faults.MaxDelayUs > 0 {
		delay = time.Duration(1+r.Intn(s.faults.MaxDelayUs)) * time.Microsecond
		s.hit("fault:delay")
	}
	if n >= uint64(len(chain)) {
		s.hit("fetch:not-found")
		s.mu.Unlock()
		s.rec.add(entry{Kind: eServeErr, Req: n, Epoch: epoch, Fault: "not-found"})
		// like a network round trip: keeps the fetcher's retry loop from spinning at full speed
		_ = sleepCtx(ctx, s.notFound)
		return junosync.CommittedBlock{}, errNotFound
	}
	fault := ""
	ruleHash := false
	holdUntil := 0
	for ri := range s.faults.Rules {
		ru := &s.faults.Rules[ri]
		match := ru.Height == n
		if ru.AnyEmpty {
			match = diffSize(chain[n].SU.StateDiff) == 0 && !ru.done[n]
		}
		if match && ru.Epoch == epoch && (ru.Times == 0 || ru.used < ru.Times) {
			ru.used++
			if ru.AnyEmpty {
				if ru.done == nil {
					ru.done = map[uint64]bool{}
				}
				ru.done[n] = true
			}
			switch ru.Action {
			case "wrong-num":
				if int(n)+1 < len(chain) {
					fault = "rule-wrong-num"
				}
			case "hash-altered":
				fault = "hash-altered"
				ruleHash = true
				s.hit("rule:hash-altered")
			case "forged", "forged-root":
				fault = ru.Action
				s.hit("rule:" + ru.Action)
			case "fail":
				s.hit("rule:fail")
				s.mu.Unlock()
				s.rec.add(entry{Kind: eServeErr, Req: n, Epoch: epoch, Fault: "rule-fail"})
				_ = sleepCtx(ctx, s.notFound)
				return junosync.CommittedBlock{}, errInjected
			case "hold":
				holdUntil = ru.UntilStores
				s.hit("rule:hold")
			}
		}
	}
	if budgetLeft && fault == "" {
		switch {
		case r.Chance(s.faults.ErrPct, 100):
			fault = "err"
		case r.Chance(s.faults.CorruptPct, 100):
			fault = "corrupt"
		case r.Chance(s.faults.LieHashPct, 100):
			fault = "hash-altered"
		case r.Chance(s.faults.ForgePct, 100):
			fault = "forged"
		case r.Chance(s.faults.WrongNumPct, 100) && len(chain) > 1:
			fault = "wrong-num"
		}
	}
	if fault != "" && fault != "rule-wrong-num" {
		s.faulted[key+u64s(n)]++
		s.hit("fault:" + fault)
	}
	var b *lib.Bundle
	valid := true
	orig := chain[n]
	switch fault {
	case "err":
		s.mu.Unlock()
		s.rec.add(entry{Kind: eServeErr, Req: n, Epoch: epoch, Fault: "err"})
		_ = sleepCtx(ctx, delay)
		return junosync.CommittedBlock{}, errInjected
	case "corrupt":
		var how string
		b, how = corrupt(chain[n], r)
		s.hit("corrupt:" + how)
		valid = false
		fault = "corrupt:" + how
	case "hash-altered":
		var how string
		b, how = alterHash(chain[n], r, ruleHash)
		s.hit("lie:" + how)
		valid = false
		fault = "corrupt:" + how
	case "forged", "forged-root":
		// a twin (valid, may be stored) only as the successor the node is waiting for: as an answer to
		// revertTask it would be an undetectable lie about a block the node holds
		twinOK := s.faults.ForgeTwin && fault == "forged"
		if h, ok := s.rec.head(); twinOK && ok && h.num >= n {
			twinOK = false
		}
		var how string
		var err error
		b, how, err = forge(chain[n], r, s.net, fault == "forged-root", twinOK)
		if err == nil && s.sane != nil {
			if e := s.sane(b); e != nil {
				err = errors.New("SanityCheckNewHeight refuses the forged block (" + how + "): " + e.Error())
			}
		}
		if err != nil {
			if s.selfErr == "" {
				s.selfErr = err.Error()
			}
			b, how = chain[n].Clone(), ""
			fault = ""
			break
		}
		s.hit("forged:" + how)
		fault = "forged:" + how
		valid = how == "twin"
		if valid && s.registerValid != nil {
			s.registerValid(b)
		}
	case "rule-wrong-num":
		b = chain[n+1].Clone()
		orig = chain[n+1]
		s.hit("rule:wrong-num")
	case "wrong-num":
		m := uint64(r.Intn(len(chain)))
		if m == n {
			m = (n + 1) % uint64(len(chain))
		}
		b = chain[m].Clone()
		orig = chain[m]
	default:
		b = chain[n].Clone()
		s.hit("fetch:ok")
	}
	ch := make(chan error, 1)
	s.handed = append(s.handed, handedOut{ch, b.Block.Number, valid, fault})
	s.servedHeights[n] = true
	s.advance()
	s.mu.Unlock()
	// the answer exists from now on (it was true of the source at this moment), even if it
	// reaches the synchroniser later
	ent := entry{Kind: eServed, Req: n, Num: b.Block.Number, Hash: *b.Block.Hash, Parent: *b.Block.ParentHash,
		Valid: valid, Fault: fault, Epoch: epoch, Orig: *orig.Block.Hash, RootSame: true, DiffSame: true,
		Sane: valid || strings.HasPrefix(fault, "forged:")}
	if !valid || fault != "" {
		ent.RootSame = b.Block.GlobalStateRoot.Equal(orig.Block.GlobalStateRoot) && b.SU.NewRoot.Equal(orig.SU.NewRoot) &&
			b.SU.OldRoot.Equal(orig.SU.OldRoot)
		ent.DiffSame = reflect.DeepEqual(b.SU.StateDiff, orig.SU.StateDiff) && len(b.Classes) == len(orig.Classes)
	}
	s.rec.add(ent)
	if err := sleepCtx(ctx, delay); err != nil {
		// computed but never handed over: the caller sees a failed request
		s.rec.add(entry{Kind: eServeErr, Req: n, Epoch: epoch, Fault: "cancelled-in-flight"})
		return junosync.CommittedBlock{}, err
	}
	if holdUntil > 0 {
		startHeartbeat()
		deadline := beats.Load() + 300 // 3 s of a healthy process (heartbeats, not wall clock)
		for beats.Load() < deadline && ctx.Err() == nil {
			s.rec.mu.Lock()
			n := s.rec.stores
			s.rec.mu.Unlock()
			if n >= holdUntil {
				break
			}
			time.Sleep(100 * time.Microsecond)
		}
		if ctx.Err() != nil {
			s.rec.add(entry{Kind: eServeErr, Req: n, Epoch: epoch, Fault: "cancelled-in-flight"})
			return junosync.CommittedBlock{}, ctx.Err()
		}
	}
	return junosync.CommittedBlock{Block: b.Block, StateUpdate: b.SU, NewClasses: b.Classes, Persisted: ch}, nil
}

func (s *source) BlockHeaderLatest(ctx context.Context) (*core.Header, error) {
	s.mu.Lock()
	s.reqs++
	s.advance()
	attempt := s.asked["l"]
	s.asked["l"]++
	chain := s.curChain()
	epoch := s.epoch
	r := s.dice("l", uint64(epoch), attempt)
	budgetLeft := s.faulted["l"+u64s(uint64(epoch))] < s.faults.Budget*4
	fault := ""
	if budgetLeft {
		switch {
		case r.Chance(s.faults.ErrPct, 100):
			fault = "err"
		case r.Chance(s.faults.StalePct, 100) && len(chain) > 1:
			fault = "stale"
		case r.Chance(s.faults.LieLatestPct, 100) && len(chain) > 0:
			fault = lib.Pick(r, []string{"fabricated", "fabricated", "prev-epoch", "beyond"})
			if fault == "prev-epoch" && epoch == 0 {
				fault = "fabricated"
			}
		}
	}
	lieHeight := -1
	for ri := range s.faults.Rules {
		ru := &s.faults.Rules[ri]
		if ru.Action == "latest-fabricated" && ru.Epoch == epoch && (ru.Times == 0 || ru.used < ru.Times) && len(chain) > 0 {
			// only when the node waits at the tip: that is when isReverting looks at the header
			if h, ok := s.rec.head(); ok && int(h.num) == len(chain)-1 {
				ru.used++
				fault, lieHeight = "fabricated", int(ru.Height)
				s.hit("rule:latest-fabricated")
			}
		}
	}
	if len(chain) == 0 {
		fault = "empty"
	}
	if fault != "" && fault != "empty" {
		s.faulted["l"+u64s(uint64(epoch))]++
		s.hit("fault:latest-" + fault)
	}
	var delay time.Duration
	if budgetLeft && r.Chance(s.faults.DelayPct, 100) && s.faults.MaxDelayUs > 0 {
		delay = time.Duration(1+r.Intn(s.faults.MaxDelayUs)) * time.Microsecond
	}
	if fault == "err" || fault == "empty" {
		s.mu.Unlock()
		s.rec.add(entry{Kind: eLatestErr, Epoch: epoch, Fault: fault})
		_ = sleepCtx(ctx, delay)
		return nil, errInjected
	}
	idx := len(chain) - 1
	if fault == "stale" {
		idx = r.Intn(len(chain) - 1)
	}
	h := lib.DeepCopy(chain[idx].Block.Header).(*core.Header)
	switch fault {
	case "fabricated":
		n := r.Intn(len(chain))
		if lieHeight >= 0 && lieHeight < len(chain) {
			n = lieHeight
		}
		h = lib.DeepCopy(chain[n].Block.Header).(*core.Header)
		h.Hash = new(felt.Felt).SetBytes(r.Bytes(31))
	case "prev-epoch":
		old := s.chains[r.Intn(epoch)]
		if len(old) > 0 {
			h = lib.DeepCopy(old[len(old)-1].Block.Header).(*core.Header)
		}
	case "beyond":
		h.Number = uint64(len(chain) + r.Intn(3))
		h.Hash = new(felt.Felt).SetBytes(r.Bytes(31))
	}
	s.hit("latest:ok")
	s.mu.Unlock()
	s.rec.add(entry{Kind: eLatest, Num: h.Number, Hash: *h.Hash, Epoch: epoch, Fault: fault})
	if fault == "" && delay == 0 {
		s.honestLatest.Add(1)
	}
	if err := sleepCtx(ctx, delay); err != nil {
		s.rec.add(entry{Kind: eLatestErr, Epoch: epoch, Fault: "cancelled-in-flight"})
		return nil, err
	}
	return h, nil
}

func (s *source) PreConfirmedBlockByNumber(ctx context.Context, n uint64, id string, known uint64) (starknet.PreConfirmedUpdate, error) {
	return nil, errors.New("not implemented")
}

func (s *source) PreConfirmedBlockLatest(ctx context.Context, id string, known uint64) (starknet.PreConfirmedUpdate, uint64, error) {
	return nil, 0, errors.New("not implemented")
}

func (s *source) Class(ctx context.Context, h *felt.Felt) (core.ClassDefinition, error) {
	return nil, errors.New("not implemented")
}

func u64s(n uint64) string {
	const d = "0123456789"
	if n == 0 {
		return "0"
	}
	var b [20]byte
	i := len(b)
	for n > 0 {
		i--
		b[i] = d[n%10]
		n /= 10
	}
	return string(b[i:])
}

// alterHash returns a copy of b that claims another hash (it cannot pass verification): the hash
// alone, hash and parent hash, or number and hash.
func alterHash(b *lib.Bundle, r *lib.RNG, keepNumber bool) (*lib.Bundle, string) {
	c := b.Clone()
	nh := new(felt.Felt).SetBytes(r.Bytes(31))
	c.Block.Hash = nh
	c.SU.BlockHash = nh
	kinds := 3
	if keepNumber {
		kinds = 2
	}
	switch r.Intn(kinds) {
	case 0:
		return c, "hash"
	case 1:
		c.Block.ParentHash = new(felt.Felt).SetBytes(r.Bytes(31))
		return c, "hash+parent"
	default:
		c.Block.Number += 1 + uint64(r.Intn(2))
		return c, "number+hash"
	}
}

// forge returns a SELF-CONSISTENT variant of the honest block b: one thing is changed, then the block
// hash is recomputed (core.BlockHash, the function Finalise uses) and put into the header and the
// state update, so that header, hash and state update agree with each other exactly as
// SanityCheckNewHeight demands; number and parent hash stay right. Kinds:
//
//	state-root  another claimed GlobalStateRoot / NewRoot (preferred for EMPTY diffs: "nothing to re-hash")
//	state-diff  another storage value in the diff, the honest block's root claim kept
//	old-root    another StateUpdate.OldRoot (the hash does not commit to it)
//	twin        another timestamp: a fully VALID block (true roots) that is not the source's block
func forge(b *lib.Bundle, r *lib.RNG, net *networks.Network, rootOnly, twinOK bool) (*lib.Bundle, string, error) {
	c := b.Clone()
	one := lib.F(1)
	kind := "state-root"
	if !rootOnly {
		switch k := r.Intn(10); {
		case k < 5:
		case k < 7 && diffSize(c.SU.StateDiff) > 0 && len(c.SU.StateDiff.StorageDiffs) > 0:
			kind = "state-diff"
		case k < 8:
			kind = "old-root"
		case twinOK:
			kind = "twin"
		}
	}
	switch kind {
	case "state-root":
		var nr *felt.Felt
		if r.Bool() {
			nr = new(felt.Felt).Add(c.Block.GlobalStateRoot, one)
		} else {
			nr = new(felt.Felt).SetBytes(r.Bytes(31))
		}
		c.Block.GlobalStateRoot = nr
		c.SU.NewRoot = nr
		if diffSize(c.SU.StateDiff) == 0 {
			kind = "state-root(empty-diff)"
		}
	case "state-diff":
		for a, kv := range c.SU.StateDiff.StorageDiffs {
			for k, v := range kv {
				c.SU.StateDiff.StorageDiffs[a][k] = new(felt.Felt).Add(v, lib.F(2))
				break
			}
			break
		}
	case "old-root":
		c.SU.OldRoot = new(felt.Felt).Add(c.SU.OldRoot, one)
		return c, kind, nil
	case "twin":
		c.Block.Timestamp++
	}
	h1, _, err := core.BlockHash(c.Block, c.SU.StateDiff, net, nil, core.DeprecatedTrieBackend)
	if err != nil {
		return nil, kind, errors.New("forge: BlockHash: " + err.Error())
	}
	h2, _, err := core.BlockHash(c.Block, c.SU.StateDiff, net, nil, core.TrieBackend)
	if err != nil {
		return nil, kind, errors.New("forge: BlockHash: " + err.Error())
	}
	if !h1.Equal(&h2) {
		return nil, kind, errors.New("forge: the two trie backends give different block hashes")
	}
	c.Block.Hash = &h1
	c.SU.BlockHash = &h1
	if c.Block.Hash.Equal(b.Block.Hash) {
		return nil, kind, errors.New("forge: the block hash does not depend on the forged field (" + kind + ")")
	}
	return c, kind, nil
}

// corrupt returns a copy of b with one committed field changed while the block hash is kept.
// Every variant must be rejected by SanityCheckNewHeight.
func corrupt(b *lib.Bundle, r *lib.RNG) (*lib.Bundle, string) {
	c := b.Clone()
	one := lib.F(1)
	for try := 0; try < 8; try++ {
		switch r.Intn(7) {
		case 0:
			c.Block.Timestamp++
			return c, "timestamp"
		case 1:
			c.Block.SequencerAddress = new(felt.Felt).Add(c.Block.SequencerAddress, one)
			return c, "sequencer"
		case 2:
			// another state root, consistently in block and state update
			nr := new(felt.Felt).Add(c.Block.GlobalStateRoot, one)
			c.Block.GlobalStateRoot = nr
			c.SU.NewRoot = nr
			return c, "state-root"
		case 3:
			// a storage write the block hash does not commit to
			a := *lib.F(0x105)
			if c.SU.StateDiff.StorageDiffs == nil {
				c.SU.StateDiff.StorageDiffs = map[felt.Felt]map[felt.Felt]*felt.Felt{}
			}
			if c.SU.StateDiff.StorageDiffs[a] == nil {
				c.SU.StateDiff.StorageDiffs[a] = map[felt.Felt]*felt.Felt{}
			}
			c.SU.StateDiff.StorageDiffs[a][*lib.F(0x77)] = lib.F(0x99)
			return c, "state-diff"
		case 4:
			if len(c.Block.Receipts) == 0 {
				continue
			}
			rc := c.Block.Receipts[r.Intn(len(c.Block.Receipts))]
			rc.Fee = new(felt.Felt).Add(rc.Fee, one)
			return c, "receipt-fee"
		case 5:
			bh := new(felt.Felt).Add(c.SU.BlockHash, one)
			c.SU.BlockHash = bh
			return c, "su-block-hash"
		case 6:
			c.Block.ParentHash = new(felt.Felt).Add(c.Block.ParentHash, one)
			return c, "parent-hash"
		}
	}
	c.Block.Timestamp++
	return c, "timestamp"
}
