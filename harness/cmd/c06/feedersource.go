//go:build verif

package main

import (
	"context"
	"errors"
	"fmt"
	"reflect"

	"github.com/NethermindEth/juno/blockchain"
	"github.com/NethermindEth/juno/core"
	"github.com/NethermindEth/juno/core/felt"
	"github.com/NethermindEth/juno/starknet"
	junosync "github.com/NethermindEth/juno/sync"
	"verif/harness/lib"
)

// ---------------------------------------------------------------------------------------------
// snAdapter presents the scripted source as a starknetdata.StarknetData, so that the REAL
// sync.NewFeederGatewayDataSource (sync/data_source.go: BlockByNumber = StateUpdateWithBlock +
// fetchUnknownClasses against the node's head state) sits between the script and the
// synchroniser. Class definitions are served one by one and may fail.
// ---------------------------------------------------------------------------------------------

type snAdapter struct {
	s       *source
	classes map[felt.Felt]core.ClassDefinition // every class any chain of the source declares
}

func newSNAdapter(s *source) *snAdapter {
	a := &snAdapter{s: s, classes: map[felt.Felt]core.ClassDefinition{}}
	for _, c := range s.chains {
		for _, b := range c {
			for h, cl := range b.Classes {
				a.classes[h] = cl
			}
		}
	}
	return a
}

// stubClass is what the "feeder" serves for class hashes that contracts are deployed with but no
// block declares (the generator's 0xC00x): a Cairo-0 class (its hash is not verified by juno).
func stubClass(h *felt.Felt) core.ClassDefinition {
	return &core.DeprecatedCairoClass{
		Abi:          []byte(fmt.Sprintf(`[{"stub":"%s"}]`, h.String())),
		Externals:    []core.DeprecatedEntryPoint{{Selector: lib.F(5), Offset: lib.F(1)}},
		L1Handlers:   []core.DeprecatedEntryPoint{},
		Constructors: []core.DeprecatedEntryPoint{},
		Program:      "H4sIAAAAAAAA/wEAAP//AAAAAAAAAAA=",
	}
}

func (a *snAdapter) StateUpdateWithBlock(ctx context.Context, n uint64) (*core.StateUpdate, *core.Block, error) {
	cb, err := a.s.BlockByNumber(ctx, n)
	if err != nil {
		return nil, nil, err
	}
	return cb.StateUpdate, cb.Block, nil
}

func (a *snAdapter) BlockHeaderLatest(ctx context.Context) (core.Header, error) {
	h, err := a.s.BlockHeaderLatest(ctx)
	if err != nil {
		return core.Header{}, err
	}
	return *h, nil
}

func (a *snAdapter) Class(ctx context.Context, h *felt.Felt) (core.ClassDefinition, error) {
	s := a.s
	s.mu.Lock()
	key := "c" + h.String()
	attempt := s.asked[key]
	s.asked[key]++
	r := s.dice("c", h.Uint64(), attempt)
	fail := s.faulted[key] < s.faults.Budget && r.Chance(s.faults.ClassErrPct, 100)
	if fail {
		s.faulted[key]++
		s.hit("fault:class-fetch-err")
	} else {
		s.hit("class-fetch:ok")
	}
	s.mu.Unlock()
	if fail {
		return nil, errInjected
	}
	if cl, ok := a.classes[*h]; ok {
		return lib.DeepCopy(cl).(core.ClassDefinition), nil
	}
	return stubClass(h), nil
}

func (a *snAdapter) BlockByNumber(ctx context.Context, n uint64) (*core.Block, error) {
	_, b, err := a.StateUpdateWithBlock(ctx, n)
	return b, err
}

func (a *snAdapter) BlockLatest(ctx context.Context) (*core.Block, error) {
	return nil, errors.New("not implemented")
}

func (a *snAdapter) Transaction(ctx context.Context, h *felt.Felt) (core.Transaction, error) {
	return nil, errors.New("not implemented")
}

func (a *snAdapter) StateUpdate(ctx context.Context, n uint64) (*core.StateUpdate, error) {
	su, _, err := a.StateUpdateWithBlock(ctx, n)
	return su, err
}

func (a *snAdapter) PreConfirmedBlockByNumber(ctx context.Context, n uint64, id string, known uint64) (starknet.PreConfirmedUpdate, error) {
	return nil, errors.New("not implemented")
}

func (a *snAdapter) PreConfirmedBlockLatest(ctx context.Context, id string, known uint64) (starknet.PreConfirmedUpdate, uint64, error) {
	return nil, 0, errors.New("not implemented")
}

// feederDS is the real feeder-gateway data source with one addition: when BlockByNumber fails AFTER
// the block itself was served (a class fetch failed), the trace says so — the synchroniser never got
// that answer.
type feederDS struct {
	junosync.DataSource
	rec *recorder
}

func (d *feederDS) BlockByNumber(ctx context.Context, n uint64) (junosync.CommittedBlock, error) {
	cb, err := d.DataSource.BlockByNumber(ctx, n)
	if err != nil {
		d.rec.add(entry{Kind: eServeErr, Req: n, Fault: "data-source-error(class fetch / cancelled)"})
	}
	return cb, err
}

// checkClasses: every class declared by a block of the (converged) chain is in the node's state
// with the source's definition.
func checkClasses(bc *blockchain.Blockchain, final []*lib.Bundle) string {
	st, closer, err := bc.HeadState()
	if err != nil {
		return "HeadState: " + err.Error()
	}
	defer func() { _ = closer() }()
	for _, b := range final {
		for h, want := range b.Classes {
			hh := h
			got, err := st.Class(&hh)
			if err != nil {
				return fmt.Sprintf("class %s declared in block %d: %v", h.String(), b.Block.Number, err)
			}
			if reflect.TypeOf(got.Class) != reflect.TypeOf(want) {
				return fmt.Sprintf("class %s declared in block %d has another kind in the state", h.String(), b.Block.Number)
			}
			switch w := want.(type) {
			case *core.SierraClass:
				g := got.Class.(*core.SierraClass)
				if g.Abi != w.Abi || len(g.Program) != len(w.Program) {
					return fmt.Sprintf("sierra class %s declared in block %d differs from the source's definition", h.String(), b.Block.Number)
				}
			case *core.DeprecatedCairoClass:
				g := got.Class.(*core.DeprecatedCairoClass)
				if string(g.Abi) != string(w.Abi) {
					return fmt.Sprintf("cairo0 class %s declared in block %d differs from the source's definition", h.String(), b.Block.Number)
				}
			}
		}
	}
	return ""
}
