//go:build verif

package main

import (
	"context"
	"errors"
	"fmt"
	"reflect"
	"sort"
	"strings"
	"sync"

	"github.com/NethermindEth/juno/blockchain"
	"github.com/NethermindEth/juno/core"
	"github.com/NethermindEth/juno/core/felt"
	"github.com/NethermindEth/juno/starknet"
	junosync "github.com/NethermindEth/juno/sync"
	"verif/harness/lib"
)

// ---------------------------------------------------------------------------------------------
// snAdapter presents the scripted source as a starknetdata.StarknetData, so that the REAL
// sync.NewFeederGatewayDataSource (sync/data_source.go: BlockByNumber = StateUpdateWithBlock +
// fetchUnknownClasses against the node's head state) sits between the script and the
// synchroniser. Class definitions are served one by one and may fail.
// ---------------------------------------------------------------------------------------------

type snAdapter struct {
	s       *source
	classes map[felt.Felt]core.ClassDefinition // every class any chain of the source declares
}

func newSNAdapter(s *source) *snAdapter {
	a := &snAdapter{s: s, classes: map[felt.Felt]core.ClassDefinition{}}
	for _, c := range s.chains {
		for _, b := range c {
			for h, cl := range b.Classes {
				a.classes[h] = cl
			}
		}
	}
	return a
}

// stubClass is what the "feeder" serves for class hashes that contracts are deployed with but no
// block declares (the generator's 0xC00x): a Cairo-0 class (its hash is not verified by juno).
func stubClass(h *felt.Felt) core.ClassDefinition {
	return &core.DeprecatedCairoClass{
		Abi:          []byte(fmt.Sprintf(`[{"stub":"%s"}]`, h.String())),
		Externals:    []core.DeprecatedEntryPoint{{Selector: lib.F(5), Offset: lib.F(1)}},
		L1Handlers:   []core.DeprecatedEntryPoint{},
		Constructors: []core.DeprecatedEntryPoint{},
		Program:      "H4sIAAAAAAAA/wEAAP//AAAAAAAAAAA=",
	}
}

// fetchCall accompanies one BlockByNumber call of the REAL feeder data source (through the context):
// the state update it was served and the Class requests it made, in order.
type fetchCallKey struct{}

type classCall struct {
	hash felt.Felt
	ok   bool
}

type fetchCall struct {
	orig   context.Context // the context the synchroniser passed (identity of the stream generation)
	req    uint64
	mu     sync.Mutex
	su     *core.StateUpdate
	calls  []classCall
	ok     bool               // BlockByNumber returned a block
	keys   []felt.Felt        // keys of the NewClasses it returned
	known  map[felt.Felt]bool // class is in the node's head state (read right after the call)
	stable bool               // no commit happened between the start of the call and that read
}

func fetchCallOf(ctx context.Context) *fetchCall {
	fc, _ := ctx.Value(fetchCallKey{}).(*fetchCall)
	return fc
}

func (a *snAdapter) StateUpdateWithBlock(ctx context.Context, n uint64) (*core.StateUpdate, *core.Block, error) {
	fc := fetchCallOf(ctx)
	inner := ctx
	if fc != nil {
		inner = fc.orig
	}
	cb, err := a.s.BlockByNumber(inner, n)
	if err != nil {
		return nil, nil, err
	}
	if fc != nil {
		fc.mu.Lock()
		fc.su = cb.StateUpdate
		fc.mu.Unlock()
	}
	return cb.StateUpdate, cb.Block, nil
}

func (a *snAdapter) BlockHeaderLatest(ctx context.Context) (core.Header, error) {
	h, err := a.s.BlockHeaderLatest(ctx)
	if err != nil {
		return core.Header{}, err
	}
	return *h, nil
}

func (a *snAdapter) Class(ctx context.Context, h *felt.Felt) (core.ClassDefinition, error) {
	s := a.s
	s.mu.Lock()
	key := "c" + h.String()
	attempt := s.asked[key]
	s.asked[key]++
	r := s.dice("c", h.Uint64(), attempt)
	fail := s.faulted[key] < s.faults.Budget && r.Chance(s.faults.ClassErrPct, 100)
	if fail {
		s.faulted[key]++
		s.hit("fault:class-fetch-err")
	} else {
		s.hit("class-fetch:ok")
	}
	s.mu.Unlock()
	if fc := fetchCallOf(ctx); fc != nil {
		fc.mu.Lock()
		fc.calls = append(fc.calls, classCall{*h, !fail})
		fc.mu.Unlock()
	}
	if fail {
		return nil, errInjected
	}
	if cl, ok := a.classes[*h]; ok {
		return lib.DeepCopy(cl).(core.ClassDefinition), nil
	}
	return stubClass(h), nil
}

func (a *snAdapter) BlockByNumber(ctx context.Context, n uint64) (*core.Block, error) {
	_, b, err := a.StateUpdateWithBlock(ctx, n)
	return b, err
}

func (a *snAdapter) BlockLatest(ctx context.Context) (*core.Block, error) {
	return nil, errors.New("not implemented")
}

func (a *snAdapter) Transaction(ctx context.Context, h *felt.Felt) (core.Transaction, error) {
	return nil, errors.New("not implemented")
}

func (a *snAdapter) StateUpdate(ctx context.Context, n uint64) (*core.StateUpdate, error) {
	su, _, err := a.StateUpdateWithBlock(ctx, n)
	return su, err
}

func (a *snAdapter) PreConfirmedBlockByNumber(ctx context.Context, n uint64, id string, known uint64) (starknet.PreConfirmedUpdate, error) {
	return nil, errors.New("not implemented")
}

func (a *snAdapter) PreConfirmedBlockLatest(ctx context.Context, id string, known uint64) (starknet.PreConfirmedUpdate, uint64, error) {
	return nil, 0, errors.New("not implemented")
}

// feederDS is the real feeder-gateway data source with one addition: when BlockByNumber fails AFTER
// the block itself was served (a class fetch failed), the trace says so — the synchroniser never got
// that answer.
type feederDS struct {
	junosync.DataSource
	rec *recorder
	src *source
	bc  *blockchain.Blockchain
}

func (d *feederDS) commitSeq() int {
	d.rec.mu.Lock()
	defer d.rec.mu.Unlock()
	return d.rec.lastCommitSeq
}

func (d *feederDS) BlockByNumber(ctx context.Context, n uint64) (junosync.CommittedBlock, error) {
	fc := &fetchCall{orig: ctx, req: n}
	seq0 := d.commitSeq()
	cb, err := d.DataSource.BlockByNumber(context.WithValue(ctx, fetchCallKey{}, fc), n)
	fc.mu.Lock()
	su := fc.su
	fc.mu.Unlock()
	if su != nil && d.bc != nil {
		fc.ok = err == nil
		for h := range cb.NewClasses {
			fc.keys = append(fc.keys, h)
		}
		fc.known = map[felt.Felt]bool{}
		if st, closer, e := d.bc.HeadState(); e == nil {
			for _, h := range diffClassHashes(su.StateDiff) {
				hh := h
				_, ce := st.Class(&hh)
				fc.known[h] = ce == nil
			}
			_ = closer()
		}
		fc.stable = d.commitSeq() == seq0
		d.rec.mu.Lock()
		d.rec.fetchCalls = append(d.rec.fetchCalls, fc)
		d.rec.mu.Unlock()
	}
	if err != nil {
		d.rec.add(entry{Kind: eServeErr, Req: n, Fault: "data-source-error(class fetch / cancelled)"})
	} else if d.src != nil {
		d.src.adopt(cb.Block, cb.Persisted)
	}
	return cb, err
}

// checkClasses: every class declared by a block of the (converged) chain is in the node's state
// with the source's definition.
func checkClasses(bc *blockchain.Blockchain, final []*lib.Bundle) string {
	st, closer, err := bc.HeadState()
	if err != nil {
		return "HeadState: " + err.Error()
	}
	defer func() { _ = closer() }()
	for _, b := range final {
		for h, want := range b.Classes {
			hh := h
			got, err := st.Class(&hh)
			if err != nil {
				return fmt.Sprintf("class %s declared in block %d: %v", h.String(), b.Block.Number, err)
			}
			if reflect.TypeOf(got.Class) != reflect.TypeOf(want) {
				return fmt.Sprintf("class %s declared in block %d has another kind in the state", h.String(), b.Block.Number)
			}
			switch w := want.(type) {
			case *core.SierraClass:
				g := got.Class.(*core.SierraClass)
				if g.Abi != w.Abi || len(g.Program) != len(w.Program) {
					return fmt.Sprintf("sierra class %s declared in block %d differs from the source's definition", h.String(), b.Block.Number)
				}
			case *core.DeprecatedCairoClass:
				g := got.Class.(*core.DeprecatedCairoClass)
				if string(g.Abi) != string(w.Abi) {
					return fmt.Sprintf("cairo0 class %s declared in block %d differs from the source's definition", h.String(), b.Block.Number)
				}
			}
		}
	}
	return ""
}

// diffClassHashes: the class hashes fetchUnknownClasses looks at — classes of deployed contracts,
// declared Cairo-0 classes, declared Sierra classes (each section sorted; the code walks the two maps
// in Go's random order).
func diffClassHashes(d *core.StateDiff) []felt.Felt {
	dep, v0, v1 := diffClassSections(d)
	return append(append(dep, v0...), v1...)
}

func diffClassSections(d *core.StateDiff) (dep, v0, v1 []felt.Felt) {
	for _, h := range d.DeployedContracts {
		dep = append(dep, *h)
	}
	for _, h := range d.DeclaredV0Classes {
		v0 = append(v0, *h)
	}
	for h := range d.DeclaredV1Classes {
		v1 = append(v1, h)
	}
	less := func(l []felt.Felt) { sort.Slice(l, func(i, j int) bool { return l[i].Cmp(&l[j]) < 0 }) }
	less(dep)
	less(v1)
	return dep, v0, v1
}

// checkClassFetches compares every BlockByNumber call of the real feeder data source with the model
// of fetchUnknownClasses (driver op `classes`): on success the Class requests made = the classes
// handed on as NewClasses = the model's set (the unknown classes of the diff, each once); on a failed
// class fetch the model fails on the same class and every request before it was for an unknown class.
func checkClassFetches(cr *caseResult, calls []*fetchCall, id *ids, drv *lib.Driver, replay func() any) int {
	if drv == nil {
		return 0
	}
	compared := 0
	toks := func(l []felt.Felt) string {
		var w []string
		for i := range l {
			w = append(w, fmt.Sprint(id.of(&l[i])))
		}
		return strings.Join(w, " ")
	}
	setOf := func(l []felt.Felt) map[string]bool {
		m := map[string]bool{}
		for i := range l {
			m[fmt.Sprint(id.of(&l[i]))] = true
		}
		return m
	}
	sameSet := func(a, b map[string]bool) bool {
		if len(a) != len(b) {
			return false
		}
		for k := range a {
			if !b[k] {
				return false
			}
		}
		return true
	}
	for _, fc := range calls {
		if !fc.stable {
			cr.hits["class-fetch:not-compared(a commit happened during the call)"]++
			continue
		}
		var called []felt.Felt
		var failed *felt.Felt
		dup := false
		seen := map[felt.Felt]bool{}
		for i, c := range fc.calls {
			if seen[c.hash] {
				dup = true
			}
			seen[c.hash] = true
			called = append(called, c.hash)
			if !c.ok {
				if i != len(fc.calls)-1 {
					dup = true // a request after a failed one
				}
				h := c.hash
				failed = &h
			}
		}
		if !fc.ok && failed == nil {
			cr.hits["class-fetch:not-compared(call failed for another reason: cancelled)"]++
			continue
		}
		dep, v0, v1 := diffClassSections(fc.su.StateDiff)
		var known, fail []felt.Felt
		for h, k := range fc.known {
			if k {
				known = append(known, h)
			}
		}
		if failed != nil {
			fail = []felt.Felt{*failed}
		}
		q := fmt.Sprintf("classes K %s | D %s | V0 %s | V1 %s | F %s", toks(known), toks(dep), toks(v0), toks(v1), toks(fail))
		a, err := drv.Ask(q)
		if err != nil || a == "bad-op" {
			cr.fatal = fmt.Sprintf("Lean driver failed on %q: %q %v", q, a, err)
			return compared
		}
		compared++
		model := map[string]bool{}
		for _, w := range strings.Fields(a)[1:] {
			model[w] = true
		}
		bad := ""
		switch {
		case dup:
			bad = "a class was requested twice, or after a failed request"
		case fc.ok && failed != nil:
			bad = "BlockByNumber returned a block although a class fetch failed"
		case fc.ok:
			cr.hits["class-fetch:block-with-all-classes"]++
			if !strings.HasPrefix(a, "ok") || !sameSet(model, setOf(called)) || !sameSet(model, setOf(fc.keys)) {
				bad = "the classes requested / handed on as NewClasses are not the model's"
			}
			if len(model) == 0 {
				cr.hits["class-fetch:nothing-to-fetch"]++
			}
			if len(known) > 0 {
				cr.hits["class-fetch:some-class-already-in-state"]++
			}
		default:
			cr.hits["class-fetch:failed-on-a-class"]++
			if a != "err "+fmt.Sprint(id.of(failed)) {
				bad = "the model does not fail on the class whose fetch failed"
			}
		}
		if bad != "" {
			cr.mismatches = append(cr.mismatches, lib.Mismatch{Sig: "class-fetch-differs-from-model", Input: replay(),
				Model: q + " -> " + a, Impl: fmt.Sprintf("BlockByNumber(%d): ok=%v requested [%s] NewClasses [%s]: %s", fc.req, fc.ok, toks(called), toks(fc.keys), bad)})
			return compared
		}
	}
	return compared
}

// checkDeployedClasses (feeder mode): every class a contract of the converged chain was deployed with
// is in the node's state (fetchUnknownClasses fetched it when the block was downloaded).
func checkDeployedClasses(bc *blockchain.Blockchain, final []*lib.Bundle) string {
	st, closer, err := bc.HeadState()
	if err != nil {
		return "HeadState: " + err.Error()
	}
	defer func() { _ = closer() }()
	for _, b := range final {
		for a, h := range b.SU.StateDiff.DeployedContracts {
			if _, err := st.Class(h); err != nil {
				return fmt.Sprintf("class %s of contract %s deployed in block %d: %v", h.String(), a.String(), b.Block.Number, err)
			}
		}
	}
	return ""
}
