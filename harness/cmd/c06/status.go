//go:build verif

package main

import (
	"context"
	"fmt"
	"runtime"
	"sort"
	"strings"
	"sync"

	"github.com/NethermindEth/juno/core"
	"github.com/NethermindEth/juno/core/felt"
	junosync "github.com/NethermindEth/juno/sync"
	"verif/harness/lib"
)

// ---------------------------------------------------------------------------------------------
// The status bookkeeping of storeTask (startingBlockNumber/Header, highestBlockHeader, catchUpMode)
// and the reader accessors HighestBlockHeader() / StartingBlockHeader() against the Lean
// transcription (ModelStatus.lean, driver ops `st …`).
//
// Observed during the run: at the head of every Run (nextHeight), at every pollLatest answer (the
// BlockHeaderLatest call made with the very context Run was given), inside the listener's OpStore
// callback of every stored block (after the starting header was set, before highestBlockHeader and
// catchUpMode are updated) the values of both accessors, and both accessors again after Run returned.
// pollLatest stores its header from another goroutine at an unknown moment after the source answered:
// the replay keeps the (few) states that are possible and demands that the observation fits one.
// catchUpMode itself is not readable; what it decides is: a stream generation (one context) never has
// more than numWorkers fetchers asking at once (+1: revertTask asks from the verifier chain).
// ---------------------------------------------------------------------------------------------

type hdrObs struct {
	num  uint64
	hash felt.Felt
}

type statusObs struct {
	kind     string // begin | poll | store | end
	logIdx   int
	blk      hdrObs  // store: the stored block; poll: the header pollLatest was given
	next     uint64  // begin: nextHeight()
	procs    int     // begin: GOMAXPROCS
	hi       *hdrObs // store/end: HighestBlockHeader() (nil = nil)
	start    *hdrObs // store/end: StartingBlockHeader() (nil = an error was returned)
	startErr string
	fb       *hdrObs // store: the block numbered startingBlockNumber on the node's chain at that moment
}

type statusTracker struct {
	mu       sync.Mutex
	rec      *recorder
	s        *junosync.Synchronizer
	runCtx   context.Context
	startNum uint64
	obs      []statusObs
	// fetch concurrency per stream generation (context identity)
	gens  map[context.Context]*genObs
	order []*genObs
}

type genObs struct {
	firstIdx int
	inflight int
	max      int
}

func hdrOf(h *core.Header) *hdrObs {
	if h == nil || h.Hash == nil {
		return nil
	}
	return &hdrObs{h.Number, *h.Hash}
}

func (t *statusTracker) logLen() int {
	t.rec.mu.Lock()
	defer t.rec.mu.Unlock()
	return len(t.rec.log)
}

// begin: a new Synchronizer instance is about to Run with ctx.
func (t *statusTracker) begin(s *junosync.Synchronizer, ctx context.Context) {
	t.rec.mu.Lock()
	next := uint64(len(t.rec.chain))
	at := len(t.rec.log)
	t.rec.mu.Unlock()
	t.mu.Lock()
	t.s, t.runCtx, t.startNum = s, ctx, next
	t.obs = append(t.obs, statusObs{kind: "begin", logIdx: at, next: next, procs: runtime.GOMAXPROCS(0)})
	t.mu.Unlock()
}

// polled: the source answered a BlockHeaderLatest call made with ctx.
func (t *statusTracker) polled(ctx context.Context, h *core.Header) {
	t.mu.Lock()
	defer t.mu.Unlock()
	if t.runCtx == nil || ctx != t.runCtx {
		return
	}
	t.obs = append(t.obs, statusObs{kind: "poll", blk: hdrObs{h.Number, *h.Hash}})
}

func (t *statusTracker) read(o *statusObs) {
	o.hi = hdrOf(t.s.HighestBlockHeader())
	sh, err := t.s.StartingBlockHeader()
	if err != nil {
		o.startErr = err.Error()
	} else {
		o.start = hdrOf(sh)
	}
}

// stored: inside the OpStore callback of block n.
func (t *statusTracker) stored(n uint64) {
	t.mu.Lock()
	s, startNum := t.s, t.startNum
	t.mu.Unlock()
	if s == nil {
		return
	}
	o := statusObs{kind: "store"}
	t.rec.mu.Lock()
	o.logIdx = len(t.rec.log)
	if k := len(t.rec.chain); k > 0 && t.rec.chain[k-1].num == n {
		o.blk = hdrObs{n, t.rec.chain[k-1].hash}
	} else {
		o.blk.num = n
		o.kind = "store-untracked"
	}
	if int(startNum) < len(t.rec.chain) && t.rec.chain[startNum].num == startNum {
		o.fb = &hdrObs{startNum, t.rec.chain[startNum].hash}
	}
	t.rec.mu.Unlock()
	t.read(&o)
	t.mu.Lock()
	t.obs = append(t.obs, o)
	t.mu.Unlock()
}

// end: Run has returned.
func (t *statusTracker) end() {
	t.mu.Lock()
	s := t.s
	t.mu.Unlock()
	if s == nil {
		return
	}
	o := statusObs{kind: "end", logIdx: t.logLen()}
	t.read(&o)
	t.mu.Lock()
	t.obs = append(t.obs, o)
	t.runCtx = nil
	t.mu.Unlock()
}

// fetchBegin / fetchEnd bracket one BlockByNumber request.
func (t *statusTracker) fetchBegin(ctx context.Context) {
	at := t.logLen()
	t.mu.Lock()
	defer t.mu.Unlock()
	if t.gens == nil {
		t.gens = map[context.Context]*genObs{}
	}
	g := t.gens[ctx]
	if g == nil {
		g = &genObs{firstIdx: at}
		t.gens[ctx] = g
		t.order = append(t.order, g)
	}
	g.inflight++
	if g.inflight > g.max {
		g.max = g.inflight
	}
}

func (t *statusTracker) fetchEnd(ctx context.Context) {
	t.mu.Lock()
	if g := t.gens[ctx]; g != nil {
		g.inflight--
	}
	t.mu.Unlock()
}

// ---- replay against the model -------------------------------------------------------------------

type stCand struct {
	st       string // "SN SH HI CU"
	consumed int    // pollLatest answers already applied
}

func showHdr(id *ids, h *hdrObs) string {
	if h == nil {
		return "-"
	}
	hh := h.hash
	return fmt.Sprintf("%d:%d", h.num, id.of(&hh))
}

// checkStatus replays the observations; returns the number of comparisons.
func checkStatus(cr *caseResult, out *outcome, id *ids, drv *lib.Driver, replay func() any) int {
	t := out.status
	if drv == nil || t == nil {
		return 0
	}
	compared := 0
	failed := false
	ask := func(q string) string {
		if failed {
			return ""
		}
		a, err := drv.Ask(q)
		if err != nil {
			cr.fatal = "Lean driver died or answered short (st): " + err.Error()
			failed = true
			return ""
		}
		if a == "bad-op" {
			cr.fatal = fmt.Sprintf("the driver answered bad-op to %q", q)
			failed = true
			return ""
		}
		return a
	}
	mismatch := func(what, model, impl string) {
		cr.mismatches = append(cr.mismatches, lib.Mismatch{Sig: "sync-status-differs-from-model", Input: replay(),
			Model: what + ": " + model, Impl: impl})
		failed = true
	}
	cands := []stCand{{"- - - 0", 0}}
	var polls []hdrObs
	procs := 1
	field := func(st string, i int) string { return strings.Fields(st)[i] }
	dedupe := func(cs []stCand) []stCand {
		seen := map[string]bool{}
		var o []stCand
		for _, c := range cs {
			k := fmt.Sprintf("%s/%d", c.st, c.consumed)
			if !seen[k] {
				seen[k] = true
				o = append(o, c)
			}
		}
		return o
	}
	// polls recorded after a store callback and before the next one may have landed before that store's
	// update read highestBlockHeader (the callback was still running): look[oi] = number of pollLatest
	// answers of the instance recorded before the next store / end observation
	look := make([]int, len(t.obs))
	{
		n := 0
		cnt := make([]int, len(t.obs)+1)
		for i, o := range t.obs {
			if o.kind == "begin" {
				n = 0
			}
			if o.kind == "poll" {
				n++
			}
			cnt[i] = n
		}
		for i := range t.obs {
			look[i] = cnt[i]
			for j := i + 1; j < len(t.obs); j++ {
				if k := t.obs[j].kind; k == "begin" {
					break
				} else if k == "poll" {
					look[i] = cnt[j]
				} else {
					break
				}
			}
		}
	}
	var allPolls []hdrObs // of the current instance, including the ones recorded later
	limit := 0            // how many of them may have landed
	// every state reachable by letting pollLatest's pending stores land, in order
	withPolls := func(cs []stCand) []stCand {
		o := append([]stCand{}, cs...)
		polls := allPolls[:min(limit, len(allPolls))]
		for _, c := range cs {
			st := c.st
			for k := c.consumed; k < len(polls); k++ {
				p := polls[k]
				st = ask(fmt.Sprintf("st poll %s %d %d", st, p.num, id.of(&p.hash)))
				o = append(o, stCand{st, k + 1})
			}
		}
		return dedupe(o)
	}
	type wt struct{ idx, workers int }
	var timeline []wt
	workersOf := func(cs []stCand) int {
		w := 1
		for _, c := range cs {
			var k int
			fmt.Sscanf(ask(fmt.Sprintf("st workers %d %s", procs, field(c.st, 3))), "%d", &k)
			w = max(w, k)
		}
		return w
	}
	for oi, o := range t.obs {
		if failed {
			break
		}
		switch o.kind {
		case "begin":
			procs = o.procs
			polls = nil
			allPolls = nil
			for j := oi + 1; j < len(t.obs) && t.obs[j].kind != "begin"; j++ {
				if t.obs[j].kind == "poll" {
					allPolls = append(allPolls, t.obs[j].blk)
				}
			}
			// a new Synchronizer instance (sync.New): everything starts from scratch
			cands = []stCand{{ask(fmt.Sprintf("st begin - - - 0 %d", o.next)), 0}}
			timeline = append(timeline, wt{o.logIdx, 1})
			cr.hits["status:run-begin"]++
		case "poll":
			polls = append(polls, o.blk)
			cr.hits["status:pollLatest-answer"]++
		case "store-untracked":
			return compared // a head jump was recorded (a violation of its own)
		case "store":
			// (1) what HighestBlockHeader() showed before storeTask's update
			limit = len(polls)
			e1 := withPolls(cands)
			var f []stCand
			for _, c := range e1 {
				if field(c.st, 2) == showHdr(id, o.hi) {
					f = append(f, c)
				}
			}
			compared++
			if len(f) == 0 {
				var ms []string
				for _, c := range e1 {
					ms = append(ms, field(c.st, 2))
				}
				mismatch(fmt.Sprintf("HighestBlockHeader() inside the OpStore callback of block %d (observation %d)", o.blk.num, oi),
					"one of "+strings.Join(ms, " | "), showHdr(id, o.hi))
				break
			}
			if len(f) < len(e1) || len(polls) > 0 {
				cr.hits["status:highest-decided-among-candidates"]++
			}
			// (2) storeTask's update; pollLatest may still store between the callback and the Load (the
			// update then sees its header) or between the Load and the CompareAndSwap (which then fails)
			var nx []stCand
			limit = look[oi]
			late := allPolls[:min(limit, len(allPolls))]
			for _, c := range withPolls(f) {
				a := ask(fmt.Sprintf("st stored %d %s %d %d 1", procs, c.st, o.blk.num, id.of(&o.blk.hash)))
				if i := strings.Index(a, " reset="); i >= 0 {
					if strings.HasSuffix(a, "reset=1") {
						cr.hits["status:mode-flip(resetStreams)"]++
					}
					nx = append(nx, stCand{a[:i], c.consumed})
				}
				for k := c.consumed; k < len(late); k++ {
					b := ask(fmt.Sprintf("st stored %d %s %d %d 0", procs, c.st, o.blk.num, id.of(&o.blk.hash)))
					if i := strings.Index(b, " reset="); i >= 0 {
						p := late[k]
						nx = append(nx, stCand{ask(fmt.Sprintf("st poll %s %d %d", b[:i], p.num, id.of(&p.hash))), k + 1})
					}
				}
			}
			nx = dedupe(nx)
			// (3) StartingBlockHeader() inside the callback: the starting header has been set already
			var keep []stCand
			var answers []string
			obsS := "err"
			if o.start != nil {
				obsS = "hdr " + showHdr(id, o.start)
			}
			for _, c := range nx {
				a := ask(fmt.Sprintf("st start %s %s", c.st, showHdr(id, o.fb)))
				ans, st := a, c.st
				if strings.HasPrefix(a, "hdr ") {
					w := strings.Fields(a)
					ans, st = w[0]+" "+w[1], strings.Join(w[2:], " ")
				} else if i := strings.Index(a, " "); i >= 0 {
					ans, st = "err", a[i+1:]
				}
				answers = append(answers, ans)
				if ans == obsS {
					keep = append(keep, stCand{st, c.consumed})
				}
			}
			compared++
			if len(keep) == 0 && !failed {
				mismatch(fmt.Sprintf("StartingBlockHeader() inside the OpStore callback of block %d (observation %d)", o.blk.num, oi),
					"one of "+strings.Join(answers, " | "), obsS+" "+o.startErr)
				break
			}
			if o.start != nil {
				cr.hits["status:starting-header-known"]++
			} else {
				cr.hits["status:starting-header-error"]++
			}
			cands = dedupe(keep)
			timeline = append(timeline, wt{o.logIdx, workersOf(cands)})
			cr.hits["status:store-callbacks-checked"]++
		case "end":
			compared += 2
			if o.hi != nil {
				mismatch("HighestBlockHeader() after Run returned", "-", showHdr(id, o.hi))
				break
			}
			if o.start != nil {
				mismatch("StartingBlockHeader() after Run returned", "err-not-set", "hdr "+showHdr(id, o.start))
				break
			}
			var nx []stCand
			for _, c := range cands {
				e := ask("st end " + c.st)
				if a := ask(fmt.Sprintf("st start %s -", e)); !strings.HasPrefix(a, "err-not-set") && !failed {
					mismatch("StartingBlockHeader() after Run returned", a, "error: "+o.startErr)
				}
				nx = append(nx, stCand{e, len(polls)})
			}
			cands = dedupe(nx)
			cr.hits["status:run-end"]++
		}
	}
	if failed {
		return compared
	}
	// fetch concurrency per stream generation
	sort.Slice(timeline, func(a, b int) bool { return timeline[a].idx < timeline[b].idx })
	for _, g := range t.order {
		w := 1
		for _, e := range timeline {
			if e.idx <= g.firstIdx {
				w = e.workers
			}
		}
		compared++
		if g.max > 1 {
			cr.hits["status:generation-with-parallel-fetchers"]++
		} else {
			cr.hits["status:generation-with-one-fetcher"]++
		}
		if g.max > w+1 {
			mismatch(fmt.Sprintf("fetchers asking at once in the stream generation whose first request was made at log entry %d", g.firstIdx),
				fmt.Sprintf("at most numWorkers = %d (+1 for revertTask)", w), fmt.Sprintf("%d", g.max))
			break
		}
	}
	return compared
}
