//go:build verif

package main

import (
	"fmt"

	"github.com/NethermindEth/juno/core/felt"
	junosync "github.com/NethermindEth/juno/sync"
	"verif/harness/lib"
)

// ---------------------------------------------------------------------------------------------
// Subscriber churn: besides the two subscribers that live for the whole run, further subscribers
// of the new-heads, reorg and pre-confirmed feeds come and go at generated points. All churn
// happens inside the sync listener's callbacks, i.e. in the serial callback chain between two
// feed sends, so what each subscriber must receive is exact: the notifications of the stores
// [fromStore, toStore) resp. the reorg notifications [fromReorg, toReorg) of the run.
// ---------------------------------------------------------------------------------------------

const (
	kNewHead = iota
	kReorg
	kPreConf
)

type note struct {
	Num, ENum   uint64
	Hash, EHash felt.Felt
}

type fsub struct {
	kind               int
	name               string
	fromStore, toStore int // indices into the run's store sequence (toStore = -1 while subscribed)
	fromReorg, toReorg int // indices into the run's reorg-notification sequence
	got                []note
	unsub              func()
	live               bool
	unsubCalls         int
	done               chan struct{}
	closedSeen         bool
}

type churner struct {
	r     *lib.RNG
	s     *junosync.Synchronizer
	rec   *recorder
	calls int
	hits  map[string]int
}

// owed: how many notifications subscriber x must have received once the sends of `sentStores`
// stores / `sentReorgs` reorg notifications are complete. Callers hold rec.mu.
func (x *fsub) owed(sentStores, sentReorgs int) int {
	switch x.kind {
	case kNewHead:
		to := sentStores
		if x.toStore >= 0 && x.toStore < to {
			to = x.toStore
		}
		return max(0, to-x.fromStore)
	case kReorg:
		to := sentReorgs
		if x.toReorg >= 0 && x.toReorg < to {
			to = x.toReorg
		}
		return max(0, to-x.fromReorg)
	}
	return 0
}

// subscribe adds a subscriber; sentStores / sentReorgs = notifications already sent (it will see
// everything after them).
func (c *churner) subscribe(kind, sentStores, sentReorgs int) {
	x := &fsub{kind: kind, fromStore: sentStores, toStore: -1, fromReorg: sentReorgs, toReorg: -1,
		live: true, done: make(chan struct{})}
	rec := c.rec
	push := func(n note) {
		rec.mu.Lock()
		x.got = append(x.got, n)
		rec.cond.Broadcast()
		rec.mu.Unlock()
	}
	switch kind {
	case kNewHead:
		sub := c.s.SubscribeNewHeads()
		x.unsub = sub.Unsubscribe
		go func() {
			for b := range sub.Recv() {
				push(note{Num: b.Number, Hash: *b.Hash})
			}
			close(x.done)
		}()
	case kReorg:
		sub := c.s.SubscribeReorg()
		x.unsub = sub.Unsubscribe
		go func() {
			for g := range sub.Recv() {
				push(note{Num: g.StartBlockNum, Hash: *g.StartBlockHash, ENum: g.EndBlockNum, EHash: *g.EndBlockHash})
			}
			close(x.done)
		}()
	default:
		sub := c.s.SubscribePreConfirmed()
		x.unsub = sub.Unsubscribe
		go func() {
			for range sub.Recv() {
				push(note{})
			}
			close(x.done)
		}()
	}
	rec.mu.Lock()
	x.name = fmt.Sprintf("%s#%d", []string{"newHeads", "reorg", "preConfirmed"}[kind], len(rec.extra))
	rec.extra = append(rec.extra, x)
	rec.mu.Unlock()
	c.hits["churn:subscribe"]++
}

func (c *churner) unsubscribe(x *fsub, sentStores, sentReorgs int) {
	c.rec.mu.Lock()
	if x.live {
		x.live = false
		x.toStore, x.toReorg = sentStores, sentReorgs
	}
	x.unsubCalls++
	again := x.unsubCalls > 1
	c.rec.mu.Unlock()
	x.unsub()
	if again {
		c.hits["churn:unsubscribe-twice"]++
	} else {
		c.hits["churn:unsubscribe"]++
	}
}

func (c *churner) liveOf(kind int) []*fsub {
	c.rec.mu.Lock()
	defer c.rec.mu.Unlock()
	var out []*fsub
	for _, x := range c.rec.extra {
		if x.live && (kind < 0 || x.kind == kind) {
			out = append(out, x)
		}
	}
	return out
}

// act is called at a serial point of the pipeline. sentStores / sentReorgs say which sends are
// complete at this point.
func (c *churner) act(sentStores, sentReorgs int) {
	c.calls++
	switch c.calls {
	case 1:
		// A and B on every feed
		for k := kNewHead; k <= kPreConf; k++ {
			c.subscribe(k, sentStores, sentReorgs)
			c.subscribe(k, sentStores, sentReorgs)
		}
		return
	case 2:
		// A leaves, C arrives: B and C must both be served from now on
		for k := kNewHead; k <= kPreConf; k++ {
			if l := c.liveOf(k); len(l) > 0 {
				c.unsubscribe(l[0], sentStores, sentReorgs)
			}
			c.subscribe(k, sentStores, sentReorgs)
		}
		return
	}
	r := c.r
	if !r.Chance(1, 2) {
		return
	}
	for i := r.Range(1, 3); i > 0; i-- {
		kind := lib.Pick(r, []int{kNewHead, kNewHead, kReorg, kReorg, kPreConf})
		live := c.liveOf(kind)
		switch r.Intn(8) {
		case 0, 1, 2:
			if len(live) < 6 {
				c.subscribe(kind, sentStores, sentReorgs)
			}
		case 3: // FIFO
			if len(live) > 0 {
				c.unsubscribe(live[0], sentStores, sentReorgs)
			}
		case 4: // LIFO
			if len(live) > 0 {
				c.unsubscribe(live[len(live)-1], sentStores, sentReorgs)
			}
		case 5: // any
			if len(live) > 0 {
				c.unsubscribe(lib.Pick(r, live), sentStores, sentReorgs)
			}
		case 6: // unsubscribe twice
			c.rec.mu.Lock()
			var dead []*fsub
			for _, x := range c.rec.extra {
				if !x.live && x.kind == kind {
					dead = append(dead, x)
				}
			}
			c.rec.mu.Unlock()
			if len(dead) > 0 {
				c.unsubscribe(lib.Pick(r, dead), sentStores, sentReorgs)
			}
		default: // leave and come back at once
			if len(live) > 0 {
				c.unsubscribe(lib.Pick(r, live), sentStores, sentReorgs)
				c.subscribe(kind, sentStores, sentReorgs)
				c.hits["churn:resubscribe"]++
			}
		}
	}
}

// checkExtras compares what every extra subscriber received with what it was owed.
func checkExtras(extra []*fsub, stores []entry, reorgs []entry, viol func(sig, what string), hits map[string]int) {
	for _, x := range extra {
		var want []note
		switch x.kind {
		case kNewHead:
			to := x.toStore
			if to < 0 || to > len(stores) {
				to = len(stores)
			}
			for i := x.fromStore; i < to; i++ {
				want = append(want, note{Num: stores[i].Num, Hash: stores[i].Hash})
			}
		case kReorg:
			to := x.toReorg
			if to < 0 || to > len(reorgs) {
				to = len(reorgs)
			}
			for i := x.fromReorg; i < to; i++ {
				want = append(want, note{Num: reorgs[i].Num, Hash: reorgs[i].Hash, ENum: reorgs[i].ENum, EHash: reorgs[i].EHash})
			}
		}
		hits["churn:subscribers-checked"]++
		hits["churn:notifications-checked"] += len(want)
		feedName := []string{"new-heads", "reorg", "pre-confirmed"}[x.kind]
		same := len(want) == len(x.got)
		for i := 0; same && i < len(want); i++ {
			same = want[i].Num == x.got[i].Num && want[i].ENum == x.got[i].ENum &&
				want[i].Hash.Equal(&x.got[i].Hash) && want[i].EHash.Equal(&x.got[i].EHash)
		}
		if same {
			continue
		}
		desc := fmt.Sprintf("%s subscribed over stores [%d,%d) / reorg notifications [%d,%d): owed %d notifications, received %d (unsubscribe calls: %d)",
			x.name, x.fromStore, x.toStore, x.fromReorg, x.toReorg, len(want), len(x.got), x.unsubCalls)
		switch {
		case len(x.got) < len(want):
			viol("subscriber-of-"+feedName+"-feed-misses-notifications-while-subscribed", desc)
		case len(x.got) > len(want):
			viol("subscriber-of-"+feedName+"-feed-receives-notifications-outside-its-subscription", desc)
		default:
			viol("subscriber-of-"+feedName+"-feed-receives-wrong-or-reordered-notifications", desc)
		}
	}
}
