//go:build verif

// Harness for C06: the REAL sync.Synchronizer on a real Blockchain (memory DB, both state
// backends) against a scripted DataSource built on ChainGen chains. See notes/C06.md.
package main

import (
	"encoding/json"
	"fmt"
	"os"
	"runtime"
	"sort"
	"strconv"
	"strings"
	"sync"
	"time"

	"github.com/NethermindEth/juno/core"
	"github.com/NethermindEth/juno/core/felt"
	"verif/harness/lib"
)

type caseResult struct {
	sc         Scenario
	out        *outcome
	lines      []string // acceptor script
	answers    []string
	mismatches []lib.Mismatch
	violations []lib.Violation
	hits       map[string]int
	compared   int
	key        string
	nontrivial bool
	fatal      string
	logLen     int
	wall       time.Duration
}

// ids maps block hashes to the small numbers the Lean driver uses (0 = felt.Zero).
type ids struct {
	m map[string]int
	// per honest block (by hash): the id of its state diff (0 = empty) and the MODEL's state root after
	// it (computed by the Lean driver, op `roots`, from the diff ids of its chain)
	diff map[string]int
	root map[string]int
}

const freshRootBase = 3_000_000_000 // above every value of the model's rootStep (mod 2147483647)
const freshDiffBase = 1_000_000

// learnRoots asks the driver for the model's state roots of every chain of the source.
func (i *ids) learnRoots(drv *lib.Driver, chains [][]*lib.Bundle) error {
	i.diff, i.root = map[string]int{}, map[string]int{}
	for ci, c := range chains {
		if len(c) == 0 {
			continue
		}
		fresh := ci == 0
		for _, b := range c {
			if _, ok := i.root[b.Block.Hash.String()]; !ok {
				fresh = true
			}
		}
		if !fresh {
			continue
		}
		var w []string
		for _, b := range c {
			d := 0
			if diffSize(b.SU.StateDiff) > 0 || len(b.Classes) > 0 {
				d = i.of(b.Block.Hash)
			}
			i.diff[b.Block.Hash.String()] = d
			w = append(w, strconv.Itoa(d))
		}
		if drv == nil {
			continue
		}
		a, err := drv.Ask("roots " + strings.Join(w, " "))
		if err != nil {
			return err
		}
		rs := strings.Split(a, ",")
		if len(rs) != len(c) {
			return fmt.Errorf("driver answered %q to roots of %d blocks", a, len(c))
		}
		for k, b := range c {
			v, err := strconv.Atoi(rs[k])
			if err != nil {
				return fmt.Errorf("driver answered %q to roots", a)
			}
			i.root[b.Block.Hash.String()] = v
		}
	}
	return nil
}

// claim returns the (diff id, claimed root) part of a token for an answer derived from the honest
// block orig: the honest values where the answer kept them, fresh ones where it changed them.
func (i *ids) claim(orig, hash *felt.Felt, diffSame, rootSame bool) (int, int) {
	d, r := i.diff[orig.String()], i.root[orig.String()]
	if !diffSame {
		d = freshDiffBase + i.of(hash)
	}
	if !rootSame {
		r = freshRootBase + i.of(hash)
	}
	return d, r
}

func (i *ids) of(f *felt.Felt) int {
	if f.IsZero() {
		return 0
	}
	k := f.String()
	if v, ok := i.m[k]; ok {
		return v
	}
	v := len(i.m) + 1
	i.m[k] = v
	return v
}

func b2i(b bool) int {
	if b {
		return 1
	}
	return 0
}

func token(i *ids, b *lib.Bundle, ok bool) string {
	d, r := i.claim(b.Block.Hash, b.Block.Hash, true, true)
	return fmt.Sprintf("%d:%d:%d:%d:%d:%d", b.Block.Number, i.of(b.Block.Hash), i.of(b.Block.ParentHash), b2i(ok), d, r)
}

func chainTokens(i *ids, c []*lib.Bundle) string {
	var w []string
	for _, b := range c {
		w = append(w, token(i, b, true))
	}
	return strings.Join(w, " ")
}

func traceStrings(i *ids, log []entry) []string {
	var out []string
	for _, e := range log {
		switch e.Kind {
		case eServed:
			out = append(out, fmt.Sprintf("served req=%d blk=%d:%d parent=%d valid=%v fault=%q epoch=%d", e.Req, e.Num, i.of(&e.Hash), i.of(&e.Parent), e.Valid, e.Fault, e.Epoch))
		case eServeErr:
			out = append(out, fmt.Sprintf("serve-err req=%d (%s) epoch=%d", e.Req, e.Fault, e.Epoch))
		case eLatest:
			out = append(out, fmt.Sprintf("latest %d:%d fault=%q epoch=%d", e.Num, i.of(&e.Hash), e.Fault, e.Epoch))
		case eLatestErr:
			out = append(out, "latest-err")
		case eStored:
			out = append(out, fmt.Sprintf("STORED %d:%d content-ok=%v", e.Num, i.of(&e.Hash), e.Valid))
		case eReverted:
			out = append(out, fmt.Sprintf("REVERTED %d:%d", e.Num, i.of(&e.Hash)))
		case eJump:
			out = append(out, "HEAD-JUMP "+e.Note)
		case eNewHead:
			out = append(out, fmt.Sprintf("feed newHead %d:%d (window %d)", e.Num, i.of(&e.Hash), e.Window))
		case eReorg:
			out = append(out, fmt.Sprintf("feed reorg %d:%d..%d:%d (window %d)", e.Num, i.of(&e.Hash), e.ENum, i.of(&e.EHash), e.Window))
		case eOnReorg:
			out = append(out, fmt.Sprintf("listener OnReorg(%d)", e.Num))
		case eEpoch:
			out = append(out, fmt.Sprintf("SOURCE SWITCHES TO CHAIN %d", e.Epoch))
		case eRestart:
			out = append(out, "SYNCHRONIZER SHUT DOWN (Run returned); NEW Blockchain + Synchronizer ON THE SAME DATABASE")
		}
	}
	// collapse the retry loops
	var c []string
	for _, s := range out {
		if n := len(c); n > 0 && strings.HasPrefix(c[n-1], s) {
			if c[n-1] == s {
				c[n-1] = s + " x2"
			} else {
				var k int
				fmt.Sscanf(c[n-1][len(s):], " x%d", &k)
				c[n-1] = fmt.Sprintf("%s x%d", s, k+1)
			}
			continue
		}
		c = append(c, s)
	}
	if len(c) > 400 && os.Getenv("C06_FULLTRACE") == "" {
		c = append(c[:200], append([]string{"..."}, c[len(c)-200:]...)...)
	}
	return c
}

func analyse(sc Scenario, out *outcome, drv *lib.Driver) *caseResult {
	cr := &caseResult{sc: sc, out: out, hits: map[string]int{}}
	cr.key = fmt.Sprintf("%s/%d/%v/%d", sc.Kind, sc.Seed, sc.DstNew, sc.Procs)
	if out.skipped {
		cr.hits["skipped-after-hangs"]++
		cr.key = "skipped"
		return cr
	}
	id := &ids{m: map[string]int{}}
	if out.chains != nil {
		if err := id.learnRoots(drv, out.chains); err != nil {
			cr.fatal = "Lean driver died or answered short (roots): " + err.Error()
			return cr
		}
	}
	if out.selfErr != "" {
		cr.fatal = "the harness's forged-block generator failed: " + out.selfErr
	}
	replay := func() any {
		return map[string]any{"scenario": sc, "trace": traceStrings(id, out.log),
			"final_source_chain_len": len(out.chains[len(out.chains)-1]), "final_node_chain_len": len(out.finalChain)}
	}
	viol := func(sig, what string) {
		cr.violations = append(cr.violations, lib.Violation{Sig: sig, What: what, Replay: replay()})
	}
	if out.panicMsg != "" {
		if out.chains == nil {
			cr.hits["generator-failed"]++
			cr.mismatches = append(cr.mismatches, lib.Mismatch{Sig: "generator", Input: sc, Impl: out.panicMsg})
			return cr
		}
		viol("synchronizer-panics-or-stops", out.panicMsg)
	}
	if strings.HasPrefix(out.hang, "livelock:") {
		viol("node-keeps-reverting-and-storing-against-a-stable-source", out.hang)
	} else if out.hang != "" {
		viol("synchronizer-hangs", out.hang)
	}
	if out.probeMiss != "" {
		viol("new-head-notification-not-emitted-before-the-store-path-went-on", out.probeMiss+
			" — new-head notifications are emitted once per stored block in storage order: by storeTask itself, before the next block is stored")
	}
	cr.hits["probe:new-head-in-the-slot-when-the-next-store-began"] += out.probed
	if out.afterReturn != "" {
		viol("synchroniser-still-working-after-Run-returned", "after Run returned (context cancelled) the synchroniser still did: "+out.afterReturn+
			" — Run must wait for its fetchers and verifiers, the caller closes the database next")
	}
	if out.persisted["persisted:stored-tampered"] > 0 {
		viol("tampered-block-reported-as-persisted", "a block served with a changed committed field (hash kept) came back with Persisted <- nil: it passed verifierTask and Store")
	}
	final := out.chains[len(out.chains)-1]
	for k, v := range out.hits {
		cr.hits[k] += v
	}
	for k, v := range out.persisted {
		if strings.HasPrefix(k, "forged:") {
			k = fmt.Sprintf("%s(dst-new-state=%v)", k, sc.DstNew)
		}
		cr.hits[k] += v
	}

	// ---- oracle on the real run ------------------------------------------------------------
	byHash := map[string]*lib.Bundle{}
	for _, c := range out.chains {
		for _, b := range c {
			byHash[b.Block.Hash.String()] = b
		}
	}
	// a failed RevertHead: the listener's OnReorg(n) fires (revertHead ran) but no commit removed n
	failedRevert := map[int]bool{}
	{
		lastRev := -1
		for i, e := range out.log {
			switch e.Kind {
			case eReverted:
				lastRev = i
			case eOnReorg:
				if lastRev < 0 || out.log[lastRev].Num != e.Num {
					failedRevert[i] = true
				}
				lastRev = -1
			}
		}
	}
	if len(failedRevert) > 0 {
		cr.hits["db:RevertHead-failed(observed)"] += len(failedRevert)
	}
	if out.dbFailed > 0 {
		cr.hits["db:write-calls-failed"] += out.dbFailed
	}
	var chain []headRec
	for i := 0; i < sc.Prestore && i < len(out.chains[0]); i++ {
		chain = append(chain, headRec{uint64(i), *out.chains[0][i].Block.Hash})
	}
	epoch := sc.StartEpoch
	servedValid := map[string]bool{}
	servedForged := map[string]entry{} // self-consistent forged answers (not the valid twins)
	var stores []entry
	var revRuns [][]entry // per store: the reverts that preceded it
	var curRun []entry
	var gotN, gotG []entry
	for li, e := range out.log {
		switch e.Kind {
		case eEpoch:
			epoch = e.Epoch
		case eRestart:
			if len(curRun) > 0 {
				cr.hits["shutdown:restart-with-unannounced-reverts"]++
			}
			curRun = nil // currReorg is not persisted: a new instance does not announce earlier reverts
			cr.hits["shutdown:restart"]++
		case eServed:
			if e.Valid {
				servedValid[e.Hash.String()] = true
			} else if strings.HasPrefix(e.Fault, "forged:") {
				servedForged[e.Hash.String()] = e
			}
		case eStored:
			cr.hits["commit:stored"]++
			if f, forged := servedForged[e.Hash.String()]; !e.Valid && forged && f.Fault == "forged:unsupported-version" {
				viol("stored-block-of-an-unsupported-protocol-version", fmt.Sprintf(
					"block %d was STORED although its protocol version is above the latest one juno supports (core.CheckBlockVersion, the first check of verifyBlockSuccession inside Store): "+
						"a self-consistent block (right number and parent, true state roots, block hash computed over the header with that version) that SanityCheckNewHeight accepts", e.Num))
				cr.hits["forged:STORED"]++
			} else if !e.Valid && (forged || strings.HasPrefix(e.Note, stateRootPrefix)) {
				backend := "legacy state backend (blockchain/statebackend/deprecated.go, core/deprecatedstate)"
				if sc.DstNew {
					backend = "new state backend (blockchain/statebackend/statebackend.go, core/state)"
				}
				viol("stored-block-whose-claimed-state-root-is-not-the-root-of-the-resulting-state", fmt.Sprintf(
					"block %d was STORED although the state root it claims is not the root of the state that results from applying its diff (%s; answer kind %q: "+
						"a self-consistent forged block — right number and parent, recomputed hash, matching state update — which only Store's root verification can refuse); %s. "+
						"From here on RevertHead of this block fails and the node cannot follow the source", e.Num, backend, f.Fault, e.Note))
				cr.hits["forged:STORED"]++
				if drv != nil && forged {
					// what does the model's Store say about this block on this chain?
					var loc []string
					known := true
					for _, h := range chain {
						hb := byHash[h.hash.String()]
						if hb == nil {
							known = false
							break
						}
						loc = append(loc, token(id, hb, true))
					}
					if known {
						if a, err := drv.Ask(strings.TrimSpace(fmt.Sprintf("succ %s loc %s", tokenOf(id, f), strings.Join(loc, " ")))); err == nil && a != "stored" {
							cr.mismatches = append(cr.mismatches, lib.Mismatch{Sig: "store-outcome-differs-from-model", Input: replay(),
								Model: "succession = " + a, Impl: "Store returned nil, the block is the new head"})
						}
					}
				}
			} else if !e.Valid {
				viol("stored-block-is-not-a-verified-block-of-the-source", fmt.Sprintf("block %d stored with content that differs from the valid block: %s", e.Num, e.Note))
			} else if !servedValid[e.Hash.String()] {
				viol("stored-block-never-served", fmt.Sprintf("block %d was stored but the source never served it untampered", e.Num))
			}
			b := byHash[e.Hash.String()]
			if b != nil {
				wantNum, wantParent := uint64(0), felt.Zero
				if len(chain) > 0 {
					wantNum, wantParent = chain[len(chain)-1].num+1, chain[len(chain)-1].hash
				}
				if b.Block.Number != wantNum || !b.Block.ParentHash.Equal(&wantParent) {
					viol("stored-block-does-not-extend-head", fmt.Sprintf("block %d stored on a head it does not extend", e.Num))
				}
			}
			chain = append(chain, headRec{e.Num, e.Hash})
			stores = append(stores, e)
			revRuns = append(revRuns, curRun)
			curRun = nil
		case eReverted:
			cr.hits["commit:reverted"]++
			if e.Num == 0 {
				cr.hits["commit:reverted-genesis"]++
			}
			cur := out.chains[epoch]
			if int(e.Num) < len(cur) && cur[e.Num].Block.Hash.Equal(&e.Hash) {
				// the source's chain holds this block: why was it reverted? (the cause decides the
				// signature; anything not explained by exactly one documented cause stays generic)
				cause, detail := revertCause(out.log[:li], e)
				if cause == "" && decidedWhenAbsent(out.log[:li], e, out.chains) {
					// the deciding answer was true when it was given (after this block had been stored):
					// the source did not hold the block then and has taken it up again since
					cause = "source-changed-again"
					cr.hits["revert:decided-before-the-source-changed-again"]++
				}
				switch cause {
				case "source-changed-again":
				case "forged-answer":
					// revertTask's request was answered with a self-consistent forged block: it passes
					// SanityCheckNewHeight and differs from the head, so the head is reverted (nothing short of
					// applying the block could tell); the forged block itself is never stored and the node fetches
					// the honest block again
					cr.hits["revert:on-self-consistent-forged-answer(unavoidable, block re-fetched)"]++
				case "stale-successor":
					cr.hits["revert:on-successor-fetched-before-reorg"]++
					viol("reverted-live-block-on-successor-fetched-before-the-reorg", fmt.Sprintf(
						"block %d, which the source holds (epoch %d), was reverted: block %d of the source's PREVIOUS chain, fetched before the reorg, "+
							"arrived after block %d of the new chain had been stored; storeTask answers ErrParentDoesNotMatchHead with revertTask(number-2), which reverts the head without asking",
						e.Num, epoch, e.Num+1, e.Num))
				case "hash-altered-answer":
					cr.hits["revert:on-hash-altered-answer"]++
					viol("reverted-live-block-on-hash-altered-answer-to-revertTask", fmt.Sprintf(
						"block %d, which the source holds, was reverted because revertTask's BlockByNumber(%d) was answered with a block whose Hash field is altered (%s); "+
							"revertTask compares the hash of the answer without verifying it (the same answer is refused by SanityCheckNewHeight on the store path)", e.Num, e.Num, detail))
				case "lying-latest-header":
					cr.hits["revert:on-lying-latest-header"]++
					viol("reverted-live-block-on-unverifiable-latest-header", fmt.Sprintf(
						"block %d, which the source holds, was reverted without asking for it: isReverting trusted a BlockHeaderLatest answer (%s) that is not a header of the source's chain "+
							"and returned remoteHeight-1, so revertTask reverted every block from that height up", e.Num, detail))
				case "wrong-number-answer":
					viol("revert-decided-on-answer-with-wrong-block-number", fmt.Sprintf(
						"block %d, which the source holds, was reverted because BlockByNumber(%d) was answered with a block of another number (%s)", e.Num, e.Num, detail))
				default:
					if os.Getenv("C06_DEBUG") != "" {
						for _, q := range out.log[max(0, li-12):li] {
							fmt.Fprintf(os.Stderr, "DBG kind=%d req=%d num=%d fault=%q\n", q.Kind, q.Req, q.Num, q.Fault)
						}
					}
					viol("reverted-a-block-the-source-still-has", fmt.Sprintf("block %d was reverted while the source's chain (epoch %d) holds it", e.Num, epoch))
				}
			}
			if len(chain) == 0 || chain[len(chain)-1].num != e.Num {
				viol("revert-not-of-head", fmt.Sprintf("revert of %d", e.Num))
			} else {
				chain = chain[:len(chain)-1]
			}
			curRun = append(curRun, e)
		case eJump:
			viol("head-moved-other-than-by-one-store-or-one-revert", e.Note)
		case eNewHead:
			gotN = append(gotN, e)
		case eReorg:
			gotG = append(gotG, e)
		}
	}
	var wantG []entry
	for _, run := range revRuns {
		if len(run) > 0 {
			first, last := run[0], run[len(run)-1]
			wantG = append(wantG, entry{Num: last.Num, Hash: last.Hash, ENum: first.Num, EHash: first.Hash})
		}
	}
	// every subscriber that came and went: exactly the notifications of its subscription interval
	nv := len(cr.violations)
	if len(failedRevert) > 0 {
		// RevertHead failed (injected database failure): currReorg then covers a block that was not
		// reverted (theorem failed_revert_makes_reorg_range_wrong; RevertHead succeeding is an
		// assumption of the notification clauses). Only the exact replay through Impl.step, which
		// models the failure, judges the notifications of such a run.
		cr.hits["db:notification-oracles-left-to-the-impl-replay"]++
	} else {
		checkExtras(out.extra, stores, wantG, viol, cr.hits)
	}
	if len(failedRevert) > 0 {
	} else if out.drainLost {
		if len(cr.violations) == nv || len(gotN) < len(stores) || len(gotG) < len(wantG) {
			viol("feed-notification-missing", "a new-head or reorg notification owed for a stored block was not received")
		}
	} else {
		// notifications exact (the two subscribers that live for the whole run)
		if len(gotN) != len(stores) {
			viol("newhead-count-differs-from-stored-blocks", fmt.Sprintf("%d new-head notifications for %d stored blocks", len(gotN), len(stores)))
		} else {
			for i := range stores {
				if gotN[i].Num != stores[i].Num || !gotN[i].Hash.Equal(&stores[i].Hash) {
					viol("newhead-order-or-content-differs-from-storage-order", fmt.Sprintf("notification %d is block %d, stored block was %d", i, gotN[i].Num, stores[i].Num))
					break
				}
			}
		}
		if len(wantG) != len(gotG) {
			viol("reorg-notification-count-wrong", fmt.Sprintf("%d reorg notifications, %d stores were preceded by reverts", len(gotG), len(wantG)))
		} else {
			for i := range wantG {
				g, w := gotG[i], wantG[i]
				if g.Num != w.Num || g.ENum != w.ENum || !g.Hash.Equal(&w.Hash) || !g.EHash.Equal(&w.EHash) {
					viol("reorg-notification-range-differs-from-reverted-range", fmt.Sprintf("got %d..%d want %d..%d", g.Num, g.ENum, w.Num, w.ENum))
					break
				}
			}
		}
		cr.hits["feed:newHead"] += len(gotN)
		cr.hits["feed:reorg"] += len(gotG)
	}
	// did the directed interleaving happen? a valid successor block of an EARLIER chain of the source
	// (fetched before the reorg) exists for a block of the new chain that was stored, and that block
	// stayed (the code asked for it before reverting)
	{
		staleFor := map[string]bool{}
		for li, e := range out.log {
			if e.Kind == eStored && staleSuccessor(out.log, e) {
				staleFor[e.Hash.String()] = true
				_ = li
			}
			if e.Kind == eReverted {
				delete(staleFor, e.Hash.String())
			}
		}
		if len(staleFor) > 0 {
			cr.hits["race:stale-successor-of-a-stored-new-head-existed(head kept)"]++
		} else if sc.Kind == "race" {
			cr.hits["race:degenerate(no parallel fetchers in time)"]++
		}
	}
	if sc.Plugin && len(failedRevert) == 0 {
		// (the plugin is told BEFORE RevertHead: after a failed RevertHead it has seen a revert that did
		// not happen — outside the property, which assumes RevertHead succeeds)
		checkPlugin(out.plugin, out.log, viol, cr.hits)
	}
	if sc.ReadOnly {
		cr.hits["read-only:runs"]++
		if len(stores) > 0 || len(curRun) > 0 {
			viol("read-only-synchroniser-changed-the-chain", "readOnlyBlockchain = true, yet blocks were stored or reverted")
		}
	}
	// convergence
	same := len(out.finalChain) == len(final)
	for i := 0; same && i < len(final); i++ {
		same = out.finalChain[i].hash.Equal(final[i].Block.Hash)
	}
	properPrefix := len(final) < len(out.finalChain)
	for i := 0; properPrefix && i < len(final); i++ {
		properPrefix = out.finalChain[i].hash.Equal(final[i].Block.Hash)
	}
	switch {
	case same:
		cr.hits["end:converged"]++
		if len(final) == 1 && sc.Prestore >= 2 {
			cr.hits["end:converged-onto-a-different-genesis-only(remoteHeight 0)"]++
		}
		for _, b := range final {
			if why := sameBlock(out.final, b); why != "" {
				viol("final-chain-content-differs-from-source", why)
				break
			}
		}
		if why := checkClasses(out.final, final); why != "" {
			viol("declared-class-missing-or-different-in-state-after-sync", why)
		}
		if sc.ViaFeeder {
			// (blocks the node held before the run were stored directly, without the feeder)
			if why := checkDeployedClasses(out.final, final[min(sc.Prestore, len(final)):]); why != "" {
				viol("class-of-deployed-contract-missing-in-state-after-sync", why)
			}
		}
		if h, err := out.final.Height(); len(final) > 0 && (err != nil || h != uint64(len(final)-1)) {
			viol("final-height-differs-from-source", fmt.Sprintf("Height()=%d,%v want %d", h, err, len(final)-1))
		}
	case out.hang != "" || out.panicMsg != "":
	case sc.ReadOnly:
	case properPrefix:
		// the source holds a proper prefix of the node's chain: indistinguishable from a stale
		// head, outside the property (see notes); the model must predict the same
		cr.hits["end:source-is-prefix-of-node(no-revert)"]++
	case len(final) == 1 && len(out.finalChain) >= 2:
		cr.hits["end:stuck-remote-height-0"]++
		viol("no-convergence-when-source-chain-is-a-different-genesis-only",
			fmt.Sprintf("source holds a single block (a different genesis), node keeps its %d blocks forever: isReverting returns remoteHeight-1 = 2^64-1", len(out.finalChain)))
	default:
		cr.hits["end:not-converged"]++
		viol("no-convergence-with-stable-source", fmt.Sprintf("node has %d blocks, source %d; nothing changes any more", len(out.finalChain), len(final)))
	}

	// ---- Lean acceptor on the observed trace ----------------------------------------------
	var lines []string
	pre := out.chains[0]
	if sc.Prestore < len(pre) {
		pre = pre[:sc.Prestore]
	}
	lines = append(lines, strings.TrimSpace("spec-init "+chainTokens(id, pre)))
	notif := func(k int) {
		for _, e := range out.log {
			if e.Kind == eReorg && e.Window == k {
				lines = append(lines, fmt.Sprintf("G %d %d %d %d", e.Num, id.of(&e.Hash), e.ENum, id.of(&e.EHash)))
			}
		}
		for _, e := range out.log {
			if e.Kind == eNewHead && e.Window == k {
				lines = append(lines, fmt.Sprintf("N %d %d", e.Num, id.of(&e.Hash)))
			}
		}
	}
	nst := 0
	seenServed := map[string]bool{}
	var accChain []int // hash ids of the acceptor's chain
	for _, b := range pre {
		accChain = append(accChain, id.of(b.Block.Hash))
	}
	for _, e := range out.log {
		switch e.Kind {
		case eServed:
			l := fmt.Sprintf("served %d %s", e.Req, tokenOf(id, e))
			if !seenServed[l] { // the relation only looks at the set of answers
				seenServed[l] = true
				lines = append(lines, l)
			}
		case eLatest:
			l := fmt.Sprintf("latest %d %d", e.Num, id.of(&e.Hash))
			if !seenServed[l] {
				seenServed[l] = true
				lines = append(lines, l)
			}
		case eStored:
			if _, forged := servedForged[e.Hash.String()]; e.Valid || forged {
				// (a stored forged block: the acceptor itself must refuse it — wrong state root)
				lines = append(lines, fmt.Sprintf("S %d %d", e.Num, id.of(&e.Hash)))
			}
			if !e.Valid {
				par := 0
				if n := len(accChain); n > 0 {
					par = accChain[n-1]
				}
				lines = append(lines, fmt.Sprintf("force-S %d %d %d", e.Num, id.of(&e.Hash), par))
			}
			accChain = append(accChain, id.of(&e.Hash))
			// answers given from now on are "recent" again for the acceptor: repeat them once
			seenServed = map[string]bool{}
			nst++
			notif(nst)
		case eRestart:
			lines = append(lines, "restart")
		case eReverted:
			lines = append(lines, fmt.Sprintf("R %d %d", e.Num, id.of(&e.Hash)))
			if len(accChain) > 0 {
				accChain = accChain[:len(accChain)-1]
			}
		}
	}
	for _, e := range out.log { // anything outside a store's window
		if (e.Kind == eReorg || e.Kind == eNewHead) && (e.Window == 0 || e.Window > nst) {
			lines = append(lines, fmt.Sprintf("N %d %d", e.Num, id.of(&e.Hash)))
		}
	}
	lines = append(lines, "spec-end")
	if sc.Kind == "static" {
		lines = append(lines, fmt.Sprintf("rounds %d src %s | loc %s", 2*(len(final)+sc.Prestore)+4, chainTokens(id, final), chainTokens(id, pre)))
	}
	cr.lines = lines
	if drv != nil && !out.drainLost && len(failedRevert) == 0 {
		var ans []string
		var err error
		for li := 0; li < len(lines); li++ {
			var a string
			a, err = drv.Ask(lines[li])
			if err != nil {
				break
			}
			if a == "reject revert-without-evidence" {
				// is the only "evidence" an answer carrying another block number than the one asked for?
				var n, h int
				fmt.Sscanf(lines[li], "R %d %d", &n, &h)
				// attribute the revert to its cause: a successor block with another parent (the path of
				// storeTask) is not a mis-numbered answer, even if one was also given
				ev, _ := drv.Ask(fmt.Sprintf("evidence %d %d", n, h))
				otherCause := false
				for qi, q := range out.log {
					if q.Kind == eReverted && q.Num == uint64(n) && id.of(&q.Hash) == h {
						if c, _ := revertCause(out.log[:qi], q); c == "lying-latest-header" || c == "hash-altered-answer" || c == "stale-successor" {
							otherCause = true
						}
					}
				}
				if !otherCause && !strings.Contains(ev, "successor=true") && wrongNumAnswered(out.log, id, uint64(n), h) {
					viol("revert-decided-on-answer-with-wrong-block-number", fmt.Sprintf(
						"block %d was reverted because BlockByNumber(%d) was answered with a block of another number (revertTask compares only the hashes)", n, n))
					cr.hits["revert:on-wrong-number-answer"]++
					lines[li] = fmt.Sprintf("force-R %d %d", n, h)
					a, err = drv.Ask(lines[li])
					if err != nil {
						break
					}
				}
			}
			if a == "bad-op" {
				cr.fatal = fmt.Sprintf("the driver answered bad-op to %q", lines[li])
			}
			ans = append(ans, a)
		}
		if err != nil {
			cr.fatal = "Lean driver died or answered short during the acceptor run: " + err.Error()
			return cr
		}
		cr.answers = ans
		for i, a := range ans {
			l := lines[i]
			switch {
			case strings.HasPrefix(l, "spec-end"):
				var want []string
				for _, h := range out.finalChain {
					hh := h.hash
					want = append(want, fmt.Sprintf("%d:%d", h.num, id.of(&hh)))
				}
				ws := strings.Join(want, ",")
				if ws == "" {
					ws = "-"
				}
				cr.compared++
				if a != fmt.Sprintf("chain=%s owed=0 pending=%d", ws, len(curRun)) {
					cr.mismatches = append(cr.mismatches, lib.Mismatch{Sig: "acceptor-final-state", Input: replay(), Model: a,
						Impl: fmt.Sprintf("chain=%s owed=0 pending=%d", ws, len(curRun))})
				}
			case strings.HasPrefix(l, "rounds "):
				// canonical sequential schedule: exact equality of commits and notifications
				var obs []string
				k := 0
				for _, e := range out.log {
					switch e.Kind {
					case eStored:
						k++
						obs = append(obs, fmt.Sprintf("S %d %d", e.Num, id.of(&e.Hash)))
						for _, g := range out.log {
							if g.Kind == eReorg && g.Window == k {
								obs = append(obs, fmt.Sprintf("G %d %d %d %d", g.Num, id.of(&g.Hash), g.ENum, id.of(&g.EHash)))
							}
						}
						for _, g := range out.log {
							if g.Kind == eNewHead && g.Window == k {
								obs = append(obs, fmt.Sprintf("N %d %d", g.Num, id.of(&g.Hash)))
							}
						}
					case eReverted:
						obs = append(obs, fmt.Sprintf("R %d %d", e.Num, id.of(&e.Hash)))
					}
				}
				var fc []string
				for _, h := range out.finalChain {
					hh := h.hash
					fc = append(fc, fmt.Sprintf("%d:%d", h.num, id.of(&hh)))
				}
				fcs := strings.Join(fc, ",")
				if fcs == "" {
					fcs = "-"
				}
				impl := strings.Join(obs, ";") + " => chain=" + fcs
				model := a
				if j := strings.Index(a, " reorg="); j >= 0 {
					model = a[:j]
				}
				cr.compared++
				if impl != model {
					cr.mismatches = append(cr.mismatches, lib.Mismatch{Sig: "sequential-schedule-differs", Input: replay(), Model: a, Impl: impl})
				}
			default:
				cr.compared++
				if a != "ok" {
					cr.mismatches = append(cr.mismatches, lib.Mismatch{Sig: "acceptor:" + a, Input: replay(),
						Model: fmt.Sprintf("line %d %q -> %s", i, l, a), Impl: "observed on the real synchroniser"})
					cr.hits["acceptor:"+a]++
				}
			}
			if len(cr.mismatches) > 3 {
				break
			}
		}
	}
	// ---- exact replay through Impl.step -----------------------------------------------------
	if drv != nil && !out.drainLost && len(cr.mismatches) == 0 && out.hang == "" && out.panicMsg == "" {
		notifOf := func(k int) []string {
			var o []string
			for _, e := range out.log {
				if e.Kind == eReorg && e.Window == k {
					o = append(o, fmt.Sprintf("G %d %d %d %d", e.Num, id.of(&e.Hash), e.ENum, id.of(&e.EHash)))
				}
			}
			for _, e := range out.log {
				if e.Kind == eNewHead && e.Window == k {
					o = append(o, fmt.Sprintf("N %d %d", e.Num, id.of(&e.Hash)))
				}
			}
			return o
		}
		diff, n, ih := implReplay(drv, id, sc, out, pre, notifOf, failedRevert)
		cr.compared += n
		for k, v := range ih {
			cr.hits[k] += v
		}
		if strings.HasPrefix(diff, "driver") || strings.HasPrefix(diff, "impl-init") {
			cr.fatal = "Impl replay: " + diff
		} else if strings.HasPrefix(diff, "plugin calls:") {
			cr.mismatches = append(cr.mismatches, lib.Mismatch{Sig: "plugin-calls-differ-from-model", Input: replay(), Model: diff, Impl: "recorded by the plugin registered with the real synchroniser"})
		} else if diff != "" {
			cr.mismatches = append(cr.mismatches, lib.Mismatch{Sig: "impl-replay-differs", Input: replay(), Model: diff, Impl: "observed on the real synchroniser"})
		}
	}
	// ---- the outcome of every delivery (also the ones that change nothing) vs the model ----------
	if drv != nil && out.hang == "" && out.panicMsg == "" && cr.fatal == "" {
		cr.compared += checkOutcomes(cr, sc, out, id, drv, byHash, replay)
		if cr.fatal == "" {
			cr.compared += checkStatus(cr, out, id, drv, replay)
		}
		if cr.fatal == "" && len(out.fetchCalls) > 0 {
			cr.compared += checkClassFetches(cr, out.fetchCalls, id, drv, replay)
		}
	}
	cr.key = fmt.Sprintf("%s/%d/%v/%d", sc.Kind, sc.Seed, sc.DstNew, sc.Procs)
	cr.nontrivial = len(stores) > 0 || nst > 0 || len(curRun) > 0
	return cr
}

// syncGoroutines returns the stack of a goroutine that is still inside juno's sync package (after
// a grace period), or "".
func syncGoroutines() string {
	for try := 0; ; try++ {
		buf := make([]byte, 8<<20)
		buf = buf[:runtime.Stack(buf, true)]
		found := ""
		for _, g := range strings.Split(string(buf), "\n\n") {
			if strings.Contains(g, "github.com/NethermindEth/juno/sync.") || strings.Contains(g, "juno/sync/preconfirmed.") {
				found = g
				break
			}
		}
		if found == "" || try >= 20 {
			return found
		}
		time.Sleep(10 * time.Millisecond)
	}
}

// revertCause explains the revert x of a block the source holds, from the log before it:
//   - the last request for x's height since the previous commit decided it, if there is one:
//     answered with an altered hash -> "hash-altered-answer", with another number -> "wrong-number-answer";
//   - otherwise the revert was done without asking; what started the revert task: the last
//     BlockHeaderLatest answer before the run of reverts, if it is a lie -> "lying-latest-header";
//     a successor block of an earlier chain -> "stale-successor".
func revertCause(before []entry, x entry) (string, string) {
	prevCommit := 0
	for i := len(before) - 1; i >= 0; i-- {
		if k := before[i].Kind; k == eStored || k == eReverted || k == eJump || k == eRestart {
			prevCommit = i + 1
			break
		}
	}
	lie, req := -1, -1
	for i := len(before) - 1; i >= prevCommit; i-- {
		e := before[i]
		if lie < 0 && e.Kind == eLatest && (e.Fault == "fabricated" || e.Fault == "prev-epoch") && e.Num <= x.Num {
			lie = i
		}
		if req < 0 && (e.Kind == eServed || e.Kind == eServeErr) && e.Req == x.Num {
			req = i
		}
	}
	// a lying header earlier in the same run of reverts (x is not the first block it orphaned)
	if lie < 0 {
		for i := prevCommit - 1; i >= 0; i-- {
			e := before[i]
			if e.Kind == eStored || e.Kind == eRestart {
				break
			}
			if e.Kind == eLatest && (e.Fault == "fabricated" || e.Fault == "prev-epoch") && e.Num <= x.Num {
				lie = i
				break
			}
		}
	}
	if req >= 0 && req > lie {
		// the task asked for this block: that answer decided
		e := before[req]
		if e.Kind == eServed && strings.Contains(e.Fault, "matching the fabricated latest header") && lie >= 0 {
			return "lying-latest-header", fmt.Sprintf("number %d, %s, backed by a block answer whose Hash field carries the fabricated hash (it fails SanityCheckNewHeight)", before[lie].Num, before[lie].Fault)
		}
		if e.Kind == eServed && strings.HasPrefix(e.Fault, "corrupt:hash") {
			return "hash-altered-answer", e.Fault
		}
		if e.Kind == eServed && strings.HasPrefix(e.Fault, "forged:") && e.Num == x.Num && !e.Hash.Equal(&x.Hash) {
			return "forged-answer", e.Fault
		}
		if e.Kind == eServed && e.Num != e.Req && !strings.HasPrefix(e.Fault, "corrupt:") {
			return "wrong-number-answer", fmt.Sprintf("block %d", e.Num)
		}
		return "", ""
	}
	if lie >= 0 {
		return "lying-latest-header", fmt.Sprintf("number %d, %s", before[lie].Num, before[lie].Fault)
	}
	// a latest header at or below x since the last store could have started the task: then the
	// successor explanation is not the only one, and the revert stays unexplained (generic signature)
	for i := len(before) - 1; i >= 0; i-- {
		e := before[i]
		if e.Kind == eStored || e.Kind == eRestart {
			break
		}
		if e.Kind == eLatest && e.Num <= x.Num {
			return "", ""
		}
	}
	if staleSuccessor(before, x) {
		return "stale-successor", ""
	}
	return "", ""
}

// decidedWhenAbsent: the revert x was decided by an honest answer given since the last store —
// the answer to the task's request for x's height, or else a latest header at/below x — computed in
// an epoch whose chain does not contain x.
func decidedWhenAbsent(before []entry, x entry, chains [][]*lib.Bundle) bool {
	absent := func(epoch int) bool {
		c := chains[epoch]
		return int(x.Num) >= len(c) || !c[x.Num].Block.Hash.Equal(&x.Hash)
	}
	prevCommit := 0
	for i := len(before) - 1; i >= 0; i-- {
		if k := before[i].Kind; k == eStored || k == eReverted || k == eJump || k == eRestart {
			prevCommit = i + 1
			break
		}
	}
	reqIdx := -1
	for i := len(before) - 1; i >= prevCommit; i-- {
		e := before[i]
		if (e.Kind == eServed || e.Kind == eServeErr) && e.Req == x.Num {
			if e.Kind == eServed && e.Valid && e.Fault == "" && e.Num == x.Num && !e.Hash.Equal(&x.Hash) && absent(e.Epoch) {
				return true
			}
			// that request failed or confirmed x: the task that made it ended without reverting x; only a
			// header given AFTER it can have started the task that reverted x without asking
			reqIdx = i
			break
		}
	}
	for i := len(before) - 1; i >= 0 && i > reqIdx; i-- {
		e := before[i]
		if e.Kind == eStored || e.Kind == eRestart {
			break
		}
		if e.Kind == eLatest && (e.Fault == "" || e.Fault == "stale") && e.Num <= x.Num && absent(e.Epoch) {
			return true
		}
	}
	return false
}

// staleSuccessor: the reverted block x was first served in some epoch E; a valid block numbered
// x.num+1 whose parent is not x was served in an epoch before E (it belongs to a chain the source
// had before x existed).
func staleSuccessor(before []entry, x entry) bool {
	first := -1
	for _, e := range before {
		if e.Kind == eServed && e.Valid && e.Num == x.Num && e.Hash.Equal(&x.Hash) {
			first = e.Epoch
			break
		}
	}
	if first < 0 {
		return false
	}
	for _, e := range before {
		if e.Kind == eServed && e.Valid && e.Num == x.Num+1 && !e.Parent.Equal(&x.Hash) && e.Epoch < first {
			return true
		}
	}
	return false
}

// wrongNumAnswered: before block (num, hash id) was reverted, the source answered a request for
// height num with a block of another number.
func wrongNumAnswered(log []entry, id *ids, num uint64, hid int) bool {
	seen := false
	for _, e := range log {
		switch e.Kind {
		case eStored, eReverted, eJump:
			if e.Kind == eReverted && e.Num == num && id.of(&e.Hash) == hid && seen {
				return true
			}
			seen = false // only an answer given since the previous commit can have decided this revert
		case eServed:
			if e.Req == num && e.Num != num {
				seen = true
			}
		}
	}
	return false
}

func staticScenarios(seed uint64, dst []bool, maxLocal, maxNew int) []Scenario {
	var out []Scenario
	k := uint64(0)
	for _, dn := range dst {
		for a := 0; a <= maxLocal; a++ {
			for p := 0; p <= a; p++ {
				for q := 0; q <= maxNew; q++ {
					if p == 0 && q == 0 {
						continue // the source would hold no block at all
					}
					k++
					sc := Scenario{Kind: "static", Seed: seed*1000 + k, SrcNew: k%2 == 0, DstNew: dn, Procs: 0,
						Prestore: a, StartEpoch: 1,
						Epochs: []EpochSpec{{Add: a}, {Depth: a - p, Add: q}},
						Faults: Faults{}}
					if k%3 == 0 { // answers may fail or be slow: the commit sequence must not change
						sc.Faults = Faults{ErrPct: 25, DelayPct: 30, MaxDelayUs: 300, Budget: 2}
					}
					out = append(out, sc)
				}
			}
		}
	}
	return out
}

// raceScenario: a reorg lands while an answer of the old chain is in flight. The node holds
// A0..A2 and syncs A3 (switching to parallel fetchers); block 4 cannot be fetched while the source is
// on chain A, block A5 is fetched but held back; the source then replaces A4.. by B4..; the node
// stores B4 (it extends A3); then A5 arrives. (If the synchroniser has not switched to parallel
// fetchers the held block is never asked for: the "fail" rule gives up after 400 attempts and the
// case degenerates to a plain sync.)
func raceScenario(seed uint64, dstNew bool) Scenario {
	r := lib.NewRNG(seed)
	pre := r.Range(1, 5) // the node holds A0..A(pre-1) and syncs A(pre) first
	n := uint64(pre + 1) // B_n is stored on top of A(pre); A(n+1) is the stale successor
	held := n + 1
	procs := lib.Pick(r, []int{2, 4, 0, 20}) // 20 > the 16 of maxWorkers()
	k := 18 + r.Intn(3)                      // blocks of chain A above A(pre): enough to switch to parallel fetchers
	return Scenario{Kind: "race", Seed: seed, SrcNew: seed%2 == 0, DstNew: dstNew, Procs: procs, Prestore: pre, StartEpoch: 0,
		Epochs:   []EpochSpec{{Add: pre + 1 + k}, {Depth: k, Add: r.Range(2, 6)}},
		Triggers: []Trigger{{AfterServed: &held}},
		Faults:   Faults{Rules: []Rule{{Height: n, Epoch: 0, Action: "fail", Times: 400}, {Height: held, Epoch: 0, Action: "hold", UntilStores: 2}}}}
}

// wrongNumScenario: the source's chain became a shorter fork (A0..A(c-1), B_c); the node holds
// A0..A(a-1). revertTask reverts down to c and then asks for block c-1, which both chains share;
// that one request is answered with block c.
func wrongNumScenario(seed uint64, dstNew bool) Scenario {
	r := lib.NewRNG(seed)
	a := r.Range(4, 8)
	c := r.Range(2, a-2)
	return Scenario{Kind: "wrongnum", Seed: seed, SrcNew: seed%2 == 1, DstNew: dstNew, Procs: lib.Pick(r, []int{1, 2, 0}), Prestore: a, StartEpoch: 1,
		Epochs: []EpochSpec{{Add: a}, {Depth: a - c, Add: 1}},
		Faults: Faults{Rules: []Rule{{Height: uint64(c - 1), Epoch: 1, Action: "wrong-num", Times: 1}}}}
}

// lieScenario: node and source hold the SAME chain and the source never changes it. One
// BlockHeaderLatest answer carries a fabricated hash at height k (withBlock: and the answer to the
// request for block k-1 / 0 has an altered Hash field).
func lieScenario(seed uint64, dstNew, withBlock bool) Scenario {
	r := lib.NewRNG(seed)
	a := r.Range(3, 6)
	k := r.Intn(a)
	sc := Scenario{Kind: "lie", Seed: seed, SrcNew: seed%2 == 1, DstNew: dstNew, Procs: lib.Pick(r, []int{1, 2, 0}), Prestore: a, StartEpoch: 0,
		Epochs: []EpochSpec{{Add: a}},
		Faults: Faults{Rules: []Rule{{Height: uint64(k), Epoch: 0, Action: "latest-fabricated", Times: 1}}}}
	if withBlock {
		below := uint64(0)
		if k > 0 {
			below = uint64(k - 1)
		}
		sc.Faults.Rules = append(sc.Faults.Rules, Rule{Height: below, Epoch: 0, Action: "hash-altered", Times: 1})
	}
	return sc
}

// hashLieScenario (probe for 40dc8b7): a GENUINE reorg — the source's chain became the shorter fork
// A0..A(c-1), B_c; the node holds A0..A(a-1) — so a revert task really runs; when it asks for block
// c-1, which both chains share, that one request is answered with the block's Hash field altered.
func hashLieScenario(seed uint64, dstNew bool) Scenario {
	r := lib.NewRNG(seed)
	a := r.Range(4, 8)
	c := r.Range(2, a-2)
	return Scenario{Kind: "hashlie", Seed: seed, SrcNew: seed%2 == 0, DstNew: dstNew, Procs: lib.Pick(r, []int{1, 2, 0}), Prestore: a, StartEpoch: 1,
		Epochs: []EpochSpec{{Add: a}, {Depth: a - c, Add: 1}},
		Faults: Faults{Rules: []Rule{{Height: uint64(c - 1), Epoch: 1, Action: "hash-altered", Times: 1}}}}
}

// forgedScenario: a lying source that serves SELF-CONSISTENT forged successors for a while (every
// block with an empty state diff once with another claimed state root, and random forged kinds, see
// forge()), then turns honest (Budget). Half of the source's blocks have an empty state diff. Some
// cases continue with a reorg. Nothing forged may ever be stored; the node must converge.
func forgedScenario(seed uint64, dstNew bool) Scenario {
	r := lib.NewRNG(seed)
	pre := r.Range(0, 3)
	n := pre + r.Range(5, 9)
	sc := Scenario{Kind: "forged", Seed: seed, SrcNew: seed%2 == 0, DstNew: dstNew, Procs: lib.Pick(r, []int{1, 2, 0}), Prestore: pre, StartEpoch: 0,
		Epochs: []EpochSpec{{Add: n}}, EmptyDiffPct: 50,
		Faults: Faults{ForgePct: 35, Budget: 2, ForgeTwin: seed%3 == 0,
			Rules: []Rule{{AnyEmpty: true, Epoch: 0, Action: "forged-root", Times: 4}}}}
	// one block of a protocol version juno does not support (self-consistent otherwise)
	sc.Faults.Rules = append(sc.Faults.Rules, Rule{Height: uint64(pre + int(seed%uint64(n-pre))), Epoch: 0, Action: "forged-version", Times: 1})
	if seed%4 == 1 {
		sc.Epochs = append(sc.Epochs, EpochSpec{Depth: r.Range(1, 3), Add: r.Range(1, 4)})
		sc.Triggers = []Trigger{{AtStores: r.Range(2, n-pre), AtReq: 400}}
		sc.Faults.Rules = append(sc.Faults.Rules, Rule{AnyEmpty: true, Epoch: 1, Action: "forged-root", Times: 2})
	}
	if seed%5 == 2 {
		sc.ViaFeeder = true
	}
	return sc
}

// tamperScenario: every block of the source has transactions, events, signatures (and the chain
// declares a Sierra class); the first answers for each height go through EVERY corruption kind of
// corrupt() — each fails exactly one check of SanityCheckNewHeight — before the honest block is
// served. Nothing tampered may be stored; the node must converge.
func tamperScenario(seed uint64, dstNew bool) Scenario {
	var sc Scenario
	for try := 0; try < 400; try, seed = try+1, seed+1000 {
		r := lib.NewRNG(seed)
		pre := r.Intn(2)
		sc = Scenario{Kind: "tamper", Seed: seed, SrcNew: seed%2 == 0, DstNew: dstNew, Procs: lib.Pick(r, []int{1, 2, 0}), Prestore: pre, StartEpoch: 0,
			Epochs: []EpochSpec{{Add: pre + 4}}, RichTxs: 4, NoChurn: true,
			Faults: Faults{CorruptEachKind: true}}
		chains, err := buildChains(sc)
		if err != nil {
			return sc
		}
		// one block declares a Sierra class alone, another one a Sierra class next to a Cairo-0 class
		alone, both := false, false
		for _, b := range chains[0][pre:] {
			ns, n0 := 0, 0
			for _, cl := range b.Classes {
				if _, ok := cl.(*core.SierraClass); ok {
					ns++
				} else {
					n0++
				}
			}
			alone = alone || (ns == 1 && n0 == 0)
			both = both || (ns >= 1 && n0 >= 1)
		}
		if alone && both {
			return sc
		}
	}
	return sc
}

// liePairScenario: node and source hold the SAME chain and the source never changes it. One
// BlockHeaderLatest answer carries a fabricated hash at height k, and the request for block k that
// isReverting makes to confirm it is answered with block k carrying that very hash in its Hash field:
// header and block agree with each other, but the block is not self-consistent.
func liePairScenario(seed uint64, dstNew bool) Scenario {
	r := lib.NewRNG(seed)
	a := r.Range(3, 6)
	k := r.Intn(a)
	return Scenario{Kind: "liepair", Seed: seed, SrcNew: seed%2 == 1, DstNew: dstNew, Procs: lib.Pick(r, []int{1, 2, 0}), Prestore: a, StartEpoch: 0,
		Epochs: []EpochSpec{{Add: a}},
		Faults: Faults{Rules: []Rule{{Height: uint64(k), Epoch: 0, Action: "latest-fabricated", Times: 1, Matching: true}}}}
}

func dynamicScenario(r *lib.RNG, i int) Scenario {
	sc := Scenario{Kind: "dynamic", Seed: r.Uint64() >> 1, SrcNew: r.Bool(), DstNew: r.Bool()}
	n0 := r.Range(1, 12)
	sc.Epochs = []EpochSpec{{Add: n0}}
	sc.Prestore = lib.Pick(r, []int{0, 0, 1, n0 / 2, n0})
	length := n0
	ne := r.Range(1, 4)
	reqBase := uint64(0)
	for e := 0; e < ne; e++ {
		var depth int
		switch r.Intn(6) {
		case 0:
			depth = 0 // tip following: the chain just grows
		case 1:
			depth = length // the whole chain including genesis
		case 2:
			depth = 1
		default:
			depth = r.Range(1, length)
		}
		add := r.Range(0, 6)
		if depth == length && add == 0 {
			add = 1 // the source always holds at least one block
		}
		// add = 0 with depth > 0 is a pure truncation, add = 1 with depth = length a one-block
		// replacement chain (different genesis only): both allowed
		if e > 0 && r.Chance(1, 5) {
			// A -> B -> A: back to a chain the source had before
			k := r.Intn(len(sc.Epochs) - 1)
			sc.Epochs = append(sc.Epochs, EpochSpec{Restore: &k})
			length = -1 // recomputed below
		} else {
			sc.Epochs = append(sc.Epochs, EpochSpec{Depth: depth, Add: add})
			length = length - depth + add
		}
		if length < 0 {
			// length of the restored chain: replay the specs
			ls := []int{}
			cur := 0
			for _, sp := range sc.Epochs {
				if sp.Restore != nil {
					ls = append(ls, ls[*sp.Restore])
					continue
				}
				cur = max(0, cur-sp.Depth) + sp.Add
				ls = append(ls, cur)
			}
			length = max(1, cur)
			_ = ls
		}
		var t Trigger
		// every trigger has a request-count fallback so that the source always becomes stable
		switch r.Intn(4) {
		case 0:
			reqBase += uint64(r.Range(1, 40))
		case 1:
			h := r.Range(0, max(0, length+depth-add))
			t.AtHeight = &h
			reqBase += 300
		case 2:
			t.AtStores = r.Range(1, 10)
			reqBase += 300
		default:
			reqBase += uint64(r.Range(20, 400))
		}
		t.AtReq = reqBase
		sc.Triggers = append(sc.Triggers, t)
	}
	sc.ViaFeeder = i%3 == 1
	switch r.Intn(4) {
	case 0:
		sc.Faults = Faults{}
	case 1:
		sc.Faults = Faults{ErrPct: 20, DelayPct: 30, MaxDelayUs: 500, Budget: 3}
	default:
		sc.Faults = Faults{ErrPct: 15, DelayPct: 25, MaxDelayUs: 800, CorruptPct: 15, WrongNumPct: 8, StalePct: 30, Budget: 3}
		if i%2 == 0 {
			sc.Faults.LieLatestPct, sc.Faults.LieHashPct = 10, 8
		} else {
			sc.Faults.ForgePct = 8 // self-consistent forged blocks among everything else
		}
	}
	if i%6 == 5 {
		// transient database failures: Store / RevertHead calls that fail once
		for k := r.Range(1, 3); k > 0; k-- {
			sc.DBFailAt = append(sc.DBFailAt, r.Range(1, 40))
		}
	}
	sc.Plugin = i%4 == 1
	sc.Poll = i%5 == 3
	if i%40 == 7 {
		sc.ReadOnly = true
	}
	if i%4 == 2 {
		// shut down and restart at arbitrary moments (request counts)
		at := uint64(0)
		for k := r.Range(1, 3); k > 0; k-- {
			at += uint64(r.Range(3, 150))
			sc.Shutdowns = append(sc.Shutdowns, at)
		}
	}
	if sc.ViaFeeder {
		sc.Faults.ClassErrPct = 30
		if sc.Faults.Budget == 0 {
			sc.Faults.Budget = 2
		}
	}
	return sc
}

func main() {
	f := lib.ParseFlags()
	res := lib.NewResult("one case = one run of the real sync.Synchronizer against a scripted source (static: fixed source chain vs " +
		"pre-stored local chain, every (local length, fork point, new blocks) shape; dynamic: the source replaces suffixes of its chain " +
		"while the node syncs, with failing / slow / corrupted / mis-numbered answers and stale heads); non-trivial = the node's chain changed")
	var scs []Scenario
	if os.Getenv("C06_ONLY") == "feedconc" { // developer switch: only the concurrent feed family
		drv, err := lib.StartDriver(f.Driver)
		if err != nil {
			res.Fatalf("Lean driver did not start: %v", err)
			drv = nil
		}
		checkFeedConcurrency(f, res, drv)
		checkFeedStreams(f, res)
		checkFeedEpochs(f, res)
		lib.Finish(f, res)
	}
	if f.Replay != "" {
		raw, err := os.ReadFile(f.Replay)
		var rp struct {
			Replay struct {
				Scenario   Scenario     `json:"scenario"`
				FeedOps    []feedOp     `json:"feed_ops"`
				FeedRound  *concRound   `json:"feed_round"`
				FeedStream *streamRound `json:"feed_stream"`
				FeedEpochs *epochRound  `json:"feed_epochs"`
			} `json:"replay"`
		}
		if err == nil {
			err = json.Unmarshal(raw, &rp)
		}
		if err != nil {
			res.Fatalf("cannot read replay: %v", err)
			lib.Finish(f, res)
		}
		if len(rp.Replay.FeedOps) > 0 { // a deterministic feed.Feed operation sequence
			res.Case("feed-replay", true)
			if sig, what := feedSig(rp.Replay.FeedOps); sig != "" {
				res.Violate(lib.Violation{Sig: sig, What: "feed.Feed: " + what,
					Replay: map[string]any{"feed_ops": rp.Replay.FeedOps, "real": first(runFeedReal(rp.Replay.FeedOps)), "must_be": feedReference(rp.Replay.FeedOps)}})
			}
			lib.Finish(f, res)
		}
		if rp.Replay.FeedRound != nil { // one round of concurrent operations on feed.Feed
			replayConcRound(res, *rp.Replay.FeedRound)
			lib.Finish(f, res)
		}
		if rp.Replay.FeedEpochs != nil {
			replayEpochRound(res, *rp.Replay.FeedEpochs)
			lib.Finish(f, res)
		}
		if rp.Replay.FeedStream != nil { // one stream round on feed.Feed
			replayStreamRound(res, *rp.Replay.FeedStream)
			lib.Finish(f, res)
		}
		for i := 0; i < 20; i++ { // schedules differ from run to run
			scs = append(scs, rp.Replay.Scenario)
		}
	} else {
		r := lib.NewRNG(f.Seed)
		scs = append(scs, staticScenarios(f.Seed, []bool{false, true}, f.Scale(4, 6), f.Scale(3, 4))...)
		nd := f.Scale(120, 2000)
		for i := 0; i < nd; i++ {
			scs = append(scs, dynamicScenario(r.Fork(uint64(i)), i))
		}
		procs := []int{1, 2, 4, 0}
		for i := range scs {
			scs[i].Procs = procs[i%len(procs)]
		}
		for i := 0; i < f.Scale(4, 40); i++ {
			scs = append(scs, raceScenario(f.Seed*77+uint64(i), i%2 == 0))
			scs = append(scs, wrongNumScenario(f.Seed*79+uint64(i), i%2 == 1))
			scs = append(scs, lieScenario(f.Seed*83+uint64(i), i%2 == 0, i%2 == 1))
			scs = append(scs, hashLieScenario(f.Seed*89+uint64(i), i%2 == 1))
			scs = append(scs, liePairScenario(f.Seed*101+uint64(i), i%2 == 0))
			if i%2 == 0 {
				scs = append(scs, tamperScenario(f.Seed*103+uint64(i), i%4 == 0))
			}
			for j := 0; j < 6; j++ {
				scs = append(scs, forgedScenario(f.Seed*97+uint64(i*6+j), (i+j)%2 == 0))
			}
		}
	}
	// group by GOMAXPROCS (a process-wide setting)
	groups := map[int][]int{}
	for i, sc := range scs {
		groups[sc.Procs] = append(groups[sc.Procs], i)
	}
	var keys []int
	for k := range groups {
		keys = append(keys, k)
	}
	sort.Ints(keys)
	results := make([]*caseResult, len(scs))
	defProcs := runtime.GOMAXPROCS(0)
	for _, p := range keys {
		if p > 0 {
			runtime.GOMAXPROCS(p)
		} else {
			runtime.GOMAXPROCS(defProcs)
		}
		par := 4
		if p == 1 {
			par = 2
		}
		var wg sync.WaitGroup
		work := make(chan int)
		for w := 0; w < par; w++ {
			wg.Add(1)
			go func() {
				defer wg.Done()
				drv, err := lib.StartDriver(f.Driver)
				if err != nil {
					res.Fatalf("Lean driver did not start: %v", err)
					drv = nil
				} else {
					defer drv.Close()
					// developer aid for self-tests against a repaired tree: C06_MODEL_CFG="1 1 1 0 0"
					if c := os.Getenv("C06_MODEL_CFG"); c != "" {
						if a, err := drv.Ask("cfg " + c); err != nil || a != "ok" {
							res.Fatalf("driver refused cfg: %v %v", a, err)
						}
					}
				}
				for i := range work {
					out := runScenario(scs[i])
					cr := analyse(scs[i], out, drv)
					// keep only what the summary needs: thousands of blockchains and traces do not fit in memory
					cr.logLen, cr.wall = len(out.log), out.wall
					cr.out, cr.lines, cr.answers = nil, nil, nil
					results[i] = cr
				}
			}()
		}
		for _, i := range groups[p] {
			work <- i
		}
		close(work)
		wg.Wait()
		// every Synchronizer of this group has been cancelled and its Run has returned: no goroutine
		// may still be inside the sync package
		if leak := syncGoroutines(); leak != "" {
			res.Violate(lib.Violation{Sig: "goroutine-of-sync-package-alive-after-run-returned",
				What: "after all Run calls returned a goroutine is still executing sync package code", Replay: map[string]any{"stack": leak}})
		} else {
			res.Hit("shutdown:no-sync-goroutine-left(check)")
		}
	}
	runtime.GOMAXPROCS(defProcs)
	// smallest replay first per signature
	order := make([]int, len(results))
	for i := range order {
		order[i] = i
	}
	sort.SliceStable(order, func(a, b int) bool { return results[order[a]].logLen < results[order[b]].logLen })
	for _, i := range order {
		cr := results[i]
		for _, v := range cr.violations {
			res.Violate(v)
		}
	}
	var slowest time.Duration
	var slowSc Scenario
	for _, cr := range results {
		if cr.wall > slowest {
			slowest, slowSc = cr.wall, cr.sc
		}
	}
	js, _ := json.Marshal(slowSc)
	res.Note("slowest case %.2fs: %s", slowest.Seconds(), js)
	analysed, skipped := 0, 0
	for _, cr := range results {
		if cr.key == "skipped" {
			// not run (too many hangs / lost notifications before it): a violation is on record already
			skipped++
			continue
		}
		if cr.fatal != "" {
			res.Fatalf("%s (case %s)", cr.fatal, cr.key)
		}
		if cr.compared > 0 {
			analysed++
		}
		res.Case(cr.key, cr.nontrivial)
		res.Compared(cr.compared)
		for _, m := range cr.mismatches {
			res.Mismatch(m)
		}
		for k, v := range cr.hits {
			res.HitN(k, v)
		}
		res.Hit("kind:" + cr.sc.Kind)
		res.Hit(fmt.Sprintf("gomaxprocs:%d", cr.sc.Procs))
		res.Hit(fmt.Sprintf("dst-new-state:%v", cr.sc.DstNew))
		if cr.sc.Poll {
			res.Hit("preconfirmed-polling:on")
		}
		if cr.sc.ViaFeeder {
			res.Hit("data-source:sync.NewFeederGatewayDataSource")
		} else {
			res.Hit("data-source:scripted-DataSource")
		}
		for _, e := range cr.sc.Epochs[1:] {
			if e.Restore != nil {
				res.Hit("epoch:back-to-an-earlier-chain(A->B->A)")
				continue
			}
			if e.Depth > 0 && e.Add == 0 {
				res.Hit("epoch:pure-truncation")
			}
			switch {
			case e.Depth == 0:
				res.Hit("reorg-depth:0(extend)")
			case e.Depth == 1:
				res.Hit("reorg-depth:1")
			default:
				res.Hit("reorg-depth:>=2")
			}
		}
		if cr.sc.Kind == "dynamic" {
			res.Sample(6, map[string]any{"scenario": cr.sc, "commits": cr.hits["commit:stored"] + cr.hits["commit:reverted"]})
		}
	}
	if f.Replay == "" && res.Distribution["kind:race"] > 0 && res.Distribution["violations"] == 0 &&
		res.Distribution["race:stale-successor-of-a-stored-new-head-existed(head kept)"] == 0 && len(res.Violations) == 0 {
		res.Fatalf("none of the %d directed race cases produced the interleaving (old successor in flight while the new head is stored)", res.Distribution["kind:race"])
	}
	if f.Replay == "" && len(res.Violations) == 0 {
		for _, be := range []string{"false", "true"} {
			if res.Distribution["forged:refused-by-Store(dst-new-state="+be+")"] == 0 || res.Distribution["forged:empty-diff-root-refused-by-Store(dst-new-state="+be+")"] == 0 {
				res.Fatalf("no self-consistent forged block (empty-diff block with another claimed state root) reached Store on the backend dst_new_state=%s: the store-time root check was not exercised", be)
			}
		}
	}
	if f.Replay == "" && len(res.Violations) == 0 {
		// vacuity floors of the round-4 generator families
		kinds := map[string]bool{}
		for k := range res.Distribution {
			if strings.HasPrefix(k, "refused-by-verifier:") {
				k = strings.TrimPrefix(k, "refused-by-verifier:")
				if k == "hash" || k == "hash+parent" || k == "number+hash" || strings.HasPrefix(k, "hash(") {
					continue // answers with an altered Hash field (alterHash), not corruption kinds
				}
				if strings.HasPrefix(k, "tx-field(") {
					k = "tx-field"
				}
				kinds[k] = true
			}
		}
		if len(kinds) != nCorruptKinds {
			res.Fatalf("%d of the %d corruption kinds (each fails exactly one check of SanityCheckNewHeight) reached the verifier and were seen to be refused", len(kinds), nCorruptKinds)
		}
		for _, tk := range []string{"invoke", "declare", "deploy-account", "l1-handler"} {
			if res.Distribution["refused-by-verifier:tx-field("+tk+")"] == 0 {
				res.Fatalf("no %s transaction with a changed field (recorded hash kept) reached the verifier", tk)
			}
		}
		for _, be := range []string{"false", "true"} {
			if res.Distribution["forged:unsupported-version-refused-by-Store(dst-new-state="+be+")"] == 0 {
				res.Fatalf("no self-consistent block of an unsupported protocol version reached Store on the backend dst_new_state=%s: CheckBlockVersion in verifyBlockSuccession was not exercised", be)
			}
		}
		if res.Distribution["lie:hash(matching the fabricated latest header)"] == 0 {
			res.Fatalf("no fabricated latest header was backed by a matching block answer: the verification of isReverting's confirming fetch was not exercised")
		}
	}
	if skipped > 0 {
		res.Note("%d cases not run after repeated hangs / lost notifications (violations recorded above)", skipped)
	}
	if n := len(results) - skipped; analysed*10 < n*9 && len(res.Violations) == 0 {
		res.Fatalf("only %d of %d synchroniser runs were validated by the Lean acceptor / Impl replay", analysed, n)
	}
	if f.Replay == "" {
		drv, err := lib.StartDriver(f.Driver)
		if err != nil {
			res.Fatalf("Lean driver did not start: %v", err)
			drv = nil
		}
		checkFeeds(f, res, drv)
		if len(res.Violations) == 0 {
			checkFeedConcurrency(f, res, drv)
			checkFeedStreams(f, res)
			checkFeedEpochs(f, res)
		} else {
			res.Note("concurrent feed check skipped: violations already recorded (a broken feed may panic inside its own goroutines)")
		}
		checkVersions(f, res, drv)
		checkTamperMatrix(f, res)
		if drv != nil {
			drv.Close()
		}
	}
	if f.Thorough() && f.Replay == "" && os.Getenv("C06_CHILD") == "" {
		runRaceChild(f, res)
	}
	lib.Finish(f, res)
}
