//go:build verif

package main

import (
	"errors"
	"fmt"

	"github.com/NethermindEth/juno/core"
	"github.com/NethermindEth/juno/core/felt"
	junoplugin "github.com/NethermindEth/juno/plugin"
)

// recPlugin records what the synchroniser tells a plugin (storeTask -> NewBlock,
// revertTask -> handlePluginRevertBlock -> RevertBlock) and fails now and then: plugin errors are
// only logged by the synchroniser and must not change anything.
type recPlugin struct {
	rec   *recorder
	calls int
}

type pluginCall struct {
	revert      bool
	num         uint64
	hash        felt.Felt
	toNil       bool
	toNum       uint64
	toHash      felt.Felt
	parentHash  felt.Felt
	reverseDiff bool
}

func (p *recPlugin) Init() error     { return nil }
func (p *recPlugin) Shutdown() error { return nil }

func (p *recPlugin) fail() error {
	p.calls++
	if p.calls%4 == 0 {
		return errors.New("plugin failure (must only be logged)")
	}
	return nil
}

func (p *recPlugin) NewBlock(b *core.Block, su *core.StateUpdate, cl map[felt.Felt]core.ClassDefinition) error {
	p.rec.mu.Lock()
	p.rec.plugin = append(p.rec.plugin, pluginCall{num: b.Number, hash: *b.Hash})
	p.rec.mu.Unlock()
	return p.fail()
}

func (p *recPlugin) RevertBlock(from, to *junoplugin.BlockAndStateUpdate, rev *core.StateDiff) error {
	c := pluginCall{revert: true, num: from.Block.Number, hash: *from.Block.Hash, parentHash: *from.Block.ParentHash,
		toNil: to == nil, reverseDiff: rev != nil}
	if to != nil {
		c.toNum, c.toHash = to.Block.Number, *to.Block.Hash
	}
	p.rec.mu.Lock()
	p.rec.plugin = append(p.rec.plugin, c)
	p.rec.mu.Unlock()
	return p.fail()
}

// checkPlugin: the plugin saw exactly the commits, in order: NewBlock for every store, RevertBlock
// (from = the block about to be reverted, to = the block below it, nil below the genesis) for
// every revert.
func checkPlugin(calls []pluginCall, log []entry, viol func(sig, what string), hits map[string]int) {
	var commits []entry
	for _, e := range log {
		if e.Kind == eStored || e.Kind == eReverted {
			commits = append(commits, e)
		}
	}
	hits["plugin:calls-checked"] += len(calls)
	if len(calls) != len(commits) {
		viol("plugin-calls-differ-from-commits", fmt.Sprintf("%d plugin calls for %d commits", len(calls), len(commits)))
		return
	}
	for i, c := range calls {
		e := commits[i]
		if c.revert != (e.Kind == eReverted) || c.num != e.Num || !c.hash.Equal(&e.Hash) {
			viol("plugin-calls-differ-from-commits", fmt.Sprintf("call %d: revert=%v block %d, commit: reverted=%v block %d", i, c.revert, c.num, e.Kind == eReverted, e.Num))
			return
		}
		if c.revert {
			if c.num == 0 != c.toNil || (!c.toNil && (c.toNum != c.num-1 || !c.toHash.Equal(&c.parentHash))) || !c.reverseDiff {
				viol("plugin-revert-call-has-wrong-target", fmt.Sprintf("RevertBlock(from=%d): to nil=%v num=%d", c.num, c.toNil, c.toNum))
				return
			}
		}
	}
}
