//go:build verif

package main

import (
	"context"
	"encoding/hex"
	"errors"
	"fmt"
	"os"
	"strings"

	"github.com/NethermindEth/juno/blockchain"
	"verif/harness/lib"
)

// ---------------------------------------------------------------------------------------------
// The outcome of EVERY delivery (round 4). Each answer the source hands out carries a Persisted
// channel; verifierTask / storeTask send on it what became of the block: nil (stored),
// ErrParentDoesNotMatchHead (a revert task follows), the context's error (storeTask found the stream
// cancelled), or another error (failed sanity check; Store: unsupported version, wrong number, wrong
// state root, database). A watcher notes between which two log positions the outcome arrived, so the
// chain the decision was taken on is one of the few chains the node had in that window. The Lean model
// (`deliverClass`, driver op `dclass`) must give the same class on one of them — also for the
// deliveries that change nothing, which the exact replay through Impl.step does not see.
// ---------------------------------------------------------------------------------------------

func verHex(v string) string {
	if v == "" {
		return "-"
	}
	return hex.EncodeToString([]byte(v))
}

// realClass classifies what came back on Persisted. fine = the class as far as the error text tells
// (”” = not recognised), coarse = what errors.Is can tell: stored | parent-mismatch | cancelled | other-error.
func realClass(err error) (coarse, fine string) {
	switch {
	case err == nil:
		return "stored", "stored"
	case errors.Is(err, blockchain.ErrParentDoesNotMatchHead):
		return "parent-mismatch", "parent-mismatch"
	case errors.Is(err, context.Canceled), errors.Is(err, context.DeadlineExceeded):
		return "cancelled", "cancelled"
	}
	m := err.Error()
	switch {
	case strings.Contains(m, "injected database failure"):
		return "other-error", "injected-db-failure"
	case strings.Contains(m, "expected block #"):
		return "other-error", "bad-number"
	case strings.Contains(m, "unsupported block version"), strings.Contains(m, "cannot parse starknet protocol version"),
		strings.Contains(m, "starknet protocol version is"):
		return "other-error", "bad-version"
	case strings.Contains(m, "does not match the expected root"), strings.Contains(m, "commitment mismatch"):
		return "other-error", "root-mismatch"
	}
	return "other-error", ""
}

func coarseOf(model string) string {
	switch model {
	case "stored", "parent-mismatch", "cancelled":
		return model
	}
	return "other-error"
}

// checkOutcomes compares the outcome of every delivery with the model. Returns the number of
// comparisons made.
func checkOutcomes(cr *caseResult, sc Scenario, out *outcome, id *ids, drv *lib.Driver, byHash map[string]*lib.Bundle, replay func() any) int {
	if drv == nil || len(out.handed) == 0 {
		return 0
	}
	// the chains the node had, by log position: states[k] holds from log index states[k].from on
	type state struct {
		from int
		loc  string // tokens for `loc`, "?" if a block of it is not one of the source's
	}
	var cur []string
	known := 0 // number of leading entries of cur that are known tokens (all, unless a twin was stored)
	unknown := 0
	for i := 0; i < sc.Prestore && i < len(out.chains[0]); i++ {
		cur = append(cur, token(id, out.chains[0][i], true))
	}
	_ = known
	mk := func(from int) state {
		if unknown > 0 {
			return state{from, "?"}
		}
		return state{from, strings.Join(cur, " ")}
	}
	states := []state{mk(0)}
	var unk []bool
	for range cur {
		unk = append(unk, false)
	}
	for li, e := range out.log {
		switch e.Kind {
		case eStored:
			if b := byHash[e.Hash.String()]; b != nil && e.Valid {
				cur, unk = append(cur, token(id, b, true)), append(unk, false)
			} else {
				cur, unk = append(cur, "?"), append(unk, true)
				unknown++
			}
			states = append(states, mk(li+1))
		case eReverted:
			if n := len(cur); n > 0 {
				if unk[n-1] {
					unknown--
				}
				cur, unk = cur[:n-1], unk[:n-1]
			}
			states = append(states, mk(li+1))
		case eJump:
			unknown += 1000 // the tracked chain is not reliable any more
			states = append(states, mk(li+1))
		}
	}
	cache := map[string]string{}
	compared := 0
	for _, h := range out.handed {
		if !h.got || h.servedIdx < 0 || h.servedIdx >= len(out.log) {
			continue
		}
		e := out.log[h.servedIdx]
		if e.Kind != eServed {
			continue
		}
		coarse, fine := realClass(h.err)
		if os.Getenv("C06_DEBUG_OUTCOME") != "" && strings.Contains(e.Fault, os.Getenv("C06_DEBUG_OUTCOME")) {
			fmt.Fprintf(os.Stderr, "DBG outcome kind=%s seed=%d feeder=%v fault=%q num=%d err=%v viol=%d persisted=%v\n", sc.Kind, sc.Seed, sc.ViaFeeder, e.Fault, e.Num, h.err, len(cr.violations), out.persisted["persisted:stored-tampered"])
		}
		cr.hits["outcome:"+coarse]++
		if fine != "" && fine != coarse {
			cr.hits["outcome:"+coarse+"("+fine+")"]++
		} else if fine == "" {
			if e.Sane {
				cr.hits["outcome:other-error(text not recognised)"]++
			} else {
				cr.hits["outcome:other-error(answer fails the sanity check)"]++
			}
		}
		if strings.HasPrefix(e.Fault, "corrupt:") && !e.Sane && coarse == "other-error" {
			// a tampered answer that reached the verifier and was refused
			cr.hits["refused-by-verifier:"+strings.TrimPrefix(e.Fault, "corrupt:")]++
		}
		if coarse == "cancelled" || fine == "injected-db-failure" {
			continue // an input of the model (the stream was reset / the database was made to fail)
		}
		// the model's classes on the chains of the window
		tok := tokenOf(id, e)
		vh := verHex(e.Ver)
		models := map[string]bool{}
		skip := false
		for k, st := range states {
			to := len(out.log) + 1
			if k+1 < len(states) {
				to = states[k+1].from
			}
			if to <= h.servedIdx || st.from > h.outIdx {
				continue
			}
			if st.loc == "?" {
				skip = true
				break
			}
			q := strings.TrimSpace(fmt.Sprintf("dclass %s %s 0 loc %s", tok, vh, st.loc))
			a, ok := cache[q]
			if !ok {
				var err error
				a, err = drv.Ask(q)
				if err != nil {
					cr.fatal = "Lean driver died or answered short (dclass): " + err.Error()
					return compared
				}
				if a == "bad-op" {
					cr.fatal = fmt.Sprintf("the driver answered bad-op to %q", q)
					return compared
				}
				cache[q] = a
			}
			models[a] = true
		}
		if skip || len(models) == 0 {
			cr.hits["outcome:not-compared(chain holds a block that is not the source's)"]++
			continue
		}
		compared++
		okc, okf := false, fine == "" || fine == coarse
		for m := range models {
			if coarseOf(m) == coarse {
				okc = true
			}
			if m == fine {
				okf = true
			}
		}
		if !e.Sane {
			okf = true // the model says `sanity`; the text of a sanity failure is not interpreted
		}
		if !okc || !okf {
			var ms []string
			for m := range models {
				ms = append(ms, m)
			}
			errText := "nil"
			if h.err != nil {
				errText = h.err.Error()
			}
			cr.mismatches = append(cr.mismatches, lib.Mismatch{Sig: "delivery-outcome-differs-from-model", Input: replay(),
				Model: fmt.Sprintf("answer %s (fault %q, version %q) served at log entry %d, outcome seen at %d: deliverClass = %s on the chain(s) of that window", tok, e.Fault, e.Ver, h.servedIdx, h.outIdx, strings.Join(ms, " | ")),
				Impl:  fmt.Sprintf("Persisted received %s (class %s/%s)", errText, coarse, fine)})
			if len(cr.mismatches) > 3 {
				return compared
			}
		}
	}
	return compared
}
