//go:build verif

package main

import (
	"fmt"
	"runtime"
	"sort"
	"strings"
	"sync"
	"sync/atomic"
	"time"

	"github.com/NethermindEth/juno/feed"
	"verif/harness/lib"
)

// ---------------------------------------------------------------------------------------------
// feed.Feed under CONCURRENT Subscribe / Unsubscribe / Send / receive (round 5).
//
// storeTask calls reorgFeed.Send / newHeads.Send right after blockchain.Store while subscribers
// come and go from their own goroutines. One ROUND: a feed with some subscribers (slot empty or
// holding `concPre`, some already unsubscribed), then one goroutine per operation, all released at
// once (GOMAXPROCS > 1), each operation under lib.Try. Oracle on the real feed (Go, no model):
//   * no operation panics (Send on a channel a racing Unsubscribe has closed; close of a closed
//     channel) and none hangs (the blocking keep-last send);
//   * every subscriber that stays subscribed for the whole round and that nobody reads holds a sent
//     value afterwards (keep-last or empty slot: one of the values sent; full plain slot: the old value);
//   * a subscriber is closed afterwards iff it was unsubscribed;
//   * nobody receives after its Unsubscribe returned: a Send made after the round reaches exactly
//     the subscribers that are still subscribed.
// Correspondence: for the small rounds the observed outcome must be one of the outcomes the Lean
// machine `FeedConc` (ModelFeedConc.lean, driver op `feedc`) reaches under SOME schedule.
// ---------------------------------------------------------------------------------------------

const concPre = 9 // the value a pre-filled slot holds

type concChan struct {
	KeepLast bool `json:"keep_last,omitempty"`
	Full     bool `json:"slot_full,omitempty"`
	Closed   bool `json:"unsubscribed,omitempty"`
}

type concOp struct {
	Kind string `json:"op"` // send | unsub | sub | recv
	Arg  int    `json:"arg"`
	Skew int    `json:"skew,omitempty"` // iterations spun after the barrier (spreads the operations over the Send)
}

type concRound struct {
	Chans []concChan `json:"subscribers"`
	Ops   []concOp   `json:"concurrent_ops"`
	Procs int        `json:"gomaxprocs,omitempty"`
}

func (r concRound) key() string {
	var cs, ps []string
	for _, c := range r.Chans {
		slot := "-"
		if c.Full {
			slot = fmt.Sprint(concPre)
		}
		cs = append(cs, fmt.Sprintf("%d:%s:%d", b2i(c.KeepLast), slot, b2i(c.Closed)))
	}
	for _, o := range r.Ops {
		ps = append(ps, fmt.Sprintf("%s:%d", o.Kind, o.Arg))
	}
	return strings.Join(cs, " ") + " | " + strings.Join(ps, " ")
}

type concResult struct {
	outcome  string   // canonical, the format of the driver's `feedc` answer
	panics   []string // "<op index> <kind>: <message>"
	hung     bool
	problems []string // oracle failures: "<sig>\x00<what>"
}

// take: non-blocking receive; ("", open) | (value, _) — then whether the channel is closed.
func concSlot(s *feed.Subscription[int]) string {
	slot, closed := "-", false
	select {
	case v, ok := <-s.Recv():
		if ok {
			slot = fmt.Sprint(v)
			select {
			case _, ok2 := <-s.Recv():
				closed = !ok2
			default:
			}
		} else {
			closed = true
		}
	default:
	}
	if closed {
		return slot + "c"
	}
	return slot + "o"
}

var concSink atomic.Int64

func runConcRound(r concRound) (cr concResult) {
	f := feed.New[int]()
	subs := make([]*feed.Subscription[int], len(r.Chans))
	for i, c := range r.Chans {
		if c.KeepLast {
			subs[i] = f.SubscribeKeepLast()
		} else {
			subs[i] = f.Subscribe()
		}
	}
	f.Send(concPre)
	for i, c := range r.Chans {
		if !c.Full {
			<-subs[i].Recv()
		}
		if c.Closed {
			subs[i].Unsubscribe()
		}
	}
	newSubs := make([]*feed.Subscription[int], len(r.Ops))
	got := make([]string, len(r.Ops))
	panics := make([]string, len(r.Ops))
	var ready atomic.Int32
	var goFlag atomic.Bool
	var wg sync.WaitGroup
	for i, op := range r.Ops {
		wg.Add(1)
		go func(i int, op concOp) {
			defer wg.Done()
			ready.Add(1)
			for !goFlag.Load() {
				runtime.Gosched()
			}
			x := int64(0)
			for k := 0; k < op.Skew; k++ {
				x += int64(k)
			}
			concSink.Add(x)
			err, panicked, _ := lib.Try(func() error {
				switch op.Kind {
				case "send":
					f.Send(op.Arg)
				case "unsub":
					subs[op.Arg].Unsubscribe()
				case "sub":
					if op.Arg == 1 {
						newSubs[i] = f.SubscribeKeepLast()
					} else {
						newSubs[i] = f.Subscribe()
					}
				case "recv":
					select {
					case v, ok := <-subs[op.Arg].Recv():
						if ok {
							got[i] = fmt.Sprint(v)
						} else {
							got[i] = "c"
						}
					default:
						got[i] = "-"
					}
				}
				return nil
			})
			if panicked {
				panics[i] = fmt.Sprintf("%s %d: %v", op.Kind, op.Arg, err)
			}
		}(i, op)
	}
	for int(ready.Load()) < len(r.Ops) {
		runtime.Gosched()
	}
	goFlag.Store(true)
	done := make(chan struct{})
	go func() { wg.Wait(); close(done) }()
	startHeartbeat()
	deadline := beats.Load() + 2000 // 20 s of a healthy process
	spins := 0
wait:
	for {
		select {
		case <-done:
			break wait
		default:
			if beats.Load() > deadline {
				cr.hung = true
				return cr
			}
			if spins++; spins < 2000 {
				runtime.Gosched()
			} else {
				time.Sleep(50 * time.Microsecond)
			}
		}
	}
	for _, p := range panics {
		if p != "" {
			cr.panics = append(cr.panics, p)
		}
	}
	if len(cr.panics) > 0 {
		cr.outcome = "panic"
		return cr
	}
	// observe
	var old, nw, rd []string
	for _, s := range subs {
		old = append(old, concSlot(s))
	}
	for i, op := range r.Ops {
		switch op.Kind {
		case "sub":
			p := "p"
			if op.Arg == 1 {
				p = "k"
			}
			nw = append(nw, p+concSlot(newSubs[i]))
		case "recv":
			rd = append(rd, got[i])
		}
	}
	sort.Strings(nw)
	cr.outcome = "ch=" + strings.Join(old, ",") + " new=" + strings.Join(nw, ",") + " rd=" + strings.Join(rd, ",")

	// ---- the oracle, from the round alone ----
	sent := map[string]bool{}
	unsub := map[int]bool{}
	read := map[int]bool{}
	for _, op := range r.Ops {
		switch op.Kind {
		case "send":
			sent[fmt.Sprint(op.Arg)] = true
		case "unsub":
			unsub[op.Arg] = true
		case "recv":
			read[op.Arg] = true
		}
	}
	bad := func(sig, format string, a ...any) {
		cr.problems = append(cr.problems, sig+"\x00"+fmt.Sprintf(format, a...))
	}
	for i, c := range r.Chans {
		slot, closed := old[i][:len(old[i])-1], strings.HasSuffix(old[i], "c")
		if closed != (c.Closed || unsub[i]) {
			bad("feed-subscriber-closed-flag-wrong-after-concurrent-round", "subscriber %d: closed=%v, unsubscribed=%v", i, closed, c.Closed || unsub[i])
		}
		if c.Closed || unsub[i] {
			continue
		}
		if read[i] {
			// a stayer with concurrent readers: a value sent to it is in its slot or was taken by a reader
			// (a plain subscriber whose slot was full may have been skipped)
			if len(sent) == 1 && (c.KeepLast || !c.Full) {
				have := map[string]bool{slot: true}
				for j, op := range r.Ops {
					if op.Kind == "recv" && op.Arg == i {
						have[got[j]] = true
					}
				}
				for v := range sent {
					if !have[v] {
						bad("feed-subscriber-loses-the-sent-value-when-a-reader-takes-the-old-one", "subscriber %d (keep_last=%v, slot_full=%v) stayed subscribed, the value %s was sent, its readers got %v and its slot holds %q afterwards: the value is gone", i, c.KeepLast, c.Full, v, have, slot)
					}
				}
			}
			continue
		}
		// a stayer nobody reads
		switch {
		case len(sent) == 0 || (c.Full && !c.KeepLast):
			want := "-"
			if c.Full {
				want = fmt.Sprint(concPre)
			}
			if slot != want {
				bad("feed-subscriber-slot-changed-without-a-send-for-it", "subscriber %d holds %q, must hold %q", i, slot, want)
			}
		default:
			if !sent[slot] {
				bad("feed-subscriber-subscribed-for-the-whole-send-misses-the-value", "subscriber %d (keep_last=%v, slot_full=%v) stayed subscribed while %d Send(s) ran and holds %q afterwards", i, c.KeepLast, c.Full, len(sent), slot)
			}
		}
	}
	for _, n := range nw {
		slot := n[1 : len(n)-1]
		if strings.HasSuffix(n, "c") || (slot != "-" && !sent[slot]) {
			bad("feed-new-subscriber-in-impossible-state", "a subscriber created during the round is %q", n)
		}
	}
	// nobody receives after its Unsubscribe returned: every slot is empty now; one more Send
	err, panicked, _ := lib.Try(func() error { f.Send(77); return nil })
	if panicked {
		cr.panics = append(cr.panics, fmt.Sprintf("send 77 (after the round): %v", err))
		return cr
	}
	for i, c := range r.Chans {
		after := concSlot(subs[i])
		gone := c.Closed || unsub[i]
		if gone && after != "-c" {
			bad("feed-subscriber-receives-after-its-unsubscribe-returned", "subscriber %d was unsubscribed during the round; a Send made after the round left it %q", i, after)
		}
		if !gone && after != "77o" {
			bad("feed-subscriber-still-subscribed-misses-the-next-send", "subscriber %d is still subscribed; a Send made after the round left it %q", i, after)
		}
	}
	for i, op := range r.Ops {
		if op.Kind == "sub" {
			if after := concSlot(newSubs[i]); after != "77o" {
				bad("feed-subscriber-still-subscribed-misses-the-next-send", "the subscriber created by op %d got %q from the Send made after the round", i, after)
			}
			newSubs[i].Unsubscribe()
		}
	}
	for _, s := range subs {
		s.Unsubscribe()
	}
	return cr
}

// genSmallRound: a shape small enough for the Lean machine to enumerate every schedule.
func genSmallRound(r *lib.RNG, maxOps int) concRound {
	var rd concRound
	n := r.Range(1, 3)
	for i := 0; i < n; i++ {
		rd.Chans = append(rd.Chans, concChan{KeepLast: r.Chance(1, 2), Full: r.Chance(1, 2), Closed: r.Chance(1, 10)})
	}
	rd.Ops = append(rd.Ops, concOp{Kind: "send", Arg: 1})
	k := r.Range(1, maxOps-1)
	for i := 0; i < k; i++ {
		switch x := r.Intn(10); {
		case x < 5:
			rd.Ops = append(rd.Ops, concOp{Kind: "unsub", Arg: r.Intn(n)})
		case x < 7:
			rd.Ops = append(rd.Ops, concOp{Kind: "sub", Arg: b2i(r.Chance(1, 2))})
		case x < 9:
			rd.Ops = append(rd.Ops, concOp{Kind: "recv", Arg: r.Intn(n)})
		default:
			rd.Ops = append(rd.Ops, concOp{Kind: "send", Arg: 2})
		}
	}
	// at most one concurrent subscriber of each kind, at most two senders (values 1, 2)
	seen := map[string]bool{}
	var ops []concOp
	for _, o := range rd.Ops {
		k := ""
		if o.Kind == "sub" || (o.Kind == "send" && o.Arg == 2) {
			k = fmt.Sprint(o.Kind, o.Arg)
		}
		if k != "" && seen[k] {
			continue
		}
		seen[k] = true
		ops = append(ops, o)
	}
	rd.Ops = ops
	return rd
}

// genBigRound: one Send racing many Unsubscribes (and a few Subscribes) over many subscribers.
func genBigRound(r *lib.RNG) concRound {
	var rd concRound
	n := lib.Pick(r, []int{2, 3, 4, 8, 16, 32, 48})
	for i := 0; i < n; i++ {
		rd.Chans = append(rd.Chans, concChan{KeepLast: r.Chance(1, 3), Full: r.Chance(1, 3)})
	}
	rd.Ops = append(rd.Ops, concOp{Kind: "send", Arg: 1, Skew: r.Intn(40)})
	for i := 0; i < n; i++ {
		if r.Chance(1, 2) {
			rd.Ops = append(rd.Ops, concOp{Kind: "unsub", Arg: i, Skew: r.Intn(200)})
			if r.Chance(1, 8) {
				rd.Ops = append(rd.Ops, concOp{Kind: "unsub", Arg: i, Skew: r.Intn(200)})
			}
		}
	}
	for i := r.Intn(3); i > 0; i-- {
		rd.Ops = append(rd.Ops, concOp{Kind: "sub", Arg: b2i(r.Chance(1, 2)), Skew: r.Intn(200)})
	}
	if r.Chance(1, 4) {
		rd.Ops = append(rd.Ops, concOp{Kind: "send", Arg: 2, Skew: r.Intn(100)})
	}
	lib.Shuffle(r, rd.Ops)
	return rd
}

func concSigOfPanic(p string) string {
	switch {
	case strings.HasPrefix(p, "send") && strings.Contains(p, "closed channel"):
		return "feed-send-panics-when-racing-unsubscribe"
	case strings.HasPrefix(p, "unsub"):
		return "feed-unsubscribe-panics-under-concurrency"
	default:
		return "feed-panics-under-concurrency"
	}
}

// judgeConc reports what the Go oracle found in one execution of a round; true = something was wrong.
func judgeConc(res *lib.Result, rd concRound, cr concResult, attempt int, reported map[string]bool) bool {
	viol := func(sig, what string) {
		if reported[sig] {
			return
		}
		reported[sig] = true
		res.Violate(lib.Violation{Sig: sig, What: "feed.Feed under concurrent use: " + what,
			Replay: map[string]any{"feed_round": rd, "attempt": attempt, "outcome": cr.outcome,
				"how": "all operations of the round are released at once on the real feed.Feed, GOMAXPROCS as given; --replay repeats the round until it fails again"}})
	}
	switch {
	case cr.hung:
		viol("feed-operation-hangs-under-concurrency", "an operation of the round did not return (the blocking keep-last send, or a lock that is never released)")
		return true
	case len(cr.panics) > 0:
		viol(concSigOfPanic(cr.panics[0]), strings.Join(cr.panics, "; ")+" — Send runs inside storeTask right after blockchain.Store: the block is stored, its new-head / reorg notification is never emitted and the pipeline dies")
		return true
	case len(cr.problems) > 0:
		for _, p := range cr.problems {
			sw := strings.SplitN(p, "\x00", 2)
			viol(sw[0], sw[1])
		}
		return true
	}
	return false
}

func checkFeedConcurrency(f lib.Flags, res *lib.Result, drv *lib.Driver) {
	defProcs := runtime.GOMAXPROCS(0)
	defer runtime.GOMAXPROCS(defProcs)
	r := lib.NewRNG(f.Seed ^ 0xC0C0FEED)
	reported := map[string]bool{}
	stop := false

	// ---- small rounds: Go oracle + every observed outcome must be reachable in the Lean machine ----
	type shape struct {
		rd    concRound
		model map[string]bool
	}
	var shapes []*shape
	seen := map[string]bool{}
	add := func(rd concRound) {
		if k := rd.key(); !seen[k] {
			seen[k] = true
			shapes = append(shapes, &shape{rd: rd})
		}
	}
	// the witness shapes of the Lean theorems, always
	add(concRound{Chans: []concChan{{}}, Ops: []concOp{{Kind: "send", Arg: 1}, {Kind: "unsub", Arg: 0}}})
	add(concRound{Chans: []concChan{{KeepLast: true, Full: true}}, Ops: []concOp{{Kind: "send", Arg: 1}, {Kind: "send", Arg: 2}}})
	add(concRound{Chans: []concChan{{}, {KeepLast: true, Full: true}}, Ops: []concOp{{Kind: "send", Arg: 5}, {Kind: "unsub", Arg: 0}, {Kind: "sub", Arg: 0}, {Kind: "recv", Arg: 1}, {Kind: "unsub", Arg: 0}}})
	for i := 0; len(shapes) < f.Scale(500, 2500) && i < 100000; i++ {
		add(genSmallRound(r.Fork(uint64(i)), 4))
	}
	for i := 0; len(shapes) < f.Scale(560, 3000) && i < 100000; i++ {
		add(genSmallRound(r.Fork(uint64(1000000+i)), 5))
	}
	if drv != nil {
		var lines []string
		for _, s := range shapes {
			lines = append(lines, "feedc lock "+s.rd.key())
		}
		ans, err := drv.AskAll(lines)
		if err != nil {
			res.Fatalf("concurrent feed check: Lean driver failed: %v", err)
		} else {
			for i, a := range ans {
				if a == "bad-op" || a == "" {
					res.Fatalf("concurrent feed check: the driver answered %q to %q", a, lines[i])
					continue
				}
				shapes[i].model = map[string]bool{}
				for _, o := range strings.Split(a, " ; ") {
					shapes[i].model[o] = true
					if o == "panic" || strings.HasSuffix(o, "stuck") {
						res.Fatalf("concurrent feed check: the Lean machine of the code as it is reaches %q on %q (contradicts feed_send_under_lock_never_panics / feed_keep_last_send_never_blocks)", o, lines[i])
					}
				}
				res.HitN("feed-conc:model-outcomes-enumerated", len(shapes[i].model))
			}
		}
	}
	procsOf := []int{4, 8, 2, 16}
	reps := f.Scale(40, 200)
	mismatched := map[string]bool{}
	for si, s := range shapes {
		if stop {
			break
		}
		p := procsOf[si%len(procsOf)]
		runtime.GOMAXPROCS(p)
		distinct := map[string]bool{}
		n := reps
		for _, o := range s.rd.Ops {
			if o.Kind == "recv" && s.rd.Chans[o.Arg].KeepLast && s.rd.Chans[o.Arg].Full && !s.rd.Chans[o.Arg].Closed {
				n = reps * 10 // the window between the failed send and the drain is a few instructions wide
				res.Hit("feed-conc:shapes-with-a-reader-racing-the-keep-last-replacement")
				break
			}
		}
		for a := 0; a < n && !stop; a++ {
			rd := s.rd
			rd.Procs = p
			rd.Ops = append([]concOp{}, s.rd.Ops...)
			rr := r.Fork(uint64(si*1000 + a))
			for i := range rd.Ops {
				if a%3 != 0 {
					rd.Ops[i].Skew = rr.Intn(120)
				}
			}
			cr := runConcRound(rd)
			res.Case("feed-conc/"+s.rd.key()+"/"+cr.outcome, true)
			for _, o := range rd.Ops {
				res.Hit("feed-conc-op:" + o.Kind)
			}
			if judgeConc(res, rd, cr, a, reported) {
				if cr.hung || len(cr.panics) > 0 {
					stop = true // a goroutine may be stuck / the feed is broken: no further rounds
				}
				continue
			}
			distinct[cr.outcome] = true
			if s.model != nil {
				res.Compared(1)
				if !s.model[cr.outcome] && !mismatched[s.rd.key()] {
					mismatched[s.rd.key()] = true
					var all []string
					for o := range s.model {
						all = append(all, o)
					}
					sort.Strings(all)
					res.Mismatch(lib.Mismatch{Sig: "feed-concurrent-outcome-not-reachable-in-model", Input: rd,
						Model: strings.Join(all, " ; "), Impl: cr.outcome})
				}
			}
		}
		res.HitN("feed-conc:distinct-outcomes-observed", len(distinct))
		if len(distinct) > 1 {
			res.Hit("feed-conc:shapes-with-more-than-one-observed-outcome")
		}
	}
	res.HitN("feed-conc:small-shapes", len(shapes))

	// ---- big rounds: one Send racing many Unsubscribes; Go oracle only ----
	nBig := f.Scale(6000, 80000)
	for i := 0; i < nBig && !stop; i++ {
		rd := genBigRound(r.Fork(uint64(5000000 + i)))
		rd.Procs = []int{8, 4, 16}[i%3]
		runtime.GOMAXPROCS(rd.Procs)
		cr := runConcRound(rd)
		res.Case(fmt.Sprintf("feed-conc-big/%d/%d", len(rd.Chans), i), true)
		res.Hit(fmt.Sprintf("feed-conc-big:subscribers=%d", len(rd.Chans)))
		if judgeConc(res, rd, cr, i, reported) && (cr.hung || len(cr.panics) > 0) {
			stop = true
		}
		// how often did the race really happen? a leaver that still got the value was served before
		// its Unsubscribe, one without was unsubscribed first
		if !cr.hung && len(cr.panics) == 0 {
			with, without := 0, 0
			old := strings.Split(strings.TrimPrefix(strings.SplitN(cr.outcome, " new=", 2)[0], "ch="), ",")
			for _, o := range rd.Ops {
				if o.Kind == "unsub" && o.Arg < len(old) && !rd.Chans[o.Arg].Full {
					if strings.HasPrefix(old[o.Arg], "1") || strings.HasPrefix(old[o.Arg], "2") {
						with++
					} else {
						without++
					}
				}
			}
			if with > 0 && without > 0 {
				res.Hit("feed-conc-big:send-overlapped-the-unsubscribes(some leavers served, some not)")
			}
		}
	}
	if !stop && res.Distribution["feed-conc-big:send-overlapped-the-unsubscribes(some leavers served, some not)"] == 0 {
		res.Fatalf("concurrent feed check: in none of the %d big rounds did the Send overlap the Unsubscribes (no parallelism?): the race was not exercised", nBig)
	}
}

// replayConcRound repeats one round until the oracle fails again.
func replayConcRound(res *lib.Result, rd concRound) {
	defProcs := runtime.GOMAXPROCS(0)
	defer runtime.GOMAXPROCS(defProcs)
	if rd.Procs > 0 {
		runtime.GOMAXPROCS(rd.Procs)
	}
	reported := map[string]bool{}
	r := lib.NewRNG(0xC0C0)
	for a := 0; a < 200000; a++ {
		x := rd
		x.Ops = append([]concOp{}, rd.Ops...)
		if a%2 == 1 {
			for i := range x.Ops {
				x.Ops[i].Skew = r.Intn(200)
			}
		}
		cr := runConcRound(x)
		if judgeConc(res, x, cr, a, reported) {
			res.Case("feed-conc-replay/failed", true)
			return
		}
	}
	res.Case("feed-conc-replay/no-failure-in-200000-attempts", true)
}

// ---------------------------------------------------------------------------------------------
// STREAM rounds: one sender sends 1..K back to back while every subscriber has a reader receiving
// continuously (and one subscriber may leave in the middle). What a subscriber receives must be
// strictly increasing (after the pre-filled value), a keep-last subscriber that stays must end up
// with the LAST value (received or still in its slot — the point of keep-last), a plain subscriber
// whose slot was empty must get the FIRST one. This is where the keep-last replacement (failed send,
// drain, blocking send) races the reader taking the old value.
// ---------------------------------------------------------------------------------------------

type streamRound struct {
	Subs  []concChan `json:"subscribers"`
	K     int        `json:"values_sent"`
	Leave int        `json:"leaver"`                    // index of the subscriber that unsubscribes during the stream, -1 = nobody
	Poll  bool       `json:"polling_readers,omitempty"` // readers poll with a non-blocking receive instead of blocking
	Tee   bool       `json:"via_tee,omitempty"`         // the values are sent on another feed and forwarded by feed.Tee (as rpc does with sync's feeds)
	Procs int        `json:"gomaxprocs,omitempty"`
}

func runStreamRound(rd streamRound) (problems []string, panics []string, hung bool) {
	f := feed.New[int]()
	subs := make([]*feed.Subscription[int], len(rd.Subs))
	for i, c := range rd.Subs {
		if c.KeepLast {
			subs[i] = f.SubscribeKeepLast()
		} else {
			subs[i] = f.Subscribe()
		}
	}
	f.Send(concPre)
	for i, c := range rd.Subs {
		if !c.Full {
			<-subs[i].Recv()
		}
	}
	src := f // the feed the sender uses
	var teeSub *feed.Subscription[int]
	if rd.Tee {
		src = feed.New[int]()
		teeSub = src.Subscribe()
		feed.Tee(teeSub, f)
	}
	recvd := make([][]int, len(subs))
	stop := make(chan struct{})
	var goFlag atomic.Bool
	var ready atomic.Int32
	var wg sync.WaitGroup
	var pmu sync.Mutex
	for i := range subs {
		wg.Add(1)
		go func(i int) {
			defer wg.Done()
			ready.Add(1)
			for !goFlag.Load() {
				runtime.Gosched()
			}
			for n := 0; ; n++ {
				if rd.Poll {
					// a busy reader: it arrives at the channel at arbitrary moments of a Send
					select {
					case v, ok := <-subs[i].Recv():
						if !ok {
							return
						}
						recvd[i] = append(recvd[i], v)
						continue
					default:
					}
					select {
					case <-stop:
					default:
						if n%64 == 63 {
							runtime.Gosched()
						}
						continue
					}
					select {
					case v, ok := <-subs[i].Recv():
						if ok {
							recvd[i] = append(recvd[i], v)
						}
					default:
					}
					return
				}
				select {
				case v, ok := <-subs[i].Recv():
					if !ok {
						return
					}
					recvd[i] = append(recvd[i], v)
				case <-stop:
					// the sender is done: what is still in the slot
					select {
					case v, ok := <-subs[i].Recv():
						if ok {
							recvd[i] = append(recvd[i], v)
						}
					default:
					}
					return
				}
			}
		}(i)
	}
	senderDone := make(chan struct{})
	wg.Add(1)
	go func() {
		defer wg.Done()
		defer close(senderDone)
		ready.Add(1)
		for !goFlag.Load() {
			runtime.Gosched()
		}
		for v := 1; v <= rd.K; v++ {
			err, panicked, _ := lib.Try(func() error { src.Send(v); return nil })
			if panicked {
				pmu.Lock()
				panics = append(panics, fmt.Sprintf("send %d: %v", v, err))
				pmu.Unlock()
				return
			}
		}
	}()
	if rd.Leave >= 0 {
		wg.Add(1)
		go func() {
			defer wg.Done()
			ready.Add(1)
			for !goFlag.Load() {
				runtime.Gosched()
			}
			err, panicked, _ := lib.Try(func() error { subs[rd.Leave].Unsubscribe(); return nil })
			if panicked {
				pmu.Lock()
				panics = append(panics, fmt.Sprintf("unsub %d: %v", rd.Leave, err))
				pmu.Unlock()
			}
		}()
	}
	want := len(subs) + 1
	if rd.Leave >= 0 {
		want++
	}
	for int(ready.Load()) < want {
		runtime.Gosched()
	}
	goFlag.Store(true)
	startHeartbeat()
	deadline := beats.Load() + 2000
	for spins := 0; ; spins++ {
		select {
		case <-senderDone:
		default:
			if beats.Load() > deadline {
				return nil, panics, true
			}
			if spins < 2000 {
				runtime.Gosched()
			} else {
				time.Sleep(50 * time.Microsecond)
			}
			continue
		}
		break
	}
	if rd.Tee {
		// the forwarding goroutine may still hold values: let it run (only the order of what arrives is
		// judged in this variant, nothing is demanded to arrive)
		for k := 0; k < 200; k++ {
			runtime.Gosched()
		}
		teeSub.Unsubscribe()
		for k := 0; k < 50; k++ {
			runtime.Gosched()
		}
	}
	close(stop)
	done := make(chan struct{})
	go func() { wg.Wait(); close(done) }()
	for spins := 0; ; spins++ {
		select {
		case <-done:
		default:
			if beats.Load() > deadline {
				return nil, panics, true
			}
			if spins < 2000 {
				runtime.Gosched()
			} else {
				time.Sleep(50 * time.Microsecond)
			}
			continue
		}
		break
	}
	if len(panics) > 0 {
		return nil, panics, false
	}
	for i, c := range rd.Subs {
		got := recvd[i]
		rest := got
		if c.Full {
			switch {
			case len(got) > 0 && got[0] == concPre:
				rest = got[1:]
			case c.KeepLast:
				// the pre-filled value was replaced before the reader took it
			default:
				problems = append(problems, fmt.Sprintf("feed-subscriber-receives-wrong-or-reordered-values-under-concurrency\x00plain subscriber %d held %d before the stream and received %v", i, concPre, got))
				continue
			}
		}
		prev := 0
		okOrder := true
		for _, v := range rest {
			if v <= prev || v > rd.K {
				okOrder = false
			}
			prev = v
		}
		if !okOrder {
			problems = append(problems, fmt.Sprintf("feed-subscriber-receives-wrong-or-reordered-values-under-concurrency\x00subscriber %d received %v while 1..%d were sent in order", i, got, rd.K))
			continue
		}
		if i == rd.Leave || rd.Tee {
			continue // through a tee values may be skipped (its own subscription is a plain one): order only
		}
		if c.KeepLast && (len(rest) == 0 || rest[len(rest)-1] != rd.K) {
			problems = append(problems, fmt.Sprintf("feed-keep-last-subscriber-does-not-end-with-the-last-value\x00keep-last subscriber %d (slot_full=%v) stayed subscribed while 1..%d were sent; it received %v and its slot is empty afterwards: the last value is lost", i, c.Full, rd.K, got))
		}
		if !c.KeepLast && !c.Full && (len(rest) == 0 || rest[0] != 1) {
			problems = append(problems, fmt.Sprintf("feed-subscriber-subscribed-for-the-whole-send-misses-the-value\x00subscriber %d had an empty slot when 1..%d were sent and received %v: the first value must have reached it", i, rd.K, got))
		}
	}
	for _, s := range subs {
		s.Unsubscribe()
	}
	return problems, nil, false
}

func judgeStream(res *lib.Result, rd streamRound, problems, panics []string, hung bool, attempt int, reported map[string]bool) bool {
	viol := func(sig, what string) {
		if reported[sig] {
			return
		}
		reported[sig] = true
		res.Violate(lib.Violation{Sig: sig, What: "feed.Feed under concurrent use: " + what,
			Replay: map[string]any{"feed_stream": rd, "attempt": attempt,
				"how": "one goroutine sends 1..values_sent, every subscriber has a reader goroutine, the leaver unsubscribes concurrently; --replay repeats the round until it fails again"}})
	}
	switch {
	case hung:
		viol("feed-operation-hangs-under-concurrency", "the sender or a reader did not finish")
		return true
	case len(panics) > 0:
		viol(concSigOfPanic(panics[0]), strings.Join(panics, "; "))
		return true
	case len(problems) > 0:
		for _, p := range problems {
			sw := strings.SplitN(p, "\x00", 2)
			viol(sw[0], sw[1])
		}
		return true
	}
	return false
}

func genStreamRound(r *lib.RNG, i int) streamRound {
	rd := streamRound{K: r.Range(1, 6), Leave: -1, Procs: []int{4, 8, 2, 16}[i%4], Poll: r.Chance(1, 2)}
	if r.Chance(1, 4) {
		rd.K = r.Range(16, 64)
	}
	n := r.Range(1, 3)
	for j := 0; j < n; j++ {
		rd.Subs = append(rd.Subs, concChan{KeepLast: r.Chance(2, 3), Full: r.Chance(2, 3)})
	}
	if r.Chance(1, 4) {
		rd.Leave = r.Intn(n)
	}
	rd.Tee = r.Chance(1, 5)
	return rd
}

func checkFeedStreams(f lib.Flags, res *lib.Result) {
	defProcs := runtime.GOMAXPROCS(0)
	defer runtime.GOMAXPROCS(defProcs)
	r := lib.NewRNG(f.Seed ^ 0x57EA4)
	reported := map[string]bool{}
	n := f.Scale(30000, 400000)
	for i := 0; i < n; i++ {
		rd := genStreamRound(r.Fork(uint64(i)), i)
		if i%4 == 0 {
			runtime.GOMAXPROCS(rd.Procs)
		} else {
			rd.Procs = runtime.GOMAXPROCS(0)
		}
		problems, panics, hung := runStreamRound(rd)
		res.Case(fmt.Sprintf("feed-stream/%d/%d/%d", len(rd.Subs), rd.K, i%64), true)
		res.Hit("feed-stream:rounds")
		if rd.Leave >= 0 {
			res.Hit("feed-stream:with-a-leaver")
		}
		if rd.Tee {
			res.Hit("feed-stream:through-feed.Tee")
		}
		if len(problems) > 0 {
			res.Hit("feed-stream:rounds-with-an-oracle-failure")
		}
		if judgeStream(res, rd, problems, panics, hung, i, reported) && (hung || len(panics) > 0) {
			return
		}
	}
}

func replayStreamRound(res *lib.Result, rd streamRound) {
	defProcs := runtime.GOMAXPROCS(0)
	defer runtime.GOMAXPROCS(defProcs)
	if rd.Procs > 0 {
		runtime.GOMAXPROCS(rd.Procs)
	}
	reported := map[string]bool{}
	for a := 0; a < 2000000; a++ {
		problems, panics, hung := runStreamRound(rd)
		if judgeStream(res, rd, problems, panics, hung, a, reported) {
			res.Case("feed-stream-replay/failed", true)
			return
		}
	}
	res.Case("feed-stream-replay/no-failure-in-2000000-attempts", true)
}

// ---------------------------------------------------------------------------------------------
// EPOCH rounds: ONE long-lived feed, a keep-last subscriber with a busy reader, a churner that
// subscribes and unsubscribes other subscribers all the time, and a sender that in every epoch e sends
// 2e-1 and 2e back to back and then waits until the reader has seen 2e. The second send of an epoch
// usually finds the slot full, so the keep-last replacement (failed send, drain, blocking send) runs
// while the reader is taking the old value: thousands of chances per round for the few-instruction
// window. Oracle: the LAST value sent always reaches a keep-last subscriber that stays subscribed
// (what keep-last is for; new-head notifications at the tip are exactly this), values arrive in
// increasing order, nothing panics.
// ---------------------------------------------------------------------------------------------

type epochRound struct {
	Epochs  int  `json:"epochs"`
	Churn   bool `json:"concurrent_subscribe_unsubscribe"`
	Procs   int  `json:"gomaxprocs"`
	FailsAt int  `json:"failed_at_epoch,omitempty"`
}

func runEpochRound(rd epochRound) (sig, what string, failedAt int) {
	f := feed.New[int]()
	sub := f.SubscribeKeepLast()
	var lastSeen atomic.Int64
	var stop atomic.Bool
	var order atomic.Int64 // first out-of-order pair: prev<<32 | v
	var wg sync.WaitGroup
	var panicMsg atomic.Value
	wg.Add(1)
	go func() { // the reader
		defer wg.Done()
		prev := 0
		for n := 0; ; n++ {
			select {
			case v := <-sub.Recv():
				if v <= prev && order.Load() == 0 {
					order.Store(int64(prev)<<32 | int64(v))
				}
				prev = v
				lastSeen.Store(int64(v))
			default:
				if stop.Load() {
					return
				}
				if n%256 == 255 {
					runtime.Gosched()
				}
			}
		}
	}()
	if rd.Churn {
		wg.Add(1)
		go func() { // subscribers coming and going
			defer wg.Done()
			err, panicked, _ := lib.Try(func() error {
				var held []*feed.Subscription[int]
				for n := 0; !stop.Load(); n++ {
					if n%3 == 2 {
						held = append(held, f.SubscribeKeepLast())
					} else {
						held = append(held, f.Subscribe())
					}
					if len(held) > 3 {
						held[0].Unsubscribe()
						held = held[1:]
					}
					if n%5 == 0 {
						runtime.Gosched()
					}
				}
				for _, h := range held {
					h.Unsubscribe()
				}
				return nil
			})
			if panicked {
				panicMsg.Store("subscribe/unsubscribe: " + err.Error())
			}
		}()
	}
	startHeartbeat()
	defer func() { stop.Store(true); wg.Wait(); sub.Unsubscribe() }()
	for e := 1; e <= rd.Epochs; e++ {
		err, panicked, _ := lib.Try(func() error { f.Send(2*e - 1); f.Send(2 * e); return nil })
		if panicked {
			return concSigOfPanic("send: " + err.Error()), fmt.Sprintf("send %d/%d: %v", 2*e-1, 2*e, err), e
		}
		deadline := beats.Load() + 1000 // 10 s of a healthy process
		for spins := 0; lastSeen.Load() != int64(2*e); spins++ {
			if spins%512 == 511 {
				runtime.Gosched()
				if beats.Load() > deadline {
					return "feed-keep-last-subscriber-does-not-end-with-the-last-value",
						fmt.Sprintf("epoch %d: %d and %d were sent back to back to a keep-last subscriber whose reader takes values as fast as it can; the reader's last value is %d and nothing else arrives: %d is lost", e, 2*e-1, 2*e, lastSeen.Load(), 2*e), e
				}
			}
		}
		if o := order.Load(); o != 0 {
			return "feed-subscriber-receives-wrong-or-reordered-values-under-concurrency",
				fmt.Sprintf("the reader received %d after %d", o&0xffffffff, o>>32), e
		}
		if m := panicMsg.Load(); m != nil {
			return "feed-panics-under-concurrency", m.(string), e
		}
	}
	return "", "", 0
}

func checkFeedEpochs(f lib.Flags, res *lib.Result) {
	defProcs := runtime.GOMAXPROCS(0)
	defer runtime.GOMAXPROCS(defProcs)
	for i, p := range []int{4, 8, 2, 16} {
		runtime.GOMAXPROCS(p)
		rd := epochRound{Epochs: f.Scale(60000, 1000000), Churn: i%2 == 1, Procs: p}
		sig, what, at := runEpochRound(rd)
		res.Case(fmt.Sprintf("feed-epochs/%d/%v", p, rd.Churn), true)
		res.HitN("feed-epochs:pairs-sent-and-awaited", rd.Epochs)
		if sig != "" {
			rd.FailsAt = at
			res.Violate(lib.Violation{Sig: sig, What: "feed.Feed under concurrent use: " + what,
				Replay: map[string]any{"feed_epochs": rd, "how": "one long-lived feed: a keep-last subscriber with a polling reader, optionally other subscribers coming and going, the sender sends 2e-1 and 2e and waits for 2e to be seen; --replay runs it again"}})
			return
		}
	}
}

func replayEpochRound(res *lib.Result, rd epochRound) {
	defProcs := runtime.GOMAXPROCS(0)
	defer runtime.GOMAXPROCS(defProcs)
	if rd.Procs > 0 {
		runtime.GOMAXPROCS(rd.Procs)
	}
	rd.Epochs *= 20
	sig, what, at := runEpochRound(rd)
	res.Case("feed-epochs-replay", true)
	if sig != "" {
		rd.FailsAt = at
		res.Violate(lib.Violation{Sig: sig, What: "feed.Feed under concurrent use: " + what, Replay: map[string]any{"feed_epochs": rd}})
	}
}
