//go:build verif

package main

import (
	"fmt"
	"strings"

	"verif/harness/lib"
)

// ---------------------------------------------------------------------------------------------
// Exact replay of an observed run through the Lean event machine `Impl.step` (driver op `impl`):
// the observed log is translated into the events of the serial pipeline —
//   a store           -> deliver(req, block, not cancelled)
//   a run of reverts  -> the event that started the revert task (a valid block head+1 whose parent
//                        is not the head = storeTask's ErrParentDoesNotMatchHead, or the failed fetch
//                        of head+1 with the last BlockHeaderLatest answer = isReverting), then one
//                        `iter` per revert with the answer revertTask got for that height (if it
//                        asked), then the breaking iteration
//   a shutdown        -> restart
// and the machine must produce EXACTLY the observed commits and feed sends, event by event, and end
// with the observed chain. Events that change nothing in the machine (refused, cancelled,
// mis-numbered deliveries; reorg checks that say "no") are not replayed.
// ---------------------------------------------------------------------------------------------

type implReplayer struct {
	drv   *lib.Driver
	id    *ids
	task  string // "-" or lpv as printed by the driver
	chain []headRec
	n     int // events sent
	err   string
	last  []string
	// round 6: with a registered plugin the machine is also asked what it tells the plugin while it
	// executes each event (`plug <event>`, Impl.pluginCalls), before the event is applied
	plug  bool
	calls []string
}

// plugEvent turns an `impl …` request into the event words of the `plug` op.
func plugEvent(line string) string {
	w := strings.Fields(line)
	if len(w) < 2 || w[0] != "impl" {
		return ""
	}
	if w[1] == "deliverv" && len(w) == 6 { // impl deliverv REQ B VERHEX C (an observed store: supported version)
		return "deliver " + w[2] + " " + w[3] + " " + w[5]
	}
	return strings.Join(w[1:], " ")
}

func (p *implReplayer) ask(line string) (obs string) {
	if p.err != "" {
		return ""
	}
	if p.plug {
		if ev := plugEvent(line); ev != "" {
			a, err := p.drv.Ask("plug " + ev)
			if err != nil {
				p.err = "driver: " + err.Error()
				return ""
			}
			if a == "bad-op" || a == "" {
				p.err = fmt.Sprintf("driver answered %q to plug %s", a, ev)
				return ""
			}
			if a != "-" {
				p.calls = append(p.calls, strings.Split(a, ";")...)
			}
		}
	}
	a, err := p.drv.Ask(line)
	if err != nil {
		p.err = "driver: " + err.Error()
		return ""
	}
	p.n++
	p.last = append(p.last, line+" -> "+a)
	if len(p.last) > 8 {
		p.last = p.last[1:]
	}
	i := strings.LastIndex(a, " | task=")
	if i < 0 {
		p.err = fmt.Sprintf("driver answered %q to %q", a, line)
		return ""
	}
	p.task = a[i+len(" | task="):]
	return a[:i]
}

// peek asks what an event would do without applying it
func (p *implReplayer) peek(ev string) string {
	if p.err != "" {
		return ""
	}
	a, err := p.drv.Ask("impl? " + ev)
	if err != nil {
		p.err = "driver: " + err.Error()
		return ""
	}
	if i := strings.LastIndex(a, " | task="); i >= 0 {
		return a[:i]
	}
	p.err = fmt.Sprintf("driver answered %q to impl? %s", a, ev)
	return ""
}

// peekTask: the task the machine would be in after the event ("-" = none)
func (p *implReplayer) peekTask(ev string) string {
	if p.err != "" {
		return "-"
	}
	a, err := p.drv.Ask("impl? " + ev)
	if err != nil {
		p.err = "driver: " + err.Error()
		return "-"
	}
	p.last = append(p.last, "impl? "+ev+" -> "+a)
	if len(p.last) > 8 {
		p.last = p.last[1:]
	}
	if i := strings.LastIndex(a, " | task="); i >= 0 {
		return a[i+len(" | task="):]
	}
	return "-"
}

// tokenOf: the model's view of an answer: ok = SanityCheckNewHeight accepts it (honest blocks and the
// self-consistent forged ones), diff id and claimed root as far as they are the honest block's.
func tokenOf(id *ids, e entry) string {
	d, r := id.claim(&e.Orig, &e.Hash, e.DiffSame, e.RootSame)
	return fmt.Sprintf("%d:%d:%d:%d:%d:%d", e.Num, id.of(&e.Hash), id.of(&e.Parent), b2i(e.Sane), d, r)
}

// lastAnswerFor: the last answer to a request for height h in log[from:to] ("-" if none or an error)
func lastAnswerFor(id *ids, log []entry, from, to int, h uint64) string {
	for i := to - 1; i >= from && i >= 0; i-- {
		e := log[i]
		if e.Req == h && e.Kind == eServed {
			return tokenOf(id, e)
		}
		if e.Req == h && e.Kind == eServeErr {
			return "-"
		}
	}
	return "-"
}

// answersFor: every answer to a request for height h in log[from:to], newest first ("-" = an error)
func answersFor(id *ids, log []entry, from, to int, h uint64) []string {
	var out []string
	seen := map[string]bool{}
	for i := to - 1; i >= from && i >= 0; i-- {
		e := log[i]
		t := ""
		if e.Req == h && e.Kind == eServed {
			t = tokenOf(id, e)
		} else if e.Req == h && e.Kind == eServeErr {
			t = "-"
		}
		if t != "" && !seen[t] {
			seen[t] = true
			out = append(out, t)
		}
	}
	return out
}

// implReplay returns "" when the machine reproduced the run, else a description of the first
// difference. compared = number of events checked.
func implReplay(drv *lib.Driver, id *ids, sc Scenario, out *outcome, pre []*lib.Bundle, notifOf func(k int) []string, failedRevert map[int]bool) (diff string, compared int, hits map[string]int) {
	hits = map[string]int{}
	p := &implReplayer{drv: drv, id: id, task: "-", plug: sc.Plugin}
	if a, err := drv.Ask(strings.TrimSpace("impl-init " + chainTokens(id, pre))); err != nil || a != "ok" {
		return fmt.Sprintf("impl-init: %q %v", a, err), 0, hits
	}
	for i, b := range pre {
		p.chain = append(p.chain, headRec{uint64(i), *b.Block.Hash})
	}
	log := out.log
	lastCommit := 0 // index after the last commit / task event
	nst := 0
	closeTask := func(upTo int) string {
		// the real task has ended (a store or a shutdown follows): the breaking iteration
		for tries := 0; p.task != "-" && tries < len(p.chain)+3; tries++ {
			ans := "-"
			if n := len(p.chain); n > 0 {
				ans = lastAnswerFor(id, log, lastCommit, upTo, p.chain[n-1].num)
				// several answers for the head's height since the last commit (the task's own request and a
				// fetcher's): the task got one that made it stop
				if cands := answersFor(id, log, lastCommit, upTo, p.chain[n-1].num); len(cands) > 1 {
					for _, c := range cands {
						if p.peek("iter "+c+" 1") == "" && p.err == "" {
							ans = c
							hits["impl:answer-chosen-among-several"]++
							break
						}
					}
				}
			}
			obs := p.ask("impl iter " + ans + " 1")
			hits["impl:iter-break"]++
			if obs != "" {
				return fmt.Sprintf("the machine goes on reverting (%s) where the synchroniser ended its revert task (before log entry %d); last events: %s; log since the last commit: %s",
					obs, upTo, strings.Join(p.last, " || "), strings.Join(traceStrings(id, log[lastCommit:min(upTo+1, len(log))]), " / "))
			}
		}
		if p.task != "-" {
			return "the machine's revert task does not end"
		}
		return ""
	}
	for li, e := range log {
		if p.err != "" {
			break
		}
		switch e.Kind {
		case eRestart:
			if d := closeTask(li); d != "" {
				return d, p.n, hits
			}
			p.ask("impl restart")
			hits["impl:restart"]++
			lastCommit = li + 1
		case eStored:
			if d := closeTask(li); d != "" {
				return d, p.n, hits
			}
			nst++
			// which request was it served for? (any; the machine does not care)
			tok := ""
			for i := li - 1; i >= 0; i-- {
				if s := log[i]; s.Kind == eServed && s.Num == e.Num && s.Hash.Equal(&e.Hash) && s.Valid == e.Valid {
					tok = fmt.Sprintf("%d %s %s", s.Req, tokenOf(id, s), verHex(s.Ver))
					break
				}
			}
			if tok == "" {
				return fmt.Sprintf("stored block %d was never served", e.Num), p.n, hits
			}
			// (the delivery with the block's protocol version: Impl.deliverV)
			obs := p.ask("impl deliverv " + tok + " 0")
			hits["impl:deliver-stored"]++
			want := strings.Join(append([]string{fmt.Sprintf("S %d %d", e.Num, id.of(&e.Hash))}, notifOf(nst)...), ";")
			if obs != want && p.err == "" {
				return fmt.Sprintf("store of block %d: the machine emits %q, observed %q", e.Num, obs, want), p.n, hits
			}
			p.chain = append(p.chain, headRec{e.Num, e.Hash})
			lastCommit = li + 1
		case eReverted, eOnReorg:
			failed := e.Kind == eOnReorg
			if failed && !failedRevert[li] {
				continue // the listener call that follows a successful revert
			}
			if len(p.chain) == 0 {
				return "revert on an empty chain", p.n, hits
			}
			head := p.chain[len(p.chain)-1]
			if failed {
				e.Hash = head.hash // OnReorg only carries the number
			}
			want := fmt.Sprintf("R %d %d", e.Num, id.of(&e.Hash))
			okFlag := "1"
			if failed {
				want = fmt.Sprintf("RF %d %d", e.Num, id.of(&e.Hash))
				okFlag = "0"
			}
			if p.task != "-" {
				// does the running task do this revert? if not, the real task has ended in between
				// (its request failed or was answered with the same block) and a new one was started
				ans := lastAnswerFor(id, log, lastCommit, li, e.Num)
				if p.peek("iter "+ans+" "+okFlag) != want {
					if d := closeTask(li); d != "" {
						return d, p.n, hits
					}
					hits["impl:task-ended-between-reverts"]++
				}
			}
			if p.task == "-" {
				// what started the task?
				started := false
				// (b) isReverting: one of the latest answers since the previous commit (newest first;
				// pollLatest's or a later round's answer may have been logged after the deciding one)
				tried := 0
				for i := li - 1; i >= lastCommit && !started && tried < 8; i-- {
					l := log[i]
					if l.Kind == eStored || l.Kind == eReverted {
						break
					}
					if l.Kind != eLatest {
						continue
					}
					tried++
					// the confirming fetch: an answer for that height given after the header — the one that
					// carries the announced block if there is one (a later request for the same height, e.g.
					// revertTask's, may have been answered from another chain), else the last
					conf := "-"
					exact := false
					for j := i + 1; j < li; j++ {
						if c := log[j]; c.Kind == eServed && c.Req == l.Num && !exact {
							conf = tokenOf(id, c)
							exact = c.Sane && c.Num == l.Num && c.Hash.Equal(&l.Hash)
						}
					}
					ev := fmt.Sprintf("reorg %d %d %d %s", head.num+1, l.Num, id.of(&l.Hash), conf)
					if a := p.peekTask(ev); a == "-" {
						continue // this answer does not make isReverting say "reorg"
					}
					p.ask("impl " + ev)
					hits["impl:reorgDetected"]++
					started = p.task != "-"
				}
				// (a) storeTask: a valid block head+1 with another parent
				for i := li - 1; i >= 0 && !started; i-- {
					s := log[i]
					if s.Kind == eServed && s.Sane && s.Num == head.num+1 && !s.Parent.Equal(&head.hash) {
						p.ask(fmt.Sprintf("impl deliver %d %s 0", s.Req, tokenOf(id, s)))
						hits["impl:deliver-parent-mismatch"]++
						started = p.task != "-"
						break
					}
				}
				if !started && p.err == "" {
					return fmt.Sprintf("block %d was reverted, but no answer in the log makes the machine start a revert task; last events: %s", e.Num, strings.Join(p.last, " || ")), p.n, hits
				}
			}
			ans := lastAnswerFor(id, log, lastCommit, li, e.Num)
			if cands := answersFor(id, log, lastCommit, li, e.Num); len(cands) > 1 {
				// several requests for this height were answered since the last commit (a fetcher of the old
				// streams is still running next to the revert task): take the newest answer with which the
				// machine does what was observed — this revert, and going on if the next commit is a revert too
				goesOn := false
				for j := li + 1; j < len(log); j++ {
					if k := log[j].Kind; k == eStored || k == eRestart || k == eJump {
						break
					} else if k == eReverted || (k == eOnReorg && failedRevert[j]) {
						goesOn = true
						break
					}
				}
				for _, c := range cands {
					if p.peek("iter "+c+" "+okFlag) == want && (!goesOn || p.peekTask("iter "+c+" "+okFlag) != "-") {
						ans = c
						hits["impl:answer-chosen-among-several"]++
						break
					}
				}
			}
			obs := p.ask("impl iter " + ans + " " + okFlag)
			if failed {
				hits["impl:iter-revert-failed"]++
			} else {
				hits["impl:iter-revert"]++
			}
			if obs != want && p.err == "" {
				return fmt.Sprintf("revert of block %d: the machine emits %q (answer %s), observed %q", e.Num, obs, ans, want), p.n, hits
			}
			if !failed {
				p.chain = p.chain[:len(p.chain)-1]
			}
			lastCommit = li + 1
		}
	}
	if p.err != "" {
		return p.err, p.n, hits
	}
	a, err := drv.Ask("impl-end")
	if err != nil {
		return "driver: " + err.Error(), p.n, hits
	}
	var fc []string
	for _, h := range out.finalChain {
		hh := h.hash
		fc = append(fc, fmt.Sprintf("%d:%d", h.num, id.of(&hh)))
	}
	want := "chain=" + strings.Join(fc, ",")
	if len(fc) == 0 {
		want = "chain=-"
	}
	if !strings.HasPrefix(a, want+" ") {
		return fmt.Sprintf("final state: machine %q, node %q", a, want), p.n, hits
	}
	if p.plug {
		// what the REAL plugin was told, call by call (also the `to` block of every RevertBlock and the
		// calls made before a RevertHead that failed), against Impl.pluginCalls of the replayed events
		var got []string
		for _, c := range out.plugin {
			hh := c.hash
			switch {
			case !c.revert:
				got = append(got, fmt.Sprintf("nb %d %d", c.num, id.of(&hh)))
			case c.toNil:
				got = append(got, fmt.Sprintf("rb %d %d -", c.num, id.of(&hh)))
			default:
				th := c.toHash
				got = append(got, fmt.Sprintf("rb %d %d %d:%d", c.num, id.of(&hh), c.toNum, id.of(&th)))
			}
		}
		hits["plugin:calls-compared-with-model"] += len(got)
		for _, g := range got {
			if strings.HasPrefix(g, "rb ") && strings.HasSuffix(g, " -") {
				hits["plugin:revert-of-the-genesis(to=nil)"]++
			}
		}
		if strings.Join(got, ";") != strings.Join(p.calls, ";") {
			return fmt.Sprintf("plugin calls: machine %q, real plugin %q", strings.Join(p.calls, ";"), strings.Join(got, ";")), p.n, hits
		}
		return "", p.n + 1 + len(got), hits
	}
	return "", p.n + 1, hits
}
