//go:build verif

package main

import (
	"context"
	"errors"
	"fmt"
	"reflect"
	"strings"
	"sync"
	"sync/atomic"
	"time"

	"github.com/NethermindEth/juno/blockchain"
	"github.com/NethermindEth/juno/core"
	"github.com/NethermindEth/juno/core/felt"
	"github.com/NethermindEth/juno/db/memory"
	junosync "github.com/NethermindEth/juno/sync"
	"github.com/NethermindEth/juno/utils/log"
	"verif/harness/lib"
)

// EpochSpec describes one chain the source holds for a while. Epoch 0: Add blocks from scratch.
// Later epochs: drop Depth blocks from the previous epoch's chain, then add Add new ones.
type EpochSpec struct {
	Depth int `json:"depth"`
	Add   int `json:"add"`
	// Restore: the source goes BACK to the chain it had in that earlier epoch (A -> B -> A); Depth and
	// Add are ignored. (The generator continues from its own last chain in later epochs.)
	Restore *int `json:"restore_epoch,omitempty"`
}

// Scenario is a complete, replayable description of one run (up to goroutine scheduling).
type Scenario struct {
	Kind       string      `json:"kind"` // static | dynamic
	Seed       uint64      `json:"seed"`
	SrcNew     bool        `json:"src_new_state"`
	DstNew     bool        `json:"dst_new_state"`
	Procs      int         `json:"gomaxprocs"`
	Prestore   int         `json:"prestore"`    // blocks of epoch 0's chain the node already holds
	StartEpoch int         `json:"start_epoch"` // epoch the source is in when sync starts
	Epochs     []EpochSpec `json:"epochs"`
	Triggers   []Trigger   `json:"triggers"` // Triggers[i] moves from epoch StartEpoch+i to the next
	Faults     Faults      `json:"faults"`
	NoChurn    bool        `json:"no_subscriber_churn,omitempty"`
	// ViaFeeder: the synchroniser gets sync.NewFeederGatewayDataSource(bc, scripted StarknetData)
	// instead of the scripted DataSource (covers sync/data_source.go incl. class fetching)
	ViaFeeder bool `json:"via_feeder_data_source,omitempty"`
	// Shutdowns: request counts at which Run's context is cancelled (wherever the pipeline is); once
	// Run has returned a new Blockchain + Synchronizer are started on the same database
	Shutdowns []uint64 `json:"shutdowns,omitempty"`
	// DBFailAt: these write calls of the node's database (counted from the start of the run) fail once
	DBFailAt []int `json:"db_fail_at,omitempty"`
	Plugin   bool  `json:"recording_plugin,omitempty"`     // WithPlugin: a recording, sometimes failing plugin
	Poll     bool  `json:"preconfirmed_polling,omitempty"` // pre-confirmed polling on (its requests fail)
	ReadOnly bool  `json:"read_only,omitempty"`            // readOnlyBlockchain: the chain must not change
	// EmptyDiffPct: percent of the source's blocks with an EMPTY state diff (default: the generator's 10)
	EmptyDiffPct int `json:"empty_diff_pct,omitempty"`
	// RichTxs: every block of the source carries exactly this many transactions, at least one event and
	// at least one signature (so that every corruption kind finds something to corrupt)
	RichTxs int `json:"rich_txs,omitempty"`
}

type outcome struct {
	sc          Scenario
	chains      [][]*lib.Bundle
	log         []entry
	finalChain  []headRec
	converged   bool
	quiescent   bool // stopped because nothing changed any more (logical-time criterion)
	hang        string
	panicMsg    string
	drainLost   bool
	afterReturn string
	probeMiss   string // round 6: emission probe (see syncListener)
	probed      int
	dbFailed    int
	plugin      []pluginCall
	restarts    int
	extra       []*fsub
	skipped     bool
	wall        time.Duration
	hits        map[string]int
	final       *blockchain.Blockchain
	persisted   map[string]int
	selfErr     string // the harness's own forged-block generator failed
	handed      []handedOut
	status      *statusTracker
	fetchCalls  []*fetchCall
}

// buildChains manufactures every epoch's chain with juno itself.
func buildChains(sc Scenario) ([][]*lib.Bundle, error) {
	r := lib.NewRNG(sc.Seed)
	opt := lib.DefaultGenOptions()
	opt.MaxTxs = 2
	opt.MaxEvents = 2
	if sc.EmptyDiffPct > 0 {
		opt.EmptyDiffs = sc.EmptyDiffPct
	}
	g := lib.NewChainGen(r, sc.SrcNew, opt)
	var out [][]*lib.Bundle
	for i, e := range sc.Epochs {
		if e.Restore != nil && *e.Restore < len(out) {
			out = append(out, append([]*lib.Bundle{}, out[*e.Restore]...))
			continue
		}
		if i > 0 {
			for d := 0; d < e.Depth && g.Height() > 0; d++ {
				if err := g.Revert(); err != nil {
					return nil, err
				}
			}
		}
		for a := 0; a < e.Add; a++ {
			var spec *lib.BlockSpec
			if sc.RichTxs > 0 {
				spec = richSpec(g, sc.RichTxs)
				if sc.Kind == "tamper" && a == e.Add-1 {
					// round 6: the last block of a tamper chain declares NO class (corruption kind
					// "undeclared-class-entry" needs one)
					spec = noDeclareSpec(g)
				}
			}
			if _, err := g.Next(spec); err != nil {
				return nil, err
			}
		}
		out = append(out, append([]*lib.Bundle{}, g.Bundles...))
	}
	return out, nil
}

// noDeclareSpec: a rich block (events, signatures) without a Declare transaction.
func noDeclareSpec(g *lib.ChainGen) *lib.BlockSpec {
	var spec *lib.BlockSpec
	for try := 0; try < 200; try++ {
		spec = richSpec(g, 3)
		declares := false
		for _, tx := range spec.Txs {
			if _, ok := tx.(*core.DeclareTransaction); ok {
				declares = true
			}
		}
		if !declares {
			break
		}
	}
	return spec
}

// richSpec: a block with n transactions (no legacy Deploy), at least one event and one signature;
// with n >= 4 one transaction of each kind (invoke, declare, deploy-account, l1-handler).
func richSpec(g *lib.ChainGen, n int) *lib.BlockSpec {
	vs := g.Opt.Versions
	if len(vs) > 2 {
		vs = vs[len(vs)-2:]
	}
	version := lib.Pick(g.R, vs)
	if h := g.Head(); h != nil && h.Block.ProtocolVersion > version {
		version = h.Block.ProtocolVersion
	}
	kindOf := func(tx core.Transaction) int {
		switch tx.(type) {
		case *core.InvokeTransaction:
			return 0
		case *core.DeclareTransaction:
			return 1
		case *core.DeployAccountTransaction:
			return 2
		case *core.L1HandlerTransaction:
			return 3
		}
		return -1
	}
	spec := &lib.BlockSpec{Version: version}
	for try := 0; try < 200; try++ {
		spec.Txs, spec.Rcs = nil, nil
		events, sigs := 0, 0
		have := map[int]bool{}
		for guard := 0; len(spec.Txs) < n && guard < 2000; guard++ {
			tx := g.GenTx(version)
			k := kindOf(tx)
			if k < 0 || (n >= 4 && len(have) < 4 && have[k]) {
				continue
			}
			have[k] = true
			rc := g.GenReceipt(tx)
			spec.Txs, spec.Rcs = append(spec.Txs, tx), append(spec.Rcs, rc)
			events += len(rc.Events)
			sigs += len(tx.Signature())
		}
		if events > 0 && sigs > 0 {
			break
		}
	}
	return spec
}

type syncListener struct {
	rec    *recorder
	churn  *churner
	status *statusTracker
	// round 6, EMISSION PROBE: a plain new-heads subscription that NO goroutine reads. The harness itself
	// takes its value, without waiting, when the NEXT store begins (OpStore callback: same callback
	// goroutine as the previous storeTask, so `newHeads.Send(previous block)` has returned) and after Run
	// returned: the notification of a stored block must be IN the subscriber's slot before the pipeline
	// goes on — an emission handed to another goroutine, or made late, is seen here although the drained
	// readers below would serialise it away.
	probe     *junosync.NewHeadSubscription
	probeOwed *headRec
	probeMiss string
	probed    int
	// the recorder did not show the block as its head when the callback ran (never seen): the probe of this
	// instance is switched off rather than risk a wrong alarm
	probeBlind bool
}

// probeTake: the value the probe must hold now (nothing if no store happened since the last look).
func (l *syncListener) probeTake(when string) {
	if l.probe == nil {
		return
	}
	owed := l.probeOwed
	l.probeOwed = nil
	if l.probeBlind {
		select {
		case <-l.probe.Recv():
		default:
		}
		return
	}
	select {
	case b, ok := <-l.probe.Recv():
		switch {
		case !ok:
		case owed == nil:
			if l.probeMiss == "" {
				l.probeMiss = fmt.Sprintf("%s: a subscriber nobody reads holds new head %d although no block was stored since it was last emptied", when, b.Number)
			}
		case b.Number != owed.num || !b.Hash.Equal(&owed.hash):
			if l.probeMiss == "" {
				l.probeMiss = fmt.Sprintf("%s: the slot of a subscriber nobody reads holds new head %d, the block stored last is %d", when, b.Number, owed.num)
			}
		default:
			l.probed++
		}
	default:
		if owed != nil && l.probeMiss == "" {
			l.probeMiss = fmt.Sprintf("%s: the new-head notification of stored block %d is not in the slot of a subscriber that was subscribed all along and empty: storeTask returned without having emitted it", when, owed.num)
		}
	}
}

func (l *syncListener) OnSyncStepDone(op string, n uint64, took time.Duration) {
	l.rec.active("listener callback OnSyncStepDone(" + op + ")")
	if op != junosync.OpStore {
		if op == junosync.OpReorgCheckFast || op == junosync.OpReorgCheckRemote || op == junosync.OpReorgCheckLocal {
			// which exit of isReverting was taken (coverage evidence only)
			l.rec.mu.Lock()
			if l.rec.ops == nil {
				l.rec.ops = map[string]int{}
			}
			l.rec.ops[op]++
			l.rec.mu.Unlock()
		}
		return
	}
	if l.status != nil {
		// after the starting header was set, before highestBlockHeader / catchUpMode are updated
		l.status.stored(n)
	}
	// Called by storeTask after Store succeeded and before the feed sends of this block.
	r := l.rec
	if l.probe != nil {
		l.probeTake(fmt.Sprintf("when storeTask of block %d began its sends", n))
		r.mu.Lock()
		if k := len(r.chain); k > 0 && r.chain[k-1].num == n {
			h := r.chain[k-1]
			l.probeOwed = &h
		} else {
			l.probeBlind = true
			if r.ops == nil {
				r.ops = map[string]int{}
			}
			r.ops["probe-switched-off(recorder head is not the stored block)"]++
		}
		r.mu.Unlock()
	}
	r.mu.Lock()
	// the sends of the current store have not happened yet
	wantN, wantG := r.stores-1, r.reorgsOwed
	if r.lastStoreOwedReorg {
		wantG--
	}
	r.mu.Unlock()
	if !r.drain(wantN, wantG, 800) {
		return
	}
	r.mu.Lock()
	r.drains++
	r.mu.Unlock()
	if l.churn != nil {
		// the sends of the current store are still to come: a subscriber added now sees them
		l.churn.act(wantN, wantG)
	}
}

func (l *syncListener) OnReorg(n uint64) {
	l.rec.active("listener callback OnReorg")
	// revertHead ran: if RevertHead failed (no commit removed block n) the code has extended
	// currReorg all the same, and the next store will announce it
	l.rec.mu.Lock()
	reverted := false
	for i := len(l.rec.log) - 1; i >= 0; i-- {
		k := l.rec.log[i].Kind
		if k == eOnReorg || k == eStored {
			break
		}
		if k == eReverted {
			reverted = l.rec.log[i].Num == n
			break
		}
	}
	if !reverted {
		l.rec.pendingRevert++
	}
	l.rec.mu.Unlock()
	l.rec.add(entry{Kind: eOnReorg, Num: n})
	if l.churn != nil {
		// between two reverts: every send so far is complete
		r := l.rec
		r.mu.Lock()
		sentN, sentG := r.stores, r.reorgsOwed
		r.mu.Unlock()
		l.churn.act(sentN, sentG)
	}
}

const convergedAfter = 20  // honest latest answers at the tip before the run is declared converged
const quiescentAfter = 150 // honest, undelayed latest answers without any commit in between

// beats is a process-wide heartbeat (one per 10 ms when the process gets CPU): deadlines are
// counted in beats, so a starved or paused process does not turn into a reported hang.
var beats atomic.Int64
var beatOnce sync.Once

func startHeartbeat() {
	beatOnce.Do(func() {
		go func() {
			for {
				time.Sleep(10 * time.Millisecond)
				beats.Add(1)
			}
		}()
	})
}

// hangs counts cases that ran into the wall-clock deadline; after a few of them the remaining
// cases are skipped (a broken synchroniser would otherwise cost a minute per case).
var hangs atomic.Int32

// livelocks counts cases stopped by the commit bound (round 6); after a few of them the remaining
// cases are skipped like after hangs: every further case would run into the same bound.
var livelocks atomic.Int32

func runScenario(sc Scenario) (out *outcome) {
	out = &outcome{sc: sc, persisted: map[string]int{}}
	if hangs.Load() >= 3 || drainLosses.Load() >= 6 || livelocks.Load() >= 4 {
		out.skipped = true
		return out
	}
	defer func() {
		if strings.HasPrefix(out.hang, "livelock:") {
			livelocks.Add(1)
		} else if out.hang != "" {
			hangs.Add(1)
		}
	}()
	t0 := time.Now()
	defer func() { out.wall = time.Since(t0) }()
	chains, err := buildChains(sc)
	if err != nil {
		out.panicMsg = "generator: " + err.Error()
		return out
	}
	out.chains = chains
	rec := newRecorder()
	mem := memory.New()
	wdb := &recDB{KeyValueStore: mem, rec: rec, failAt: map[int]bool{}}
	for _, k := range sc.DBFailAt {
		wdb.failAt[k] = true
	}
	net := lib.TestNetwork()
	bc := lib.NodeOn(wdb, net, sc.DstNew)
	out.final = bc
	for i := 0; i < sc.Prestore && i < len(chains[0]); i++ {
		if err := lib.StoreOn(bc, chains[0][i]); err != nil {
			out.panicMsg = fmt.Sprintf("prestore block %d: %v", i, err)
			return out
		}
		rec.chain = append(rec.chain, headRec{uint64(i), *chains[0][i].Block.Hash})
	}
	valid := map[string]*lib.Bundle{}
	for _, c := range chains {
		for _, b := range c {
			valid[b.Block.Hash.String()] = b
		}
	}
	rec.mu.Lock()
	rec.enabled = true
	rec.checkStored = func(num uint64, hash felt.Felt) string {
		// store-level: the state root the new head claims is the root of the state the node now holds
		if why := headRootCheck(bc); why != "" {
			return why
		}
		want, ok := valid[hash.String()]
		if !ok {
			return "no block with this hash exists in any chain of the source"
		}
		if want.Block.Number != num {
			return fmt.Sprintf("block with this hash has number %d", want.Block.Number)
		}
		return sameBlock(bc, want)
	}
	rec.mu.Unlock()

	src := &source{rec: rec, chains: chains, trig: nil, faults: sc.Faults, seed: sc.Seed ^ 0xC06,
		epoch: sc.StartEpoch, asked: map[string]int{}, faulted: map[string]int{}, hits: map[string]int{}, servedHeights: map[uint64]bool{},
		nextKind: map[uint64]int{}, lastKind: map[uint64]int{}, pairHash: map[uint64]*felt.Felt{}, done: make(chan struct{}),
		notFound: 150 * time.Microsecond, net: net}
	if sc.ViaFeeder {
		src.byBlock = map[*core.Block]int{}
	}
	forging := sc.Faults.ForgePct > 0
	for _, ru := range sc.Faults.Rules {
		forging = forging || strings.HasPrefix(ru.Action, "forged")
	}
	if forging {
		// a separate Blockchain (same backend) runs SanityCheckNewHeight on every forged answer: the
		// generator must produce blocks that only Store can refuse
		chk, _ := lib.NewNode(net, sc.DstNew)
		src.sane = func(b *lib.Bundle) error {
			_, err := chk.SanityCheckNewHeight(b.Block, b.SU, b.Classes)
			return err
		}
		src.registerValid = func(b *lib.Bundle) {
			rec.mu.Lock()
			valid[b.Block.Hash.String()] = b
			rec.mu.Unlock()
		}
	}
	// triggers are indexed by epoch
	src.trig = make([]Trigger, 0, len(chains))
	for e := 0; e < len(chains)-1; e++ {
		if e < sc.StartEpoch {
			src.trig = append(src.trig, Trigger{AtReq: 1})
			continue
		}
		i := e - sc.StartEpoch
		if i < len(sc.Triggers) {
			src.trig = append(src.trig, sc.Triggers[i])
		} else {
			src.trig = append(src.trig, Trigger{AtReq: 1})
		}
	}

	stTrack := &statusTracker{rec: rec}
	src.status = stTrack
	out.status = stTrack
	final := chains[len(chains)-1]
	startHeartbeat()
	churnHits := map[string]int{}
	shutdowns := append([]uint64{}, sc.Shutdowns...)
	jit := lib.NewRNG(sc.Seed ^ 0x5707)
	for inst := 0; ; inst++ {
		rec.mu.Lock()
		rec.returned = false
		rec.mu.Unlock()
		lis := &syncListener{rec: rec, status: stTrack}
		var ds junosync.DataSource = src
		if sc.ViaFeeder {
			ds = &feederDS{DataSource: junosync.NewFeederGatewayDataSource(bc, newSNAdapter(src)), rec: rec, src: src, bc: bc}
		}
		var poll time.Duration
		if sc.Poll {
			poll = 300 * time.Microsecond
		}
		s := junosync.New(bc, ds, log.NewNopZapLogger(), poll, sc.ReadOnly, wdb).WithListener(lis)
		if sc.Plugin {
			s = s.WithPlugin(&recPlugin{rec: rec})
		}
		if !sc.NoChurn {
			lis.churn = &churner{r: lib.NewRNG(sc.Seed ^ 0xFEED ^ uint64(inst)), s: s, rec: rec, hits: churnHits}
		}
		if !sc.ReadOnly {
			pr := s.SubscribeNewHeads()
			lis.probe = &pr
		}
		nh := s.SubscribeNewHeads()
		rg := s.SubscribeReorg()
		readersDone := make(chan struct{}, 2)
		go func() {
			for b := range nh.Recv() {
				rec.mu.Lock()
				rec.log = append(rec.log, entry{Kind: eNewHead, Num: b.Number, Hash: *b.Hash, Window: rec.drains})
				rec.recvNewHead++
				rec.cond.Broadcast()
				rec.mu.Unlock()
			}
			readersDone <- struct{}{}
		}()
		go func() {
			for g := range rg.Recv() {
				rec.mu.Lock()
				rec.log = append(rec.log, entry{Kind: eReorg, Num: g.StartBlockNum, Hash: *g.StartBlockHash,
					ENum: g.EndBlockNum, EHash: *g.EndBlockHash, Window: rec.drains})
				rec.recvReorg++
				rec.cond.Broadcast()
				rec.mu.Unlock()
			}
			readersDone <- struct{}{}
		}()

		ctx, cancel := context.WithCancel(context.Background())
		stTrack.begin(s, ctx)
		runDone := make(chan string, 1)
		go func() {
			err, panicked, stack := lib.Try(func() error { return s.Run(ctx) })
			rec.mu.Lock()
			rec.returned = true
			rec.mu.Unlock()
			if panicked {
				runDone <- fmt.Sprintf("%v\n%s", err, stack)
				return
			}
			runDone <- ""
		}()

		deadline := beats.Load() + 4000 // 40 s of a healthy process
		tick := time.NewTicker(200 * time.Microsecond)
		lastCommit := -1
		shutdown := false
		// round 6: a node that keeps reverting and storing against a source that no longer changes never
		// becomes quiescent; it is stopped after far more commits than convergence can need (the theorems
		// bound it by |source| + |node| + in-flight stale blocks) instead of after the 40 s deadline
		stableLen, sinceStable := -1, 0
	loop:
		for {
			select {
			case msg := <-runDone:
				out.panicMsg = "Run returned before cancellation: " + msg
				runDone <- msg
				break loop
			case <-tick.C:
			}
			rec.mu.Lock()
			lc := rec.lastCommitSeq
			n := len(rec.chain)
			atTip := n == len(final) && (n == 0 || rec.chain[n-1].hash.Equal(final[n-1].Block.Hash))
			rec.mu.Unlock()
			if lc != lastCommit {
				lastCommit = lc
				src.honestLatest.Store(0)
				if stableLen >= 0 {
					sinceStable++
				}
			}
			if stableLen < 0 && src.stable() {
				stableLen = n
			}
			if stableLen >= 0 && sinceStable > 20*(len(final)+stableLen)+200 {
				out.hang = fmt.Sprintf("livelock: more than %d commits after the source's chain (%d blocks) stopped changing (the node had %d blocks then) and still no convergence", sinceStable-1, len(final), stableLen)
				break
			}
			if sc.ReadOnly && src.requests() >= 1 {
				// a read-only synchroniser only polls the latest header (once a minute)
				time.Sleep(20 * time.Millisecond)
				out.quiescent = true
				break
			}
			if len(shutdowns) > 0 && src.requests() >= shutdowns[0] {
				// shut the synchroniser down wherever it happens to be, a moment later
				shutdowns = shutdowns[1:]
				time.Sleep(time.Duration(jit.Intn(300)) * time.Microsecond)
				shutdown = true
				break
			}
			// at the tip AND the fetcher for the next height has been asking in vain for a while: whatever
			// was still queued in the pipeline when the tip was reached has been dealt with
			if src.stable() && atTip && src.honestLatest.Load() >= convergedAfter {
				out.converged = true
				break
			}
			if src.stable() && src.honestLatest.Load() >= quiescentAfter {
				out.quiescent = true
				break
			}
			if beats.Load() > deadline {
				out.hang = "no convergence and no quiescence within 40 s"
				break
			}
		}
		tick.Stop()
		cancel()
		waitUntil := beats.Load() + 3000
	waitRun:
		for {
			select {
			case msg := <-runDone:
				if msg != "" && out.panicMsg == "" {
					out.panicMsg = msg
				}
				break waitRun
			case <-time.After(10 * time.Millisecond):
				if beats.Load() > waitUntil {
					if out.hang == "" {
						out.hang = "Run did not return within 30 s of cancellation"
					}
					break waitRun
				}
			}
		}
		if out.hang == "" {
			stTrack.end()
		}
		// Run has returned: every send of this instance has been made; the readers must get them all
		rec.mu.Lock()
		wantN, wantG := rec.stores, rec.reorgsOwed
		rec.mu.Unlock()
		if !rec.drain(wantN, wantG, 300) {
			out.drainLost = true
		}
		if lis.probe != nil && out.hang == "" && out.panicMsg == "" {
			// Run has returned (all callbacks finished): the last stored block's notification is in the slot
			lis.probeTake("after Run returned")
			lis.probe.Unsubscribe()
			out.probed += lis.probed
			if out.probeMiss == "" {
				out.probeMiss = lis.probeMiss
			}
		}
		// give a duplicate / spurious send a moment to show up, then stop the readers
		time.Sleep(2 * time.Millisecond)
		nh.Unsubscribe()
		rg.Unsubscribe()
		<-readersDone
		<-readersDone
		if lis.churn != nil {
			rec.mu.Lock()
			extras := append([]*fsub{}, rec.extra...)
			rec.mu.Unlock()
			for _, x := range extras {
				if x.closedSeen {
					continue
				}
				x.unsub() // a second call for those that left earlier
				select {
				case <-x.done:
					x.closedSeen = true
				case <-time.After(5 * time.Second):
					out.hang = "reader of " + x.name + " did not see its channel closed after Unsubscribe"
				}
				rec.mu.Lock()
				if x.live {
					x.live = false
					x.toStore, x.toReorg = rec.stores, rec.reorgsOwed
				}
				rec.mu.Unlock()
			}
			out.extra = extras
		}
		if !shutdown || out.hang != "" || out.panicMsg != "" {
			break
		}
		// a new process: new Blockchain on the same database, new Synchronizer; reverts that were not
		// announced yet are forgotten (currReorg is not persisted)
		rec.mu.Lock()
		rec.log = append(rec.log, entry{Kind: eRestart})
		rec.pendingRevert = 0
		rec.mu.Unlock()
		bc = lib.NodeOn(wdb, net, sc.DstNew)
		out.final = bc
		out.restarts++
	}
	for k, v := range churnHits {
		out.persisted[k] += v
	}

	close(src.done)
	src.watchers.Wait()
	src.mu.Lock()
	out.hits = src.hits
	out.selfErr = src.selfErr
	out.handed = append([]handedOut{}, src.handed...)
	if src.maxInflight > 1 {
		out.hits["parallel-fetchers(catch-up mode)"]++
	}
	for _, h := range src.handed {
		select {
		case e := <-h.ch:
			switch {
			case e == nil:
				out.persisted["persisted:stored"]++
				if !h.valid {
					out.persisted["persisted:stored-tampered"]++
				}
			case errors.Is(e, blockchain.ErrParentDoesNotMatchHead):
				out.persisted["persisted:parent-mismatch"]++
			case errors.Is(e, context.Canceled):
				out.persisted["persisted:cancelled"]++
			default:
				if h.valid {
					out.persisted["persisted:other-error"]++
				} else {
					out.persisted["persisted:rejected-tampered"]++
				}
				// a self-consistent forged block passes verifierTask: this error is Store's
				if m := e.Error(); h.fault == "forged:unsupported-version" && (strings.Contains(m, "unsupported block version") || func() bool { _, fine := realClass(e); return fine == "" }()) {
					// (the error text of the version check, or — should it be reworded — any error that is
					// none of the other recognised classes: number, parent and roots of this block are honest)
					out.persisted["forged:unsupported-version-refused-by-Store"]++
				} else if strings.HasPrefix(h.fault, "forged:") && !h.valid &&
					(strings.Contains(m, "does not match the expected root") || strings.Contains(m, "commitment mismatch")) {
					out.persisted["forged:refused-by-Store"]++
					if h.fault == "forged:state-root(empty-diff)" {
						out.persisted["forged:empty-diff-root-refused-by-Store"]++
					}
				}
			}
		default:
			out.persisted["persisted:never-reached-store"]++
		}
	}
	src.mu.Unlock()
	rec.mu.Lock()
	out.log = append([]entry{}, rec.log...)
	out.finalChain = append([]headRec{}, rec.chain...)
	out.plugin = append([]pluginCall{}, rec.plugin...)
	out.afterReturn = rec.afterReturn
	for k, v := range rec.ops {
		if strings.HasPrefix(k, "probe-") {
			out.persisted["probe:"+strings.TrimPrefix(k, "probe-")] += v
			continue
		}
		out.persisted["isReverting:exit-"+k] += v
	}
	out.fetchCalls = append([]*fetchCall{}, rec.fetchCalls...)
	out.dbFailed = wdb.failed
	rec.mu.Unlock()
	return out
}

// stateRootPrefix marks the note of a stored block whose claimed state root is not the state's root.
const stateRootPrefix = "STATE-ROOT: "

// headRootCheck: the root of the state the node holds (computed from its tries) must be the root the
// head's header claims. (Legacy backend: deprecatedstate computes the commitment from the tries in the
// database. New backend: the head state is OPENED at the claimed root; a root that is not in the trie
// database makes that, or the commitment, fail.)
func headRootCheck(bc *blockchain.Blockchain) string {
	h, err := bc.HeadsHeader()
	if err != nil {
		return ""
	}
	st, closer, err := bc.HeadState()
	if err != nil {
		return fmt.Sprintf("%sthe state of the new head (block %d, claimed root %s) cannot be opened: %v", stateRootPrefix, h.Number, h.GlobalStateRoot.String(), err)
	}
	defer func() { _ = closer() }()
	c, ok := st.(interface {
		Commitment(string) (felt.Felt, error)
	})
	if !ok {
		return ""
	}
	root, err := c.Commitment(h.ProtocolVersion)
	if err != nil {
		return fmt.Sprintf("%scommitment of the state under the new head (block %d, claimed root %s): %v", stateRootPrefix, h.Number, h.GlobalStateRoot.String(), err)
	}
	if !root.Equal(h.GlobalStateRoot) {
		return fmt.Sprintf("%sthe header of the new head (block %d) claims state root %s, the root of the node's state is %s", stateRootPrefix, h.Number,
			h.GlobalStateRoot.String(), root.String())
	}
	return ""
}

// sameBlock compares what the node returns for a stored block with the valid bundle.
func sameBlock(bc *blockchain.Blockchain, want *lib.Bundle) string {
	n := want.Block.Number
	got, err := bc.BlockByNumber(n)
	if err != nil {
		return fmt.Sprintf("BlockByNumber(%d): %v", n, err)
	}
	if !reflect.DeepEqual(canonHeader(got.Header), canonHeader(want.Block.Header)) {
		return fmt.Sprintf("header of block %d differs: got %+v want %+v", n, *got.Header, *want.Block.Header)
	}
	if len(got.Transactions) != len(want.Block.Transactions) {
		return fmt.Sprintf("block %d: %d transactions, want %d", n, len(got.Transactions), len(want.Block.Transactions))
	}
	for i := range got.Transactions {
		if !got.Transactions[i].Hash().Equal(want.Block.Transactions[i].Hash()) {
			return fmt.Sprintf("block %d tx %d hash differs", n, i)
		}
		if !got.Receipts[i].Fee.Equal(want.Block.Receipts[i].Fee) || len(got.Receipts[i].Events) != len(want.Block.Receipts[i].Events) {
			return fmt.Sprintf("block %d receipt %d differs", n, i)
		}
	}
	for i := range got.Transactions {
		g, w := got.Transactions[i], want.Block.Transactions[i]
		if !feltsEq(g.Signature(), w.Signature()) {
			return fmt.Sprintf("block %d tx %d: signature differs", n, i)
		}
		if _, legacy := g.(*core.DeployTransaction); !legacy {
			// the stored transaction's content still hashes to its recorded hash
			if h, err := core.TransactionHash(g, bc.Network()); err != nil || !h.Equal(g.Hash()) {
				return fmt.Sprintf("block %d tx %d: the stored transaction does not hash to its recorded hash (%v)", n, i, err)
			}
		}
		gr, wr := got.Receipts[i], want.Block.Receipts[i]
		if !gr.TransactionHash.Equal(wr.TransactionHash) || gr.FeeUnit != wr.FeeUnit || gr.Reverted != wr.Reverted || gr.RevertReason != wr.RevertReason ||
			len(gr.L2ToL1Message) != len(wr.L2ToL1Message) {
			return fmt.Sprintf("block %d receipt %d differs (tx hash / fee unit / revert status / messages)", n, i)
		}
		for k := range gr.Events {
			ge, we := gr.Events[k], wr.Events[k]
			if !ge.From.Equal(we.From) || !feltsEq(ge.Keys, we.Keys) || !feltsEq(ge.Data, we.Data) {
				return fmt.Sprintf("block %d receipt %d event %d differs", n, i, k)
			}
		}
		for k := range gr.L2ToL1Message {
			if !gr.L2ToL1Message[k].From.Equal(wr.L2ToL1Message[k].From) || len(gr.L2ToL1Message[k].Payload) != len(wr.L2ToL1Message[k].Payload) {
				return fmt.Sprintf("block %d receipt %d message %d differs", n, i, k)
			}
		}
	}
	su, err := bc.StateUpdateByNumber(n)
	if err != nil {
		return fmt.Sprintf("StateUpdateByNumber(%d): %v", n, err)
	}
	if !su.NewRoot.Equal(want.SU.NewRoot) || !su.BlockHash.Equal(want.SU.BlockHash) || !su.OldRoot.Equal(want.SU.OldRoot) {
		return fmt.Sprintf("state update of block %d: roots/hash differ", n)
	}
	if got, want := diffSize(su.StateDiff), diffSize(want.SU.StateDiff); got != want {
		return fmt.Sprintf("state diff of block %d has %d entries, want %d", n, got, want)
	}
	if why := sameDiff(su.StateDiff, want.SU.StateDiff); why != "" {
		return fmt.Sprintf("state diff of block %d: %s", n, why)
	}
	// the commitments Store was handed (computed by verifierTask for THIS block)
	if _, wc, err := core.BlockHash(want.Block, want.SU.StateDiff, bc.Network(), nil, core.DeprecatedTrieBackend); err == nil && wc != nil {
		gc, err := bc.BlockCommitmentsByNumber(n)
		if err != nil {
			return fmt.Sprintf("BlockCommitmentsByNumber(%d): %v", n, err)
		}
		if !fEq(gc.TransactionCommitment, wc.TransactionCommitment) || !fEq(gc.EventCommitment, wc.EventCommitment) ||
			!fEq(gc.ReceiptCommitment, wc.ReceiptCommitment) || !fEq(gc.StateDiffCommitment, wc.StateDiffCommitment) ||
			gc.StateDiffLength != wc.StateDiffLength {
			return fmt.Sprintf("stored commitments of block %d are not the commitments of this block", n)
		}
	}
	return ""
}

func fEq(a, b *felt.Felt) bool {
	if a == nil || b == nil {
		return (a == nil || a.IsZero()) && (b == nil || b.IsZero())
	}
	return a.Equal(b)
}

func feltsEq(a, b []felt.Felt) bool {
	if len(a) != len(b) {
		return false
	}
	for i := range a {
		if !a[i].Equal(&b[i]) {
			return false
		}
	}
	return true
}

// sameDiff: g has every entry of w with the same value (sizes are compared by the caller).
func sameDiff(g, w *core.StateDiff) string {
	for a, kv := range w.StorageDiffs {
		for k, v := range kv {
			if x := g.StorageDiffs[a][k]; x == nil || !x.Equal(v) {
				return fmt.Sprintf("storage %s/%s differs", a.String(), k.String())
			}
		}
	}
	for a, v := range w.Nonces {
		if x := g.Nonces[a]; x == nil || !x.Equal(v) {
			return "nonce of " + a.String() + " differs"
		}
	}
	for a, v := range w.DeployedContracts {
		if x := g.DeployedContracts[a]; x == nil || !x.Equal(v) {
			return "deployed contract " + a.String() + " differs"
		}
	}
	for a, v := range w.ReplacedClasses {
		if x := g.ReplacedClasses[a]; x == nil || !x.Equal(v) {
			return "replaced class of " + a.String() + " differs"
		}
	}
	for a, v := range w.DeclaredV1Classes {
		if x := g.DeclaredV1Classes[a]; x == nil || !x.Equal(v) {
			return "declared class " + a.String() + " differs"
		}
	}
	for _, h := range w.DeclaredV0Classes {
		found := false
		for _, x := range g.DeclaredV0Classes {
			found = found || x.Equal(h)
		}
		if !found {
			return "declared cairo0 class " + h.String() + " missing"
		}
	}
	for a, v := range w.MigratedClasses {
		if x, ok := g.MigratedClasses[a]; !ok || x != v {
			return "migrated class differs"
		}
	}
	return ""
}

func diffSize(d *core.StateDiff) int {
	n := len(d.Nonces) + len(d.DeployedContracts) + len(d.DeclaredV0Classes) + len(d.DeclaredV1Classes) +
		len(d.ReplacedClasses) + len(d.MigratedClasses)
	for _, kv := range d.StorageDiffs {
		n += len(kv)
	}
	return n
}

type hdrCanon struct {
	Hash, Parent, Root, Seq        string
	Number, Timestamp, TxCnt, EvCt uint64
	Version                        string
	Gas                            string
	DAMode                         uint
}

func canonHeader(h *core.Header) hdrCanon {
	return hdrCanon{h.Hash.String(), h.ParentHash.String(), h.GlobalStateRoot.String(), h.SequencerAddress.String(),
		h.Number, h.Timestamp, h.TransactionCount, h.EventCount, h.ProtocolVersion, gasCanon(h), uint(h.L1DAMode)}
}

func gasCanon(h *core.Header) string {
	f := func(x *felt.Felt) string {
		if x == nil {
			return "0x0"
		}
		return x.String()
	}
	g := func(p *core.GasPrice) string {
		if p == nil {
			return "0x0/0x0"
		}
		return f(p.PriceInWei) + "/" + f(p.PriceInFri)
	}
	return f(h.L1GasPriceETH) + "," + f(h.L1GasPriceSTRK) + "," + g(h.L1DataGasPrice) + "," + g(h.L2GasPrice)
}
