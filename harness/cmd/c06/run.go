//go:build verif

package main

import (
	"context"
	"errors"
	"fmt"
	"reflect"
	"strings"
	"sync"
	"sync/atomic"
	"time"

	"github.com/NethermindEth/juno/blockchain"
	"github.com/NethermindEth/juno/core"
	"github.com/NethermindEth/juno/core/felt"
	"github.com/NethermindEth/juno/db/memory"
	junosync "github.com/NethermindEth/juno/sync"
	"github.com/NethermindEth/juno/utils/log"
	"verif/harness/lib"
)

// EpochSpec describes one chain the source holds for a while. Epoch 0: Add blocks from scratch.
// Later epochs: drop Depth blocks from the previous epoch's chain, then add Add new ones.
type EpochSpec struct {
	Depth int `json:"depth"`
	Add   int `json:"add"`
	// Restore: the source goes BACK to the chain it had in that earlier epoch (A -> B -> A); Depth and
	// Add are ignored. (The generator continues from its own last chain in later epochs.)
	Restore *int `json:"restore_epoch,omitempty"`
}

// Scenario is a complete, replayable description of one run (up to goroutine scheduling).
type Scenario struct {
	Kind       string      `json:"kind"` // static | dynamic
	Seed       uint64      `json:"seed"`
	SrcNew     bool        `json:"src_new_state"`
	DstNew     bool        `json:"dst_new_state"`
	Procs      int         `json:"gomaxprocs"`
	Prestore   int         `json:"prestore"`    // blocks of epoch 0's chain the node already holds
	StartEpoch int         `json:"start_epoch"` // epoch the source is in when sync starts
	Epochs     []EpochSpec `json:"epochs"`
	Triggers   []Trigger   `json:"triggers"` // Triggers[i] moves from epoch StartEpoch+i to the next
	Faults     Faults      `json:"faults"`
	NoChurn    bool        `json:"no_subscriber_churn,omitempty"`
	// ViaFeeder: the synchroniser gets sync.NewFeederGatewayDataSource(bc, scripted StarknetData)
	// instead of the scripted DataSource (covers sync/data_source.go incl. class fetching)
	ViaFeeder bool `json:"via_feeder_data_source,omitempty"`
	// Shutdowns: request counts at which Run's context is cancelled (wherever the pipeline is); once
	// Run has returned a new Blockchain + Synchronizer are started on the same database
	Shutdowns []uint64 `json:"shutdowns,omitempty"`
	// DBFailAt: these write calls of the node's database (counted from the start of the run) fail once
	DBFailAt []int `json:"db_fail_at,omitempty"`
	Plugin   bool  `json:"recording_plugin,omitempty"`     // WithPlugin: a recording, sometimes failing plugin
	Poll     bool  `json:"preconfirmed_polling,omitempty"` // pre-confirmed polling on (its requests fail)
	ReadOnly bool  `json:"read_only,omitempty"`            // readOnlyBlockchain: the chain must not change
	// EmptyDiffPct: percent of the source's blocks with an EMPTY state diff (default: the generator's 10)
	EmptyDiffPct int `json:"empty_diff_pct,omitempty"`
}

type outcome struct {
	sc          Scenario
	chains      [][]*lib.Bundle
	log         []entry
	finalChain  []headRec
	converged   bool
	quiescent   bool // stopped because nothing changed any more (logical-time criterion)
	hang        string
	panicMsg    string
	drainLost   bool
	afterReturn string
	dbFailed    int
	plugin      []pluginCall
	restarts    int
	extra       []*fsub
	skipped     bool
	wall        time.Duration
	hits        map[string]int
	final       *blockchain.Blockchain
	persisted   map[string]int
	selfErr     string // the harness's own forged-block generator failed
}

// buildChains manufactures every epoch's chain with juno itself.
func buildChains(sc Scenario) ([][]*lib.Bundle, error) {
	r := lib.NewRNG(sc.Seed)
	opt := lib.DefaultGenOptions()
	opt.MaxTxs = 2
	opt.MaxEvents = 2
	if sc.EmptyDiffPct > 0 {
		opt.EmptyDiffs = sc.EmptyDiffPct
	}
	g := lib.NewChainGen(r, sc.SrcNew, opt)
	var out [][]*lib.Bundle
	for i, e := range sc.Epochs {
		if e.Restore != nil && *e.Restore < len(out) {
			out = append(out, append([]*lib.Bundle{}, out[*e.Restore]...))
			continue
		}
		if i > 0 {
			for d := 0; d < e.Depth && g.Height() > 0; d++ {
				if err := g.Revert(); err != nil {
					return nil, err
				}
			}
		}
		for a := 0; a < e.Add; a++ {
			if _, err := g.Next(nil); err != nil {
				return nil, err
			}
		}
		out = append(out, append([]*lib.Bundle{}, g.Bundles...))
	}
	return out, nil
}

type syncListener struct {
	rec   *recorder
	churn *churner
}

func (l *syncListener) OnSyncStepDone(op string, n uint64, took time.Duration) {
	l.rec.active("listener callback OnSyncStepDone(" + op + ")")
	if op != junosync.OpStore {
		return
	}
	// Called by storeTask after Store succeeded and before the feed sends of this block.
	r := l.rec
	r.mu.Lock()
	// the sends of the current store have not happened yet
	wantN, wantG := r.stores-1, r.reorgsOwed
	if r.lastStoreOwedReorg {
		wantG--
	}
	r.mu.Unlock()
	if !r.drain(wantN, wantG, 800) {
		return
	}
	r.mu.Lock()
	r.drains++
	r.mu.Unlock()
	if l.churn != nil {
		// the sends of the current store are still to come: a subscriber added now sees them
		l.churn.act(wantN, wantG)
	}
}

func (l *syncListener) OnReorg(n uint64) {
	l.rec.active("listener callback OnReorg")
	// revertHead ran: if RevertHead failed (no commit removed block n) the code has extended
	// currReorg all the same, and the next store will announce it
	l.rec.mu.Lock()
	reverted := false
	for i := len(l.rec.log) - 1; i >= 0; i-- {
		k := l.rec.log[i].Kind
		if k == eOnReorg || k == eStored {
			break
		}
		if k == eReverted {
			reverted = l.rec.log[i].Num == n
			break
		}
	}
	if !reverted {
		l.rec.pendingRevert++
	}
	l.rec.mu.Unlock()
	l.rec.add(entry{Kind: eOnReorg, Num: n})
	if l.churn != nil {
		// between two reverts: every send so far is complete
		r := l.rec
		r.mu.Lock()
		sentN, sentG := r.stores, r.reorgsOwed
		r.mu.Unlock()
		l.churn.act(sentN, sentG)
	}
}

const convergedAfter = 20  // honest latest answers at the tip before the run is declared converged
const quiescentAfter = 150 // honest, undelayed latest answers without any commit in between

// beats is a process-wide heartbeat (one per 10 ms when the process gets CPU): deadlines are
// counted in beats, so a starved or paused process does not turn into a reported hang.
var beats atomic.Int64
var beatOnce sync.Once

func startHeartbeat() {
	beatOnce.Do(func() {
		go func() {
			for {
				time.Sleep(10 * time.Millisecond)
				beats.Add(1)
			}
		}()
	})
}

// hangs counts cases that ran into the wall-clock deadline; after a few of them the remaining
// cases are skipped (a broken synchroniser would otherwise cost a minute per case).
var hangs atomic.Int32

func runScenario(sc Scenario) (out *outcome) {
	out = &outcome{sc: sc, persisted: map[string]int{}}
	if hangs.Load() >= 3 || drainLosses.Load() >= 6 {
		out.skipped = true
		return out
	}
	defer func() {
		if out.hang != "" {
			hangs.Add(1)
		}
	}()
	t0 := time.Now()
	defer func() { out.wall = time.Since(t0) }()
	chains, err := buildChains(sc)
	if err != nil {
		out.panicMsg = "generator: " + err.Error()
		return out
	}
	out.chains = chains
	rec := newRecorder()
	mem := memory.New()
	wdb := &recDB{KeyValueStore: mem, rec: rec, failAt: map[int]bool{}}
	for _, k := range sc.DBFailAt {
		wdb.failAt[k] = true
	}
	net := lib.TestNetwork()
	bc := lib.NodeOn(wdb, net, sc.DstNew)
	out.final = bc
	for i := 0; i < sc.Prestore && i < len(chains[0]); i++ {
		if err := lib.StoreOn(bc, chains[0][i]); err != nil {
			out.panicMsg = fmt.Sprintf("prestore block %d: %v", i, err)
			return out
		}
		rec.chain = append(rec.chain, headRec{uint64(i), *chains[0][i].Block.Hash})
	}
	valid := map[string]*lib.Bundle{}
	for _, c := range chains {
		for _, b := range c {
			valid[b.Block.Hash.String()] = b
		}
	}
	rec.mu.Lock()
	rec.enabled = true
	rec.checkStored = func(num uint64, hash felt.Felt) string {
		// store-level: the state root the new head claims is the root of the state the node now holds
		if why := headRootCheck(bc); why != "" {
			return why
		}
		want, ok := valid[hash.String()]
		if !ok {
			return "no block with this hash exists in any chain of the source"
		}
		if want.Block.Number != num {
			return fmt.Sprintf("block with this hash has number %d", want.Block.Number)
		}
		return sameBlock(bc, want)
	}
	rec.mu.Unlock()

	src := &source{rec: rec, chains: chains, trig: nil, faults: sc.Faults, seed: sc.Seed ^ 0xC06,
		epoch: sc.StartEpoch, asked: map[string]int{}, faulted: map[string]int{}, hits: map[string]int{}, servedHeights: map[uint64]bool{},
		notFound: 150 * time.Microsecond, net: net}
	forging := sc.Faults.ForgePct > 0
	for _, ru := range sc.Faults.Rules {
		forging = forging || strings.HasPrefix(ru.Action, "forged")
	}
	if forging {
		// a separate Blockchain (same backend) runs SanityCheckNewHeight on every forged answer: the
		// generator must produce blocks that only Store can refuse
		chk, _ := lib.NewNode(net, sc.DstNew)
		src.sane = func(b *lib.Bundle) error {
			_, err := chk.SanityCheckNewHeight(b.Block, b.SU, b.Classes)
			return err
		}
		src.registerValid = func(b *lib.Bundle) {
			rec.mu.Lock()
			valid[b.Block.Hash.String()] = b
			rec.mu.Unlock()
		}
	}
	// triggers are indexed by epoch
	src.trig = make([]Trigger, 0, len(chains))
	for e := 0; e < len(chains)-1; e++ {
		if e < sc.StartEpoch {
			src.trig = append(src.trig, Trigger{AtReq: 1})
			continue
		}
		i := e - sc.StartEpoch
		if i < len(sc.Triggers) {
			src.trig = append(src.trig, sc.Triggers[i])
		} else {
			src.trig = append(src.trig, Trigger{AtReq: 1})
		}
	}

	final := chains[len(chains)-1]
	startHeartbeat()
	churnHits := map[string]int{}
	shutdowns := append([]uint64{}, sc.Shutdowns...)
	jit := lib.NewRNG(sc.Seed ^ 0x5707)
	for inst := 0; ; inst++ {
		rec.mu.Lock()
		rec.returned = false
		rec.mu.Unlock()
		lis := &syncListener{rec: rec}
		var ds junosync.DataSource = src
		if sc.ViaFeeder {
			ds = &feederDS{DataSource: junosync.NewFeederGatewayDataSource(bc, newSNAdapter(src)), rec: rec}
		}
		var poll time.Duration
		if sc.Poll {
			poll = 300 * time.Microsecond
		}
		s := junosync.New(bc, ds, log.NewNopZapLogger(), poll, sc.ReadOnly, wdb).WithListener(lis)
		if sc.Plugin {
			s = s.WithPlugin(&recPlugin{rec: rec})
		}
		if !sc.NoChurn {
			lis.churn = &churner{r: lib.NewRNG(sc.Seed ^ 0xFEED ^ uint64(inst)), s: s, rec: rec, hits: churnHits}
		}
		nh := s.SubscribeNewHeads()
		rg := s.SubscribeReorg()
		readersDone := make(chan struct{}, 2)
		go func() {
			for b := range nh.Recv() {
				rec.mu.Lock()
				rec.log = append(rec.log, entry{Kind: eNewHead, Num: b.Number, Hash: *b.Hash, Window: rec.drains})
				rec.recvNewHead++
				rec.cond.Broadcast()
				rec.mu.Unlock()
			}
			readersDone <- struct{}{}
		}()
		go func() {
			for g := range rg.Recv() {
				rec.mu.Lock()
				rec.log = append(rec.log, entry{Kind: eReorg, Num: g.StartBlockNum, Hash: *g.StartBlockHash,
					ENum: g.EndBlockNum, EHash: *g.EndBlockHash, Window: rec.drains})
				rec.recvReorg++
				rec.cond.Broadcast()
				rec.mu.Unlock()
			}
			readersDone <- struct{}{}
		}()

		ctx, cancel := context.WithCancel(context.Background())
		runDone := make(chan string, 1)
		go func() {
			err, panicked, stack := lib.Try(func() error { return s.Run(ctx) })
			rec.mu.Lock()
			rec.returned = true
			rec.mu.Unlock()
			if panicked {
				runDone <- fmt.Sprintf("%v\n%s", err, stack)
				return
			}
			runDone <- ""
		}()

		deadline := beats.Load() + 4000 // 40 s of a healthy process
		tick := time.NewTicker(200 * time.Microsecond)
		lastCommit := -1
		shutdown := false
	loop:
		for {
			select {
			case msg := <-runDone:
				out.panicMsg = "Run returned before cancellation: " + msg
				runDone <- msg
				break loop
			case <-tick.C:
			}
			rec.mu.Lock()
			lc := rec.lastCommitSeq
			n := len(rec.chain)
			atTip := n == len(final) && (n == 0 || rec.chain[n-1].hash.Equal(final[n-1].Block.Hash))
			rec.mu.Unlock()
			if lc != lastCommit {
				lastCommit = lc
				src.honestLatest.Store(0)
			}
			if sc.ReadOnly && src.requests() >= 1 {
				// a read-only synchroniser only polls the latest header (once a minute)
				time.Sleep(20 * time.Millisecond)
				out.quiescent = true
				break
			}
			if len(shutdowns) > 0 && src.requests() >= shutdowns[0] {
				// shut the synchroniser down wherever it happens to be, a moment later
				shutdowns = shutdowns[1:]
				time.Sleep(time.Duration(jit.Intn(300)) * time.Microsecond)
				shutdown = true
				break
			}
			// at the tip AND the fetcher for the next height has been asking in vain for a while: whatever
			// was still queued in the pipeline when the tip was reached has been dealt with
			if src.stable() && atTip && src.honestLatest.Load() >= convergedAfter {
				out.converged = true
				break
			}
			if src.stable() && src.honestLatest.Load() >= quiescentAfter {
				out.quiescent = true
				break
			}
			if beats.Load() > deadline {
				out.hang = "no convergence and no quiescence within 40 s"
				break
			}
		}
		tick.Stop()
		cancel()
		waitUntil := beats.Load() + 3000
	waitRun:
		for {
			select {
			case msg := <-runDone:
				if msg != "" && out.panicMsg == "" {
					out.panicMsg = msg
				}
				break waitRun
			case <-time.After(10 * time.Millisecond):
				if beats.Load() > waitUntil {
					if out.hang == "" {
						out.hang = "Run did not return within 30 s of cancellation"
					}
					break waitRun
				}
			}
		}
		// Run has returned: every send of this instance has been made; the readers must get them all
		rec.mu.Lock()
		wantN, wantG := rec.stores, rec.reorgsOwed
		rec.mu.Unlock()
		if !rec.drain(wantN, wantG, 300) {
			out.drainLost = true
		}
		// give a duplicate / spurious send a moment to show up, then stop the readers
		time.Sleep(2 * time.Millisecond)
		nh.Unsubscribe()
		rg.Unsubscribe()
		<-readersDone
		<-readersDone
		if lis.churn != nil {
			rec.mu.Lock()
			extras := append([]*fsub{}, rec.extra...)
			rec.mu.Unlock()
			for _, x := range extras {
				if x.closedSeen {
					continue
				}
				x.unsub() // a second call for those that left earlier
				select {
				case <-x.done:
					x.closedSeen = true
				case <-time.After(5 * time.Second):
					out.hang = "reader of " + x.name + " did not see its channel closed after Unsubscribe"
				}
				rec.mu.Lock()
				if x.live {
					x.live = false
					x.toStore, x.toReorg = rec.stores, rec.reorgsOwed
				}
				rec.mu.Unlock()
			}
			out.extra = extras
		}
		if !shutdown || out.hang != "" || out.panicMsg != "" {
			break
		}
		// a new process: new Blockchain on the same database, new Synchronizer; reverts that were not
		// announced yet are forgotten (currReorg is not persisted)
		rec.mu.Lock()
		rec.log = append(rec.log, entry{Kind: eRestart})
		rec.pendingRevert = 0
		rec.mu.Unlock()
		bc = lib.NodeOn(wdb, net, sc.DstNew)
		out.final = bc
		out.restarts++
	}
	for k, v := range churnHits {
		out.persisted[k] += v
	}

	src.mu.Lock()
	out.hits = src.hits
	out.selfErr = src.selfErr
	if src.maxInflight > 1 {
		out.hits["parallel-fetchers(catch-up mode)"]++
	}
	for _, h := range src.handed {
		select {
		case e := <-h.ch:
			switch {
			case e == nil:
				out.persisted["persisted:stored"]++
				if !h.valid {
					out.persisted["persisted:stored-tampered"]++
				}
			case errors.Is(e, blockchain.ErrParentDoesNotMatchHead):
				out.persisted["persisted:parent-mismatch"]++
			case errors.Is(e, context.Canceled):
				out.persisted["persisted:cancelled"]++
			default:
				if h.valid {
					out.persisted["persisted:other-error"]++
				} else {
					out.persisted["persisted:rejected-tampered"]++
				}
				// a self-consistent forged block passes verifierTask: this error is Store's
				if m := e.Error(); strings.HasPrefix(h.fault, "forged:") && !h.valid &&
					(strings.Contains(m, "does not match the expected root") || strings.Contains(m, "commitment mismatch")) {
					out.persisted["forged:refused-by-Store"]++
					if h.fault == "forged:state-root(empty-diff)" {
						out.persisted["forged:empty-diff-root-refused-by-Store"]++
					}
				}
			}
		default:
			out.persisted["persisted:never-reached-store"]++
		}
	}
	src.mu.Unlock()
	rec.mu.Lock()
	out.log = append([]entry{}, rec.log...)
	out.finalChain = append([]headRec{}, rec.chain...)
	out.plugin = append([]pluginCall{}, rec.plugin...)
	out.afterReturn = rec.afterReturn
	out.dbFailed = wdb.failed
	rec.mu.Unlock()
	return out
}

// stateRootPrefix marks the note of a stored block whose claimed state root is not the state's root.
const stateRootPrefix = "STATE-ROOT: "

// headRootCheck: the root of the state the node holds (computed from its tries) must be the root the
// head's header claims. (Legacy backend: deprecatedstate computes the commitment from the tries in the
// database. New backend: the head state is OPENED at the claimed root; a root that is not in the trie
// database makes that, or the commitment, fail.)
func headRootCheck(bc *blockchain.Blockchain) string {
	h, err := bc.HeadsHeader()
	if err != nil {
		return ""
	}
	st, closer, err := bc.HeadState()
	if err != nil {
		return fmt.Sprintf("%sthe state of the new head (block %d, claimed root %s) cannot be opened: %v", stateRootPrefix, h.Number, h.GlobalStateRoot.String(), err)
	}
	defer func() { _ = closer() }()
	c, ok := st.(interface {
		Commitment(string) (felt.Felt, error)
	})
	if !ok {
		return ""
	}
	root, err := c.Commitment(h.ProtocolVersion)
	if err != nil {
		return fmt.Sprintf("%scommitment of the state under the new head (block %d, claimed root %s): %v", stateRootPrefix, h.Number, h.GlobalStateRoot.String(), err)
	}
	if !root.Equal(h.GlobalStateRoot) {
		return fmt.Sprintf("%sthe header of the new head (block %d) claims state root %s, the root of the node's state is %s", stateRootPrefix, h.Number,
			h.GlobalStateRoot.String(), root.String())
	}
	return ""
}

// sameBlock compares what the node returns for a stored block with the valid bundle.
func sameBlock(bc *blockchain.Blockchain, want *lib.Bundle) string {
	n := want.Block.Number
	got, err := bc.BlockByNumber(n)
	if err != nil {
		return fmt.Sprintf("BlockByNumber(%d): %v", n, err)
	}
	if !reflect.DeepEqual(canonHeader(got.Header), canonHeader(want.Block.Header)) {
		return fmt.Sprintf("header of block %d differs: got %+v want %+v", n, *got.Header, *want.Block.Header)
	}
	if len(got.Transactions) != len(want.Block.Transactions) {
		return fmt.Sprintf("block %d: %d transactions, want %d", n, len(got.Transactions), len(want.Block.Transactions))
	}
	for i := range got.Transactions {
		if !got.Transactions[i].Hash().Equal(want.Block.Transactions[i].Hash()) {
			return fmt.Sprintf("block %d tx %d hash differs", n, i)
		}
		if !got.Receipts[i].Fee.Equal(want.Block.Receipts[i].Fee) || len(got.Receipts[i].Events) != len(want.Block.Receipts[i].Events) {
			return fmt.Sprintf("block %d receipt %d differs", n, i)
		}
	}
	su, err := bc.StateUpdateByNumber(n)
	if err != nil {
		return fmt.Sprintf("StateUpdateByNumber(%d): %v", n, err)
	}
	if !su.NewRoot.Equal(want.SU.NewRoot) || !su.BlockHash.Equal(want.SU.BlockHash) {
		return fmt.Sprintf("state update of block %d: root/hash differ", n)
	}
	if got, want := diffSize(su.StateDiff), diffSize(want.SU.StateDiff); got != want {
		return fmt.Sprintf("state diff of block %d has %d entries, want %d", n, got, want)
	}
	for a, kv := range want.SU.StateDiff.StorageDiffs {
		for k, v := range kv {
			g := su.StateDiff.StorageDiffs[a][k]
			if g == nil || !g.Equal(v) {
				return fmt.Sprintf("state diff of block %d: storage %s/%s differs", n, a.String(), k.String())
			}
		}
	}
	return ""
}

func diffSize(d *core.StateDiff) int {
	n := len(d.Nonces) + len(d.DeployedContracts) + len(d.DeclaredV0Classes) + len(d.DeclaredV1Classes) +
		len(d.ReplacedClasses) + len(d.MigratedClasses)
	for _, kv := range d.StorageDiffs {
		n += len(kv)
	}
	return n
}

type hdrCanon struct {
	Hash, Parent, Root, Seq        string
	Number, Timestamp, TxCnt, EvCt uint64
	Version                        string
}

func canonHeader(h *core.Header) hdrCanon {
	return hdrCanon{h.Hash.String(), h.ParentHash.String(), h.GlobalStateRoot.String(), h.SequencerAddress.String(),
		h.Number, h.Timestamp, h.TransactionCount, h.EventCount, h.ProtocolVersion}
}
