//go:build verif

package main

import (
	"fmt"

	"github.com/NethermindEth/juno/core"
	"verif/harness/lib"
)

// ---------------------------------------------------------------------------------------------
// Corruption kind x protocol version matrix, directly on SanityCheckNewHeight (what verifierTask,
// isReverting and revertTask call): for every protocol version the generator uses and both state
// backends, blocks that carry transactions of every kind, events, signatures and a declared Sierra
// class go through EVERY corruption kind of corrupt() several times; each result must be refused.
// (Which header fields the block hash commits to depends on the version, so a kind that is refused for
// one version says nothing about another.)
// ---------------------------------------------------------------------------------------------

func checkTamperMatrix(f lib.Flags, res *lib.Result) {
	net := lib.TestNetwork()
	for vi, v := range lib.DefaultGenOptions().Versions {
		for _, newState := range []bool{false, true} {
			r := lib.NewRNG(f.Seed*7919 + uint64(vi)*2 + uint64(b2i(newState)))
			opt := lib.DefaultGenOptions()
			opt.Versions = []string{v}
			g := lib.NewChainGen(r, newState, opt)
			chk, _ := lib.NewNode(net, newState)
			var blocks []*lib.Bundle
			sierra, plain := false, false
			for i := 0; i < 60 && (len(blocks) < 3 || !sierra || !plain); i++ {
				spec := richSpec(g, 4)
				if i%3 == 2 {
					spec = noDeclareSpec(g) // a block that declares no class (kind "undeclared-class-entry")
				}
				b, err := g.Next(spec)
				if err != nil {
					res.Fatalf("tamper matrix: generator failed for version %s: %v", v, err)
					return
				}
				for _, cl := range b.Classes {
					if _, ok := cl.(*core.SierraClass); ok {
						sierra = true
					}
				}
				if len(b.Classes) == 0 && len(b.SU.StateDiff.DeclaredV0Classes)+len(b.SU.StateDiff.DeclaredV1Classes) == 0 {
					plain = true
				}
				blocks = append(blocks, b)
			}
			if !sierra {
				res.Fatalf("tamper matrix: no block with a Sierra class for version %s", v)
				return
			}
			for _, b := range blocks {
				if _, err := chk.SanityCheckNewHeight(b.Block, b.SU, b.Classes); err != nil {
					res.Fatalf("tamper matrix: SanityCheckNewHeight refuses an honest block of version %s: %v", v, err)
					return
				}
			}
			for kind := 0; kind < nCorruptKinds; kind++ {
				applied := 0
				for _, b := range blocks {
					for rep := 0; rep < 3; rep++ {
						c, how := corruptKind(b, kind, r, net)
						if c == nil {
							continue
						}
						applied++
						key := fmt.Sprintf("tamper-matrix/%s/%v/%d/%d/%d", v, newState, kind, b.Block.Number, rep)
						res.Case(key, true)
						res.Hit("tamper-matrix:" + v)
						if _, err := chk.SanityCheckNewHeight(c.Block, c.SU, c.Classes); err == nil {
							res.Violate(lib.Violation{Sig: "tampered-block-accepted-by-SanityCheckNewHeight",
								What: fmt.Sprintf("a block of protocol version %s with one thing changed (%s; the recorded hashes kept) passes SanityCheckNewHeight (state backend new=%v): "+
									"verifierTask would hand it to Store", v, how, newState),
								Replay: map[string]any{"version": v, "corruption": how, "kind": kind, "block_number": b.Block.Number, "new_state_backend": newState,
									"block_hash": c.Block.Hash.String()}})
						}
					}
				}
				if applied == 0 {
					res.Fatalf("tamper matrix: corruption kind %d found nothing to corrupt in the blocks of version %s", kind, v)
					return
				}
			}
		}
	}
}
