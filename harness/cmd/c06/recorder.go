//go:build verif

package main

import (
	"errors"
	"fmt"
	"sync"
	"sync/atomic"
	"time"

	"github.com/NethermindEth/juno/core"
	"github.com/NethermindEth/juno/core/felt"
	"github.com/NethermindEth/juno/db"
)

// ---------------------------------------------------------------------------------------------
// The trace. Every entry gets its position under one mutex, so the order of the log is a
// linearisation of what happened: answers of the source are logged BEFORE they are handed to the
// synchroniser, commits are logged inside the database call that made them (before Store /
// RevertHead return).
// ---------------------------------------------------------------------------------------------

type entryKind int

const (
	eServed    entryKind = iota // source answered BlockByNumber with a block
	eServeErr                   // source answered BlockByNumber with an error
	eLatest                     // source answered BlockHeaderLatest
	eLatestErr                  //
	eStored                     // commit: chain grew
	eReverted                   // commit: head removed
	eJump                       // commit: head changed in any other way (never expected)
	eNewHead                    // received on the new-heads feed
	eReorg                      // received on the reorg feed
	eOnReorg                    // sync listener OnReorg(n)
	eEpoch                      // the source switched to another chain
	eRestart                    // Run returned after cancellation; a new Synchronizer was started
)

type entry struct {
	Kind   entryKind
	Req    uint64 // requested height (served / serveErr)
	Num    uint64
	Hash   felt.Felt
	Parent felt.Felt
	Valid  bool   // served: block is an untampered block of some source chain
	Fault  string // served / latest: which fault was injected ("" = honest)
	Epoch  int
	Window int    // feed entries: number of completed drains when received
	ENum   uint64 // reorg: end
	EHash  felt.Felt
	Note   string
	// served: the honest block this answer was derived from, and what it still shares with it
	Orig     felt.Felt
	RootSame bool   // claimed roots (header GlobalStateRoot, state update OldRoot/NewRoot) are the honest block's
	DiffSame bool   // state diff and declared classes are the honest block's
	Sane     bool   // passes SanityCheckNewHeight (honest blocks and self-consistent forged ones)
	Ver      string // served: the protocol version string of the answer
}

type headRec struct {
	num  uint64
	hash felt.Felt
}

// drainLosses counts, over the whole process, drains that timed out.
var drainLosses atomic.Int32

type recorder struct {
	mu      sync.Mutex
	cond    *sync.Cond
	log     []entry
	chain   []headRec // tracked local chain (genesis first) as seen through commits
	enabled bool

	stores             int // commits that grew the chain
	reorgsOwed         int // stores that happened with reverts pending before them
	pendingRevert      int // reverts since the last store
	recvNewHead        int
	recvReorg          int
	drains             int
	lostWait           bool // a drain timed out once: stop waiting
	lastCommitSeq      int  // log position of the last commit
	lastStoreOwedReorg bool
	extra              []*fsub // subscribers that come and go (churn.go)
	plugin             []pluginCall
	returned           bool                                    // Run of the current instance has returned (no new instance yet)
	afterReturn        string                                  // first activity of the synchroniser seen while `returned`
	checkStored        func(num uint64, hash felt.Felt) string // "" = content equals the valid block
	fetchCalls         []*fetchCall                            // (feeder mode) BlockByNumber calls of the real data source
	ops                map[string]int                          // listener callbacks of isReverting, per exit level
}

func newRecorder() *recorder {
	r := &recorder{}
	r.cond = sync.NewCond(&r.mu)
	return r
}

// active notes an activity of the synchroniser (a fetch, a listener callback, a commit); after
// Run has returned there must be none.
func (r *recorder) active(what string) {
	r.mu.Lock()
	if r.returned && r.afterReturn == "" {
		r.afterReturn = what
	}
	r.mu.Unlock()
}

func (r *recorder) add(e entry) {
	r.mu.Lock()
	r.log = append(r.log, e)
	r.mu.Unlock()
}

// addIdx logs e and returns its position in the log.
func (r *recorder) addIdx(e entry) int {
	r.mu.Lock()
	defer r.mu.Unlock()
	r.log = append(r.log, e)
	return len(r.log) - 1
}

// head returns the tracked head (ok=false on an empty chain).
func (r *recorder) head() (headRec, bool) {
	r.mu.Lock()
	defer r.mu.Unlock()
	if len(r.chain) == 0 {
		return headRec{}, false
	}
	return r.chain[len(r.chain)-1], true
}

func (r *recorder) chainCopy() []headRec {
	r.mu.Lock()
	defer r.mu.Unlock()
	return append([]headRec{}, r.chain...)
}

// onCommit is called after every successful write to the node's database: it reads the head and
// logs how it moved.
func (r *recorder) onCommit(inner db.KeyValueReader) {
	var cur []headRec // only the head is read; the tracked chain gives the rest
	height, err := core.GetChainHeight(inner)
	empty := err != nil
	var hh felt.Felt
	if !empty {
		h, err := core.GetBlockHeaderHashByNumber(inner, height)
		if err != nil {
			empty = true
		} else {
			hh = *h
		}
	}
	_ = cur
	// callers hold r.mu (recDB.write): nothing is logged between a commit becoming visible and its entry
	if !r.enabled {
		return
	}
	if r.returned && r.afterReturn == "" {
		r.afterReturn = "a database commit"
	}
	n := len(r.chain)
	switch {
	case empty && n == 0:
		return
	case !empty && n > 0 && r.chain[n-1].num == height && r.chain[n-1].hash.Equal(&hh):
		return // head unchanged
	case !empty && ((n == 0 && height == 0) || (n > 0 && height == r.chain[n-1].num+1)):
		r.chain = append(r.chain, headRec{height, hh})
		e := entry{Kind: eStored, Num: height, Hash: hh, Valid: true}
		if r.checkStored != nil {
			if why := r.checkStored(height, hh); why != "" {
				e.Valid, e.Note = false, why
			}
		}
		r.log = append(r.log, e)
		r.stores++
		r.lastStoreOwedReorg = r.pendingRevert > 0
		if r.pendingRevert > 0 {
			r.reorgsOwed++
		}
		r.pendingRevert = 0
	case n > 0 && ((empty && n == 1) || (!empty && n >= 2 && height == r.chain[n-2].num && r.chain[n-2].hash.Equal(&hh))):
		old := r.chain[n-1]
		r.chain = r.chain[:n-1]
		r.log = append(r.log, entry{Kind: eReverted, Num: old.num, Hash: old.hash})
		r.pendingRevert++
	default:
		r.log = append(r.log, entry{Kind: eJump, Num: height, Hash: hh,
			Note: fmt.Sprintf("head moved from %d entries to height=%d empty=%v", n, height, empty)})
		// resynchronise the tracked chain as well as possible
		if empty {
			r.chain = nil
		} else {
			for len(r.chain) > 0 && r.chain[len(r.chain)-1].num >= height {
				r.chain = r.chain[:len(r.chain)-1]
			}
			r.chain = append(r.chain, headRec{height, hh})
		}
	}
	r.lastCommitSeq = len(r.log)
}

// drain blocks until every feed send owed by earlier stores has been received (the feeds drop
// values when the subscriber's 1-slot buffer is full, so the store path is made to wait for the
// readers: called from the sync listener's OpStore callback, i.e. after Store and before the
// sends of the current block). Returns false if the readers did not catch up in time.
func (r *recorder) drain(wantNewHeads, wantReorgs int, timeoutBeats int64) bool {
	if drainLosses.Load() >= 3 {
		timeoutBeats = 5 // notifications are evidently missing: do not wait for each one
	}
	startHeartbeat()
	deadline := beats.Load() + timeoutBeats
	// wake the waiter regularly so that it can look at the deadline
	stop := make(chan struct{})
	defer close(stop)
	go func() {
		t := time.NewTicker(20 * time.Millisecond)
		defer t.Stop()
		for {
			select {
			case <-stop:
				return
			case <-t.C:
				r.mu.Lock()
				r.cond.Broadcast()
				r.mu.Unlock()
			}
		}
	}()
	r.mu.Lock()
	defer r.mu.Unlock()
	extrasBehind := func() bool {
		for _, x := range r.extra {
			if len(x.got) < x.owed(wantNewHeads, wantReorgs) {
				return true
			}
		}
		return false
	}
	for (r.recvNewHead < wantNewHeads || r.recvReorg < wantReorgs || extrasBehind()) && !r.lostWait {
		if beats.Load() > deadline {
			r.lostWait = true
			drainLosses.Add(1)
			return false
		}
		r.cond.Wait()
	}
	return !r.lostWait
}

// ---------------------------------------------------------------------------------------------
// Database wrapper: the store-recording wrapper. Everything is delegated; successful writes call
// onCommit.
// ---------------------------------------------------------------------------------------------

type recDB struct {
	db.KeyValueStore
	rec    *recorder
	writes int          // committed or refused write calls since recording was enabled
	failAt map[int]bool // these write calls fail (before touching the database)
	failed int
}

var errInjectedDB = errors.New("injected database failure")

// write performs one write call of the database. The trace lock is held across it, so that nothing
// (an answer of the source, a notification) is logged between the commit becoming visible to readers
// and its own log entry.
func (d *recDB) write(op func() error) error {
	d.rec.mu.Lock()
	defer d.rec.mu.Unlock()
	if d.rec.enabled {
		d.writes++
		if d.failAt[d.writes] {
			d.failed++
			return errInjectedDB
		}
	}
	err := op()
	if err == nil {
		d.rec.onCommit(d.KeyValueStore)
	}
	return err
}

func (d *recDB) Update(fn func(db.IndexedBatch) error) error {
	return d.write(func() error { return d.KeyValueStore.Update(fn) })
}

func (d *recDB) Write(fn func(db.Batch) error) error {
	return d.write(func() error { return d.KeyValueStore.Write(fn) })
}

func (d *recDB) Put(k, v []byte) error {
	return d.write(func() error { return d.KeyValueStore.Put(k, v) })
}

func (d *recDB) Delete(k []byte) error {
	return d.write(func() error { return d.KeyValueStore.Delete(k) })
}

func (d *recDB) DeleteRange(a, b []byte) error {
	return d.write(func() error { return d.KeyValueStore.DeleteRange(a, b) })
}

type recBatch struct {
	db.Batch
	d *recDB
}

func (b *recBatch) Write() error { return b.d.write(b.Batch.Write) }

type recIBatch struct {
	db.IndexedBatch
	d *recDB
}

func (b *recIBatch) Write() error { return b.d.write(b.IndexedBatch.Write) }

func (d *recDB) NewBatch() db.Batch { return &recBatch{d.KeyValueStore.NewBatch(), d} }
func (d *recDB) NewBatchWithSize(n int) db.Batch {
	return &recBatch{d.KeyValueStore.NewBatchWithSize(n), d}
}
func (d *recDB) NewIndexedBatch() db.IndexedBatch {
	return &recIBatch{d.KeyValueStore.NewIndexedBatch(), d}
}
func (d *recDB) NewIndexedBatchWithSize(n int) db.IndexedBatch {
	return &recIBatch{d.KeyValueStore.NewIndexedBatchWithSize(n), d}
}
