//go:build verif

package main

import (
	"fmt"

	"github.com/NethermindEth/juno/core/crypto"
	"github.com/NethermindEth/juno/core/felt"
	"github.com/NethermindEth/juno/core/trie"
	"github.com/NethermindEth/juno/core/trie2"
	"github.com/NethermindEth/juno/core/trie2/triedb/rawdb"
	"github.com/NethermindEth/juno/core/trie2/trienode"
	"github.com/NethermindEth/juno/core/trie2/trieutils"
	"github.com/NethermindEth/juno/db/memory"
	"verif/harness/lib"
)

func f(u uint64) *felt.Felt { x := felt.FromUint64[felt.Felt](u); return &x }

func main() {
	// 1. empty tries
	{
		tr := trie2.NewEmpty(251, crypto.Pedersen)
		root, _ := tr.Hash()
		ps := trie2.NewProofNodeSet()
		err := tr.Prove(f(5), ps)
		fmt.Println("trie2 empty prove err", err, "size", ps.Size(), "root", root.String())
		err, p, _ := lib.Try(func() error { v, err := trie2.VerifyProof(&root, f(5), ps, crypto.Pedersen); fmt.Println("  verify ->", v.String(), err); return err })
		fmt.Println("  ", err, p)
	}
	{
		txn := memory.New().NewIndexedBatch()
		tr, _ := trie.NewTriePedersen(txn, []byte{1}, 251)
		root, _ := tr.Hash()
		ps := trie.NewProofNodeSet()
		err := tr.Prove(f(5), ps)
		fmt.Println("legacy empty prove err", err, "size", ps.Size(), "root", root.String())
		err, p, _ := lib.Try(func() error { v, err := trie.VerifyProof(&root, f(5), ps, crypto.Pedersen); fmt.Println("  verify ->", v.String(), err); return err })
		fmt.Println("  ", err, p)
	}
	// 2. trie2 reopened
	{
		disk := memory.New()
		tdb := rawdb.New(disk)
		one := felt.StateRootHash(felt.FromUint64[felt.Felt](1))
		id := trieutils.NewContractTrieID(one)
		tr, err := trie2.New(id, 251, crypto.Pedersen, tdb)
		fmt.Println(err)
		for i := uint64(0); i < 5; i++ {
			tr.Update(f(i*3), f(i+100))
		}
		// prove before commit
		root0, _ := tr.Hash()
		ps0 := trie2.NewProofNodeSet()
		fmt.Println("prove uncommitted:", tr.Prove(f(3), ps0))
		for i, n := range ps0.List() {
			fmt.Printf("  %s -> %T %s\n", ps0.Keys()[i].String(), n, n.String())
			h, d := n.Cache()
			fmt.Println("   cache", h, d)
		}
		root, nodes := tr.Commit()
		fmt.Println("root", root.String(), root0.String())
		batch := disk.NewBatch()
		merged := trienode.NewMergeNodeSet(nodes)
		r := felt.StateRootHash(root)
		fmt.Println(tdb.Update(&r, &r, 0, nil, merged, batch), batch.Write())
		tr, err = trie2.New(id, 251, crypto.Pedersen, tdb)
		ps := trie2.NewProofNodeSet()
		fmt.Println("prove reopened:", tr.Prove(f(3), ps))
		for i, n := range ps.List() {
			fmt.Printf("  %s -> %T %s\n", ps.Keys()[i].String(), n, n.String())
			h, d := n.Cache()
			fmt.Println("   cache", h, d)
		}
		v, err := trie2.VerifyProof(&root, f(3), ps, crypto.Pedersen)
		fmt.Println("verify", v.String(), err)
		// tamper 1: keep cached hash, change the leaf value
		ps1 := trie2.NewProofNodeSet()
		tr.Prove(f(3), ps1)
		keys := ps1.Keys()
		list := ps1.List()
		last := list[len(list)-1]
		fmt.Printf("last %T\n", last)
		switch n := last.(type) {
		case *trienode.EdgeNode:
			c := n.Copy()
			nv := trienode.ValueNode(*f(999))
			c.Child = &nv
			ps1.Put(keys[len(keys)-1], c)
		case *trienode.BinaryNode:
			c := n.Copy()
			nv := trienode.ValueNode(*f(999))
			c.Children[0] = &nv
			c.Children[1] = &nv
			ps1.Put(keys[len(keys)-1], c)
		}
		v, err = trie2.VerifyProof(&root, f(3), ps1, crypto.Pedersen)
		fmt.Println("tampered(value, cached hash kept) verify ->", v.String(), err)
		// tamper 2: retype a HashNode child to ValueNode in the root node
		ps2 := trie2.NewProofNodeSet()
		tr.Prove(f(3), ps2)
		keys = ps2.Keys()
		list = ps2.List()
		for i, n := range list {
			if b, ok := n.(*trienode.BinaryNode); ok {
				c := &trienode.BinaryNode{}
				for j := 0; j < 2; j++ {
					switch ch := b.Children[j].(type) {
					case *trienode.HashNode:
						vn := trienode.ValueNode(*ch)
						c.Children[j] = &vn
					default:
						c.Children[j] = ch
					}
				}
				ps2.Put(keys[i], c)
				break
			}
		}
		v, err = trie2.VerifyProof(&root, f(3), ps2, crypto.Pedersen)
		fmt.Println("tampered(retype hash->value, no cache) verify ->", v.String(), err)
	}
}
