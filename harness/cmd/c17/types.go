//go:build verif

package main

import "fmt"

// Log is one l1.StateUpdate in JSON-able form (felts are small integers in this harness).
type Log struct {
	L2      uint64 `json:"l2"`
	Hash    uint64 `json:"hash"`
	Root    uint64 `json:"root"`
	L1      uint64 `json:"l1"`
	Removed bool   `json:"removed,omitempty"`
	// OverP: the uint256 words on L1 are hash+P and root+P (P = felt modulus); juno reduces them.
	OverP bool `json:"over_p,omitempty"`
	// Decoy (geth family): 1 = same event emitted by another contract, 2 = another event of the
	// core contract. A real node does not return them for juno's filter; juno must never see them.
	Decoy int `json:"decoy,omitempty"`
}

// decoded is what juno's geth layer must hand to the client for the raw log l.
func (l Log) decoded() Log { l.OverP = false; return l }

func (l Log) line(op string) string {
	rm := "0"
	if l.Removed {
		rm = "1"
	}
	return fmt.Sprintf("%s %x %x %x %x %s", op, l.L2, l.Hash, l.Root, l.L1, rm)
}

// HeadJ is a core.L1Head in JSON-able form.
type HeadJ struct {
	L2   uint64 `json:"l2"`
	Hash uint64 `json:"hash"`
	Root uint64 `json:"root"`
}

func (h *HeadJ) String() string {
	if h == nil {
		return "none"
	}
	return fmt.Sprintf("%x:%x:%x", h.L2, h.Hash, h.Root)
}

// Op is one step of the controller that scripts the L1 provider.
//
//	send    : put Logs on the update channel in one batch (no barrier)
//	fin     : the provider's finalised height becomes Fin
//	sync    : barrier: every sent value consumed and one complete poll with the current height done
//	suberr  : the subscription reports an error; the next N WatchStateUpdate attempts fail
//	finfail : the next N FinalisedHeight polls fail
//	waitfinerr : wait until a FinalisedHeight poll has failed (the client is in its retry loop)
//	push       : (geth family) the node pushes Logs on the subscription; no barrier (the client may be stalled)
//	waitfill   : (geth family) until the client's update channel holds min(N, 128) values
//	hold       : (geth family) the harness waits N milliseconds (the client's event loop is kept busy meanwhile)
//	drainwait  : (geth family) barrier: everything the node pushed has come out of the real forwarder
//	finnotfound : (geth family) the node answers the next N finalized-header queries with null
type Op struct {
	Kind string `json:"kind"`
	Logs []Log  `json:"logs,omitempty"`
	Fin  uint64 `json:"fin,omitempty"`
	N    int    `json:"n,omitempty"`
}

// Case is one scripted life of an l1.Client on a fresh Blockchain.
type Case struct {
	Name   string `json:"name"`
	Family string `json:"family"` // "chain" (well-behaved provider simulation) | "free" (arbitrary trace)
	Mode   string `json:"mode"`   // "run" (Client.Run) | "oneshot" (Client.CatchUpL1Head)
	Stored *HeadJ `json:"stored,omitempty"`
	// StoredL1 is the L1 block of the event Stored came from (oracle only; not visible to juno).
	StoredL1 uint64 `json:"stored_l1,omitempty"`
	Chunk    uint64 `json:"chunk"`
	// DefaultChunk: l1.NewClient is called WITHOUT WithCatchUpChunkSize (the node's own configuration:
	// defaultCatchUpChunkSize = 1000); Chunk is 1000 then, for the oracle's messages only.
	DefaultChunk bool `json:"default_chunk,omitempty"`
	Hist     []Log  `json:"hist"`   // what FilterStateUpdate serves (chain order)
	Latest   uint64 `json:"latest"` // LatestHeight
	Fin1     uint64 `json:"fin1"`   // FinalisedHeight read by catchUpL1HeadUpdates
	Fin2     uint64 `json:"fin2"`   // finalised height afterwards (until the first "fin" op)

	ChainIDFails    int  `json:"chainid_fails,omitempty"`
	ChainIDMismatch bool `json:"chainid_mismatch,omitempty"`
	// ChainIDHangs: the chain-id probe that follows the ChainIDFails failed ones does not answer until the
	// context ends (the client is cancelled in the middle of a provider call, not between two)
	ChainIDHangs bool `json:"chainid_hangs,omitempty"`
	LatestFail      bool `json:"latest_fail,omitempty"`
	Fin1Fail        bool `json:"fin1_fail,omitempty"`
	FilterFailAt    int  `json:"filter_fail_at"` // -1: never
	Fin2Fails       int  `json:"fin2_fails,omitempty"`
	WatchFails      int  `json:"watch_fails,omitempty"` // failed attempts of the first subscription
	// TimeoutErrors: every scripted failure is a context.DeadlineExceeded (an expired call timeout)
	TimeoutErrors bool `json:"timeout_errors,omitempty"`
	PollMicros      int  `json:"poll_us"`
	// ResubMicros: l1.WithResubscribeDelay (also the retry delay of finalisedHeight); 0 = 50 µs
	ResubMicros int `json:"resub_us,omitempty"`

	// Geth: the real l1.GethL1StateProvider (NewGethL1StateProvider -> abigen filterer ->
	// forwardStateUpdates) is in the loop, fed by an in-process fake L1 JSON-RPC node over a
	// websocket; the scripted failures above are not used (suberr = the node drops the connection,
	// finfail = the node fails the finalized-header query).
	Geth   bool  `json:"geth,omitempty"`
	Decoys []Log `json:"decoys,omitempty"` // geth family: logs of other contracts / events in the node's history

	// DBFault: the DBFaultAt-th read ("r") / write ("w") of the stored L1 head made by the client
	// fails (key-value store wrapper around db/memory).
	DBFault   string `json:"db_fault,omitempty"`
	DBFaultAt int    `json:"db_fault_at,omitempty"`

	Ops []Op `json:"ops"`
	// Canonical: L2 block numbers grow with (L1 block, delivery order) among never-removed
	// events, as on a real core contract; enables the l2-monotone oracle.
	Canonical bool `json:"canonical,omitempty"`
}
