//go:build verif

package main

// Round 5: the recorded L1 head under CONCURRENT use of blockchain.Blockchain — the L1 client is the
// only caller of SetL1Head, any number of goroutines (RPC finality status, pruner, the client's own
// never-regress guard) call L1Head() at any moment.
//
//   - family `l1cache-sched`: deterministic schedules. The key-value store under the real Blockchain is
//     wrapped; a goroutine is parked right before and right after every database operation on the
//     L1Height key, and a controller lets exactly ONE goroutine run from one parking place to the next.
//     Small systems (1-2 SetL1Head calls, 1-2 readers with 1-2 calls) are enumerated exhaustively: every
//     interleaving of the database operations, hence every "reader fetched the old head, SetL1Head ran,
//     reader goes on" window, on a FRESH instance over a pre-seeded database. Every run is replayed on
//     the Lean transition system (driver op `cache`, ModelCache.lean) token by token.
//   - family `l1cache-free`: free-running goroutines (GOMAXPROCS > 1), many rounds, optionally with the
//     wrapper yielding the processor right after a read of the key; under -race in the thorough tier.
//
// Oracle (on the real code, independent of the model): once every call has returned, L1Head() must be
// the record in the database, and the record the last head handed to SetL1Head; every L1Head() must
// return the head of the last SetL1Head that had returned before the call started, or of one that was in
// progress during the call (a regular register — what a correct cache also guarantees).

import (
	"bytes"
	"crypto/sha1"
	"encoding/hex"
	"encoding/json"
	"errors"
	"flag"
	"fmt"
	"os"
	"os/exec"
	"path/filepath"
	"runtime"
	"strings"
	"sync"
	"sync/atomic"
	"time"

	"github.com/NethermindEth/juno/blockchain"
	"github.com/NethermindEth/juno/blockchain/networks"
	"github.com/NethermindEth/juno/core"
	"github.com/NethermindEth/juno/core/felt"
	"github.com/NethermindEth/juno/db"
	"github.com/NethermindEth/juno/db/memory"
	"verif/harness/lib"
)

var cacheOnly = flag.Bool("l1cache-only", false, "run only the concurrent L1-head families (child process of the -race build)")

// CacheCase is one concurrent use of a fresh Blockchain over a database that already holds Stored.
type CacheCase struct {
	Name   string  `json:"name"`
	Family string  `json:"family"` // l1cache-sched | l1cache-free
	Stored *HeadJ  `json:"stored,omitempty"`
	Sets   []HeadJ `json:"sets"`  // the heads handed to SetL1Head, in order, by ONE goroutine
	Reads  []int   `json:"reads"` // L1Head() calls per reader goroutine
	// Sched (l1cache-sched): which goroutine runs next (-1 = the SetL1Head goroutine, k = reader k), from
	// one parking place (database operation on the L1Height key) to the next; a finished goroutine is
	// skipped; what is left at the end runs to completion, the SetL1Head goroutine first.
	Sched []int `json:"sched,omitempty"`
	// l1cache-free
	Yield bool `json:"yield,omitempty"` // the wrapper yields the processor after every read of the key
	Round int  `json:"round,omitempty"`
}

func toL1Head(h HeadJ) *core.L1Head {
	return &core.L1Head{BlockNumber: h.L2, BlockHash: new(felt.Felt).SetUint64(h.Hash), StateRoot: new(felt.Felt).SetUint64(h.Root)}
}

// ---- the gate: a key-value store that parks goroutines around operations on the L1Height key ------------

type gateEvent struct {
	thread int
	at     string // enter | exit | done
	op     string // get | put
}

type gateCtl struct {
	mu      sync.Mutex
	gating  bool
	yield   bool
	cur     int
	events  chan gateEvent
	release map[int]chan struct{}
	byGoid  map[uint64]int // goroutine id -> scheduled goroutine (-1 writer, k reader)
	foreign int            // operations on the key made by goroutines the controller does not schedule
	log     []cacheEvt
	gets    int // reads of the L1Height key that reached the database (policy probe)
}

// cacheEvt: start / end of a call, in the global order (only one goroutine runs at a time).
type cacheEvt struct {
	Thread int    `json:"thread"`
	Kind   string `json:"kind"` // read-start | read-end | set-start | set-end
	Head   *HeadJ `json:"head,omitempty"`
	Err    string `json:"err,omitempty"`
}

type gateKV struct {
	db.KeyValueStore
	ctl *gateCtl
}

func (c *gateCtl) isGating() (bool, int) {
	c.mu.Lock()
	defer c.mu.Unlock()
	if !c.gating {
		return false, 0
	}
	t, ok := c.byGoid[goid()]
	if !ok {
		c.foreign++
		return false, 0
	}
	return true, t
}

// park tells the controller where the running goroutine is and blocks it until it is released.
func (c *gateCtl) park(t int, at, op string) {
	c.mu.Lock()
	ch := c.release[t]
	g := c.gating
	c.mu.Unlock()
	if !g || ch == nil {
		return
	}
	c.events <- gateEvent{thread: t, at: at, op: op}
	<-ch
}

func (g *gateKV) Get(key []byte, cb func([]byte) error) error {
	if !bytes.Equal(key, db.L1Height.Key()) {
		return g.KeyValueStore.Get(key, cb)
	}
	on, t := g.ctl.isGating()
	if on {
		g.ctl.park(t, "enter", "get")
	}
	err := g.KeyValueStore.Get(key, cb)
	g.ctl.mu.Lock()
	g.ctl.gets++
	y := g.ctl.yield
	g.ctl.mu.Unlock()
	if y {
		runtime.Gosched() // free family: widen the window between "value fetched" and whatever follows
	}
	if on {
		g.ctl.park(t, "exit", "get")
	}
	return err
}

func (g *gateKV) Put(key, value []byte) error {
	if !bytes.Equal(key, db.L1Height.Key()) {
		return g.KeyValueStore.Put(key, value)
	}
	on, t := g.ctl.isGating()
	if on {
		g.ctl.park(t, "enter", "put")
	}
	err := g.KeyValueStore.Put(key, value)
	if on {
		g.ctl.park(t, "exit", "put")
	}
	return err
}

// goid: the id of the calling goroutine (from the first line of its stack trace, "goroutine 123 [running]:").
// The wrapper uses it to tell which scheduled goroutine a database operation belongs to; an operation made
// by any other goroutine (a background writer, say) is passed through unparked and counted.
func goid() uint64 {
	var buf [64]byte
	n := runtime.Stack(buf[:], false)
	var id uint64
	for _, c := range buf[len("goroutine "):n] {
		if c < '0' || c > '9' {
			break
		}
		id = id*10 + uint64(c-'0')
	}
	return id
}

const gateTimeout = 15 * time.Second

type cacheObs struct {
	Tokens   []string     `json:"tokens"`
	Log      []cacheEvt   `json:"log"`
	Got      [][]*HeadJ   `json:"got"`   // per reader: what its completed calls returned (nil = key not found)
	GotErr   []string     `json:"got_err,omitempty"`
	SetErr   []string     `json:"set_err,omitempty"`
	Done     int          `json:"done"` // SetL1Head calls that returned
	Record   *HeadJ       `json:"record"`
	Served   *HeadJ       `json:"served"`
	ServeErr string       `json:"serve_err,omitempty"`
	Foreign  int          `json:"foreign,omitempty"` // operations on the key by goroutines outside the schedule
	Blocked  string       `json:"blocked,omitempty"` // a released goroutine did not reach its next parking place
	Stalled  string       `json:"stalled,omitempty"`
	Panic    string       `json:"panic,omitempty"`
}

func newCacheChain(c *CacheCase, ctl *gateCtl) (*blockchain.Blockchain, db.KeyValueStore) {
	raw := memory.New()
	if c.Stored != nil {
		_ = core.WriteL1Head(raw, toL1Head(*c.Stored))
	}
	return blockchain.New(&gateKV{KeyValueStore: raw, ctl: ctl}, &networks.Mainnet), raw
}

func rawHead(raw db.KeyValueStore) *HeadJ {
	h, err := core.GetL1Head(raw)
	if err != nil {
		return nil
	}
	return headJ(&h)
}

// readHead: one L1Head() call as a consumer sees it (nil = db.ErrKeyNotFound).
func readHead(chain *blockchain.Blockchain) (*HeadJ, string) {
	var out *HeadJ
	var msg string
	err, panicked, stack := lib.Try(func() error {
		h, err := chain.L1Head()
		if err != nil {
			if errors.Is(err, db.ErrKeyNotFound) {
				return nil
			}
			return err
		}
		out = headJ(&h)
		return nil
	})
	if panicked {
		msg = "panic: " + err.Error() + "\n" + stack
	} else if err != nil {
		msg = err.Error()
	}
	return out, msg
}

// runCacheSched executes one deterministic schedule on the real Blockchain.
func runCacheSched(c *CacheCase) *cacheObs {
	// a goroutine that does not reach its next parking place is blocked by something a parked goroutine
	// holds; a short wait first, the same schedule again with a long one before that is believed
	o := runCacheSchedT(c, 3*time.Second)
	if o.Blocked != "" {
		o = runCacheSchedT(c, gateTimeout)
	}
	return o
}

func runCacheSchedT(c *CacheCase, blockedAfter time.Duration) *cacheObs {
	obs := &cacheObs{Got: make([][]*HeadJ, len(c.Reads))}
	ctl := &gateCtl{events: make(chan gateEvent, 4), release: map[int]chan struct{}{}, byGoid: map[uint64]int{}}
	chain, raw := newCacheChain(c, ctl)
	threads := []int{-1}
	for k := range c.Reads {
		threads = append(threads, k)
	}
	for _, t := range threads {
		ctl.release[t] = make(chan struct{})
	}
	ctl.gating = true
	state := map[int]string{}
	var wg sync.WaitGroup
	logEvt := func(e cacheEvt) {
		ctl.mu.Lock()
		ctl.log = append(ctl.log, e)
		ctl.mu.Unlock()
	}
	var obsMu sync.Mutex
	registered := make(chan struct{}, len(threads))
	for _, t := range threads {
		state[t] = "start"
		wg.Add(1)
		go func(t int) {
			defer wg.Done()
			ctl.mu.Lock()
			ctl.byGoid[goid()] = t
			ctl.mu.Unlock()
			registered <- struct{}{}
			<-ctl.release[t] // the start gate
			if t == -1 {
				for i := range c.Sets {
					h := c.Sets[i]
					logEvt(cacheEvt{Thread: t, Kind: "set-start", Head: &h})
					err, panicked, stack := lib.Try(func() error { return chain.SetL1Head(toL1Head(h)) })
					e := cacheEvt{Thread: t, Kind: "set-end", Head: &h}
					if panicked {
						e.Err = "panic: " + err.Error() + "\n" + stack
					} else if err != nil {
						e.Err = err.Error()
					}
					obsMu.Lock()
					if e.Err != "" {
						obs.SetErr = append(obs.SetErr, e.Err)
					} else {
						obs.Done++
					}
					obsMu.Unlock()
					logEvt(e)
				}
			} else {
				for i := 0; i < c.Reads[t]; i++ {
					logEvt(cacheEvt{Thread: t, Kind: "read-start"})
					h, msg := readHead(chain)
					obsMu.Lock()
					if msg != "" {
						obs.GotErr = append(obs.GotErr, msg)
					}
					obs.Got[t] = append(obs.Got[t], h)
					obsMu.Unlock()
					logEvt(cacheEvt{Thread: t, Kind: "read-end", Head: h, Err: msg})
				}
			}
			ctl.mu.Lock()
			g := ctl.gating
			ctl.mu.Unlock()
			if g {
				ctl.events <- gateEvent{thread: t, at: "done"}
			}
		}(t)
	}
	for range threads {
		<-registered
	}
	name := func(t int) string {
		if t == -1 {
			return "w"
		}
		return fmt.Sprintf("r%d", t)
	}
	// advance lets goroutine t run to its next parking place
	advance := func(t int) bool {
		ctl.mu.Lock()
		ctl.cur = t
		ctl.mu.Unlock()
		kind := ".i"
		if state[t] == "enter" {
			kind = ".o"
		}
		ctl.release[t] <- struct{}{}
		select {
		case ev := <-ctl.events:
			if ev.thread != t {
				obs.Stalled = fmt.Sprintf("goroutine %s reported while %s was the only one released", name(ev.thread), name(t))
				return false
			}
			if kind == ".o" && ev.at != "exit" {
				obs.Stalled = "a goroutine parked in front of a database operation did not come out of it"
				return false
			}
			state[t] = ev.at
			obs.Tokens = append(obs.Tokens, name(t)+kind)
			return true
		case <-time.After(blockedAfter):
			// blocked by something a parked goroutine holds (a lock around the database access): this
			// interleaving cannot happen in this implementation
			obs.Blocked = fmt.Sprintf("%s did not reach its next database operation while the others were parked", name(t))
			return false
		}
	}
	ok := true
	for _, t := range c.Sched {
		if _, known := state[t]; !known || state[t] == "done" {
			continue
		}
		if ok = advance(t); !ok {
			break
		}
	}
	for _, t := range threads {
		for ok && state[t] != "done" {
			ok = advance(t)
		}
	}
	if !ok {
		// let everything run freely to the end
		ctl.mu.Lock()
		ctl.gating = false
		ctl.mu.Unlock()
		for _, t := range threads {
			close(ctl.release[t])
		}
		go func() { // goroutines that were about to report
			for range ctl.events {
			}
		}()
	}
	fin := make(chan struct{})
	go func() { wg.Wait(); close(fin) }()
	select {
	case <-fin:
	case <-time.After(gateTimeout):
		if obs.Stalled == "" {
			obs.Stalled = "the calls did not return"
		}
		return obs
	}
	ctl.mu.Lock()
	ctl.gating = false
	obs.Log = append([]cacheEvt(nil), ctl.log...)
	obs.Foreign = ctl.foreign
	ctl.mu.Unlock()
	if !ok {
		close(ctl.events)
	}
	obs.Record = rawHead(raw)
	obs.Served, obs.ServeErr = readHead(chain)
	return obs
}

// probeCachePolicy: does a second L1Head() on a fresh instance reach the database again? "d" = the code
// as it is (every call reads the record), "c" = some memo sits in front of the record.
func probeCachePolicy() (string, error) {
	ctl := &gateCtl{}
	c := &CacheCase{Stored: &HeadJ{L2: 7, Hash: 0x70, Root: 0x1070}}
	chain, _ := newCacheChain(c, ctl)
	for i := 0; i < 2; i++ {
		if h, msg := readHead(chain); msg != "" || h == nil || *h != *c.Stored {
			return "", fmt.Errorf("L1Head() on a fresh instance over a stored head returned %s %s", h, msg)
		}
	}
	if ctl.gets >= 2 {
		return "d", nil // every call reaches the database
	}
	return "c", nil
}

func hstr(h *HeadJ) string { return h.String() }

// cacheModelLine: the driver request replaying the observed tokens.
func cacheModelLine(policy string, c *CacheCase, tokens []string) string {
	sets := "-"
	if len(c.Sets) > 0 {
		xs := make([]string, len(c.Sets))
		for i := range c.Sets {
			xs[i] = (&c.Sets[i]).String()
		}
		sets = strings.Join(xs, ",")
	}
	reads := "-"
	if len(c.Reads) > 0 {
		xs := make([]string, len(c.Reads))
		for i, n := range c.Reads {
			xs[i] = fmt.Sprint(n)
		}
		reads = strings.Join(xs, ",")
	}
	return strings.TrimSpace(fmt.Sprintf("cache %s %s %s %s %s", policy, c.Stored.String(), sets, reads, strings.Join(tokens, " ")))
}

// cacheObserved: what of the model's answer is observable from outside (the cache itself is not).
func cacheObserved(o *cacheObs) string {
	got := "-"
	if len(o.Got) > 0 {
		xs := make([]string, len(o.Got))
		for i, g := range o.Got {
			if len(g) == 0 {
				xs[i] = "-"
				continue
			}
			ys := make([]string, len(g))
			for j, h := range g {
				ys[j] = h.String()
			}
			xs[i] = strings.Join(ys, ",")
		}
		got = strings.Join(xs, "|")
	}
	return fmt.Sprintf("db=%s serve=%s done=%d got=%s", o.Record, o.Served, o.Done, got)
}

func cacheModelObservable(ans string) string {
	var keep []string
	for _, f := range strings.Fields(ans) {
		if strings.HasPrefix(f, "cache=") || strings.HasPrefix(f, "feed=") {
			continue
		}
		keep = append(keep, f)
	}
	return strings.Join(keep, " ")
}

// cacheOracle: the property on the real code. Returns findings.
func cacheOracle(c *CacheCase, o *cacheObs) []finding {
	var fs []finding
	if o.Panic != "" {
		fs = append(fs, finding{sig: "l1-head-accessors-panic", what: o.Panic})
	}
	for _, e := range o.GotErr {
		fs = append(fs, finding{sig: "l1head-read-fails-during-concurrent-set", what: "Blockchain.L1Head() failed: " + e})
		break
	}
	for _, e := range o.SetErr {
		fs = append(fs, finding{sig: "l1head-set-fails-during-concurrent-reads", what: "Blockchain.SetL1Head failed: " + e})
		break
	}
	if o.Stalled != "" || len(o.SetErr) > 0 {
		return fs
	}
	last := c.Stored
	if len(c.Sets) > 0 {
		last = &c.Sets[len(c.Sets)-1]
	}
	// (1) everything has returned: record = last head set, served = record
	if !headEq(o.Record, last) {
		fs = append(fs, finding{sig: "l1head-record-is-not-the-last-head-set",
			what: fmt.Sprintf("every SetL1Head has returned, the last one set %s; the database holds %s", last, o.Record)})
	}
	if o.ServeErr != "" || !headEq(o.Served, o.Record) {
		fs = append(fs, finding{sig: "l1head-served-head-stale-after-concurrent-read-and-set",
			what: fmt.Sprintf("fresh Blockchain over a database holding %s; %d reader goroutine(s) called L1Head() while SetL1Head(%s) ran; after ALL calls had returned the database holds %s but Blockchain.L1Head() returns %s %s (the served head regressed and stays stale until the next SetL1Head)",
				c.Stored, len(c.Reads), headListP(c.Sets), o.Record, o.Served, o.ServeErr)})
	}
	// (2) every read returns the head of the last SetL1Head completed before it started, or of one in
	// progress during the call
	type iv struct {
		s, e int
		h    *HeadJ
	}
	var sets []iv
	wstart := -1
	for i, e := range o.Log {
		switch e.Kind {
		case "set-start":
			wstart = i
		case "set-end":
			sets = append(sets, iv{wstart, i, e.Head})
		}
	}
	rstart := map[int]int{}
	for i, e := range o.Log {
		if e.Kind == "read-start" {
			rstart[e.Thread] = i
		}
		if e.Kind != "read-end" || e.Err != "" {
			continue
		}
		s := rstart[e.Thread]
		before := c.Stored
		for _, w := range sets {
			if w.e < s {
				before = w.h
			}
		}
		allowed := []*HeadJ{before}
		for _, w := range sets {
			if w.s < i && w.e > s {
				allowed = append(allowed, w.h)
			}
		}
		ok := false
		for _, a := range allowed {
			if headEq(a, e.Head) {
				ok = true
			}
		}
		if !ok {
			var xs []string
			for _, a := range allowed[1:] {
				xs = append(xs, a.String())
			}
			fs = append(fs, finding{sig: "l1head-read-returns-a-head-that-was-not-current-during-the-call",
				what: fmt.Sprintf("an L1Head() call returned %s; the head recorded when it started was %s and the SetL1Head calls in progress meanwhile set [%s]",
					e.Head, before, strings.Join(xs, ", "))})
			break
		}
	}
	return fs
}

func headListP(hs []HeadJ) string {
	xs := make([]string, len(hs))
	for i := range hs {
		xs[i] = (&hs[i]).String()
	}
	return strings.Join(xs, ", ")
}

// ---- generators ------------------------------------------------------------------------------------------

// interleavings of the multiset {t_i × n_i}; stops after max (0 = all).
func interleavings(counts []int, ids []int, max int, emit func([]int)) {
	total := 0
	for _, n := range counts {
		total += n
	}
	cur := make([]int, 0, total)
	left := append([]int(nil), counts...)
	n := 0
	var rec func() bool
	rec = func() bool {
		if len(cur) == total {
			emit(append([]int(nil), cur...))
			n++
			return max == 0 || n < max
		}
		for i := range left {
			if left[i] == 0 {
				continue
			}
			left[i]--
			cur = append(cur, ids[i])
			if !rec() {
				return false
			}
			cur = cur[:len(cur)-1]
			left[i]++
		}
		return true
	}
	rec()
}

var (
	headOld = HeadJ{L2: 10, Hash: 0xa0, Root: 0x10a0}
	headNew = HeadJ{L2: 20, Hash: 0xb0, Root: 0x10b0}
	headNw2 = HeadJ{L2: 30, Hash: 0xc0, Root: 0x10c0}
)

// cacheSchedCases: small systems, every interleaving of their database operations (a goroutine with k
// calls has 2k+1 segments when every call reaches the database).
func cacheSchedCases(r *lib.RNG, thorough bool) []*CacheCase {
	var out []*CacheCase
	type sys struct {
		stored *HeadJ
		sets   []HeadJ
		reads  []int
		sample int // 0 = exhaustive
	}
	old := headOld
	systems := []sys{
		{&old, []HeadJ{headNew}, []int{1}, 0},
		{nil, []HeadJ{headNew}, []int{1}, 0},
		{&old, []HeadJ{headNew}, []int{2}, 0},
		{&old, []HeadJ{headNew, headNw2}, []int{1}, 0},
		{&old, []HeadJ{headNew, headNw2}, []int{2}, 0},
		{nil, []HeadJ{headNew, headNw2}, []int{2}, 0},
		{&old, []HeadJ{headNew}, []int{1, 1}, 0},
		{&old, []HeadJ{headNew}, []int{2, 1}, 1500},
		{&old, []HeadJ{headNew, headNw2}, []int{1, 1}, 1500},
		{&old, []HeadJ{headNew, headNw2}, []int{1, 1, 1}, 600},
	}
	for si, s := range systems {
		counts := []int{2*len(s.sets) + 1}
		ids := []int{-1}
		for k, n := range s.reads {
			counts = append(counts, 2*n+1)
			ids = append(ids, k)
		}
		if s.sample == 0 || thorough {
			max := 0
			if thorough && s.sample != 0 {
				max = 20000
			}
			interleavings(counts, ids, max, func(sch []int) {
				out = append(out, &CacheCase{Name: fmt.Sprintf("l1cache-sched-%d-%d", si, len(out)), Family: "l1cache-sched",
					Stored: s.stored, Sets: s.sets, Reads: s.reads, Sched: sch})
			})
			continue
		}
		// random interleavings of the same multiset
		rr := r.Fork(uint64(si))
		for n := 0; n < s.sample; n++ {
			left := append([]int(nil), counts...)
			total := 0
			for _, c := range left {
				total += c
			}
			sch := make([]int, 0, total)
			for total > 0 {
				k := rr.Intn(total)
				for i := range left {
					if k < left[i] {
						left[i]--
						sch = append(sch, ids[i])
						break
					}
					k -= left[i]
				}
				total--
			}
			out = append(out, &CacheCase{Name: fmt.Sprintf("l1cache-sched-%d-r%d", si, n), Family: "l1cache-sched",
				Stored: s.stored, Sets: s.sets, Reads: s.reads, Sched: sch})
		}
	}
	return out
}

// runCacheFree: one free-running round.
func runCacheFree(c *CacheCase) *cacheObs {
	obs := &cacheObs{Got: make([][]*HeadJ, len(c.Reads))}
	ctl := &gateCtl{yield: c.Yield}
	chain, raw := newCacheChain(c, ctl)
	start := make(chan struct{})
	var wg sync.WaitGroup
	var mu sync.Mutex
	for k, n := range c.Reads {
		wg.Add(1)
		go func(k, n int) {
			defer wg.Done()
			<-start
			for i := 0; i < n; i++ {
				h, msg := readHead(chain)
				mu.Lock()
				if msg != "" {
					obs.GotErr = append(obs.GotErr, msg)
				}
				obs.Got[k] = append(obs.Got[k], h)
				mu.Unlock()
			}
		}(k, n)
	}
	wg.Add(1)
	go func() {
		defer wg.Done()
		<-start
		for i := range c.Sets {
			if c.Round%3 == 1 {
				runtime.Gosched()
			}
			err, panicked, stack := lib.Try(func() error { return chain.SetL1Head(toL1Head(c.Sets[i])) })
			mu.Lock()
			if panicked {
				obs.Panic = err.Error() + "\n" + stack
			} else if err != nil {
				obs.SetErr = append(obs.SetErr, err.Error())
			} else {
				obs.Done++
			}
			mu.Unlock()
		}
	}()
	close(start)
	fin := make(chan struct{})
	go func() { wg.Wait(); close(fin) }()
	select {
	case <-fin:
	case <-time.After(gateTimeout):
		obs.Stalled = "the calls did not return"
		return obs
	}
	ctl.mu.Lock()
	ctl.yield = false
	ctl.mu.Unlock()
	obs.Record = rawHead(raw)
	obs.Served, obs.ServeErr = readHead(chain)
	return obs
}

// cacheFreeOracle: final state, and every value returned is the stored head or one that was set.
func cacheFreeOracle(c *CacheCase, o *cacheObs) []finding {
	fs := cacheOracle(c, &cacheObs{Record: o.Record, Served: o.Served, ServeErr: o.ServeErr, GotErr: o.GotErr, SetErr: o.SetErr,
		Stalled: o.Stalled, Panic: o.Panic})
	for _, g := range o.Got {
		for _, h := range g {
			known := headEq(h, c.Stored)
			for i := range c.Sets {
				if headEq(h, &c.Sets[i]) {
					known = true
				}
			}
			if !known {
				fs = append(fs, finding{sig: "l1head-unknown-value", what: fmt.Sprintf("L1Head() returned %s, which is neither the stored head nor a head handed to SetL1Head", h)})
				return fs
			}
		}
	}
	return fs
}

// ---- the two families, run and reported -----------------------------------------------------------------

func runCacheFamilies(f lib.Flags, res *lib.Result, drv *lib.Driver, r *lib.RNG, only *CacheCase) {
	policy, err := probeCachePolicy()
	if err != nil {
		// never green, but the families still run: the oracle on the real code does not need the model
		res.Fatalf("l1cache: probe of Blockchain.L1Head failed: %v", err)
		policy = "c"
	}
	res.Hit("l1cache:policy-probed=" + map[string]string{"d": "direct-database-read", "c": "memo-in-front-of-the-record"}[policy])
	reported := map[string]bool{}
	report := func(c *CacheCase, fs []finding, o *cacheObs) {
		for _, fd := range fs {
			res.Hit("finding:" + fd.sig)
			res.Hit(c.Family + ":runs-with-a-violation")
			if reported[fd.sig] {
				continue
			}
			reported[fd.sig] = true
			res.Violate(lib.Violation{Sig: fd.sig, What: fd.what, Replay: map[string]any{"cache_case": c, "tokens": o.Tokens, "calls": o.Log}})
		}
	}
	var sched []*CacheCase
	if only != nil {
		if only.Family == "l1cache-sched" {
			sched = []*CacheCase{only, only, only}
		}
	} else {
		sched = cacheSchedCases(r.Fork(11), f.Thorough())
	}
	// deterministic schedules, a few workers (each case has its own instance and controller)
	type outT struct {
		c *CacheCase
		o *cacheObs
	}
	outs := make([]outT, len(sched))
	var wg sync.WaitGroup
	idx := make(chan int)
	// an implementation that serialises reads and writes of the record with a lock cannot be parked
	// inside a database operation while another goroutine goes on: after two such schedules the rest of
	// the family is left out (the free-running family does not depend on parking)
	var blocked atomic.Int32
	for w := 0; w < 4; w++ {
		wg.Add(1)
		go func() {
			defer wg.Done()
			for i := range idx {
				if blocked.Load() >= 2 {
					outs[i] = outT{sched[i], nil}
					continue
				}
				o := runCacheSched(sched[i])
				if o.Blocked != "" {
					blocked.Add(1)
				}
				outs[i] = outT{sched[i], o}
			}
		}()
	}
	for i := range sched {
		idx <- i
	}
	close(idx)
	wg.Wait()
	var lines []string
	var which []int
	skipped := 0
	for i, x := range outs {
		c, o := x.c, x.o
		if o == nil {
			skipped++
			continue
		}
		key, _ := json.Marshal(c)
		res.Case(string(key), len(c.Sets) > 0 && len(c.Reads) > 0)
		res.Hit("family=" + c.Family)
		if o.Stalled != "" {
			res.Fatalf("l1cache case %s: %s", c.Name, o.Stalled)
			continue
		}
		if o.Blocked != "" {
			res.Hit("l1cache:schedule-not-possible-in-this-implementation(blocked)")
			report(c, cacheOracle(c, &cacheObs{Record: o.Record, Served: o.Served, ServeErr: o.ServeErr, GotErr: o.GotErr, SetErr: o.SetErr}), o)
			continue
		}
		// shape of the interleaving
		if c.Stored != nil {
			res.Hit("l1cache:fresh-instance-over-a-stored-head")
		}
		firstGetExit, firstPutExit, lastReaderTok := -1, -1, -1
		gets := 0
		for k, t := range o.Tokens {
			if strings.HasSuffix(t, ".o") {
				if t[0] == 'w' && firstPutExit < 0 {
					firstPutExit = k
				}
				if t[0] == 'r' {
					gets++
					if firstGetExit < 0 {
						firstGetExit = k
					}
				}
			}
			if t[0] == 'r' {
				lastReaderTok = k
			}
		}
		res.HitN("l1cache:database-reads-by-readers", gets)
		res.HitN("l1cache:operations-on-the-key-by-unscheduled-goroutines", o.Foreign)
		if firstGetExit >= 0 && firstPutExit > firstGetExit && lastReaderTok > firstPutExit {
			res.Hit("l1cache:reader-fetched-before-the-write-and-went-on-after-it")
		}
		for j, e := range o.Log {
			if e.Kind == "read-end" && j > 0 && len(c.Sets) > 0 && !headEq(e.Head, c.Stored) {
				res.Hit("l1cache:read-returned-a-newly-set-head")
				break
			}
		}
		report(c, cacheOracle(c, o), o)
		lines = append(lines, cacheModelLine(policy, c, o.Tokens))
		which = append(which, i)
	}
	if skipped > 0 {
		res.HitN("l1cache:schedules-left-out-because-the-implementation-serialises-with-a-lock", skipped)
		res.Note("l1cache-sched: %d schedules left out: a goroutine parked inside a database operation on the L1Height key blocks the others (reads and writes of the record are serialised by a lock); the free-running family covers the interleavings that remain possible", skipped)
	}
	if len(lines) > 0 && drv != nil {
		drvMu.Lock()
		ans, err := drv.AskAll(lines)
		drvMu.Unlock()
		if err != nil {
			res.Fatalf("l1cache: Lean driver died or answered short: %v", err)
		} else {
			for k, a := range ans {
				c, o := outs[which[k]].c, outs[which[k]].o
				if a == "bad-op" {
					res.Fatalf("l1cache: Lean driver answered bad-op to: %s", lines[k])
					break
				}
				res.Compared(1)
				if want := cacheObserved(o); cacheModelObservable(a) != want {
					res.Mismatch(lib.Mismatch{Sig: "model-vs-blockchain: concurrent L1Head/SetL1Head (policy " + policy + ")",
						Input: map[string]any{"cache_case": c, "line": lines[k]}, Model: a, Impl: want})
				}
			}
		}
	}
	// free-running rounds
	rounds := f.Scale(1500, 10000)
	if only != nil {
		rounds = 0
		if only.Family == "l1cache-free" {
			rounds = 2000
		}
	}
	rf := r.Fork(12)
	stalled := 0
	for i := 0; i < rounds && stalled < 3; i++ {
		c := &CacheCase{Name: fmt.Sprintf("l1cache-free-%d", i), Family: "l1cache-free", Round: i, Yield: i%2 == 0}
		if only != nil {
			cp := *only
			cp.Round = i
			c = &cp
		} else {
			old := headOld
			if i%7 != 6 {
				c.Stored = &old
			}
			c.Sets = []HeadJ{headNew, headNw2}[:1+rf.Intn(2)]
			for k, n := 0, 2+rf.Intn(5); k < n; k++ {
				c.Reads = append(c.Reads, 1+rf.Intn(6))
			}
		}
		o := runCacheFree(c)
		if i < 40 || i%50 == 0 {
			key, _ := json.Marshal(c)
			res.Case(string(key), true)
		}
		res.Hit("family=" + c.Family)
		if c.Yield {
			res.Hit("l1cache-free:wrapper-yields-after-a-read-of-the-key")
		}
		if o.Stalled != "" {
			stalled++
			res.Fatalf("l1cache case %s: %s", c.Name, o.Stalled)
			continue
		}
		mixed := false
		for _, g := range o.Got {
			for _, h := range g {
				if !headEq(h, c.Stored) {
					mixed = true
				}
			}
		}
		if mixed {
			res.Hit("l1cache-free:a-reader-saw-a-newly-set-head")
		}
		report(c, cacheFreeOracle(c, o), o)
	}
	res.HitN("l1cache-free:gomaxprocs", runtime.GOMAXPROCS(0))
}

// cacheRaceChild (thorough tier): this harness built with -race, running only the concurrent L1-head
// families in a child process; a report of the race detector is a finding.
func cacheRaceChild(f lib.Flags, res *lib.Result) {
	repo := os.Getenv("VERIF_REPO")
	if repo == "" {
		repo = "/repo"
	}
	verif, _ := os.Getwd()
	if _, err := os.Stat(filepath.Join(verif, "harness", "go.mod")); err != nil {
		verif = "/verif"
	}
	args := []string{"build", "-race", "-tags", "verif"}
	tag := ""
	if repo != "/repo" {
		h := sha1.Sum([]byte(repo))
		tag = "-" + hex.EncodeToString(h[:])[:8]
		args = append(args, "-modfile="+filepath.Join(verif, ".build", "go"+tag+".mod"))
	}
	bin := filepath.Join(verif, ".build", "vh-c17-race"+tag)
	args = append(args, "-o", bin, "./cmd/c17")
	cmd := exec.Command("go", args...)
	cmd.Dir = filepath.Join(verif, "harness")
	if out, err := cmd.CombinedOutput(); err != nil {
		res.Fatalf("-race build of the harness failed: %v: %s", err, tailLines(string(out), 12))
		return
	}
	outPath := filepath.Join(verif, ".build", fmt.Sprintf("result-c17-race-%d.json", os.Getpid()))
	defer os.Remove(outPath)
	child := exec.Command(bin, "--l1cache-only", "--driver", f.Driver, "--seed", fmt.Sprint(f.Seed), "--tier", "quick", "--out", outPath)
	child.Env = append(os.Environ(), "GORACE=halt_on_error=1 exitcode=66")
	out, err := child.CombinedOutput()
	if err != nil {
		if strings.Contains(string(out), "WARNING: DATA RACE") {
			res.Violate(lib.Violation{Sig: "l1head-data-race-between-l1head-and-setl1head",
				What:   "the race detector fired while goroutines called Blockchain.L1Head() concurrently with Blockchain.SetL1Head",
				Replay: map[string]any{"report": tailLines(string(out), 60), "note": "schedule-dependent; re-run the thorough tier"}})
			return
		}
		res.Fatalf("-race child of the concurrent L1-head families failed: %v: %s", err, tailLines(string(out), 12))
		return
	}
	b, err := os.ReadFile(outPath)
	var cr struct {
		Cases        int             `json:"cases"`
		Distribution map[string]int  `json:"distribution"`
		Violations   []lib.Violation `json:"violations"`
		Fatal        []string        `json:"fatal"`
	}
	if err == nil {
		err = json.Unmarshal(b, &cr)
	}
	if err != nil {
		res.Fatalf("-race child left no readable result: %v", err)
		return
	}
	for _, ft := range cr.Fatal {
		res.Fatalf("race child: %s", ft)
	}
	for _, v := range cr.Violations {
		res.Violate(v)
	}
	for k, n := range cr.Distribution {
		res.HitN("race-child:"+k, n)
	}
}

func tailLines(s string, n int) string {
	ls := strings.Split(strings.TrimSpace(s), "\n")
	if len(ls) > n {
		ls = ls[len(ls)-n:]
	}
	return strings.Join(ls, "\n")
}
