//go:build verif

package main

import (
	"fmt"

	"verif/harness/lib"
)

// ---- family "chain": a simulated, well-behaved L1 node ------------------------------------

type simBlock struct {
	logs []Log
}

type sim struct {
	geth   bool
	r      *lib.RNG
	blocks []simBlock // canonical chain, index = L1 block number
	fin    uint64
	fork   uint64
	nextL2 uint64
}

func (s *sim) latest() uint64 { return uint64(len(s.blocks) - 1) }

func (s *sim) newBlock() []Log {
	num := uint64(len(s.blocks))
	n := lib.Pick(s.r, []int{0, 0, 1, 1, 1, 2, 3})
	var logs []Log
	for i := 0; i < n; i++ {
		h := s.nextL2*16 + s.fork%16
		logs = append(logs, Log{L2: s.nextL2, Hash: h, Root: h + 0x1000, L1: num, OverP: s.geth && s.r.Chance(1, 8)})
		s.nextL2++
	}
	s.blocks = append(s.blocks, simBlock{logs: logs})
	return logs
}

func (s *sim) allLogs(from uint64) []Log {
	var out []Log
	for i := from; i < uint64(len(s.blocks)); i++ {
		out = append(out, s.blocks[i].logs...)
	}
	return out
}

func genChainCase(r *lib.RNG, name string) *Case { return genSimCase(r, name, false) }

// genGethCase: the same simulated L1 node, but served through the fake JSON-RPC node and the REAL
// geth forwarding layer; reorgs (several per subscription) and connection drops are more frequent.
func genGethCase(r *lib.RNG, name string) *Case { return genSimCase(r, name, true) }

func genSimCase(r *lib.RNG, name string, geth bool) *Case {
	s := &sim{r: r, nextL2: uint64(r.Range(0, 3)), geth: geth}
	c := &Case{Name: name, Family: "chain", Mode: "run", FilterFailAt: -1, Canonical: true,
		PollMicros: lib.Pick(r, []int{100, 200, 200, 400})}
	n0 := r.Range(1, 12)
	if r.Chance(1, 10) {
		n0 = 1
	}
	for i := 0; i < n0; i++ {
		s.newBlock()
	}
	if r.Chance(1, 6) && len(s.blocks[0].logs) == 0 { // make L1 block 0 carry an event now and then
		h := uint64(0xf00)
		s.blocks[0].logs = []Log{{L2: 0, Hash: h, Root: h + 0x1000, L1: 0}}
	}
	s.fin = uint64(r.Range(0, int(s.latest())))
	c.Hist = s.allLogs(0)
	c.Latest = s.latest()
	c.Fin1 = s.fin
	if r.Chance(1, 3) {
		s.fin = uint64(r.Range(int(s.fin), int(s.latest())))
	}
	c.Fin2 = s.fin
	c.Chunk = lib.Pick(r, []uint64{1, 1, 2, 3, 4, 5, c.Latest + 1, c.Latest + 2, c.Latest, 1000})
	if c.Chunk == 0 {
		c.Chunk = 1
	}
	if r.Chance(1, 3) { // a head stored by an earlier life of the node
		var cands []Log
		for _, l := range c.Hist {
			if l.L1 <= c.Fin1 {
				cands = append(cands, l)
			}
		}
		if len(cands) > 0 {
			l := lib.Pick(r, cands)
			c.Stored = &HeadJ{L2: l.L2, Hash: l.Hash, Root: l.Root}
			c.StoredL1 = l.L1
		}
	}
	wAdvance, wFin, wReorg, wSub, wFinFail := 38, 63, 78, 86, 91
	if geth {
		c.Geth, c.Family = true, "geth"
		c.PollMicros = lib.Pick(r, []int{300, 500})
		wAdvance, wFin, wReorg, wSub, wFinFail = 30, 50, 82, 90, 93
	}
	if geth {
		// logs of other contracts / other events of the core contract in the same blocks, with
		// tempting values (high Starknet block numbers)
		for k := r.Range(0, 3); k > 0; k-- {
			l2 := uint64(r.Range(500, 600))
			c.Decoys = append(c.Decoys, Log{L2: l2, Hash: l2 * 16, Root: l2*16 + 0x1000,
				L1: uint64(r.Range(0, int(c.Latest))), Decoy: r.Range(1, 2)})
		}
		if r.Chance(1, 10) {
			c.ChainIDFails = r.Range(1, 2)
		}
		if r.Chance(1, 25) {
			c.ChainIDMismatch = true
		}
	}
	if !geth && r.Chance(1, 6) {
		c.FilterFailAt = r.Range(0, 3)
	}
	if !geth && r.Chance(1, 20) {
		c.LatestFail = true
	}
	if !geth && r.Chance(1, 20) {
		c.Fin1Fail = true
	}
	if !geth && r.Chance(1, 8) {
		c.ChainIDFails = r.Range(1, 2)
	}
	if !geth && r.Chance(1, 40) {
		c.ChainIDMismatch = true
	}
	if !geth && r.Chance(1, 6) {
		c.Fin2Fails = r.Range(1, 2)
	}
	if !geth && r.Chance(1, 6) {
		c.WatchFails = r.Range(1, 2)
	}
	if !geth && r.Chance(1, 3) {
		c.TimeoutErrors = true
	}
	if !geth && r.Chance(1, 7) {
		c.Mode = "oneshot"
		finish(r, c)
		return c
	}
	maybeSync := func() {
		if r.Chance(7, 10) {
			c.Ops = append(c.Ops, Op{Kind: "sync"})
		}
	}
	if r.Chance(1, 4) && len(c.Hist) > 0 {
		// the subscription starts by re-delivering the tail of what the scan has already seen
		k := r.Range(1, 3)
		if k > len(c.Hist) {
			k = len(c.Hist)
		}
		c.Ops = append(c.Ops, Op{Kind: "send", Logs: append([]Log{}, c.Hist[len(c.Hist)-k:]...)})
		maybeSync()
	}
	nops := r.Range(0, 12)
	for i := 0; i < nops; i++ {
		if geth && r.Chance(1, 12) {
			l2 := uint64(r.Range(700, 800))
			c.Ops = append(c.Ops, Op{Kind: "send", Logs: []Log{{L2: l2, Hash: l2 * 16, Root: l2*16 + 0x1000,
				L1: uint64(r.Range(0, int(s.latest()))), Decoy: r.Range(1, 2)}}})
		}
		if geth && r.Chance(1, 15) {
			c.Ops = append(c.Ops, Op{Kind: "finnotfound", N: r.Range(1, 2)}, Op{Kind: "sync"})
		}
		if geth && r.Chance(1, 10) {
			// new blocks whose logs are still in flight when the connection drops
			var logs []Log
			for k := r.Range(1, 3); k > 0; k-- {
				logs = append(logs, s.newBlock()...)
			}
			if len(logs) > 0 {
				c.Ops = append(c.Ops, Op{Kind: "suberr-inflight", Logs: logs, N: r.Range(0, 3)}, Op{Kind: "sync"})
			}
		}
		switch x := r.Intn(100); {
		case x < wAdvance: // advance
			var logs []Log
			for k := r.Range(1, 3); k > 0; k-- {
				logs = append(logs, s.newBlock()...)
			}
			if len(logs) > 0 {
				c.Ops = append(c.Ops, Op{Kind: "send", Logs: logs})
			}
			maybeSync()
		case x < wFin: // finalise
			s.fin = uint64(r.Range(int(s.fin), int(s.latest())))
			c.Ops = append(c.Ops, Op{Kind: "fin", Fin: s.fin})
			maybeSync()
		case x < wReorg: // reorg above the finalised height
			if s.latest() <= s.fin {
				continue
			}
			f := uint64(r.Range(int(s.fin), int(s.latest())-1)) // fork point: last surviving block
			var removed []Log
			for b := f + 1; b <= s.latest(); b++ {
				for _, l := range s.blocks[b].logs {
					l.Removed = true
					removed = append(removed, l)
				}
			}
			if r.Bool() { // geth reports removed logs newest first or oldest first depending on version
				for i, j := 0, len(removed)-1; i < j; i, j = i+1, j-1 {
					removed[i], removed[j] = removed[j], removed[i]
				}
			}
			// L2 counter goes back to what it was at the fork point
			if len(removed) > 0 {
				min := removed[0].L2
				for _, l := range removed {
					if l.L2 < min {
						min = l.L2
					}
				}
				s.nextL2 = min
			}
			s.blocks = s.blocks[:f+1]
			s.fork++
			var fresh []Log
			for k := r.Range(1, 3); k > 0; k-- {
				fresh = append(fresh, s.newBlock()...)
			}
			// go-ethereum's filter system takes removed logs and new logs from two feeds in one
			// select: either may come first, or they interleave
			if x := r.Intn(8); x < 2 && len(removed) > 0 && len(fresh) > 0 {
				var mixed []Log
				if x == 0 {
					mixed = append(append([]Log{}, fresh...), removed...) // replacement first
				} else {
					a, b := removed, fresh
					for len(a)+len(b) > 0 {
						if len(b) == 0 || (len(a) > 0 && r.Bool()) {
							mixed, a = append(mixed, a[0]), a[1:]
						} else {
							mixed, b = append(mixed, b[0]), b[1:]
						}
					}
				}
				c.Ops = append(c.Ops, Op{Kind: "send", Logs: mixed})
			} else if r.Bool() {
				if len(removed)+len(fresh) > 0 {
					c.Ops = append(c.Ops, Op{Kind: "send", Logs: append(append([]Log{}, removed...), fresh...)})
				}
			} else {
				if len(removed) > 0 {
					c.Ops = append(c.Ops, Op{Kind: "send", Logs: removed})
				}
				if len(fresh) > 0 {
					c.Ops = append(c.Ops, Op{Kind: "send", Logs: fresh})
				}
			}
			maybeSync()
		case x < wSub: // subscription error
			c.Ops = append(c.Ops, Op{Kind: "suberr", N: r.Range(0, 2)})
			maybeSync()
		case x < wFinFail: // failing finalised-height polls
			c.Ops = append(c.Ops, Op{Kind: "finfail", N: r.Range(1, 3)}, Op{Kind: "sync"})
		default: // late delivery / replay of older canonical logs (e.g. after a resubscription)
			all := s.allLogs(0)
			if len(all) == 0 {
				continue
			}
			c.Ops = append(c.Ops, Op{Kind: "sync"})
			if r.Bool() {
				c.Ops = append(c.Ops, Op{Kind: "send", Logs: []Log{lib.Pick(r, all)}})
			} else {
				from := uint64(r.Range(0, int(s.latest())))
				if logs := s.allLogs(from); len(logs) > 0 {
					if r.Bool() {
						c.Ops = append(c.Ops, Op{Kind: "send", Logs: logs})
					} else { // replay trickling in with polls in between
						for _, l := range logs {
							c.Ops = append(c.Ops, Op{Kind: "send", Logs: []Log{l}}, Op{Kind: "sync"})
						}
					}
				}
			}
			c.Ops = append(c.Ops, Op{Kind: "sync"})
		}
	}
	finish(r, c)
	return c
}

// finish: one case in five gets large, sparse L1 heights.
func finish(r *lib.RNG, c *Case) {
	if !r.Chance(1, 5) {
		return
	}
	stride := lib.Pick(r, []uint64{7, 300, 1000, 2500})
	spread(c, 0, stride)
	c.Chunk = lib.Pick(r, []uint64{stride/2 + 1, stride, stride + 1, 1000, 3 * stride})
	if min := c.Latest/40 + 1; c.Chunk < min { // a scan to genesis stays within ~40 queries
		c.Chunk = min
	}
}

// gethDirected: several reorgs on ONE subscription, the later ones at or above the height of the
// first, removed logs in bursts, replacement blocks without logs, then finality moves past the
// reorged blocks: any removal notice the forwarding layer loses turns into a removed commit being
// recorded as L1 head.
func gethDirected(r *lib.RNG, name string) *Case {
	c := &Case{Name: name, Family: "geth", Geth: true, Mode: "run", FilterFailAt: -1, Canonical: true,
		Chunk: lib.Pick(r, []uint64{1, 3, 1000}), PollMicros: 300}
	base := uint64(r.Range(2, 6)) // last block before the action; everything at or below is final
	l2 := uint64(r.Range(1, 4))
	mk := func(l1, fork uint64) Log {
		h := l2*16 + fork%16
		l := Log{L2: l2, Hash: h, Root: h + 0x1000, L1: l1, OverP: r.Chance(1, 8)}
		l2++
		return l
	}
	first := mk(uint64(r.Range(0, int(base))), 0)
	c.Hist = []Log{first}
	c.Latest, c.Fin1, c.Fin2 = base, base, base
	fin := base
	var fork uint64
	rounds := r.Range(2, 4)
	height := base + uint64(r.Range(1, 2)) // height of the first reorged block
	top := base
	for i := 0; i < rounds; i++ {
		// a burst of blocks with logs on the current fork …
		startL2 := l2
		var burst []Log
		nb := r.Range(1, 3)
		for b := 0; b < nb; b++ {
			for k := r.Range(1, 2); k > 0; k-- {
				burst = append(burst, mk(height+uint64(b), fork))
			}
		}
		top = height + uint64(nb) - 1
		c.Ops = append(c.Ops, Op{Kind: "send", Logs: burst})
		if r.Chance(1, 3) {
			c.Ops = append(c.Ops, Op{Kind: "sync"})
		}
		if i == rounds-1 && r.Chance(1, 3) {
			break // last fork survives
		}
		// … reorged away: removal notices for all of them, in one burst
		removed := make([]Log, len(burst))
		for k, l := range burst {
			l.Removed = true
			removed[k] = l
		}
		if r.Bool() {
			for a, b := 0, len(removed)-1; a < b; a, b = a+1, b-1 {
				removed[a], removed[b] = removed[b], removed[a]
			}
		}
		c.Ops = append(c.Ops, Op{Kind: "send", Logs: removed})
		l2 = startL2
		fork++
		if r.Chance(1, 6) {
			c.Ops = append(c.Ops, Op{Kind: "suberr"})
		}
		// the next reorg happens at the same height or above
		height += uint64(r.Range(0, 2))
	}
	if top < height {
		top = height
	}
	fin = top + uint64(r.Range(0, 2))
	c.Ops = append(c.Ops, Op{Kind: "sync"}, Op{Kind: "fin", Fin: fin}, Op{Kind: "sync"})
	return c
}

// ---- family "free": arbitrary traces (correspondence on every trace; oracle while well-behaved)

func genFreeCase(r *lib.RNG, name string) *Case {
	c := &Case{Name: name, Family: "free", Mode: "run", FilterFailAt: -1,
		PollMicros: lib.Pick(r, []int{100, 200, 400})}
	rl := func(maxL1 int) Log {
		l2 := uint64(r.Range(0, 6))
		h := l2*16 + uint64(r.Intn(3))
		return Log{L2: l2, Hash: h, Root: h + 0x1000, L1: uint64(r.Range(0, maxL1)), Removed: r.Chance(1, 5)}
	}
	c.Latest = uint64(r.Range(0, 8))
	for n := r.Range(0, 6); n > 0; n-- {
		l := rl(int(c.Latest) + 1)
		if r.Chance(4, 5) {
			l.Removed = false
		}
		c.Hist = append(c.Hist, l)
	}
	c.Fin1 = uint64(r.Range(0, 8))
	c.Fin2 = uint64(r.Range(0, 8))
	c.Chunk = uint64(r.Range(1, 5))
	if r.Chance(1, 4) {
		c.FilterFailAt = r.Range(0, 2)
	}
	if r.Chance(1, 4) {
		l := rl(5)
		c.Stored = &HeadJ{L2: l.L2, Hash: l.Hash, Root: l.Root}
		c.StoredL1 = l.L1
	}
	if r.Chance(1, 10) {
		c.Mode = "oneshot"
		return c
	}
	for n := r.Range(0, 10); n > 0; n-- {
		switch x := r.Intn(10); {
		case x < 5:
			var logs []Log
			for k := r.Range(1, 3); k > 0; k-- {
				logs = append(logs, rl(8))
			}
			c.Ops = append(c.Ops, Op{Kind: "send", Logs: logs})
		case x < 8:
			c.Ops = append(c.Ops, Op{Kind: "fin", Fin: uint64(r.Range(0, 8))})
		case x < 9:
			c.Ops = append(c.Ops, Op{Kind: "suberr", N: r.Range(0, 1)})
		default:
			c.Ops = append(c.Ops, Op{Kind: "finfail", N: 1})
		}
		if r.Chance(2, 3) {
			c.Ops = append(c.Ops, Op{Kind: "sync"})
		}
	}
	return c
}

// ---- family "enum": every op sequence up to a length over a small alphabet, fully synced ----

func enumCases(maxLen int) []*Case {
	type sym struct {
		kind string // "u" update at l1, "r" removal at l1, "f" finalise
		v    uint64
	}
	var alpha []sym
	for v := uint64(0); v < 3; v++ {
		alpha = append(alpha, sym{"u", v}, sym{"r", v}, sym{"f", v})
	}
	var out []*Case
	var rec func(prefix []sym)
	build := func(seq []sym) *Case {
		name := "enum"
		c := &Case{Family: "enum", Mode: "run", FilterFailAt: -1, Chunk: 2, PollMicros: 100, LatestFail: true}
		next := uint64(1)
		live := map[uint64]Log{}
		for _, s := range seq {
			name += fmt.Sprintf("-%s%d", s.kind, s.v)
			switch s.kind {
			case "u":
				l := Log{L2: next, Hash: next * 16, Root: next*16 + 0x1000, L1: s.v}
				next++
				live[s.v] = l
				c.Ops = append(c.Ops, Op{Kind: "send", Logs: []Log{l}}, Op{Kind: "sync"})
			case "r":
				l, ok := live[s.v]
				if !ok {
					l = Log{L2: 99, Hash: 99 * 16, Root: 99*16 + 0x1000, L1: s.v}
				}
				l.Removed = true
				for k := range live {
					if k >= s.v {
						delete(live, k)
					}
				}
				c.Ops = append(c.Ops, Op{Kind: "send", Logs: []Log{l}}, Op{Kind: "sync"})
			case "f":
				c.Ops = append(c.Ops, Op{Kind: "fin", Fin: s.v}, Op{Kind: "sync"})
			}
		}
		c.Name = name
		return c
	}
	rec = func(prefix []sym) {
		if len(prefix) > 0 {
			out = append(out, build(prefix))
		}
		if len(prefix) == maxLen {
			return
		}
		for _, a := range alpha {
			rec(append(append([]sym{}, prefix...), a))
		}
	}
	rec(nil)
	return out
}

// ---- catch-up grid: every (chunk, latest, fin) over small histories, one-shot mode ----------

func catchupGrid(r *lib.RNG, n int) []*Case {
	var out []*Case
	for i := 0; i < n; i++ {
		latest := uint64(r.Range(0, 9))
		c := &Case{Name: fmt.Sprintf("grid-%d", i), Family: "grid", Mode: "oneshot", FilterFailAt: -1, Canonical: true,
			Latest: latest, PollMicros: 100}
		l2 := uint64(1)
		for b := uint64(0); b <= latest+1; b++ { // one block beyond `latest`: must not be picked up
			for k := lib.Pick(r, []int{0, 0, 1, 1, 2}); k > 0; k-- {
				c.Hist = append(c.Hist, Log{L2: l2, Hash: l2 * 16, Root: l2*16 + 0x1000, L1: b})
				l2++
			}
		}
		c.Fin1 = uint64(r.Range(0, int(latest)))
		c.Fin2 = uint64(r.Range(int(c.Fin1), int(latest)+1))
		c.Chunk = uint64(r.Range(1, int(latest)+3))
		if r.Chance(1, 5) {
			c.FilterFailAt = r.Range(0, 3)
		}
		out = append(out, c)
	}
	return out
}

// ---- family "faults": every combination of start-up faults on one small history -----------

func faultCases() []*Case {
	hist := []Log{{L2: 1, Hash: 0x10, Root: 0x1010, L1: 1}, {L2: 2, Hash: 0x20, Root: 0x1020, L1: 3},
		{L2: 3, Hash: 0x30, Root: 0x1030, L1: 5}, {L2: 4, Hash: 0x40, Root: 0x1040, L1: 5}}
	live := Log{L2: 5, Hash: 0x50, Root: 0x1050, L1: 7}
	type st struct {
		h  *HeadJ
		l1 uint64
	}
	stored := []st{{nil, 0}, {&HeadJ{1, 0x10, 0x1010}, 1}, {&HeadJ{2, 0x20, 0x1020}, 3}}
	var out []*Case
	for _, mode := range []string{"run", "oneshot"} {
		for _, cf := range []int{0, 2} {
			for _, mm := range []bool{false, true} {
				for _, lf := range []bool{false, true} {
					for _, ff := range []bool{false, true} {
						for _, fa := range []int{-1, 0, 1, 2} {
							for _, f2 := range []int{0, 1} {
								for _, wf := range []int{0, 2} {
									for si, sh := range stored {
										if mode == "oneshot" && wf > 0 {
											continue
										}
										c := &Case{Family: "faults", Mode: mode, Stored: sh.h, StoredL1: sh.l1, Chunk: 2,
											Hist: hist, Latest: 6, Fin1: 3, Fin2: 4, ChainIDFails: cf, ChainIDMismatch: mm,
											LatestFail: lf, Fin1Fail: ff, FilterFailAt: fa, Fin2Fails: f2, WatchFails: wf,
											PollMicros: 100, Canonical: true,
											Ops: []Op{{Kind: "send", Logs: []Log{live}}, {Kind: "sync"}, {Kind: "fin", Fin: 7}, {Kind: "sync"}}}
										c.TimeoutErrors = si == 1 // a third of the cases: the failures are expired call timeouts
										c.Name = fmt.Sprintf("faults-%s-c%d-m%v-l%v-f%v-q%d-p%d-w%d-s%d", mode, cf, mm, lf, ff, fa, f2, wf, si)
										out = append(out, c)
									}
								}
							}
						}
					}
				}
			}
		}
	}
	return out
}

// ---- exhaustive small catch-up space + uint64 boundaries ---------------------------------

func exhaustiveCatchups(maxLatest int) []*Case {
	var out []*Case
	for latest := 0; latest <= maxLatest; latest++ {
		nblk := latest + 2 // one block beyond `latest`
		for mask := 0; mask < 1<<nblk; mask++ {
			var hist []Log
			l2 := uint64(1)
			for b := 0; b < nblk; b++ {
				if mask&(1<<b) != 0 {
					hist = append(hist, Log{L2: l2, Hash: l2 * 16, Root: l2*16 + 0x1000, L1: uint64(b)})
					l2++
				}
			}
			for chunk := 1; chunk <= latest+2; chunk++ {
				for fin1 := 0; fin1 <= latest; fin1++ {
					for _, fin2 := range []int{fin1, latest + 1} {
						out = append(out, &Case{Name: fmt.Sprintf("xgrid-%d-%x-%d-%d-%d", latest, mask, chunk, fin1, fin2),
							Family: "xgrid", Mode: "oneshot", FilterFailAt: -1, Canonical: true, Hist: hist,
							Latest: uint64(latest), Fin1: uint64(fin1), Fin2: uint64(fin2), Chunk: uint64(chunk), PollMicros: 100})
					}
				}
			}
		}
	}
	return out
}

func boundaryCases() []*Case {
	const max = ^uint64(0)
	big := func(l2, l1 uint64) Log { return Log{L2: l2, Hash: l2 % 1000, Root: l2%1000 + 7, L1: l1} }
	mk := func(name string, c Case) *Case {
		c.Name, c.Family, c.FilterFailAt, c.Canonical = "boundary-"+name, "boundary", -1, true
		if c.PollMicros == 0 {
			c.PollMicros = 100
		}
		return &c
	}
	return []*Case{
		// the scan starts at the largest uint64: `to+1` wraps, one query [0, max]
		mk("latest-max-chunk-1000", Case{Mode: "oneshot", Chunk: 1000, Latest: max, Fin1: max - 5, Fin2: max,
			Hist: []Log{big(1<<40, 7), big(1<<40+1, max-6), big(1<<40+2, max)}}),
		mk("latest-max-chunk-max", Case{Mode: "oneshot", Chunk: max, Latest: max, Fin1: 0, Fin2: max - 1,
			Hist: []Log{big(5, 0), big(6, max-1), big(7, max)}}),
		mk("latest-max-minus-1", Case{Mode: "oneshot", Chunk: max, Latest: max - 1, Fin1: max - 1, Fin2: max - 1,
			Hist: []Log{big(5, 0), big(6, max-1), big(7, max)}}),
		mk("chunk-equals-latest-plus-1", Case{Mode: "oneshot", Chunk: 8, Latest: 7, Fin1: 0, Fin2: 7,
			Hist: []Log{big(5, 0), big(6, 7)}}),
		mk("chunk-equals-latest", Case{Mode: "oneshot", Chunk: 7, Latest: 7, Fin1: 0, Fin2: 7,
			Hist: []Log{big(5, 0), big(6, 7)}}),
		// finalised height 0 and an event in L1 block 0; Starknet block numbers around 2^32 and 2^64
		mk("fin-0-block-0", Case{Mode: "run", Chunk: 3, Latest: 0, Fin1: 0, Fin2: 0, Hist: []Log{big(0, 0)},
			Ops: []Op{{Kind: "sync"}, {Kind: "send", Logs: []Log{big(1<<32, 1)}}, {Kind: "sync"}, {Kind: "fin", Fin: 1}, {Kind: "sync"}}}),
		mk("l2-around-2-pow-32", Case{Mode: "run", Chunk: 3, Latest: 2, Fin1: 2, Fin2: 2, LatestFail: true,
			Ops: []Op{{Kind: "send", Logs: []Log{big(1<<32-1, 1)}}, {Kind: "sync"}, {Kind: "send", Logs: []Log{big(1<<32, 2)}}, {Kind: "sync"},
				{Kind: "send", Logs: []Log{big(1<<32-1, 1)}}, {Kind: "sync"}}}),
		mk("l2-max", Case{Mode: "run", Chunk: 3, Latest: 2, Fin1: max, Fin2: max, LatestFail: true,
			Ops: []Op{{Kind: "send", Logs: []Log{big(max-1, 1)}}, {Kind: "sync"}, {Kind: "send", Logs: []Log{big(max, max)}}, {Kind: "sync"},
				{Kind: "send", Logs: []Log{{L2: max - 1, Hash: (max - 1) % 1000, Root: (max-1)%1000 + 7, L1: 1}}}, {Kind: "sync"}}}),
		mk("removal-at-max", Case{Mode: "run", Chunk: 3, Latest: 2, Fin1: 1, Fin2: 1, LatestFail: true,
			Ops: []Op{{Kind: "send", Logs: []Log{big(9, max)}}, {Kind: "sync"},
				{Kind: "send", Logs: []Log{{L2: 9, Hash: 9, Root: 16, L1: max, Removed: true}}}, {Kind: "sync"}, {Kind: "fin", Fin: max}, {Kind: "sync"}}}),
		mk("stored-newer-than-scan", Case{Mode: "run", Chunk: 2, Latest: 9, Fin1: 6, Fin2: 6, Stored: &HeadJ{9, 9, 16}, StoredL1: 6,
			Hist: []Log{big(7, 2), big(8, 4)}, // the node's history lacks the log the stored head came from
			Ops:  []Op{{Kind: "sync"}, {Kind: "send", Logs: []Log{big(10, 8)}}, {Kind: "sync"}, {Kind: "fin", Fin: 8}, {Kind: "sync"}}}),
		// the L1 node has not reported ANY finalised height yet (first read and six polls fail) while an
		// event of L1 block 0 — at or below every height it could ever report — waits in the buffer
		mk("no-finality-report-yet", Case{Mode: "run", Chunk: 3, Latest: 4, Fin1: 0, Fin2: 0, Fin1Fail: true,
			Ops: []Op{{Kind: "finfail", N: 6}, {Kind: "send", Logs: []Log{big(3, 0), big(4, 2)}}, {Kind: "sync"}, {Kind: "fin", Fin: 2}, {Kind: "sync"}}}),
		// the context ends while the client is still retrying: the subscription never succeeds (the
		// catch-up has recorded a head by then) / the chain-id probe never answers (nothing is touched)
		mk("never-subscribes", Case{Mode: "run", Chunk: 3, Latest: 4, Fin1: 2, Fin2: 3, WatchFails: neverSucceeds,
			Hist: []Log{big(3, 1), big(4, 3), big(5, 4)}}),
		mk("chain-id-never-answers", Case{Mode: "run", Chunk: 3, Latest: 4, Fin1: 2, Fin2: 3, ChainIDFails: neverSucceeds,
			Stored: &HeadJ{2, 2, 9}, StoredL1: 0, Hist: []Log{big(3, 1), big(4, 3)}}),
		// … / the probe is cancelled in the middle of the call (after one failed attempt)
		mk("chain-id-probe-cancelled-mid-call", Case{Mode: "run", Chunk: 3, Latest: 4, Fin1: 2, Fin2: 3, ChainIDFails: 1, ChainIDHangs: true,
			Stored: &HeadJ{2, 2, 9}, StoredL1: 0, Hist: []Log{big(3, 1), big(4, 3)}}),
		mk("stored-older-than-scan", Case{Mode: "run", Chunk: 2, Latest: 9, Fin1: 6, Fin2: 6, Stored: &HeadJ{7, 7, 14}, StoredL1: 2,
			Hist: []Log{big(7, 2), big(8, 4)}, Ops: []Op{{Kind: "sync"}}}),
	}
}

// The review's trace: the log of the replacement chain is delivered before the removal notice of
// the log it replaces.
func leadOvertake() *Case {
	a := Log{L2: 1, Hash: 0x10, Root: 0x1010, L1: 5}
	b := Log{L2: 2, Hash: 0x20, Root: 0x1020, L1: 6}
	b2 := Log{L2: 2, Hash: 0x21, Root: 0x1021, L1: 6}
	rb := b
	rb.Removed = true
	return &Case{Name: "lead-overtake", Family: "chain", Mode: "run", FilterFailAt: -1, Canonical: true,
		Chunk: 1000, Latest: 10, Fin1: 3, Fin2: 3, LatestFail: true, PollMicros: 200,
		Ops: []Op{{Kind: "send", Logs: []Log{a, b}}, {Kind: "sync"}, {Kind: "send", Logs: []Log{b2, rb}}, {Kind: "sync"},
			{Kind: "fin", Fin: 10}, {Kind: "sync"}}}
}

// ---- family "dbfault": the stored-head read / write fails inside setL1Head -------------------

func dbFaultCases() []*Case {
	h1 := []Log{{L2: 1, Hash: 0x10, Root: 0x1010, L1: 1}, {L2: 2, Hash: 0x20, Root: 0x1020, L1: 3}}
	var out []*Case
	for _, kind := range []string{"r", "w"} {
		for at := 1; at <= 3; at++ {
			for _, stored := range []bool{false, true} {
				for _, scan := range []bool{false, true} {
					c := &Case{Family: "dbfault", Mode: "run", FilterFailAt: -1, Canonical: true, Chunk: 2,
						Latest: 6, Fin1: 3, Fin2: 3, LatestFail: !scan, PollMicros: 100, DBFault: kind, DBFaultAt: at,
						Ops: []Op{{Kind: "send", Logs: []Log{{L2: 3, Hash: 0x30, Root: 0x1030, L1: 4}}}, {Kind: "sync"},
							{Kind: "fin", Fin: 4}, {Kind: "sync"},
							{Kind: "send", Logs: []Log{{L2: 4, Hash: 0x40, Root: 0x1040, L1: 5}, {L2: 5, Hash: 0x50, Root: 0x1050, L1: 6}}},
							{Kind: "fin", Fin: 5}, {Kind: "sync"}, {Kind: "fin", Fin: 6}, {Kind: "sync"}}}
					if scan {
						c.Hist = h1
					}
					if stored {
						c.Stored, c.StoredL1 = &HeadJ{1, 0x10, 0x1010}, 1
					}
					c.Name = fmt.Sprintf("dbfault-%s%d-stored%v-scan%v", kind, at, stored, scan)
					out = append(out, c)
				}
			}
		}
	}
	return out
}

// spread maps every L1 height of a case through x -> base + x*stride (order preserving): large,
// sparse heights, so that a chunk of 1000 blocks is no longer "one query".
func spread(c *Case, base, stride uint64) {
	f := func(x uint64) uint64 { return base + x*stride }
	for i := range c.Hist {
		c.Hist[i].L1 = f(c.Hist[i].L1)
	}
	for i := range c.Decoys {
		c.Decoys[i].L1 = f(c.Decoys[i].L1)
	}
	c.Latest, c.Fin1, c.Fin2, c.StoredL1 = f(c.Latest), f(c.Fin1), f(c.Fin2), f(c.StoredL1)
	for i := range c.Ops {
		if c.Ops[i].Kind == "fin" {
			c.Ops[i].Fin = f(c.Ops[i].Fin)
		}
		for j := range c.Ops[i].Logs {
			c.Ops[i].Logs[j].L1 = f(c.Ops[i].Logs[j].L1)
		}
	}
}

// L11 of DESIGN.md §7, as a fixed case: the probe that tells which code variant is present.
func leadL11() *Case {
	e100 := Log{L2: 50, Hash: 0x500, Root: 0x1500, L1: 100}
	e90 := Log{L2: 40, Hash: 0x400, Root: 0x1400, L1: 90}
	return &Case{Name: "lead-L11", Family: "chain", Mode: "run", FilterFailAt: -1, Canonical: true,
		Chunk: 1000, Latest: 200, Fin1: 200, Fin2: 200, LatestFail: true, PollMicros: 100,
		Ops: []Op{{Kind: "send", Logs: []Log{e100}}, {Kind: "sync"}, {Kind: "send", Logs: []Log{e90}}, {Kind: "sync"}}}
}

// ---- family "defaults": l1.NewClient WITHOUT WithCatchUpChunkSize (the node's configuration) ----
// The scan runs with defaultCatchUpChunkSize = 1000: latest heights and log positions straddle every
// chunk boundary of the first three chunks (from_k = latest + 1 - 1000k), the finalised height sits on,
// just below and far above the log.

func defaultChunkCases() []*Case {
	var out []*Case
	mkLog := func(l2, l1 uint64) Log { return Log{L2: l2, Hash: l2*16 + 1, Root: l2*16 + 0x1001, L1: l1} }
	add := func(name string, c Case) {
		c.Name, c.Family, c.FilterFailAt, c.Canonical = "defaults-"+name, "defaults", -1, true
		c.DefaultChunk, c.Chunk, c.PollMicros = true, 1000, 100
		out = append(out, &c)
	}
	for _, latest := range []uint64{0, 1, 998, 999, 1000, 1001, 1998, 1999, 2000, 2001, 2999, 3000, 3001} {
		seen := map[uint64]bool{}
		var xs []uint64
		try := func(x uint64, ok bool) {
			if ok && x <= latest+1 && !seen[x] {
				seen[x] = true
				xs = append(xs, x)
			}
		}
		try(0, true)
		try(latest, true)
		try(latest+1, true) // beyond `latest`: must not be picked up
		for k := uint64(1); k <= 3; k++ {
			if latest+1 >= 1000*k {
				f := latest + 1 - 1000*k // first block of chunk k
				try(f, true)
				try(f+1, true)
				try(f-1, f > 0)
			}
		}
		for _, x := range xs {
			fins := []uint64{x, latest}
			if x > 0 {
				fins = append(fins, x-1)
			}
			for _, fin := range fins {
				if fin > latest {
					continue
				}
				add(fmt.Sprintf("one-%d-%d-%d", latest, x, fin), Case{Mode: "oneshot", Latest: latest, Fin1: fin, Fin2: fin,
					Hist: []Log{mkLog(7, x)}})
			}
			// a finalised log directly below a not yet finalised one: the scan has to pass the upper one
			if x+1 <= latest {
				add(fmt.Sprintf("two-%d-%d", latest, x), Case{Mode: "oneshot", Latest: latest, Fin1: x, Fin2: x,
					Hist: []Log{mkLog(7, x), mkLog(8, x+1)}})
			}
		}
		// a failing log query in every position of the scan to genesis (no log at all)
		for q := 0; q <= int(latest/1000); q++ {
			c := Case{Mode: "oneshot", Latest: latest, Fin1: 0, Fin2: 0}
			add(fmt.Sprintf("fail-%d-%d", latest, q), c)
			out[len(out)-1].FilterFailAt = q
		}
	}
	// a log in EVERY L1 block of three default-sized chunks, served by the fake node through the real
	// FilterStateUpdate (and by the scripted provider): whatever range an implementation skips,
	// truncates or splits wrongly has a log in it
	for _, geth := range []bool{false, true} {
		var hist []Log
		for b := uint64(0); b <= 2100; b++ {
			hist = append(hist, mkLog(b+1, b))
		}
		add(fmt.Sprintf("dense-geth%v", geth), Case{Mode: "run", Latest: 2100, Fin1: 30, Fin2: 30, Hist: hist, Geth: geth,
			PollMicros: 300, Ops: []Op{{Kind: "sync"}, {Kind: "fin", Fin: 1500}, {Kind: "sync"}, {Kind: "fin", Fin: 2100}, {Kind: "sync"}}})
		out[len(out)-1].PollMicros = 300
	}
	// the whole life with the defaults: scan (two chunks), then live updates
	for _, latest := range []uint64{999, 1000, 2000} {
		add(fmt.Sprintf("run-%d", latest), Case{Mode: "run", Latest: latest, Fin1: 5, Fin2: 5,
			Hist: []Log{mkLog(3, 4), mkLog(4, latest)},
			Ops: []Op{{Kind: "sync"}, {Kind: "send", Logs: []Log{mkLog(5, latest+1)}}, {Kind: "sync"},
				{Kind: "fin", Fin: latest}, {Kind: "sync"}, {Kind: "fin", Fin: latest + 1}, {Kind: "sync"}}})
	}
	return out
}

// ---- family "burst": bursts that straddle the capacity of the client's update channel (128) and of
// the geth forwarder's channel (64), delivered while the client sits in finalisedHeight's retry loop ----

func burstCases() []*Case {
	var out []*Case
	mk := func(l2, l1, fork uint64) Log { return Log{L2: l2, Hash: l2*16 + fork, Root: l2*16 + fork + 0x1000, L1: l1} }
	for _, n := range []int{63, 64, 65, 127, 128, 129, 130, 257} {
		for _, geth := range []bool{false, true} {
			if geth && n != 64 && n != 65 && n != 129 {
				continue
			}
			c := &Case{Name: fmt.Sprintf("burst-%d-geth%v", n, geth), Family: "burst", Mode: "run", FilterFailAt: -1, Canonical: true,
				Chunk: 1000, Latest: 9, Fin1: 9, Fin2: 9, PollMicros: 200, Geth: geth}
			c.Hist = []Log{mk(1, 3, 0)}
			var burst []Log
			plain := n - 6 // the burst is exactly n values long: plain logs, three removal notices, three replacements
			for i := 0; i < plain; i++ {
				burst = append(burst, mk(uint64(2+i), uint64(10+i), 0))
			}
			// the last three blocks are reorged away inside the same burst and replaced
			last := uint64(10 + plain - 1)
			for b := last; b > last-3; b-- {
				r := mk(uint64(2)+b-10, b, 0)
				r.Removed = true
				burst = append(burst, r)
			}
			for b := last - 2; b <= last; b++ {
				burst = append(burst, mk(uint64(2)+b-10, b, 1))
			}
			mid := uint64(10 + plain/2)
			if geth {
				c.Family = "geth"
				c.Ops = []Op{{Kind: "sync"}, {Kind: "send", Logs: burst}, {Kind: "sync"}}
			} else {
				c.Ops = []Op{{Kind: "sync"}, {Kind: "finfail", N: 600}, {Kind: "waitfinerr"}, {Kind: "send", Logs: burst}, {Kind: "sync"}}
			}
			c.Ops = append(c.Ops, Op{Kind: "fin", Fin: mid}, Op{Kind: "sync"}, Op{Kind: "fin", Fin: last - 1}, Op{Kind: "sync"},
				Op{Kind: "fin", Fin: last + 5}, Op{Kind: "sync"})
			out = append(out, c)
		}
	}
	return out
}

// ---- family "stall": the client's event loop is busy (its finalised-height query keeps failing, so it
// sits in finalisedHeight's retry loop and does not read its channel) while the L1 node pushes a burst
// larger than everything that can be buffered between the real forwardStateUpdates and the client
// (128-slot channel + the harness tap's 2 slots): the real forwarder is blocked in its hand-off for
// holdMs. Then the client resumes. Every log must still arrive, once and in order, and the newest —
// finalised at the end — must become the head.

func stallCases(longHoldMs int) []*Case {
	var out []*Case
	mk := func(l2, l1, fork uint64) Log { return Log{L2: l2, Hash: l2*16 + fork, Root: l2*16 + fork + 0x1000, L1: l1} }
	type v struct{ n, holdMs, resub int }
	vs := []v{{300, longHoldMs, 20000}}
	for _, n := range []int{129, 130, 131, 132, 194, 195, 196, 256, 1000} {
		vs = append(vs, v{n, 150, 2000})
	}
	for _, x := range vs {
		c := &Case{Name: fmt.Sprintf("stall-%d-hold%dms", x.n, x.holdMs), Family: "stall", Mode: "run", FilterFailAt: -1, Canonical: true,
			Chunk: 1000, Latest: 9, Fin1: 9, Fin2: 9, PollMicros: 300, Geth: true, ResubMicros: x.resub}
		c.Hist = []Log{mk(1, 3, 0)}
		var burst []Log
		plain := x.n - 6
		for i := 0; i < plain; i++ {
			burst = append(burst, mk(uint64(2+i), uint64(10+i), 0))
		}
		last := uint64(10 + plain - 1)
		for b := last; b > last-3; b-- { // the newest three blocks are reorged away and replaced
			r := mk(uint64(2)+b-10, b, 0)
			r.Removed = true
			burst = append(burst, r)
		}
		for b := last - 2; b <= last; b++ {
			burst = append(burst, mk(uint64(2)+b-10, b, 1))
		}
		c.Ops = []Op{{Kind: "sync"}, {Kind: "finfail", N: 1 << 30}, {Kind: "waitfinerr"}, {Kind: "push", Logs: burst},
			{Kind: "waitfill", N: x.n}, {Kind: "hold", N: x.holdMs}, {Kind: "finfail", N: 0}, {Kind: "drainwait"}, {Kind: "sync"},
			{Kind: "fin", Fin: uint64(10 + plain/2)}, {Kind: "sync"}, {Kind: "fin", Fin: last + 5}, {Kind: "sync"}}
		out = append(out, c)
	}
	return out
}
