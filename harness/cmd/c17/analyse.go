//go:build verif

package main

import (
	"fmt"
	"strings"
)

// sem is one semantic event of the linearised observed trace (what the client did, in order).
type sem struct {
	kind string // "upd" | "tick"
	log  Log
	fin  uint64
	// geth family: the finalised height the L1 node answered (the oracle's truth; fin is what
	// the geth layer handed to the client)
	nodeFin    uint64
	hasNodeFin bool
	after      *HeadJ // stored head observed after the tick completed
	note       *HeadJ // listener notification caused by this tick (nil: none)
	notes      int    // number of notifications caused by this tick
	src        string // "catchup" | "live"
}

type modelStep struct {
	line   string
	expect string // "" = "ok"
	what   string
}

type analysis struct {
	steps []modelStep
	sems  []sem
	// structural problems found while linearising (reported as correspondence mismatches)
	problems   []string
	catchup    string // "none" | "complete" | "failed"
	chunks     int
	fin2       uint64 // the finalised height read by the catch-up's own setL1Head
	dbFault    bool
	loopTied   bool // the life was replayed on the model's Loop (channel / subscription bookkeeping)
	retryPolls int // polls whose finalisedHeight needed more than one attempt (model op `poll`)
	faultNotes int // listener notifications during the poll whose database access failed
}

func headEq(a, b *HeadJ) bool {
	if a == nil || b == nil {
		return a == b
	}
	return *a == *b
}

// linearise turns the marks (calls into the provider) and the send-ordered events into the
// trace the client executed, the lines for the Lean model and the answers expected from it.
func linearise(c *Case, o *Observed, guard bool) *analysis {
	a := &analysis{catchup: "none"}
	g := "0"
	if guard {
		g = "1"
	}
	if c.Stored == nil {
		a.steps = append(a.steps, modelStep{line: "new " + g + " none"})
	} else {
		a.steps = append(a.steps, modelStep{line: fmt.Sprintf("new %s %x %x %x", g, c.Stored.L2, c.Stored.Hash, c.Stored.Root)})
	}
	for _, l := range c.Hist {
		a.steps = append(a.steps, modelStep{line: l.line("hist")})
	}
	afterHead := func(i int) *HeadJ {
		if i+1 < len(o.Marks) {
			return o.Marks[i+1].HeadBefore
		}
		return o.FinalHead
	}
	afterNotes := func(i int) int {
		if i+1 < len(o.Marks) {
			return o.Marks[i+1].NotesBefore
		}
		return len(o.Notes)
	}
	chunk := fmt.Sprintf("%x", c.Chunk)
	if c.DefaultChunk {
		chunk = "-" // NewClient without WithCatchUpChunkSize: the model's newClientChunk {}
	}
	failAt := "none"
	if c.FilterFailAt >= 0 {
		failAt = fmt.Sprintf("%x", c.FilterFailAt)
	}
	var queries []string
	sawFin1, catchupEmitted, filterFailed := false, false, false
	emitted := 0
	prevLiveKind := ""
	subscribedOnce := false
	// failed FinalisedHeight attempts of the poll in progress (the model's pollStep / finalisedHeightLoop
	// gets the whole attempt sequence of one setL1Head call) and failed WatchStateUpdate attempts of the
	// subscription in progress (subscribeLoop)
	pendErr, pendWatch := 0, 0
	loopFirst := -1 // index of the first WatchStateUpdate attempt: the event loop starts there
	flushPoll := func() { // the poll ended without an answer (context ended / Run returned)
		if pendErr > 0 {
			a.steps = append(a.steps, modelStep{line: "poll" + strings.Repeat(" x", pendErr),
				expect: fmt.Sprintf("calls=%d head=%s note=none", pendErr, lastHead(o).String()), what: "poll given up"})
			pendErr = 0
		}
	}
	flushSub := func() {
		if pendWatch > 0 {
			a.steps = append(a.steps, modelStep{line: "sub" + strings.Repeat(" 0", pendWatch), expect: "attempt=none", what: "subscription given up"})
			pendWatch = 0
		}
	}

	emitCatchup := func(res string, fin2 uint64, head *HeadJ, note *HeadJ) {
		q := "-"
		if len(queries) > 0 {
			q = strings.Join(queries, ",")
		}
		a.steps = append(a.steps, modelStep{
			line:   fmt.Sprintf("catchup %x %x %s %s %x", c.Latest, c.Fin1, chunk, failAt, fin2),
			expect: fmt.Sprintf("res=%s q=%s head=%s note=%s", res, q, head.String(), note.String()),
			what:   "catch-up",
		})
		a.catchup = res
		a.chunks = len(queries)
		a.fin2 = fin2
		catchupEmitted = true
	}

	for i, m := range o.Marks {
		if m.PreWatch && m.Kind != "watch" && m.Kind != "watchfail" {
			switch m.Kind {
			case "fin1":
				sawFin1 = true
			case "filter", "filterfail":
				if !sawFin1 {
					a.problems = append(a.problems, "FilterStateUpdate called although heights were not read")
				}
				queries = append(queries, fmt.Sprintf("%x-%x", m.From, m.To))
				// the uint64 chunk arithmetic, executed by the model on UInt64 (chunkFromU64)
				ck := c.Chunk
				if c.DefaultChunk {
					ck = 1000
				}
				a.steps = append(a.steps, modelStep{line: fmt.Sprintf("chunkfrom %x %x", m.To, ck), expect: fmt.Sprintf("%x", m.From),
					what: "from of the chunk (uint64 arithmetic)"})
				if m.Kind == "filterfail" {
					filterFailed = true
				} else {
					for _, l := range c.Hist {
						if m.From <= l.L1 && l.L1 <= m.To {
							a.sems = append(a.sems, sem{kind: "upd", log: l, src: "catchup"})
						}
					}
				}
			case "finerr":
				// a failed poll inside catch-up's setL1Head: identity transition; the model's
				// catchup op covers the whole call, so nothing is sent
			case "tick":
				if catchupEmitted || !sawFin1 || filterFailed {
					a.problems = append(a.problems, "unexpected FinalisedHeight poll before the first subscription")
					if filterFailed && !catchupEmitted {
						// the scan went on after a failed log query and completed: the oracle judges the
						// head it recorded against the provider's history like any completed scan
						n0, n1 := m.NotesBefore, afterNotes(i)
						a.sems = append(a.sems, sem{kind: "tick", fin: m.Fin, nodeFin: m.NodeFin, hasNodeFin: m.HasNodeFin,
							after: afterHead(i), notes: n1 - n0, src: "catchup"})
						a.catchup = "complete-after-failed-query"
					}
					continue
				}
				if o.DBFaultFired && i == o.DBFaultMark {
					// the database failed inside the catch-up's own setL1Head: Run only logs it
					a.dbFault = true
					a.faultNotes += afterNotes(i) - m.NotesBefore
					q := "-"
					if len(queries) > 0 {
						q = strings.Join(queries, ",")
					}
					a.steps = append(a.steps, modelStep{
						line:   fmt.Sprintf("catchupfault %x %x %s %s %x %s", c.Latest, c.Fin1, chunk, failAt, m.Fin, c.DBFault),
						expect: fmt.Sprintf("res=complete q=%s head=%s feed=%s", q, afterHead(i).String(), o.DBFaultHead.String()),
						what:   "catch-up with failing database"})
					a.catchup, a.chunks, catchupEmitted = "complete", len(queries), true
					a.sems = append(a.sems, sem{kind: "dbfault"})
					continue
				}
				n0, n1 := m.NotesBefore, afterNotes(i)
				var note *HeadJ
				if n1 > n0 && n1 <= len(o.Notes) {
					note = &o.Notes[n1-1]
				}
				emitCatchup("complete", m.Fin, afterHead(i), note)
				a.sems = append(a.sems, sem{kind: "tick", fin: m.Fin, nodeFin: m.NodeFin, hasNodeFin: m.HasNodeFin, after: afterHead(i), note: note, notes: n1 - n0, src: "catchup"})
			}
			continue
		}
		// first subscription attempt reached: close the catch-up phase if it failed
		if m.PreWatch && sawFin1 && !catchupEmitted {
			if filterFailed {
				emitCatchup("failed", 0, m.HeadBefore, nil)
			} else {
				a.problems = append(a.problems, "catch-up neither completed nor failed")
			}
		}
		if loopFirst < 0 && (m.Kind == "watch" || m.Kind == "watchfail") {
			loopFirst = i
			a.steps = append(a.steps, modelStep{line: "loopstart"})
		}
		// live phase
		if emitted < m.Consumed && emitted < len(o.Events) && pendErr > 0 {
			a.problems = append(a.problems, "the client consumed updates while inside finalisedHeight's retry loop")
		}
		for emitted < m.Consumed && emitted < len(o.Events) {
			l := o.Events[emitted]
			a.steps = append(a.steps, modelStep{line: l.line("upd")})
			a.sems = append(a.sems, sem{kind: "upd", log: l, src: "live"})
			emitted++
		}
		switch m.Kind {
		case "tick":
			if o.DBFaultFired && i == o.DBFaultMark {
				// the database failed inside this setL1Head: Run has returned the error
				for ; pendErr > 0; pendErr-- {
					a.steps = append(a.steps, modelStep{line: "finerr"})
				}
				a.dbFault = true
				a.faultNotes += afterNotes(i) - m.NotesBefore
				a.steps = append(a.steps, modelStep{line: fmt.Sprintf("tickfault %x %s", m.Fin, c.DBFault),
					expect: fmt.Sprintf("head=%s feed=%s fatal=%s", afterHead(i).String(), o.DBFaultHead.String(), map[bool]string{true: "1", false: "0"}[o.EndedEarly]),
					what:   "poll with failing database"})
				a.sems = append(a.sems, sem{kind: "dbfault"})
				prevLiveKind = m.Kind
				continue
			}
			n0, n1 := m.NotesBefore, afterNotes(i)
			var note *HeadJ
			if n1 > n0 && n1 <= len(o.Notes) {
				note = &o.Notes[n1-1]
			}
			if n1-n0 > 1 {
				a.problems = append(a.problems, "more than one head notification from one poll")
			}
			h := afterHead(i)
			if pendErr > 0 {
				a.steps = append(a.steps, modelStep{line: fmt.Sprintf("poll%s %x", strings.Repeat(" x", pendErr), m.Fin),
					expect: fmt.Sprintf("calls=%d head=%s note=%s", pendErr+1, h.String(), note.String()), what: "poll"})
				a.retryPolls++
				pendErr = 0
			} else {
				a.steps = append(a.steps, modelStep{line: fmt.Sprintf("tick %x", m.Fin),
					expect: fmt.Sprintf("head=%s note=%s", h.String(), note.String()), what: "poll"})
			}
			a.sems = append(a.sems, sem{kind: "tick", fin: m.Fin, nodeFin: m.NodeFin, hasNodeFin: m.HasNodeFin, after: h, note: note, notes: n1 - n0, src: "live"})
		case "finerr":
			pendErr++
		case "watch", "watchfail":
			flushPoll() // (cannot happen: a poll in progress ends with an answer or with the life)
			if subscribedOnce && prevLiveKind != "watchfail" {
				a.steps = append(a.steps, modelStep{line: "suberr"})
			}
			if m.Kind == "watch" {
				a.steps = append(a.steps, modelStep{line: "sub" + strings.Repeat(" 0", pendWatch) + " 1",
					expect: fmt.Sprintf("attempt=%d", pendWatch), what: "subscription"})
				pendWatch = 0
				subscribedOnce = true
			} else {
				pendWatch++
			}
		default:
			a.problems = append(a.problems, "unexpected provider call after subscription: "+m.Kind)
		}
		prevLiveKind = m.Kind
	}
	if sawFin1 && !catchupEmitted {
		// one-shot mode (no subscription) or a run that ended early
		if filterFailed {
			emitCatchup("failed", 0, o.FinalHead, nil)
		} else if o.Stalled == "" {
			a.problems = append(a.problems, "catch-up neither completed nor failed")
		}
	}
	flushPoll()
	flushSub()
	for emitted < len(o.Events) && o.Stalled == "" {
		// consumed after the last provider call (cannot change the head any more)
		l := o.Events[emitted]
		a.steps = append(a.steps, modelStep{line: l.line("upd")})
		emitted++
	}
	a.steps = append(a.steps, modelStep{line: "head", expect: "head=" + o.FinalHead.String(), what: "final head"})
	// the finality-status consumer: isL1Verified (copied literally from rpc helpers.go, evaluated on
	// what Blockchain.L1Head() returned) against the model's, for n = 0, head.l2, head.l2 + 1
	if o.Stalled == "" {
		var l2 uint64
		if o.FinalHead != nil {
			l2 = o.FinalHead.L2
		}
		b := map[bool]string{false: "0", true: "1"}
		a.steps = append(a.steps,
			modelStep{line: "verified 0", expect: b[o.Verified[0]], what: "isL1Verified(0)"},
			modelStep{line: fmt.Sprintf("verified %x", l2), expect: b[o.Verified[1]], what: "isL1Verified(head.l2)"})
		if l2+1 != 0 {
			a.steps = append(a.steps, modelStep{line: fmt.Sprintf("verified %x", l2+1), expect: b[o.Verified[2]], what: "isL1Verified(head.l2+1)"})
		}
	}
	// the whole life again, this time through the model's own startUp / runLife
	if o.Stalled == "" && !a.dbFault {
		// the answers the chain-id probes got, as observed; no answer left = the context ended
		script, answered := "", false
		for _, m := range o.Marks {
			switch {
			case m.Kind == "chainidfail":
				script += "e"
			case m.Kind == "chainid" && c.Geth && !answered && len(script) < c.ChainIDFails:
				script += "e" // geth family: the node fails the first ChainIDFails probes
			case m.Kind == "chainid":
				answered = true
				if c.ChainIDMismatch {
					script += "m"
				} else {
					script += "o"
				}
			}
		}
		if script == "" {
			script = "-"
		}
		gate := "fatal"
		if !answered && c.Mode != "oneshot" {
			gate = "cancelled"
		}
		for _, m := range o.Marks {
			switch m.Kind {
			case "latest", "latestfail", "watch", "watchfail":
				gate = "proceed"
			}
		}
		opt := func(fail bool, v uint64) string {
			if fail {
				return "-"
			}
			return fmt.Sprintf("%x", v)
		}
		os := "0"
		if c.Mode == "oneshot" {
			os = "1"
		}
		a.steps = append(a.steps, modelStep{
			line: fmt.Sprintf("life %s %s %s %s %s %s %x", os, script, opt(c.LatestFail, c.Latest), opt(c.Fin1Fail, c.Fin1),
				chunk, failAt, a.fin2),
			expect: fmt.Sprintf("gate=%s head=%s notes=%s err=%s", gate, o.FinalHead.String(), headList(o.Notes), orStr(o.RunErrClass, "none")),
			what:   "whole life (startUp/runLife/lifeNotes/lifeErr)"})
	}
	// the event loop again, this time with its channel and its subscription bookkeeping (model `Loop`):
	// what was put on the channel, what was received, every WatchStateUpdate attempt, every poll attempt,
	// and which subscriptions the client unsubscribed, in which order
	if loopFirst >= 0 && c.Mode == "run" && o.Stalled == "" && c.DBFault == "" && !a.dbFault && !o.EndedEarly {
		for _, l := range o.Events {
			a.steps = append(a.steps, modelStep{line: l.line("lev")})
		}
		toks := loopTokens(o, loopFirst)
		n0 := o.Marks[loopFirst].NotesBefore
		if n0 > len(o.Notes) {
			n0 = len(o.Notes)
		}
		nsubs := 0
		for _, m := range o.Marks {
			if m.Kind == "watch" {
				nsubs++
			}
		}
		un := "-"
		if len(o.Unsubs) > 0 {
			xs := make([]string, len(o.Unsubs))
			for i, k := range o.Unsubs {
				xs[i] = fmt.Sprint(k)
			}
			un = strings.Join(xs, ",")
		}
		a.steps = append(a.steps, modelStep{
			line: "loop " + strings.Join(toks, " "),
			expect: fmt.Sprintf("head=%s notes=%s sub=none nsubs=%d unsub=%s chan=%d applied=%d pushed=%d ret=1",
				o.FinalHead.String(), headList(o.Notes[n0:]), nsubs, un, o.FinalChan, len(o.Events)-o.FinalChan, len(o.Events)),
			what: "event loop with channel and subscription bookkeeping (Loop)"})
		a.loopTied = true
	}
	return a
}

// loopTokens: the schedule of the event loop as observed — producers' sends and the loop's receives between
// two provider calls (counts are exact; inside one interval sends go first as far as the channel has room),
// the WatchStateUpdate attempts, the FinalisedHeight attempts of every poll, the final cancel.
func loopTokens(o *Observed, first int) []string {
	var toks []string
	fill, prevSent, prevCons := 0, 0, 0
	io := func(sent, cons int) {
		P, R := sent-prevSent, cons-prevCons
		prevSent, prevCons = sent, cons
		for P > 0 || R > 0 {
			switch {
			case P > 0 && fill < 128:
				n := P
				if n > 128-fill {
					n = 128 - fill
				}
				toks = append(toks, fmt.Sprintf("p%d", n))
				fill += n
				P -= n
			case R > 0 && fill > 0:
				n := R
				if n > fill {
					n = fill
				}
				toks = append(toks, fmt.Sprintf("r%d", n))
				fill -= n
				R -= n
			default:
				return
			}
		}
	}
	bits, pend, started, gaveUp := "", "", false, false
	sub := func() {
		if !started {
			toks = append(toks, "w"+bits)
			started = true
		} else {
			toks = append(toks, "e"+bits)
		}
		bits = ""
	}
	for i := first; i < len(o.Marks); i++ {
		m := o.Marks[i]
		io(m.Sent, m.Consumed)
		switch m.Kind {
		case "watchfail":
			bits += "0"
		case "watch":
			bits += "1"
			sub()
		case "finerr":
			pend += "x/"
		case "tick":
			toks = append(toks, fmt.Sprintf("t%s%x", pend, m.Fin))
			pend = ""
		}
	}
	io(len(o.Events), len(o.Events)-o.FinalChan)
	if bits != "" { // the context ended while the client was trying to (re)subscribe
		sub()
		gaveUp = true
	}
	if pend != "" { // … or while it was inside finalisedHeight's retry loop
		toks = append(toks, "t"+strings.TrimSuffix(pend, "/"))
	}
	if !gaveUp {
		toks = append(toks, "c")
	}
	return toks
}

// lastHead: the stored head at the end of the observation.
func lastHead(o *Observed) *HeadJ { return o.FinalHead }

func headList(hs []HeadJ) string {
	if len(hs) == 0 {
		return "-"
	}
	xs := make([]string, len(hs))
	for i := range hs {
		xs[i] = (&hs[i]).String()
	}
	return strings.Join(xs, ",")
}
