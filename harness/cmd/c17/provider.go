//go:build verif

package main

import (
	"context"
	"errors"
	"math/big"
	"sync"
	"time"

	"github.com/NethermindEth/juno/blockchain"
	"github.com/NethermindEth/juno/blockchain/networks"
	"github.com/NethermindEth/juno/core"
	"github.com/NethermindEth/juno/core/felt"
	"github.com/NethermindEth/juno/db/memory"
	"github.com/NethermindEth/juno/l1"
	"github.com/NethermindEth/juno/utils/log"
	"verif/harness/lib"
)

// Mark is one call the real client made into the scripted provider. Because the client is a
// single goroutine, everything it did before the call is complete when the call starts: the
// stored head and the notification count are sampled there, and "how many channel values it has
// consumed" is exact (sender and provider share one mutex, the client is inside the call).
type Mark struct {
	Kind        string `json:"kind"`
	Consumed    int    `json:"consumed"`
	Fin         uint64 `json:"fin,omitempty"`
	From        uint64 `json:"from,omitempty"`
	To          uint64 `json:"to,omitempty"`
	PreWatch    bool   `json:"prewatch,omitempty"`
	HeadBefore  *HeadJ `json:"head_before,omitempty"`
	NotesBefore int    `json:"notes_before"`
}

type Observed struct {
	Marks     []Mark  `json:"marks"`
	Events    []Log   `json:"events"`
	Notes     []HeadJ `json:"notes"`
	Feed      []HeadJ `json:"feed"`
	FinalHead *HeadJ  `json:"final_head"`
	RunErr    string  `json:"run_err,omitempty"`
	Stalled   string  `json:"stalled,omitempty"`
	Panic     string  `json:"panic,omitempty"`
}

type scriptedSub struct {
	errc chan error
	once sync.Once
	quit chan struct{}
}

func newSub() *scriptedSub {
	return &scriptedSub{errc: make(chan error, 1), quit: make(chan struct{})}
}
func (s *scriptedSub) Err() <-chan error { return s.errc }
func (s *scriptedSub) Unsubscribe()      { s.once.Do(func() { close(s.quit) }) }

var errScripted = errors.New("scripted failure")

type provider struct {
	mu    sync.Mutex
	cond  *sync.Cond
	c     *Case
	chain *blockchain.Blockchain

	marks  []Mark
	events []Log
	notes  []HeadJ
	ch     chan<- *l1.StateUpdate
	sub    *scriptedSub
	sent   int

	cur          uint64 // current finalised height
	chainIDFails int
	fin1Done     bool
	latestOK     bool
	filterCalls  int
	fin2Fails    int
	watchFails   int
	finFails     int
	watched      bool
	watchOK      int
	closed       bool
}

func headJ(h *core.L1Head) *HeadJ {
	if h == nil {
		return nil
	}
	out := &HeadJ{L2: h.BlockNumber}
	if h.BlockHash != nil {
		out.Hash = h.BlockHash.Uint64()
	}
	if h.StateRoot != nil {
		out.Root = h.StateRoot.Uint64()
	}
	return out
}

func (p *provider) storedHead() *HeadJ {
	h, err := p.chain.L1Head()
	if err != nil {
		return nil
	}
	return headJ(&h)
}

// mark must be called with p.mu held, at the very start of a provider call.
func (p *provider) mark(m Mark) {
	m.Consumed = p.sent
	if p.ch != nil {
		m.Consumed = p.sent - len(p.ch)
	}
	m.PreWatch = !p.watched
	m.HeadBefore = p.storedHead()
	m.NotesBefore = len(p.notes)
	p.marks = append(p.marks, m)
	p.cond.Broadcast()
}

func (p *provider) ChainID(ctx context.Context) (*big.Int, error) {
	p.mu.Lock()
	defer p.mu.Unlock()
	if p.chainIDFails > 0 {
		p.chainIDFails--
		p.mark(Mark{Kind: "chainidfail"})
		return nil, errScripted
	}
	p.mark(Mark{Kind: "chainid"})
	if p.c.ChainIDMismatch {
		return big.NewInt(5), nil
	}
	return big.NewInt(1), nil
}

func (p *provider) LatestHeight(ctx context.Context) (uint64, error) {
	p.mu.Lock()
	defer p.mu.Unlock()
	if p.c.LatestFail {
		p.mark(Mark{Kind: "latestfail"})
		return 0, errScripted
	}
	p.latestOK = true
	p.mark(Mark{Kind: "latest"})
	return p.c.Latest, nil
}

func (p *provider) FinalisedHeight(ctx context.Context) (uint64, error) {
	p.mu.Lock()
	defer p.mu.Unlock()
	if p.latestOK && !p.fin1Done {
		p.fin1Done = true
		if p.c.Fin1Fail {
			p.mark(Mark{Kind: "fin1fail"})
			return 0, errScripted
		}
		p.mark(Mark{Kind: "fin1", Fin: p.c.Fin1})
		return p.c.Fin1, nil
	}
	if !p.watched && p.fin2Fails > 0 {
		p.fin2Fails--
		p.mark(Mark{Kind: "finerr"})
		return 0, errScripted
	}
	if p.watched && p.finFails > 0 {
		p.finFails--
		p.mark(Mark{Kind: "finerr"})
		return 0, errScripted
	}
	p.mark(Mark{Kind: "tick", Fin: p.cur})
	return p.cur, nil
}

func (p *provider) FilterStateUpdate(ctx context.Context, from, to uint64) ([]*l1.StateUpdate, error) {
	p.mu.Lock()
	defer p.mu.Unlock()
	n := p.filterCalls
	p.filterCalls++
	if p.c.FilterFailAt >= 0 && n == p.c.FilterFailAt {
		p.mark(Mark{Kind: "filterfail", From: from, To: to})
		return nil, errScripted
	}
	p.mark(Mark{Kind: "filter", From: from, To: to})
	var out []*l1.StateUpdate
	for _, l := range p.c.Hist {
		if from <= l.L1 && l.L1 <= to {
			out = append(out, toSU(l))
		}
	}
	return out, nil
}

func (p *provider) WatchStateUpdate(ctx context.Context, ch chan<- *l1.StateUpdate) (l1.Subscription, error) {
	p.mu.Lock()
	defer p.mu.Unlock()
	if p.watchFails > 0 {
		p.watchFails--
		p.mark(Mark{Kind: "watchfail"})
		p.watched = true
		return nil, errScripted
	}
	p.mark(Mark{Kind: "watch"})
	p.watched = true
	p.ch = ch
	p.sub = newSub()
	p.watchOK++
	p.cond.Broadcast()
	return p.sub, nil
}

func (p *provider) Close() {
	p.mu.Lock()
	p.closed = true
	p.cond.Broadcast()
	p.mu.Unlock()
}

func toSU(l Log) *l1.StateUpdate {
	return &l1.StateUpdate{
		L2BlockNumber: l.L2,
		L2BlockHash:   *new(felt.Felt).SetUint64(l.Hash),
		StateRoot:     *new(felt.Felt).SetUint64(l.Root),
		L1RefHeight:   l.L1,
		Removed:       l.Removed,
	}
}

const barrierTimeout = 20 * time.Second

// waitFor blocks until pred (evaluated under p.mu) holds; false on timeout.
func (p *provider) waitFor(pred func() bool) bool {
	deadline := time.Now().Add(barrierTimeout)
	stop := make(chan struct{})
	defer close(stop)
	go func() { // wake the waiter periodically so that the deadline is noticed
		t := time.NewTicker(50 * time.Millisecond)
		defer t.Stop()
		for {
			select {
			case <-stop:
				return
			case <-t.C:
				p.mu.Lock()
				p.cond.Broadcast()
				p.mu.Unlock()
			}
		}
	}()
	p.mu.Lock()
	defer p.mu.Unlock()
	for !pred() {
		if time.Now().After(deadline) {
			return false
		}
		p.cond.Wait()
	}
	return true
}

// syncBarrier: all sent values consumed, a successful poll with the current finalised height
// started after that, and one more provider call started (so that poll's setL1Head is complete).
func (p *provider) syncBarrier() bool {
	p.mu.Lock()
	start := len(p.marks)
	p.mu.Unlock()
	return p.waitFor(func() bool {
		for i := start; i < len(p.marks); i++ {
			m := p.marks[i]
			if m.Kind == "tick" && m.Consumed == p.sent && m.Fin == p.cur && len(p.marks) > i+1 {
				return true
			}
		}
		return false
	})
}

// runCase drives the real l1.Client through the script and returns what was observed.
func runCase(c *Case) *Observed {
	obs := &Observed{}
	database := memory.New()
	chain := blockchain.New(database, &networks.Mainnet)
	if c.Stored != nil {
		_ = chain.SetL1Head(&core.L1Head{
			BlockNumber: c.Stored.L2,
			BlockHash:   new(felt.Felt).SetUint64(c.Stored.Hash),
			StateRoot:   new(felt.Felt).SetUint64(c.Stored.Root),
		})
	}
	p := &provider{c: c, chain: chain, cur: c.Fin2, chainIDFails: c.ChainIDFails,
		fin2Fails: c.Fin2Fails, watchFails: c.WatchFails}
	p.cond = sync.NewCond(&p.mu)

	listener := l1.SelectiveListener{OnNewL1HeadCb: func(h *core.L1Head) {
		// called from the client goroutine, never from inside a provider call
		p.mu.Lock()
		p.notes = append(p.notes, *headJ(h))
		p.mu.Unlock()
	}}
	poll := time.Duration(c.PollMicros) * time.Microsecond
	if poll <= 0 {
		poll = 200 * time.Microsecond
	}
	client := l1.NewClient(p, chain, log.NewNopZapLogger(),
		l1.WithEventListener(listener),
		l1.WithResubscribeDelay(50*time.Microsecond),
		l1.WithPollFinalisedInterval(poll),
		l1.WithCatchUpChunkSize(c.Chunk))

	// feed observer
	feedSub := chain.SubscribeL1Head()
	var feedMu sync.Mutex
	feedDone := make(chan struct{})
	go func() {
		defer close(feedDone)
		for h := range feedSub.Recv() {
			feedMu.Lock()
			obs.Feed = append(obs.Feed, *headJ(h))
			feedMu.Unlock()
		}
	}()

	ctx, cancel := context.WithCancel(context.Background())
	defer cancel()
	runDone := make(chan struct{})
	go func() {
		defer close(runDone)
		err, panicked, stack := lib.Try(func() error {
			if c.Mode == "oneshot" {
				return client.CatchUpL1Head(ctx)
			}
			return client.Run(ctx)
		})
		if panicked {
			obs.Panic = err.Error() + "\n" + stack
		} else if err != nil {
			obs.RunErr = err.Error()
		}
		p.mu.Lock()
		p.closed = true
		p.cond.Broadcast()
		p.mu.Unlock()
	}()

	stall := func(what string) {
		if obs.Stalled == "" {
			obs.Stalled = what
		}
	}

	if c.Mode != "oneshot" {
		// wait for the first successful subscription (or the end of Run)
		ok := p.waitFor(func() bool { return p.watchOK > 0 || p.closed })
		if !ok {
			stall("no subscription and Run did not return")
		}
		p.mu.Lock()
		live := p.watchOK > 0 && !p.closed
		p.mu.Unlock()
		if live && ok {
			for i, op := range c.Ops {
				if !execOp(p, op) {
					stall("barrier not reached at op " + itoa(i) + " (" + op.Kind + ")")
					break
				}
			}
			if obs.Stalled == "" && !p.syncBarrier() {
				stall("final barrier not reached")
			}
		}
	}
	if c.Mode == "oneshot" {
		select {
		case <-runDone:
		case <-time.After(barrierTimeout):
			stall("CatchUpL1Head did not return")
		}
	}
	cancel()
	select {
	case <-runDone:
	case <-time.After(barrierTimeout):
		stall("Run did not return after cancel")
	}
	feedSub.Unsubscribe()
	<-feedDone

	p.mu.Lock()
	obs.Marks = append([]Mark(nil), p.marks...)
	obs.Events = append([]Log(nil), p.events...)
	obs.Notes = append([]HeadJ(nil), p.notes...)
	p.mu.Unlock()
	obs.FinalHead = p.storedHead()
	return obs
}

func itoa(i int) string { return big.NewInt(int64(i)).String() }

func execOp(p *provider, op Op) bool {
	switch op.Kind {
	case "send":
		for _, l := range op.Logs {
			for {
				p.mu.Lock()
				select {
				case p.ch <- toSU(l):
					p.sent++
					p.events = append(p.events, l)
					p.mu.Unlock()
				default:
					p.mu.Unlock()
					time.Sleep(50 * time.Microsecond)
					continue
				}
				break
			}
		}
		return true
	case "fin":
		p.mu.Lock()
		p.cur = op.Fin
		p.mu.Unlock()
		return true
	case "sync":
		return p.syncBarrier()
	case "finfail":
		p.mu.Lock()
		p.finFails = op.N
		p.mu.Unlock()
		return true
	case "suberr":
		p.mu.Lock()
		p.watchFails = op.N
		before := p.watchOK
		sub := p.sub
		p.mu.Unlock()
		sub.errc <- errScripted
		return p.waitFor(func() bool { return p.watchOK > before || p.closed })
	}
	return true
}
