//go:build verif

package main

import (
	"bytes"
	"context"
	"errors"
	"fmt"
	"math/big"
	"sync"
	"sync/atomic"
	"time"

	"github.com/NethermindEth/juno/blockchain"
	"github.com/NethermindEth/juno/blockchain/networks"
	"github.com/NethermindEth/juno/core"
	"github.com/NethermindEth/juno/core/felt"
	"github.com/NethermindEth/juno/db"
	"github.com/NethermindEth/juno/db/memory"
	"github.com/NethermindEth/juno/encoder"
	"github.com/NethermindEth/juno/l1"
	"github.com/NethermindEth/juno/l1/eth"
	"github.com/NethermindEth/juno/utils/log"
	"verif/harness/lib"
)

// Mark is one call the real client made into the scripted provider. Because the client is a
// single goroutine, everything it did before the call is complete when the call starts: the
// stored head and the notification count are sampled there, and "how many channel values it has
// consumed" is exact (sender and provider share one mutex, the client is inside the call).
type Mark struct {
	Kind        string `json:"kind"`
	Consumed    int    `json:"consumed"`
	Sent        int    `json:"sent"` // values the producers had put on the client's channel by then
	Fin         uint64 `json:"fin,omitempty"`
	NodeFin     uint64 `json:"node_fin,omitempty"` // geth family: what the L1 node answered
	HasNodeFin  bool   `json:"has_node_fin,omitempty"`
	From        uint64 `json:"from,omitempty"`
	To          uint64 `json:"to,omitempty"`
	PreWatch    bool   `json:"prewatch,omitempty"`
	HeadBefore  *HeadJ `json:"head_before,omitempty"`
	NotesBefore int    `json:"notes_before"`
}

type Observed struct {
	Marks     []Mark  `json:"marks"`
	Events    []Log   `json:"events"`
	Notes     []HeadJ `json:"notes"`
	Feed      []HeadJ `json:"feed"`
	FinalHead *HeadJ  `json:"final_head"`
	RunErr    string  `json:"run_err,omitempty"`
	Stalled   string  `json:"stalled,omitempty"`
	Panic     string  `json:"panic,omitempty"`
	// EndedEarly: Run returned although the context had not been cancelled
	EndedEarly bool `json:"ended_early,omitempty"`
	// RunErrClass: none | provider (a scripted / node error came back wrapped) | mismatch | db | other
	RunErrClass string `json:"run_err_class,omitempty"`
	// Writes: every write the CLIENT made into the key-value store, in order (the harness reads and
	// writes through the raw database); Mark = index of the provider call it came after
	Writes []WriteRec `json:"writes,omitempty"`
	// AccessorProblems: Blockchain.L1Head() (the accessor RPC and the client's guard use) disagreed
	// with the record under the L1Height key
	AccessorProblems []string `json:"accessor_problems,omitempty"`
	FinalAccessor    *HeadJ   `json:"final_accessor,omitempty"`
	FinalAccessorErr string   `json:"final_accessor_err,omitempty"`
	// Verified: isL1Verified (rpc helpers.go, copied literally) on what Blockchain.L1Head() returns at
	// the end, for n = 0, head.l2, head.l2+1
	Verified [3]bool `json:"verified"`
	// MaxChanFill: the fullest the client's update channel (capacity 128) has been seen
	MaxChanFill int `json:"max_chan_fill,omitempty"`
	// HoldFill: how many values sat in the client's update channel at the end of a `hold` (-1: no hold)
	HoldFill int `json:"hold_fill"`
	// Unsubs: the subscriptions (numbered in the order they were established) the client called Unsubscribe
	// on, one entry per call, in order; FinalChan: values left in the client's channel when Run had returned
	Unsubs    []int    `json:"unsubs,omitempty"`
	FinalChan int      `json:"final_chan,omitempty"`
	FinLog    []string `json:"fin_log,omitempty"` // geth family: the node's answers to the finalized-header queries
	// NoOptions: the client was built by l1.NewClient(provider, chain, logger) with no option
	NoOptions bool `json:"no_options,omitempty"`
	// FeedSlow: a subscriber that takes a value every now and then; FeedIdle: one that only looks
	// at its slot when everything is over
	DBFaultFired bool    `json:"db_fault_fired,omitempty"`
	DBFaultMark  int     `json:"db_fault_mark,omitempty"`
	DBFaultHead  *HeadJ  `json:"db_fault_head,omitempty"`
	FeedSent     []HeadJ `json:"feed_sent"` // every value Blockchain.SetL1Head sent on the feed = the notifications (+ a failed write's)
	FeedSlow     []HeadJ `json:"feed_slow"`
	FeedIdle     []HeadJ `json:"feed_idle"`
	// geth family: what the fake node pushed on the subscription / answered to eth_getLogs
	Emitted      []Log    `json:"emitted,omitempty"`
	Inflight     []bool   `json:"inflight,omitempty"`
	FilterGot    [][]Log  `json:"filter_got,omitempty"`
	GethProblems []string `json:"geth_problems,omitempty"`
}

// faultyKV wraps the memory database: the client's reads / writes of the stored L1 head can be
// made to fail (the harness itself reads and writes through the raw database).
type WriteRec struct {
	Mark int    `json:"mark"`
	Head *HeadJ `json:"head,omitempty"` // value written under L1Height (nil: not decodable / a delete)
	Key  string `json:"key,omitempty"`  // any other key (hex)
	Del  bool   `json:"del,omitempty"`
}

type faultyKV struct {
	db.KeyValueStore
	mu         sync.Mutex
	bypass     bool // the harness itself is reading through the Blockchain accessor
	onWrite    func(WriteRec)
	kind       string
	at         int
	reads, wrs int
	fired      bool
	wrote      *HeadJ // the head whose write failed (it had been sent on the feed before)
	onFire     func(wrote *HeadJ)
}

var errDB = errors.New("scripted database failure")

func (k *faultyKV) Get(key []byte, cb func([]byte) error) error {
	if bytes.Equal(key, db.L1Height.Key()) && !k.isBypass() {
		k.mu.Lock()
		k.reads++
		fail := k.kind == "r" && k.reads == k.at
		if fail {
			k.fired = true
		}
		k.mu.Unlock()
		if fail {
			if k.onFire != nil {
				k.onFire(nil)
			}
			return errDB
		}
	}
	return k.KeyValueStore.Get(key, cb)
}

func (k *faultyKV) isBypass() bool {
	k.mu.Lock()
	defer k.mu.Unlock()
	return k.bypass
}

func (k *faultyKV) setBypass(b bool) {
	k.mu.Lock()
	k.bypass = b
	k.mu.Unlock()
}

func (k *faultyKV) Delete(key []byte) error {
	if k.onWrite != nil {
		if bytes.Equal(key, db.L1Height.Key()) {
			k.onWrite(WriteRec{Del: true})
		} else {
			k.onWrite(WriteRec{Del: true, Key: fmt.Sprintf("%x", key)})
		}
	}
	return k.KeyValueStore.Delete(key)
}

func (k *faultyKV) DeleteRange(start, end []byte) error {
	if k.onWrite != nil {
		k.onWrite(WriteRec{Del: true, Key: fmt.Sprintf("range %x-%x", start, end)})
	}
	return k.KeyValueStore.DeleteRange(start, end)
}

func (k *faultyKV) Put(key, value []byte) error {
	if !bytes.Equal(key, db.L1Height.Key()) && k.onWrite != nil {
		k.onWrite(WriteRec{Key: fmt.Sprintf("%x", key)})
	}
	if bytes.Equal(key, db.L1Height.Key()) {
		k.mu.Lock()
		k.wrs++
		fail := k.kind == "w" && k.wrs == k.at
		if fail {
			k.fired = true
			var h core.L1Head
			if err := encoder.Unmarshal(value, &h); err == nil {
				k.wrote = headJ(&h)
			}
		}
		w := k.wrote
		k.mu.Unlock()
		if fail {
			if k.onFire != nil {
				k.onFire(w)
			}
			return errDB
		}
		if k.onWrite != nil {
			rec := WriteRec{}
			var h core.L1Head
			if err := encoder.Unmarshal(value, &h); err == nil {
				rec.Head = headJ(&h)
			}
			k.onWrite(rec)
		}
	}
	return k.KeyValueStore.Put(key, value)
}

type scriptedSub struct {
	errc chan error
	once sync.Once
	quit chan struct{}
	idx  int
	p    *provider
}

func newSub(p *provider, idx int) *scriptedSub {
	return &scriptedSub{errc: make(chan error, 1), quit: make(chan struct{}), idx: idx, p: p}
}
func (s *scriptedSub) Err() <-chan error { return s.errc }

// Unsubscribe is called by the client goroutine, never from inside a provider call.
func (s *scriptedSub) Unsubscribe() {
	s.p.mu.Lock()
	s.p.unsubs = append(s.p.unsubs, s.idx)
	s.p.mu.Unlock()
	s.once.Do(func() { close(s.quit) })
}

var errScripted = errors.New("scripted failure")

// errTimeout is what a provider call returns when its context deadline (30 s / 60 s in juno) expires:
// the client takes a different branch for it (errors.Is(err, context.DeadlineExceeded)) and returns
// an error that does not wrap the cause. Returned at once — no time passes.
var errTimeout = fmt.Errorf("scripted timeout: %w", context.DeadlineExceeded)

// fail: the error of a scripted failure of this case.
func (p *provider) fail() error {
	if p.c.TimeoutErrors {
		return errTimeout
	}
	return errScripted
}

type provider struct {
	mu    sync.Mutex
	cond  *sync.Cond
	c     *Case
	chain *blockchain.Blockchain
	raw   db.KeyValueStore
	kv    *faultyKV

	unsubs    []int
	writes    []WriteRec
	accessorP []string
	maxFill   int
	holdFill  int

	marks       []Mark
	events      []Log
	notes       []HeadJ
	feedSent    []HeadJ // every value sent on the feed, in order (notifications + a failed write's)
	faultAtMark int     // index of the poll mark during which the database failed (-1: none)
	ch          chan<- *l1.StateUpdate
	sub         *scriptedSub
	sent        int

	cur          uint64 // current finalised height
	chainIDFails int
	fin1Done     bool
	latestOK     bool
	filterCalls  int
	fin2Fails    int
	watchFails   int
	finFails     int
	watched      bool
	watchOK      int
	closed       bool

	// geth family
	inner     l1.L1StateProvider
	node      *fakeNode
	sentinels uint64
	paused    bool
	subDown   int
	filterGot [][]Log
	problems  []string
}

func fromSU(u *l1.StateUpdate) Log {
	return Log{L2: u.L2BlockNumber, Hash: u.L2BlockHash.Uint64(), Root: u.StateRoot.Uint64(), L1: u.L1RefHeight, Removed: u.Removed}
}

// tapSub is the subscription handed to the client in the geth family: the real forwarder's
// subscription plus the pump that moves its output onto the client's channel.
type tapSub struct {
	idx      int
	p        *provider
	inner    l1.Subscription
	quit     chan struct{}
	errc     chan error
	pumpDone chan struct{}
	once     sync.Once
}

func (t *tapSub) Err() <-chan error { return t.errc }

// watchInner relays the end of the real subscription to the client and tells the controller
// that the geth client has noticed the dropped connection.
func (p *provider) watchInner(t *tapSub) {
	select {
	case err, ok := <-t.inner.Err():
		p.mu.Lock()
		p.subDown++
		p.cond.Broadcast()
		p.mu.Unlock()
		if ok && err != nil {
			t.errc <- err
		}
		close(t.errc)
	case <-t.quit:
	}
}

// gate blocks provider calls while the controller drops the connection (p.mu held).
func (p *provider) gate() {
	for p.paused {
		p.cond.Wait()
	}
}

// Unsubscribe returns, like go-ethereum's event.Subscription, only when the producer side is dead:
// the real forwarder has stopped and the pump has handed over what the forwarder had already put
// on its channel — nothing of the old subscription can arrive after the next one is set up.
func (t *tapSub) Unsubscribe() {
	t.p.mu.Lock()
	t.p.unsubs = append(t.p.unsubs, t.idx)
	t.p.mu.Unlock()
	t.inner.Unsubscribe()
	t.once.Do(func() { close(t.quit) })
	<-t.pumpDone
}

// pump forwards what the REAL forwardStateUpdates goroutine delivers to the client's channel,
// under the same mutex as the provider marks (exact consumed counts), and filters the sentinels.
func (p *provider) pump(mid chan *l1.StateUpdate, out chan<- *l1.StateUpdate, quit, done chan struct{}) {
	defer close(done)
	n := 0
	stopping := false
	for {
		var su *l1.StateUpdate
		if stopping {
			select {
			case su = <-mid: // what the forwarder had already delivered
			default:
				return
			}
		} else {
			select {
			case su = <-mid:
			case <-quit:
				stopping = true
				continue
			}
		}
		if n++; n%3 == 0 {
			time.Sleep(150 * time.Microsecond) // a consumer that is sometimes slow
		}
		if su.L2BlockNumber >= sentinelBase && !su.Removed {
			p.mu.Lock()
			if k := su.L2BlockNumber - sentinelBase + 1; k > p.sentinels {
				p.sentinels = k
			}
			p.cond.Broadcast()
			p.mu.Unlock()
			continue
		}
		for {
			p.mu.Lock()
			select {
			case out <- su:
				p.sent++
				p.events = append(p.events, fromSU(su))
				if n := len(out); n > p.maxFill {
					p.maxFill = n
				}
				p.mu.Unlock()
			default:
				p.mu.Unlock()
				time.Sleep(50 * time.Microsecond)
				continue
			}
			break
		}
	}
}

func headJ(h *core.L1Head) *HeadJ {
	if h == nil {
		return nil
	}
	out := &HeadJ{L2: h.BlockNumber}
	if h.BlockHash != nil {
		out.Hash = h.BlockHash.Uint64()
	}
	if h.StateRoot != nil {
		out.Root = h.StateRoot.Uint64()
	}
	return out
}

func (p *provider) storedHead() *HeadJ {
	h, err := core.GetL1Head(p.raw)
	if err != nil {
		return nil
	}
	return headJ(&h)
}

// accessorHead reads the stored head the way RPC handlers and the client's guard do: through
// Blockchain.L1Head(). The scripted database faults do not apply to the harness's own reads.
func (p *provider) accessorHead() (*HeadJ, error) {
	if p.kv != nil {
		p.kv.setBypass(true)
		defer p.kv.setBypass(false)
	}
	h, err := p.chain.L1Head()
	if err != nil {
		return nil, err
	}
	return headJ(&h), nil
}

// checkAccessor (p.mu held): Blockchain.L1Head() must return the record under the L1Height key, and
// "key not found" exactly when there is none.
func (p *provider) checkAccessor(raw *HeadJ, where string) {
	acc, err := p.accessorHead()
	switch {
	case err != nil && !errors.Is(err, db.ErrKeyNotFound):
		p.accessorP = append(p.accessorP, fmt.Sprintf("%s: Blockchain.L1Head() failed: %v", where, err))
	case err != nil && raw != nil:
		p.accessorP = append(p.accessorP, fmt.Sprintf("%s: Blockchain.L1Head() says key not found; the database holds %s", where, raw))
	case err == nil && !headEq(acc, raw):
		p.accessorP = append(p.accessorP, fmt.Sprintf("%s: Blockchain.L1Head() = %s; the database holds %s", where, acc, raw))
	}
}

// mark must be called with p.mu held, at the very start of a provider call.
func (p *provider) mark(m Mark) {
	m.Consumed = p.sent
	m.Sent = p.sent
	if p.ch != nil {
		m.Consumed = p.sent - len(p.ch)
	}
	m.PreWatch = !p.watched
	m.HeadBefore = p.storedHead()
	p.checkAccessor(m.HeadBefore, "at provider call "+m.Kind)
	m.NotesBefore = len(p.notes)
	p.marks = append(p.marks, m)
	p.cond.Broadcast()
}

func (p *provider) ChainID(ctx context.Context) (*big.Int, error) {
	p.mu.Lock()
	defer p.mu.Unlock()
	if p.inner != nil {
		p.gate()
		p.mark(Mark{Kind: "chainid"})
		return p.inner.ChainID(ctx)
	}
	if p.chainIDFails > 0 {
		p.chainIDFails--
		p.mark(Mark{Kind: "chainidfail"})
		return nil, p.fail()
	}
	if p.c.ChainIDHangs {
		p.mark(Mark{Kind: "chainidhang"})
		p.mu.Unlock()
		<-ctx.Done()
		p.mu.Lock()
		return nil, ctx.Err()
	}
	p.mark(Mark{Kind: "chainid"})
	if p.c.ChainIDMismatch {
		return big.NewInt(5), nil
	}
	return big.NewInt(1), nil
}

func (p *provider) LatestHeight(ctx context.Context) (uint64, error) {
	p.mu.Lock()
	defer p.mu.Unlock()
	if p.inner != nil {
		p.gate()
		p.latestOK = true
		p.mark(Mark{Kind: "latest"})
		v, err := p.inner.LatestHeight(ctx)
		if err != nil || v != p.c.Latest {
			p.problems = append(p.problems, fmt.Sprintf("LatestHeight = %d, %v; the node answered %d", v, err, p.c.Latest))
		}
		return v, err
	}
	if p.c.LatestFail {
		p.mark(Mark{Kind: "latestfail"})
		return 0, p.fail()
	}
	p.latestOK = true
	p.mark(Mark{Kind: "latest"})
	return p.c.Latest, nil
}

func (p *provider) FinalisedHeight(ctx context.Context) (uint64, error) {
	p.mu.Lock()
	defer p.mu.Unlock()
	if p.inner != nil {
		p.gate()
		first := p.latestOK && !p.fin1Done
		p.fin1Done = true
		p.mark(Mark{Kind: "tick"})
		m := &p.marks[len(p.marks)-1]
		v, err := p.inner.FinalisedHeight(ctx)
		p.node.mu.Lock()
		want := p.node.lastFinAnswer
		p.node.mu.Unlock()
		switch {
		case err != nil:
			m.Kind = "finerr"
			if first {
				m.Kind = "fin1fail"
			}
		case first:
			m.Kind, m.Fin = "fin1", v
		default:
			m.Fin = v
		}
		if err == nil {
			m.NodeFin, m.HasNodeFin = want, true
		}
		if err == nil && v != want {
			p.problems = append(p.problems, fmt.Sprintf("FinalisedHeight = %d; the node's finalised height is %d", v, want))
		}
		return v, err
	}
	if p.latestOK && !p.fin1Done {
		p.fin1Done = true
		if p.c.Fin1Fail {
			p.mark(Mark{Kind: "fin1fail"})
			return 0, p.fail()
		}
		p.mark(Mark{Kind: "fin1", Fin: p.c.Fin1})
		return p.c.Fin1, nil
	}
	if !p.watched && p.fin2Fails > 0 {
		p.fin2Fails--
		p.mark(Mark{Kind: "finerr"})
		return 0, p.fail()
	}
	if p.watched && p.finFails > 0 {
		p.finFails--
		p.mark(Mark{Kind: "finerr"})
		return 0, p.fail()
	}
	p.mark(Mark{Kind: "tick", Fin: p.cur})
	return p.cur, nil
}

func (p *provider) FilterStateUpdate(ctx context.Context, from, to uint64) ([]*l1.StateUpdate, error) {
	p.mu.Lock()
	defer p.mu.Unlock()
	if p.inner != nil {
		p.gate()
		p.mark(Mark{Kind: "filter", From: from, To: to})
		m := &p.marks[len(p.marks)-1]
		out, err := p.inner.FilterStateUpdate(ctx, from, to)
		if err != nil {
			m.Kind = "filterfail"
			p.problems = append(p.problems, "FilterStateUpdate failed: "+err.Error())
			return out, err
		}
		got := []Log{}
		for _, u := range out {
			got = append(got, fromSU(u))
		}
		p.filterGot = append(p.filterGot, got)
		return out, nil
	}
	n := p.filterCalls
	p.filterCalls++
	if p.c.FilterFailAt >= 0 && n == p.c.FilterFailAt {
		p.mark(Mark{Kind: "filterfail", From: from, To: to})
		return nil, p.fail()
	}
	p.mark(Mark{Kind: "filter", From: from, To: to})
	var out []*l1.StateUpdate
	for _, l := range p.c.Hist {
		if from <= l.L1 && l.L1 <= to {
			out = append(out, toSU(l))
		}
	}
	return out, nil
}

func (p *provider) WatchStateUpdate(ctx context.Context, ch chan<- *l1.StateUpdate) (l1.Subscription, error) {
	p.mu.Lock()
	defer p.mu.Unlock()
	if p.inner != nil {
		p.gate()
		mid := make(chan *l1.StateUpdate, 1) // small: the forwarder must block on a slow consumer, not drop
		isub, err := p.inner.WatchStateUpdate(ctx, mid)
		if err != nil {
			p.mark(Mark{Kind: "watchfail"})
			p.watched = true
			return nil, err
		}
		p.mark(Mark{Kind: "watch"})
		p.watched = true
		p.ch = ch
		ts := &tapSub{idx: p.watchOK, p: p, inner: isub, quit: make(chan struct{}), errc: make(chan error, 1), pumpDone: make(chan struct{})}
		go p.pump(mid, ch, ts.quit, ts.pumpDone)
		go p.watchInner(ts)
		p.watchOK++
		p.cond.Broadcast()
		return ts, nil
	}
	if p.watchFails > 0 {
		p.watchFails--
		p.mark(Mark{Kind: "watchfail"})
		p.watched = true
		return nil, p.fail()
	}
	p.mark(Mark{Kind: "watch"})
	p.watched = true
	p.ch = ch
	p.sub = newSub(p, p.watchOK)
	p.watchOK++
	p.cond.Broadcast()
	return p.sub, nil
}

func (p *provider) Close() {
	if p.inner != nil {
		p.inner.Close()
	}
	p.mu.Lock()
	p.closed = true
	p.cond.Broadcast()
	p.mu.Unlock()
}

func toSU(l Log) *l1.StateUpdate {
	return &l1.StateUpdate{
		L2BlockNumber: l.L2,
		L2BlockHash:   *new(felt.Felt).SetUint64(l.Hash),
		StateRoot:     *new(felt.Felt).SetUint64(l.Root),
		L1RefHeight:   l.L1,
		Removed:       l.Removed,
	}
}

const barrierTimeout = 10 * time.Second

// neverSucceeds: a failure count that stands for "fails until the context ends".
const neverSucceeds = 1 << 20

// stalls counts cases that did not reach a barrier; after a few of them the remaining cases are
// skipped (a broken client would otherwise cost one timeout per case).
var stalls atomic.Int32

const maxStalls = 6

// waitFor blocks until pred (evaluated under p.mu) holds; false on timeout.
func (p *provider) waitFor(pred func() bool) bool {
	deadline := time.Now().Add(barrierTimeout)
	stop := make(chan struct{})
	defer close(stop)
	go func() { // wake the waiter periodically so that the deadline is noticed
		t := time.NewTicker(50 * time.Millisecond)
		defer t.Stop()
		for {
			select {
			case <-stop:
				return
			case <-t.C:
				p.mu.Lock()
				p.cond.Broadcast()
				p.mu.Unlock()
			}
		}
	}()
	p.mu.Lock()
	defer p.mu.Unlock()
	for !pred() {
		if time.Now().After(deadline) {
			return false
		}
		p.cond.Wait()
	}
	return true
}

// syncBarrier: all sent values consumed, a successful poll with the current finalised height
// started after that, and one more provider call started (so that poll's setL1Head is complete).
func (p *provider) syncBarrier() bool {
	p.mu.Lock()
	start := len(p.marks)
	p.mu.Unlock()
	return p.waitFor(func() bool {
		if p.closed {
			return true // Run has returned: nothing more will happen
		}
		for i := start; i < len(p.marks); i++ {
			m := p.marks[i]
			fin := m.Fin
			if m.HasNodeFin {
				fin = m.NodeFin
			}
			if m.Kind == "tick" && m.Consumed == p.sent && fin == p.cur && len(p.marks) > i+1 {
				return true
			}
		}
		return false
	})
}

// runCase drives the real l1.Client through the script and returns what was observed.
func runCase(c *Case) *Observed {
	obs := &Observed{}
	if stalls.Load() >= maxStalls {
		obs.Stalled = "skipped: too many earlier cases did not reach their barriers"
		return obs
	}
	defer func() {
		if obs.Stalled != "" {
			stalls.Add(1)
		}
	}()
	raw := memory.New()
	kv := &faultyKV{KeyValueStore: raw, kind: c.DBFault, at: c.DBFaultAt}
	chain := blockchain.New(kv, &networks.Mainnet)
	if c.Stored != nil {
		_ = core.WriteL1Head(raw, &core.L1Head{
			BlockNumber: c.Stored.L2,
			BlockHash:   new(felt.Felt).SetUint64(c.Stored.Hash),
			StateRoot:   new(felt.Felt).SetUint64(c.Stored.Root),
		})
	}
	p := &provider{c: c, chain: chain, raw: raw, kv: kv, faultAtMark: -1, holdFill: -1, cur: c.Fin2, chainIDFails: c.ChainIDFails,
		fin2Fails: c.Fin2Fails, watchFails: c.WatchFails}
	p.cond = sync.NewCond(&p.mu)
	if c.Geth {
		node, err := newFakeNode(c)
		if err != nil {
			obs.Stalled = "fake node: " + err.Error()
			return obs
		}
		defer node.close()
		dctx, dcancel := context.WithTimeout(context.Background(), barrierTimeout)
		gp, err := l1.NewGethL1StateProvider(dctx, node.url, eth.Address(coreContract))
		dcancel()
		if err != nil {
			obs.Stalled = "dial fake node: " + err.Error()
			return obs
		}
		p.inner, p.node = gp, node
	}

	listener := l1.SelectiveListener{OnNewL1HeadCb: func(h *core.L1Head) {
		// called from the client goroutine, never from inside a provider call
		p.mu.Lock()
		p.notes = append(p.notes, *headJ(h))
		p.feedSent = append(p.feedSent, *headJ(h))
		p.mu.Unlock()
	}}
	// NewClient with NO option at all (the listener defaults to SelectiveListener{}, chunk 1000, poll
	// interval 1 min, retry delay 10 s): possible where no timer is involved — a one-shot catch-up
	// whose finalised-height reads succeed. Without a listener the heads handed to
	// Blockchain.SetL1Head are taken from the database writes.
	noOpts := c.DefaultChunk && c.Mode == "oneshot" && c.Fin2Fails == 0
	kv.onWrite = func(w WriteRec) { // client goroutine, between two provider calls
		p.mu.Lock()
		w.Mark = len(p.marks) - 1
		p.writes = append(p.writes, w)
		if noOpts && w.Key == "" && !w.Del && w.Head != nil {
			p.notes = append(p.notes, *w.Head)
			p.feedSent = append(p.feedSent, *w.Head)
		}
		p.mu.Unlock()
	}
	kv.onFire = func(wrote *HeadJ) { // client goroutine, inside setL1Head, between two provider calls
		p.mu.Lock()
		p.faultAtMark = len(p.marks) - 1
		if wrote != nil {
			p.feedSent = append(p.feedSent, *wrote)
		}
		p.mu.Unlock()
	}
	poll := time.Duration(c.PollMicros) * time.Microsecond
	if poll <= 0 {
		poll = 200 * time.Microsecond
	}
	resub := time.Duration(c.ResubMicros) * time.Microsecond
	if resub <= 0 {
		resub = 50 * time.Microsecond
	}
	opts := []l1.Option{l1.WithEventListener(listener),
		l1.WithResubscribeDelay(resub),
		l1.WithPollFinalisedInterval(poll)}
	if !c.DefaultChunk {
		opts = append(opts, l1.WithCatchUpChunkSize(c.Chunk))
	}
	if noOpts {
		opts = nil
	}
	client := l1.NewClient(p, chain, log.NewNopZapLogger(), opts...)

	// feed observer
	feedSub := chain.SubscribeL1Head()
	var feedMu sync.Mutex
	feedDone := make(chan struct{})
	go func() {
		defer close(feedDone)
		for h := range feedSub.Recv() {
			feedMu.Lock()
			obs.Feed = append(obs.Feed, *headJ(h))
			feedMu.Unlock()
		}
	}()

	// two more subscribers of the same feed
	slowSub, idleSub := chain.SubscribeL1Head(), chain.SubscribeL1Head()
	slowDone := make(chan struct{})
	go func() {
		defer close(slowDone)
		for h := range slowSub.Recv() {
			feedMu.Lock()
			obs.FeedSlow = append(obs.FeedSlow, *headJ(h))
			feedMu.Unlock()
			time.Sleep(400 * time.Microsecond)
		}
	}()

	ctx, cancel := context.WithCancel(context.Background())
	defer cancel()
	runDone := make(chan struct{})
	var runErr error // read after runDone is closed
	go func() {
		defer close(runDone)
		err, panicked, stack := lib.Try(func() error {
			if c.Mode == "oneshot" {
				return client.CatchUpL1Head(ctx)
			}
			return client.Run(ctx)
		})
		if panicked {
			obs.Panic = err.Error() + "\n" + stack
		} else if err != nil {
			obs.RunErr = err.Error()
			runErr = err
		}
		p.mu.Lock()
		p.closed = true
		p.cond.Broadcast()
		p.mu.Unlock()
	}()

	stall := func(what string) {
		if obs.Stalled == "" {
			obs.Stalled = what
		}
	}

	if c.Mode != "oneshot" {
		// wait for the first successful subscription (or the end of Run)
		// a case whose chain-id probe / subscription never succeeds: the context is cancelled while the
		// client is inside the retry loop (after three failed attempts)
		never := c.WatchFails >= neverSucceeds || c.ChainIDFails >= neverSucceeds
		ok := p.waitFor(func() bool {
			if c.ChainIDHangs {
				for _, m := range p.marks {
					if m.Kind == "chainidhang" {
						return true
					}
				}
			}
			if never {
				n := 0
				for _, m := range p.marks {
					if (m.Kind == "watchfail" && c.WatchFails >= neverSucceeds) || (m.Kind == "chainidfail" && c.ChainIDFails >= neverSucceeds) {
						n++
					}
				}
				if n >= 3 {
					return true
				}
			}
			return p.watchOK > 0 || p.closed
		})
		if !ok {
			stall("no subscription and Run did not return")
		}
		p.mu.Lock()
		live := p.watchOK > 0 && !p.closed
		p.mu.Unlock()
		if live && ok {
			for i, op := range c.Ops {
				if !execOp(p, op) {
					stall("barrier not reached at op " + itoa(i) + " (" + op.Kind + ")")
					break
				}
			}
			if obs.Stalled == "" && !p.syncBarrier() {
				stall("final barrier not reached")
			}
		}
	}
	if c.Mode == "oneshot" {
		select {
		case <-runDone:
		case <-time.After(barrierTimeout):
			stall("CatchUpL1Head did not return")
		}
	}
	if c.Mode != "oneshot" {
		// Run closes the provider (deferred) before it returns: once that has been seen, Run IS
		// returning although nobody cancelled — wait for it instead of racing with its last instructions
		p.mu.Lock()
		closed := p.closed
		p.mu.Unlock()
		if closed {
			select {
			case <-runDone:
				obs.EndedEarly = true
			case <-time.After(barrierTimeout):
				stall("the provider was closed but Run did not return")
			}
		} else {
			select {
			case <-runDone:
				obs.EndedEarly = true
			default:
			}
		}
	}
	cancel()
	select {
	case <-runDone:
	case <-time.After(barrierTimeout):
		stall("Run did not return after cancel")
	}
	feedSub.Unsubscribe()
	<-feedDone
	slowSub.Unsubscribe()
	<-slowDone
	select {
	case h, ok := <-idleSub.Recv():
		if ok {
			obs.FeedIdle = append(obs.FeedIdle, *headJ(h))
		}
	default:
	}
	idleSub.Unsubscribe()

	p.mu.Lock()
	obs.Marks = append([]Mark(nil), p.marks...)
	obs.Events = append([]Log(nil), p.events...)
	obs.Notes = append([]HeadJ(nil), p.notes...)
	obs.FeedSent = append([]HeadJ(nil), p.feedSent...)
	obs.DBFaultMark = p.faultAtMark
	kv.mu.Lock()
	obs.DBFaultFired = kv.fired
	obs.DBFaultHead = kv.wrote
	kv.mu.Unlock()
	obs.FilterGot = p.filterGot
	obs.GethProblems = p.problems
	if runErr != nil {
		answered := false // the chain-id probe got an answer (as opposed to a failure)
		for _, m := range p.marks {
			if m.Kind == "chainid" {
				answered = true
			}
		}
		switch {
		case errors.Is(runErr, errDB):
			obs.RunErrClass = "db"
		case errors.Is(runErr, errScripted):
			obs.RunErrClass = "provider"
		case c.ChainIDMismatch && answered && !errors.Is(runErr, context.Canceled) && !errors.Is(runErr, context.DeadlineExceeded):
			// errChainIDMismatch is unexported: recognised as "an error that wraps nothing the
			// harness injected, in a case whose node answered another chain id"
			obs.RunErrClass = "mismatch"
		case c.Geth, c.TimeoutErrors:
			obs.RunErrClass = "provider" // a real go-ethereum error from the fake node / an expired call timeout
		default:
			obs.RunErrClass = "other"
		}
	}
	obs.Writes = append([]WriteRec(nil), p.writes...)
	obs.Unsubs = append([]int(nil), p.unsubs...)
	if p.ch != nil {
		obs.FinalChan = len(p.ch)
	}
	obs.MaxChanFill = p.maxFill
	obs.HoldFill = p.holdFill
	obs.NoOptions = noOpts
	p.checkAccessor(p.storedHead(), "after the client stopped")
	obs.AccessorProblems = append([]string(nil), p.accessorP...)
	if acc, err := p.accessorHead(); err != nil {
		obs.FinalAccessorErr = err.Error()
	} else {
		obs.FinalAccessor = acc
	}
	{
		// isL1Verified of rpc/v8,v9,v10 helpers.go, copied literally; l1Head() of the handlers returns
		// the empty head when the key is not found
		var l1h core.L1Head
		p.kv.setBypass(true)
		if h, err := chain.L1Head(); err == nil {
			l1h = h
		}
		p.kv.setBypass(false)
		isL1Verified := func(n uint64, l1 core.L1Head) bool {
			if l1 != (core.L1Head{}) && l1.BlockNumber >= n {
				return true
			}
			return false
		}
		obs.Verified = [3]bool{isL1Verified(0, l1h), isL1Verified(l1h.BlockNumber, l1h), l1h.BlockNumber+1 != 0 && isL1Verified(l1h.BlockNumber+1, l1h)}
	}
	p.mu.Unlock()
	if p.node != nil {
		p.node.mu.Lock()
		obs.Emitted = append([]Log(nil), p.node.emitted...)
		obs.Inflight = append([]bool(nil), p.node.inflight...)
		obs.FinLog = append([]string(nil), p.node.finLog...)
		p.node.mu.Unlock()
	}
	obs.FinalHead = p.storedHead()
	return obs
}

func itoa(i int) string { return big.NewInt(int64(i)).String() }

// drain: everything the node has pushed so far has come out of the real forwarder (or was
// swallowed by it): a sentinel log pushed now has been seen by the pump.
func (p *provider) drain() bool {
	p.mu.Lock()
	k := p.sentinels
	p.mu.Unlock()
	deadline := time.Now().Add(barrierTimeout)
	for time.Now().Before(deadline) {
		// the sentinel is re-sent if it does not come out (a forwarder that loses logs may lose it)
		p.node.mu.Lock()
		p.node.emit0(sentinelLog(k))
		p.node.mu.Unlock()
		until := time.Now().Add(100 * time.Millisecond)
		for time.Now().Before(until) {
			p.mu.Lock()
			done := p.sentinels > k || p.closed
			p.mu.Unlock()
			if done {
				return true
			}
			time.Sleep(20 * time.Microsecond)
		}
	}
	return false
}

func execGethOp(p *provider, op Op) bool {
	switch op.Kind {
	case "send":
		p.node.emit(op.Logs, true)
		return p.drain()
	case "fin":
		p.node.mu.Lock()
		p.node.cur = op.Fin
		p.node.mu.Unlock()
		p.mu.Lock()
		p.cur = op.Fin
		p.mu.Unlock()
		return true
	case "sync":
		return p.syncBarrier()
	case "finfail":
		p.node.mu.Lock()
		p.node.finFails = op.N
		p.node.mu.Unlock()
		return true
	case "finnotfound":
		p.node.mu.Lock()
		p.node.finNotFound = op.N
		p.node.mu.Unlock()
		return true
	case "push":
		p.node.emit(op.Logs, true)
		return true
	case "waitfinerr":
		p.mu.Lock()
		start := len(p.marks)
		p.mu.Unlock()
		return p.waitFor(func() bool {
			if p.closed {
				return true
			}
			for i := start; i < len(p.marks); i++ {
				if p.marks[i].Kind == "finerr" {
					return true
				}
			}
			return false
		})
	case "waitfill":
		want := op.N
		if want > 128 {
			want = 128
		}
		return p.waitFor(func() bool { return p.closed || (p.ch != nil && len(p.ch) >= want) })
	case "hold":
		// a bounded real wait of the harness; nothing is decided by it (the oracle is the same however
		// long it lasts) — it only gives a stall timeout inside the code under test the time to fire
		time.Sleep(time.Duration(op.N) * time.Millisecond)
		p.mu.Lock()
		if p.ch != nil {
			p.holdFill = len(p.ch)
		}
		p.mu.Unlock()
		return true
	case "drainwait":
		return p.drain()
	case "suberr-inflight":
		// logs (removal notices among them) are pushed and the connection is dropped while they
		// are still on their way through go-ethereum's client and juno's forwarder
		if !p.drain() {
			return false
		}
		p.node.mu.Lock()
		p.node.markInflight = true
		p.node.mu.Unlock()
		p.node.emit(op.Logs, true)
		p.node.mu.Lock()
		p.node.markInflight = false
		p.node.mu.Unlock()
		time.Sleep(time.Duration(op.N) * 100 * time.Microsecond)
		return dropAndResubscribe(p)
	case "suberr":
		if !p.drain() {
			return false
		}
		return dropAndResubscribe(p)
	}
	return true
}

func dropAndResubscribe(p *provider) bool {
	{
		// No provider call (hence no RPC of the client) is in flight while p.mu is held; further
		// calls wait at the gate until go-ethereum's client has noticed the dead connection
		// (a request written into a connection that is being torn down can hang until its
		// 30 s deadline — a go-ethereum client race that has nothing to do with this property).
		p.mu.Lock()
		before, down := p.watchOK, p.subDown
		p.paused = true
		p.node.dropConnections()
		p.mu.Unlock()
		ok := p.waitFor(func() bool { return p.subDown > down || p.closed })
		p.mu.Lock()
		p.paused = false
		p.cond.Broadcast()
		p.mu.Unlock()
		if !ok {
			return false
		}
		return p.waitFor(func() bool { return p.watchOK > before || p.closed })
	}
}

func execOp(p *provider, op Op) bool {
	if p.inner != nil {
		return execGethOp(p, op)
	}
	switch op.Kind {
	case "send":
		for _, l := range op.Logs {
			for {
				p.mu.Lock()
				select {
				case p.ch <- toSU(l):
					p.sent++
					p.events = append(p.events, l)
					if n := len(p.ch); n > p.maxFill {
						p.maxFill = n
					}
					p.mu.Unlock()
				default:
					p.mu.Unlock()
					time.Sleep(50 * time.Microsecond)
					continue
				}
				break
			}
		}
		return true
	case "fin":
		p.mu.Lock()
		p.cur = op.Fin
		p.mu.Unlock()
		return true
	case "sync":
		return p.syncBarrier()
	case "finfail":
		p.mu.Lock()
		p.finFails = op.N
		p.mu.Unlock()
		return true
	case "waitfinerr":
		// until the client is inside finalisedHeight's retry loop (it does not read the channel there)
		p.mu.Lock()
		start := len(p.marks)
		p.mu.Unlock()
		return p.waitFor(func() bool {
			if p.closed {
				return true
			}
			for i := start; i < len(p.marks); i++ {
				if p.marks[i].Kind == "finerr" {
					return true
				}
			}
			return false
		})
	case "suberr":
		p.mu.Lock()
		p.watchFails = op.N
		before := p.watchOK
		sub := p.sub
		p.mu.Unlock()
		sub.errc <- errScripted
		return p.waitFor(func() bool { return p.watchOK > before || p.closed })
	}
	return true
}
