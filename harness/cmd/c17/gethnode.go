//go:build verif

package main

import (
	"context"
	"encoding/json"
	"errors"
	"fmt"
	"math/big"
	"net"
	"net/http/httptest"
	"sort"
	"strconv"
	"strings"
	"sync"

	"github.com/ethereum/go-ethereum/common"
	"github.com/ethereum/go-ethereum/common/hexutil"
	"github.com/ethereum/go-ethereum/core/types"
	"github.com/ethereum/go-ethereum/rpc"
)

// fakeNode is an in-process Ethereum JSON-RPC node (go-ethereum's own rpc.Server over a real
// websocket) that serves exactly what l1.GethL1StateProvider asks an L1 node for: eth_chainId,
// eth_blockNumber, eth_getBlockByNumber("finalized"), eth_getLogs and eth_subscribe("logs").
// It is the scripted low-level source behind the REAL forwarding layer
// (NewGethL1StateProvider -> abigen filterer -> forwardStateUpdates).

var (
	coreContract   = common.HexToAddress("0xc662c410C0ECf747543f5bA90660f6ABeBD9C8c4")
	logStateUpdate = common.HexToHash("0xd342ddf7a308dec111745b00315c14b7efb2bdae570a6856e088ed0c65a3576c")
	feltP, _       = new(big.Int).SetString("800000000000011000000000000000000000000000000000000000000000001", 16)
)

var (
	otherContract = common.HexToAddress("0x00000000000000000000000000000000DeaDBeef")
	otherTopic    = common.HexToHash("0x9592d37825c744e33fa80c469683bbd04d336241bb600b574758efd182abe26a") // LogMessageToL1-like
)

const sentinelBase = uint64(1) << 62

type trackListener struct {
	net.Listener
	mu    sync.Mutex
	conns []net.Conn
}

func (l *trackListener) Accept() (net.Conn, error) {
	c, err := l.Listener.Accept()
	if err == nil {
		l.mu.Lock()
		l.conns = append(l.conns, c)
		l.mu.Unlock()
	}
	return c, err
}

func (l *trackListener) killAll() {
	l.mu.Lock()
	cs := l.conns
	l.conns = nil
	l.mu.Unlock()
	for _, c := range cs {
		_ = c.Close()
	}
}

type nodeSub struct {
	crit logCriteria
	ch   chan *types.Log
	done chan struct{}
}

type fakeNode struct {
	mu              sync.Mutex
	hist            []Log
	latest          uint64
	fin1            uint64
	cur             uint64
	finCalls        int
	finFails        int
	finNotFound     int
	chainIDFails    int
	chainIDMismatch bool
	decoys          []Log
	lastFinAnswer   uint64
	finLog          []string // answers to the finalized-header queries: f (failed) | n (null) | h:<hex>
	subs            []*nodeSub
	subCount        int
	emitted         []Log  // every non-sentinel log pushed on a live subscription, in order
	inflight        []bool // parallel to emitted: pushed right before the connection was dropped
	markInflight    bool
	filterQ         [][2]uint64
	srv             *rpc.Server
	hs              *httptest.Server
	ln              *trackListener
	url             string
}

// rawValues gives the uint256 words the core contract would have emitted for l.
func rawValues(l Log) (root, number, hash *big.Int) {
	root = new(big.Int).SetUint64(l.Root)
	hash = new(big.Int).SetUint64(l.Hash)
	if l.OverP { // value above the field modulus: juno reduces it
		root.Add(root, feltP)
		hash.Add(hash, feltP)
	}
	return root, new(big.Int).SetUint64(l.L2), hash
}

func toGethLog(l Log, idx uint) *types.Log {
	root, number, hash := rawValues(l)
	data := make([]byte, 96)
	root.FillBytes(data[0:32])
	number.FillBytes(data[32:64])
	hash.FillBytes(data[64:96])
	addr, topic := coreContract, logStateUpdate
	switch l.Decoy {
	case 1:
		addr = otherContract
	case 2:
		topic = otherTopic
	}
	return &types.Log{
		Address:     addr,
		Topics:      []common.Hash{topic},
		Data:        data,
		BlockNumber: l.L1,
		TxHash:      common.BigToHash(new(big.Int).SetUint64(l.L1*1000 + l.L2%1000 + 1)),
		TxIndex:     0,
		BlockHash:   common.BigToHash(new(big.Int).SetUint64(l.L1 + 1)),
		Index:       idx,
		Removed:     l.Removed,
	}
}

type ethAPI struct{ n *fakeNode }

func (a *ethAPI) ChainId() (*hexutil.Big, error) {
	a.n.mu.Lock()
	defer a.n.mu.Unlock()
	if a.n.chainIDFails > 0 {
		a.n.chainIDFails--
		return nil, errors.New("scripted failure")
	}
	if a.n.chainIDMismatch {
		return (*hexutil.Big)(big.NewInt(5)), nil
	}
	return (*hexutil.Big)(big.NewInt(1)), nil
}

func (a *ethAPI) BlockNumber() hexutil.Uint64 {
	a.n.mu.Lock()
	defer a.n.mu.Unlock()
	return hexutil.Uint64(a.n.latest)
}

func (a *ethAPI) GetBlockByNumber(ctx context.Context, number string, full bool) (any, error) {
	a.n.mu.Lock()
	defer a.n.mu.Unlock()
	hdr := func(h uint64) any {
		return &types.Header{Number: new(big.Int).SetUint64(h), Difficulty: big.NewInt(0), Extra: []byte{}}
	}
	// the truth about finality at this query, whatever tag was asked for
	a.n.finCalls++
	truth := a.n.cur
	if a.n.finCalls == 1 {
		truth = a.n.fin1
	}
	a.n.lastFinAnswer = truth
	switch number {
	case "finalized":
	case "latest", "pending":
		return hdr(a.n.latest), nil
	case "safe": // justified, not yet finalised
		return hdr(truth + 1), nil
	case "earliest":
		return hdr(0), nil
	default:
		h, err := parseBlock(number)
		if err != nil {
			return nil, fmt.Errorf("fake node: unexpected block tag %q", number)
		}
		return hdr(h), nil
	}
	if a.n.finFails > 0 {
		a.n.finFails--
		a.n.finLog = append(a.n.finLog, "f")
		return nil, errors.New("scripted failure")
	}
	if a.n.finNotFound > 0 {
		a.n.finNotFound--
		a.n.finLog = append(a.n.finLog, "n")
		return nil, nil // JSON null: the node has not seen finality
	}
	a.n.finLog = append(a.n.finLog, fmt.Sprintf("h:%x", truth))
	return hdr(truth), nil
}

type logCriteria struct {
	FromBlock string            `json:"fromBlock"`
	ToBlock   string            `json:"toBlock"`
	Address   json.RawMessage   `json:"address"`
	Topics    []json.RawMessage `json:"topics"`
}

func parseBlock(s string) (uint64, error) {
	return strconv.ParseUint(strings.TrimPrefix(s, "0x"), 16, 64)
}

// matches implements the eth_getLogs / eth_subscribe filter of a real node for the two
// criteria juno uses: contract address(es) and first topic(s). Absent criterion = wildcard.
func (c logCriteria) matches(l *types.Log) bool {
	if a := strings.TrimSpace(string(c.Address)); a != "" && a != "null" && a != "[]" {
		if !strings.Contains(strings.ToLower(a), strings.ToLower(l.Address.Hex()[2:])) {
			return false
		}
	}
	if len(c.Topics) > 0 {
		t := strings.TrimSpace(string(c.Topics[0]))
		if t != "" && t != "null" && t != "[]" && !strings.Contains(strings.ToLower(t), l.Topics[0].Hex()[2:]) {
			return false
		}
	}
	return true
}

func (a *ethAPI) GetLogs(ctx context.Context, crit logCriteria) ([]*types.Log, error) {
	from, err := parseBlock(crit.FromBlock)
	if err != nil {
		return nil, fmt.Errorf("fake node: fromBlock %q", crit.FromBlock)
	}
	to, err := parseBlock(crit.ToBlock)
	if err != nil {
		return nil, fmt.Errorf("fake node: toBlock %q", crit.ToBlock)
	}
	a.n.mu.Lock()
	defer a.n.mu.Unlock()
	a.n.filterQ = append(a.n.filterQ, [2]uint64{from, to})
	out := []*types.Log{}
	// logs of other contracts / other events live in the same blocks; chain order by L1 block
	all := append(append([]Log{}, a.n.hist...), a.n.decoys...)
	sort.SliceStable(all, func(i, j int) bool { return all[i].L1 < all[j].L1 })
	for i, l := range all {
		if from <= l.L1 && l.L1 <= to {
			if gl := toGethLog(l, uint(i)); crit.matches(gl) {
				out = append(out, gl)
			}
		}
	}
	return out, nil
}

// Logs is eth_subscribe("logs", …).
func (a *ethAPI) Logs(ctx context.Context, crit logCriteria) (*rpc.Subscription, error) {
	notifier, ok := rpc.NotifierFromContext(ctx)
	if !ok {
		return nil, rpc.ErrNotificationsUnsupported
	}
	sub := notifier.CreateSubscription()
	ns := &nodeSub{ch: make(chan *types.Log, 4096), done: make(chan struct{}), crit: crit}
	a.n.mu.Lock()
	a.n.subs = append(a.n.subs, ns)
	a.n.subCount++
	a.n.mu.Unlock()
	go func() {
		defer close(ns.done)
		for {
			select {
			case l := <-ns.ch:
				_ = notifier.Notify(sub.ID, l)
			case <-sub.Err():
				return
			}
		}
	}()
	return sub, nil
}

func newFakeNode(c *Case) (*fakeNode, error) {
	n := &fakeNode{hist: c.Hist, latest: c.Latest, fin1: c.Fin1, cur: c.Fin2, decoys: c.Decoys,
		chainIDFails: c.ChainIDFails, chainIDMismatch: c.ChainIDMismatch}
	n.srv = rpc.NewServer()
	if err := n.srv.RegisterName("eth", &ethAPI{n}); err != nil {
		return nil, err
	}
	n.hs = httptest.NewUnstartedServer(n.srv.WebsocketHandler([]string{"*"}))
	n.ln = &trackListener{Listener: n.hs.Listener}
	n.hs.Listener = n.ln
	n.hs.Start()
	n.url = "ws" + strings.TrimPrefix(n.hs.URL, "http")
	return n, nil
}

func (n *fakeNode) close() {
	n.ln.killAll()
	n.srv.Stop()
	n.hs.Close()
}

// emit pushes logs on every live subscription (normally one), in order.
func (n *fakeNode) emit(logs []Log, record bool) {
	n.mu.Lock()
	defer n.mu.Unlock()
	for _, l := range logs {
		if record && l.Decoy == 0 {
			n.emitted = append(n.emitted, l)
			n.inflight = append(n.inflight, n.markInflight)
		}
		gl := toGethLog(l, uint(len(n.emitted)))
		for _, s := range n.subs {
			if !s.crit.matches(gl) {
				continue // a log of another contract / event is not pushed on this subscription
			}
			select {
			case <-s.done:
			default:
				s.ch <- gl
			}
		}
	}
}

// emit0 pushes one unrecorded log (sentinel); n.mu must be held.
func (n *fakeNode) emit0(l Log) {
	for _, s := range n.subs {
		select {
		case <-s.done:
		default:
			s.ch <- toGethLog(l, 0)
		}
	}
}

// dropConnections closes every websocket: the subscription of the client under test fails.
func (n *fakeNode) dropConnections() {
	n.mu.Lock()
	n.subs = nil
	n.mu.Unlock()
	n.ln.killAll()
}

func sentinelLog(k uint64) Log { return Log{L2: sentinelBase + k} }
