//go:build verif

package main

import (
	"context"
	"encoding/json"
	"errors"
	"fmt"
	"math/big"
	"net"
	"net/http/httptest"
	"strconv"
	"strings"
	"sync"

	"github.com/ethereum/go-ethereum/common"
	"github.com/ethereum/go-ethereum/common/hexutil"
	"github.com/ethereum/go-ethereum/core/types"
	"github.com/ethereum/go-ethereum/rpc"
)

// fakeNode is an in-process Ethereum JSON-RPC node (go-ethereum's own rpc.Server over a real
// websocket) that serves exactly what l1.GethL1StateProvider asks an L1 node for: eth_chainId,
// eth_blockNumber, eth_getBlockByNumber("finalized"), eth_getLogs and eth_subscribe("logs").
// It is the scripted low-level source behind the REAL forwarding layer
// (NewGethL1StateProvider -> abigen filterer -> forwardStateUpdates).

var (
	coreContract   = common.HexToAddress("0xc662c410C0ECf747543f5bA90660f6ABeBD9C8c4")
	logStateUpdate = common.HexToHash("0xd342ddf7a308dec111745b00315c14b7efb2bdae570a6856e088ed0c65a3576c")
	feltP, _       = new(big.Int).SetString("800000000000011000000000000000000000000000000000000000000000001", 16)
)

const sentinelBase = uint64(1) << 62

type trackListener struct {
	net.Listener
	mu    sync.Mutex
	conns []net.Conn
}

func (l *trackListener) Accept() (net.Conn, error) {
	c, err := l.Listener.Accept()
	if err == nil {
		l.mu.Lock()
		l.conns = append(l.conns, c)
		l.mu.Unlock()
	}
	return c, err
}

func (l *trackListener) killAll() {
	l.mu.Lock()
	cs := l.conns
	l.conns = nil
	l.mu.Unlock()
	for _, c := range cs {
		_ = c.Close()
	}
}

type nodeSub struct {
	ch   chan *types.Log
	done chan struct{}
}

type fakeNode struct {
	mu            sync.Mutex
	hist          []Log
	latest        uint64
	fin1          uint64
	cur           uint64
	finCalls      int
	finFails      int
	lastFinAnswer uint64
	subs          []*nodeSub
	subCount      int
	emitted       []Log // every non-sentinel log pushed on a live subscription, in order
	filterQ       [][2]uint64
	srv           *rpc.Server
	hs            *httptest.Server
	ln            *trackListener
	url           string
}

// rawValues gives the uint256 words the core contract would have emitted for l.
func rawValues(l Log) (root, number, hash *big.Int) {
	root = new(big.Int).SetUint64(l.Root)
	hash = new(big.Int).SetUint64(l.Hash)
	if l.OverP { // value above the field modulus: juno reduces it
		root.Add(root, feltP)
		hash.Add(hash, feltP)
	}
	return root, new(big.Int).SetUint64(l.L2), hash
}

func toGethLog(l Log, idx uint) *types.Log {
	root, number, hash := rawValues(l)
	data := make([]byte, 96)
	root.FillBytes(data[0:32])
	number.FillBytes(data[32:64])
	hash.FillBytes(data[64:96])
	return &types.Log{
		Address:     coreContract,
		Topics:      []common.Hash{logStateUpdate},
		Data:        data,
		BlockNumber: l.L1,
		TxHash:      common.BigToHash(new(big.Int).SetUint64(l.L1*1000 + l.L2%1000 + 1)),
		TxIndex:     0,
		BlockHash:   common.BigToHash(new(big.Int).SetUint64(l.L1 + 1)),
		Index:       idx,
		Removed:     l.Removed,
	}
}

type ethAPI struct{ n *fakeNode }

func (a *ethAPI) ChainId() *hexutil.Big { return (*hexutil.Big)(big.NewInt(1)) }

func (a *ethAPI) BlockNumber() hexutil.Uint64 {
	a.n.mu.Lock()
	defer a.n.mu.Unlock()
	return hexutil.Uint64(a.n.latest)
}

func (a *ethAPI) GetBlockByNumber(ctx context.Context, number string, full bool) (*types.Header, error) {
	a.n.mu.Lock()
	defer a.n.mu.Unlock()
	if number != "finalized" {
		return nil, fmt.Errorf("fake node: unexpected block tag %q", number)
	}
	a.n.finCalls++
	if a.n.finFails > 0 {
		a.n.finFails--
		return nil, errors.New("scripted failure")
	}
	h := a.n.cur
	if a.n.finCalls == 1 {
		h = a.n.fin1
	}
	a.n.lastFinAnswer = h
	return &types.Header{Number: new(big.Int).SetUint64(h), Difficulty: big.NewInt(0), Extra: []byte{}}, nil
}

type logCriteria struct {
	FromBlock string            `json:"fromBlock"`
	ToBlock   string            `json:"toBlock"`
	Address   json.RawMessage   `json:"address"`
	Topics    []json.RawMessage `json:"topics"`
}

func parseBlock(s string) (uint64, error) {
	return strconv.ParseUint(strings.TrimPrefix(s, "0x"), 16, 64)
}

func (a *ethAPI) GetLogs(ctx context.Context, crit logCriteria) ([]*types.Log, error) {
	from, err := parseBlock(crit.FromBlock)
	if err != nil {
		return nil, fmt.Errorf("fake node: fromBlock %q", crit.FromBlock)
	}
	to, err := parseBlock(crit.ToBlock)
	if err != nil {
		return nil, fmt.Errorf("fake node: toBlock %q", crit.ToBlock)
	}
	if !strings.Contains(strings.ToLower(string(crit.Address)), strings.ToLower(coreContract.Hex()[2:])) ||
		len(crit.Topics) == 0 || !strings.Contains(strings.ToLower(string(crit.Topics[0])), logStateUpdate.Hex()[2:]) {
		return []*types.Log{}, nil // a query for another contract / event matches nothing
	}
	a.n.mu.Lock()
	defer a.n.mu.Unlock()
	a.n.filterQ = append(a.n.filterQ, [2]uint64{from, to})
	out := []*types.Log{}
	for i, l := range a.n.hist {
		if from <= l.L1 && l.L1 <= to {
			out = append(out, toGethLog(l, uint(i)))
		}
	}
	return out, nil
}

// Logs is eth_subscribe("logs", …).
func (a *ethAPI) Logs(ctx context.Context, crit logCriteria) (*rpc.Subscription, error) {
	notifier, ok := rpc.NotifierFromContext(ctx)
	if !ok {
		return nil, rpc.ErrNotificationsUnsupported
	}
	sub := notifier.CreateSubscription()
	ns := &nodeSub{ch: make(chan *types.Log, 4096), done: make(chan struct{})}
	a.n.mu.Lock()
	a.n.subs = append(a.n.subs, ns)
	a.n.subCount++
	a.n.mu.Unlock()
	go func() {
		defer close(ns.done)
		for {
			select {
			case l := <-ns.ch:
				_ = notifier.Notify(sub.ID, l)
			case <-sub.Err():
				return
			}
		}
	}()
	return sub, nil
}

func newFakeNode(c *Case) (*fakeNode, error) {
	n := &fakeNode{hist: c.Hist, latest: c.Latest, fin1: c.Fin1, cur: c.Fin2}
	n.srv = rpc.NewServer()
	if err := n.srv.RegisterName("eth", &ethAPI{n}); err != nil {
		return nil, err
	}
	n.hs = httptest.NewUnstartedServer(n.srv.WebsocketHandler([]string{"*"}))
	n.ln = &trackListener{Listener: n.hs.Listener}
	n.hs.Listener = n.ln
	n.hs.Start()
	n.url = "ws" + strings.TrimPrefix(n.hs.URL, "http")
	return n, nil
}

func (n *fakeNode) close() {
	n.ln.killAll()
	n.srv.Stop()
	n.hs.Close()
}

// emit pushes logs on every live subscription (normally one), in order.
func (n *fakeNode) emit(logs []Log, record bool) {
	n.mu.Lock()
	defer n.mu.Unlock()
	for _, l := range logs {
		if record {
			n.emitted = append(n.emitted, l)
		}
		for _, s := range n.subs {
			select {
			case <-s.done:
			default:
				s.ch <- toGethLog(l, uint(len(n.emitted)))
			}
		}
	}
}

// emit0 pushes one unrecorded log (sentinel); n.mu must be held.
func (n *fakeNode) emit0(l Log) {
	for _, s := range n.subs {
		select {
		case <-s.done:
		default:
			s.ch <- toGethLog(l, 0)
		}
	}
}

// dropConnections closes every websocket: the subscription of the client under test fails.
func (n *fakeNode) dropConnections() {
	n.mu.Lock()
	n.subs = nil
	n.mu.Unlock()
	n.ln.killAll()
}

func sentinelLog(k uint64) Log { return Log{L2: sentinelBase + k} }
