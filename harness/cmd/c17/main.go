//go:build verif

// Harness for C17: the real l1.Client on a real blockchain.Blockchain (memory DB) with a
// scripted L1StateProvider; the observed trace is replayed on the Lean model (c17drv) and the
// property oracle is evaluated on what the real client stored.
package main

import (
	"encoding/json"
	"fmt"
	"os"
	"strings"
	"sync"

	"verif/harness/lib"
)

type caseResult struct {
	c            *Case
	obs          *Observed
	an           *analysis
	mismatches   []lib.Mismatch
	findings     []finding
	stats        map[string]int
	wbUntil      int
	gethCompared int
	fatal        []string
	lostInflight int
	retried      bool
	finGroups    int
	lost         map[int]bool // indices of emitted logs that were in flight at a connection drop and never came out
}

var drvMu sync.Mutex

func evalCase(c *Case, drv *lib.Driver, guard bool) *caseResult {
	cr := &caseResult{c: c}
	cr.obs = runCase(c)
	// a barrier deadline can expire on an overloaded machine: the case is run again (twice at
	// most); only a case that stalls every time is reported (as a harness failure, never green)
	for try := 0; try < 2 && cr.obs.Stalled != "" && !strings.HasPrefix(cr.obs.Stalled, "skipped"); try++ {
		again := runCase(c)
		if again.Stalled == "" {
			stalls.Add(-1)
			cr.retried = true
		}
		cr.obs = again
	}
	cr.an = linearise(c, cr.obs, guard)
	if cr.obs.Panic != "" {
		cr.findings = append(cr.findings, finding{sig: "l1-client-panics", what: cr.obs.Panic})
	}
	if cr.obs.Stalled != "" {
		// a deadline of the harness expired (or the case was skipped after too many of them):
		// never green; the oracle still looks at what was observed
		cr.fatal = append(cr.fatal, "case "+c.Name+": "+cr.obs.Stalled)
		fs, _, _ := oracle(c, cr.an.sems)
		cr.findings = append(cr.findings, fs...)
		return cr
	}
	for _, p := range cr.an.problems {
		cr.mismatches = append(cr.mismatches, lib.Mismatch{Sig: "trace-shape: " + p, Input: c, Impl: cr.obs.Marks})
	}
	// model
	lines := make([]string, len(cr.an.steps))
	for i, s := range cr.an.steps {
		lines[i] = s.line
	}
	drvMu.Lock()
	outs, err := drv.AskAll(lines)
	drvMu.Unlock()
	if err != nil {
		cr.fatal = append(cr.fatal, "Lean driver died or answered short: "+err.Error())
		return cr
	}
	for i, s := range cr.an.steps {
		if outs[i] == "bad-op" {
			cr.fatal = append(cr.fatal, "Lean driver answered bad-op to: "+s.line)
			break
		}
		want := s.expect
		if want == "" {
			want = "ok"
		}
		if strings.Contains(s.what, "failing database") && faultAnswerOK(outs[i], want) {
			continue
		}
		if outs[i] != want {
			cr.mismatches = append(cr.mismatches, lib.Mismatch{Sig: "model-vs-client: " + orStr(s.what, "op"),
				Input: map[string]any{"case": c, "lines": lines[:i+1]}, Model: outs[i], Impl: want})
			break
		}
	}
	if c.Geth {
		checkGethLayer(cr, drv)
	}
	// feed: every value seen on the L1-head feed is one of the notified heads, in order
	j := 0
	for _, f := range cr.obs.Feed {
		for j < len(cr.obs.FeedSent) && cr.obs.FeedSent[j] != f {
			j++
		}
		if j == len(cr.obs.FeedSent) {
			cr.findings = append(cr.findings, finding{sig: "l1head-feed-value-never-set",
				what: fmt.Sprintf("feed delivered %s which is not among the heads set, in order", (&f).String())})
			break
		}
		j++
	}
	// the two other subscribers of the same feed: in-order subsequences too; the idle one holds
	// the FIRST head set after it subscribed (a full slot skips later values)
	for name, got := range map[string][]HeadJ{"slow": cr.obs.FeedSlow, "idle": cr.obs.FeedIdle} {
		j := 0
		for _, f := range got {
			for j < len(cr.obs.FeedSent) && cr.obs.FeedSent[j] != f {
				j++
			}
			if j == len(cr.obs.FeedSent) {
				cr.findings = append(cr.findings, finding{sig: "l1head-feed-value-never-set",
					what: fmt.Sprintf("the %s feed subscriber received %s which is not among the heads set, in order", name, (&f).String())})
				break
			}
			j++
		}
	}
	// the idle subscriber against the model's Subscriber.step: every head sent, then one receive
	{
		fl := []string{"feednew"}
		for _, h := range cr.obs.FeedSent {
			fl = append(fl, fmt.Sprintf("feedsend %x %x %x", h.L2, h.Hash, h.Root))
		}
		fl = append(fl, "feedrecv", "feedgot")
		drvMu.Lock()
		fo, err := drv.AskAll(fl)
		drvMu.Unlock()
		if err != nil {
			cr.fatal = append(cr.fatal, "Lean driver died or answered short: "+err.Error())
			return cr
		}
		got := "-"
		if len(cr.obs.FeedIdle) > 0 {
			var xs []string
			for i := range cr.obs.FeedIdle {
				xs = append(xs, (&cr.obs.FeedIdle[i]).String())
			}
			got = strings.Join(xs, ",")
		}
		ok := fo[len(fo)-1] == got
		if !ok && cr.obs.DBFaultHead != nil {
			// a store-first order does not send the head whose write failed
			var alt []HeadJ
			skipped := false
			for _, h := range cr.obs.FeedSent {
				if !skipped && h == *cr.obs.DBFaultHead {
					skipped = true
					continue
				}
				alt = append(alt, h)
			}
			al := []string{"feednew"}
			for _, h := range alt {
				al = append(al, fmt.Sprintf("feedsend %x %x %x", h.L2, h.Hash, h.Root))
			}
			al = append(al, "feedrecv", "feedgot")
			drvMu.Lock()
			ao, err := drv.AskAll(al)
			drvMu.Unlock()
			ok = err == nil && ao[len(ao)-1] == got
		}
		if !ok {
			cr.mismatches = append(cr.mismatches, lib.Mismatch{Sig: "feed-subscriber: idle subscriber differs from the model",
				Input: c, Model: fo[len(fo)-1], Impl: got})
		}
	}
	storeChecks(cr)
	if c.DBFault != "" && cr.obs.DBFaultFired && !headEq(headAfterMark(cr, cr.obs.DBFaultMark), lastHeadBeforeFault(cr)) {
		cr.findings = append(cr.findings, finding{sig: "l1head-changed-by-a-failed-database-operation",
			what: "the stored head changed although the read / write of the stored head failed"})
	}
	if cr.an.faultNotes > 0 && c.DBFault == "w" {
		cr.findings = append(cr.findings, finding{sig: "l1head-listener-notified-of-a-head-that-was-not-stored",
			what: "the write of the stored L1 head failed, yet the listener was told about the new head and the client went on"})
	}
	liveFault := cr.obs.DBFaultFired && cr.obs.DBFaultMark >= 0 && cr.obs.DBFaultMark < len(cr.obs.Marks) && !cr.obs.Marks[cr.obs.DBFaultMark].PreWatch
	// A failed read / write of the stored head during a LIVE poll: setL1Head has already dropped the finalised
	// candidate from its buffer, so a client that carries on can never record it. The code ends Run with the
	// error (the node stops and the start-up scan of the next life finds the event again); a client that swallows
	// the error and keeps polling must at least end with the head the property demands - in the dbfault family
	// (canonical history, no removal notices) the delivered log with the highest L1 block at or below the last
	// finalised height.
	if c.Family == "dbfault" && liveFault && !cr.obs.EndedEarly && cr.obs.Stalled == "" {
		var lastFin uint64
		var logs []Log
		logs = append(logs, c.Hist...)
		for _, op := range c.Ops {
			switch op.Kind {
			case "fin":
				if op.Fin > lastFin {
					lastFin = op.Fin
				}
			case "send":
				logs = append(logs, op.Logs...)
			}
		}
		var top *Log
		for i := range logs {
			l := &logs[i]
			if l.Removed || l.L1 > lastFin {
				continue
			}
			if top == nil || l.L1 > top.L1 || (l.L1 == top.L1 && l.L2 > top.L2) {
				top = l
			}
		}
		if top != nil {
			want := &HeadJ{L2: top.L2, Hash: top.Hash, Root: top.Root}
			if !headEq(cr.obs.FinalHead, want) {
				cr.findings = append(cr.findings, finding{sig: "l1head-stale-while-client-runs-on-after-failed-database-operation",
					what: fmt.Sprintf("a read / write of the stored L1 head failed during a poll, Run did not return, and at the end the stored head is %s "+
						"although the delivered, never removed log of L1 block %d (Starknet block %d) is at or below the finalised height %d: "+
						"the poll that failed had already dropped it from the buffer, no later poll can record it",
						cr.obs.FinalHead.String(), top.L1, top.L2, lastFin)})
			}
		}
	}
	if cr.obs.EndedEarly && !c.ChainIDMismatch && !liveFault {
		cr.mismatches = append(cr.mismatches, lib.Mismatch{Sig: "run-returned-before-cancel", Input: c, Impl: cr.obs.RunErr})
	}
	if c.ChainIDMismatch && !headEq(cr.obs.FinalHead, c.Stored) {
		cr.findings = append(cr.findings, finding{sig: "l1head-written-despite-chain-id-mismatch",
			what: "stored head changed although the L1 node is on another network"})
	}
	// one-shot catch-up that reports success must have recorded the highest finalised log of the
	// provider's history (whether or not the code polled the finalised height a second time)
	if c.Mode == "oneshot" && cr.obs.RunErr == "" && !c.ChainIDMismatch && !c.LatestFail && !c.Fin1Fail &&
		cr.an.catchup != "failed" && histWellBehaved(c) && c.Fin1 <= c.Fin2 {
		lim := c.Fin2
		if c.Latest < lim {
			lim = c.Latest
		}
		var top *Log
		for i := range c.Hist {
			l := &c.Hist[i]
			if l.L1 <= lim && (top == nil || l.L1 > top.L1 || (l.L1 == top.L1 && l.L2 > top.L2)) {
				top = l
			}
		}
		fh := cr.obs.FinalHead
		if top != nil && (fh == nil || (HeadJ{L2: top.L2, Hash: top.Hash, Root: top.Root}) != *fh) &&
			(c.Stored == nil || c.StoredL1 < top.L1) {
			cr.findings = append(cr.findings, finding{sig: catchupSig(c, fh),
				what: fmt.Sprintf("CatchUpL1Head returned nil (latest %d, finalised %d then %d, chunk %d) with stored head %s; the provider's history has the state update of Starknet block %d in L1 block %d",
					c.Latest, c.Fin1, c.Fin2, c.Chunk, fh.String(), top.L2, top.L1)})
		}
	}
	sems := cr.an.sems
	if c.Geth {
		// the delivered stream is what the L1 NODE pushed; logs the forwarding layer swallowed are
		// put back where they were delivered
		sems = withSwallowed(sems, cr.obs.Emitted, cr.lost)
	}
	fs, wbUntil, stats := oracle(c, sems)
	cr.findings = append(cr.findings, fs...)
	cr.stats, cr.wbUntil = stats, wbUntil
	return cr
}

// storeChecks: what the client did to the key-value store and what the public accessor returned,
// after every operation (round 4).
//   - Blockchain.L1Head() == the record under the L1Height key at every provider call and at the end;
//   - the client writes nothing but the L1Height key, never deletes it, and the sequence of values it
//     writes is exactly the sequence of heads reported to the listener (no transient record);
//   - the record changes only inside a setL1Head that got a finalised height (between a successful
//     FinalisedHeight call and the next provider call), never anywhere else.
func storeChecks(cr *caseResult) {
	c, o := cr.c, cr.obs
	if len(o.AccessorProblems) > 0 {
		cr.findings = append(cr.findings, finding{sig: "l1head-accessor-differs-from-stored-record",
			what: fmt.Sprintf("%s (%d such observations in this case)", o.AccessorProblems[0], len(o.AccessorProblems))})
	}
	var written []HeadJ
	for _, w := range o.Writes {
		switch {
		case w.Key != "":
			cr.mismatches = append(cr.mismatches, lib.Mismatch{Sig: "store: the L1 client wrote or deleted a key other than L1Height",
				Input: c, Impl: w})
		case w.Del:
			cr.findings = append(cr.findings, finding{sig: "l1head-record-deleted",
				what: "the L1 client deleted the stored L1 head"})
		case w.Head == nil:
			cr.findings = append(cr.findings, finding{sig: "l1head-unknown-value",
				what: "the L1 client wrote a value under the L1Height key that does not decode as an L1 head"})
		default:
			written = append(written, *w.Head)
			if w.Mark < 0 || w.Mark >= len(o.Marks) || o.Marks[w.Mark].Kind != "tick" {
				cr.mismatches = append(cr.mismatches, lib.Mismatch{Sig: "store: the L1 client wrote a head although the provider call before it was not a successful finalised-height query",
					Input: c, Impl: w})
			}
		}
	}
	if !o.DBFaultFired && o.Stalled == "" {
		same := len(written) == len(o.Notes)
		for i := 0; same && i < len(written); i++ {
			same = written[i] == o.Notes[i]
		}
		if !same {
			cr.findings = append(cr.findings, finding{sig: "l1head-record-written-without-notification",
				what: fmt.Sprintf("values written under the L1Height key: %s; heads reported to the listener / feed: %s", headList(written), headList(o.Notes))})
		}
	}
	// the record changes only across a successful finalised-height query. A change anywhere else is a
	// difference from the model; it is a property violation when the new value is not the commit of a
	// delivered, never removed log at or below a finalised height the L1 node has REPORTED so far.
	for i := 0; i < len(o.Marks); i++ {
		after := o.FinalHead
		if i+1 < len(o.Marks) {
			after = o.Marks[i+1].HeadBefore
		}
		if headEq(o.Marks[i].HeadBefore, after) || o.Marks[i].Kind == "tick" {
			continue
		}
		cr.offPollChange(i, o.Marks[i].HeadBefore, after, fmt.Sprintf("after the provider call %q", o.Marks[i].Kind))
		break
	}
	if len(o.Marks) == 0 && !headEq(c.Stored, o.FinalHead) {
		cr.offPollChange(-1, c.Stored, o.FinalHead, "although the client never called the provider")
	}
}

// offPollChange classifies a change of the stored head that did not happen inside a setL1Head that
// had just been given a finalised height (mark index i; -1: before any provider call).
func (cr *caseResult) offPollChange(i int, before, after *HeadJ, where string) {
	c, o := cr.c, cr.obs
	cr.mismatches = append(cr.mismatches, lib.Mismatch{Sig: "store: the stored head changed outside a finalised-height poll",
		Input: c, Impl: fmt.Sprintf("%s -> %s %s", before, after, where)})
	if after == nil {
		cr.findings = append(cr.findings, finding{sig: "l1head-missing", what: fmt.Sprintf("the stored head %s disappeared %s", before, where)})
		return
	}
	// finalised heights the L1 node has reported up to and including call i
	haveFin, maxFin := false, uint64(0)
	for k := 0; k <= i && k < len(o.Marks); k++ {
		m := o.Marks[k]
		if m.Kind != "tick" && m.Kind != "fin1" {
			continue
		}
		f := m.Fin
		if m.HasNodeFin {
			f = m.NodeFin
		}
		if !haveFin || f > maxFin {
			haveFin, maxFin = true, f
		}
	}
	// every log the node delivered in this life (scanned or pushed), and the notices
	var all []Log
	for k := 0; k <= i && k < len(o.Marks); k++ {
		if m := o.Marks[k]; m.Kind == "filter" {
			for _, l := range c.Hist {
				if m.From <= l.L1 && l.L1 <= m.To {
					all = append(all, l.decoded())
				}
			}
		}
	}
	all = append(all, o.Events...)
	known, live, final := false, false, false
	for _, l := range all {
		if l.Removed || (HeadJ{L2: l.L2, Hash: l.Hash, Root: l.Root}) != *after {
			continue
		}
		known = true
		removed := false
		for _, r := range all {
			if r.Removed && sameLog(r, l) {
				removed = true
			}
		}
		if !removed {
			live = true
			if haveFin && l.L1 <= maxFin {
				final = true
			}
		}
	}
	what := fmt.Sprintf("the stored head went %s -> %s %s", before, after, where)
	switch {
	case !known:
		cr.findings = append(cr.findings, finding{sig: "l1head-unknown-value", what: what + ", which is not the commit of any delivered log"})
	case !live:
		cr.findings = append(cr.findings, finding{sig: "l1head-is-removed-event", what: what + ", a log that a removal notice had named"})
	case !final:
		h := "no finalised height at all"
		if haveFin {
			h = fmt.Sprintf("no finalised height above %d", maxFin)
		}
		cr.findings = append(cr.findings, finding{sig: "l1head-above-finalised", what: what + "; the L1 node had reported " + h + " by then"})
	}
}

// lastHeadBeforeFault: the stored head sampled at the start of the poll whose database access failed.
func lastHeadBeforeFault(cr *caseResult) *HeadJ {
	if i := cr.obs.DBFaultMark; i >= 0 && i < len(cr.obs.Marks) {
		return cr.obs.Marks[i].HeadBefore
	}
	return cr.c.Stored
}

// faultAnswerOK: under a failing database head and fatal must be what the model says; the value
// on the feed may be the model's (sent before the failing write) or none (a store-first order).
func faultAnswerOK(model, observed string) bool {
	mf, of := strings.Fields(model), strings.Fields(observed)
	if len(mf) != len(of) {
		return false
	}
	for i := range mf {
		if mf[i] == of[i] {
			continue
		}
		if strings.HasPrefix(mf[i], "feed=") && of[i] == "feed=none" {
			continue
		}
		return false
	}
	return true
}

func headAfterMark(cr *caseResult, i int) *HeadJ {
	if i+1 < len(cr.obs.Marks) {
		return cr.obs.Marks[i+1].HeadBefore
	}
	return cr.obs.FinalHead
}

func suLine(l Log) string {
	rm := "0"
	if l.Removed {
		rm = "1"
	}
	return fmt.Sprintf("su %x %x %x %x %s", l.L2, l.Hash, l.Root, l.L1, rm)
}

// checkGethLayer: correspondence of the real geth forwarding layer with the model's
// forwardStream — the forwarded stream must be, log by log and in order, the decoded stream the
// node pushed (every Removed log included); eth_getLogs answers must come through unfiltered;
// heights must be passed on unchanged.
func checkGethLayer(cr *caseResult, drv *lib.Driver) {
	c, o := cr.c, cr.obs
	for _, p := range o.GethProblems {
		cr.mismatches = append(cr.mismatches, lib.Mismatch{Sig: "geth-layer: " + p, Input: c})
	}
	lines := make([]string, 0, len(o.Emitted)+1)
	for _, l := range o.Emitted {
		root, number, hash := rawValues(l)
		rm := "0"
		if l.Removed {
			rm = "1"
		}
		lines = append(lines, fmt.Sprintf("raw %x %x %x %x %s", number, hash, root, l.L1, rm))
	}
	lines = append(lines, "fwdstream") // the model's forwardStream on the whole stream
	drvMu.Lock()
	outs, err := drv.AskAll(lines)
	drvMu.Unlock()
	if err != nil {
		cr.fatal = append(cr.fatal, "Lean driver died or answered short: "+err.Error())
		return
	}
	var want []string
	if last := outs[len(outs)-1]; last != "-" {
		want = strings.Split(last, "|")
	}
	got := make([]string, len(o.Events))
	for i, l := range o.Events {
		got[i] = suLine(l)
	}
	cr.gethCompared = len(want)
	// logs pushed right before a connection drop may be lost on their way (go-ethereum's client
	// and juno's forwarder both select between "next log" and "subscription error"): they may be
	// missing from the forwarded stream; everything else must be there, in order
	if len(o.Inflight) == len(want) {
		// is there a choice of lost in-flight logs under which the streams are equal?
		type key struct{ i, j int }
		memo := map[key]bool{}
		var match func(i, j int) bool
		match = func(i, j int) bool {
			if i == len(want) {
				return j == len(got)
			}
			k := key{i, j}
			if v, ok := memo[k]; ok {
				return v
			}
			v := (j < len(got) && got[j] == want[i] && match(i+1, j+1)) || (o.Inflight[i] && match(i+1, j))
			memo[k] = v
			return v
		}
		if match(0, 0) {
			cr.lostInflight = len(want) - len(got)
			cr.lost = map[int]bool{}
			for i, j := 0, 0; i < len(want); i++ {
				if j < len(got) && got[j] == want[i] && match(i+1, j+1) {
					j++
				} else {
					cr.lost[i] = true
				}
			}
			want = got
		}
	}
	if strings.Join(want, "|") != strings.Join(got, "|") {
		cr.mismatches = append(cr.mismatches, lib.Mismatch{Sig: "geth-forwarded-stream-differs-from-node-stream",
			Input: c, Model: want, Impl: got})
	}
	// the hand-off chain under back-pressure (model `Pipe`): with the client stalled, exactly
	// min(burst, 128) values reach its channel and none is received; once it resumes it receives
	// the whole decoded node stream
	if o.HoldFill >= 0 {
		pl := []string{"pipenew"}
		for _, l := range o.Emitted {
			root, number, hash := rawValues(l)
			rm := "0"
			if l.Removed {
				rm = "1"
			}
			pl = append(pl, fmt.Sprintf("raw %x %x %x %x %s", number, hash, root, l.L1, rm))
		}
		n := len(o.Emitted)
		pl = append(pl, fmt.Sprintf("pipe a%d r%d", n, n+300), fmt.Sprintf("pipe d%d", n+300), "pipeout")
		drvMu.Lock()
		po, err := drv.AskAll(pl)
		drvMu.Unlock()
		if err != nil {
			cr.fatal = append(cr.fatal, "Lean driver died or answered short: "+err.Error())
			return
		}
		fill := n
		if fill > 128 {
			fill = 128
		}
		if k := len(po) - 3; !strings.HasPrefix(po[k], fmt.Sprintf("out=0 sink=%d ", o.HoldFill)) || o.HoldFill != fill {
			cr.mismatches = append(cr.mismatches, lib.Mismatch{Sig: "geth-backpressure: values in the stalled client's channel differ from the model",
				Input: c, Model: po[k], Impl: fmt.Sprintf("channel fill %d after a burst of %d", o.HoldFill, n)})
		}
		if k := len(po) - 2; po[k] != fmt.Sprintf("out=%d sink=0 hand=0 ch=0 up=0", n) {
			cr.fatal = append(cr.fatal, "Lean driver: the drained pipe is not empty: "+po[k])
		}
		if exp := po[len(po)-1]; exp != orStr(strings.Join(got, "|"), "-") {
			cr.mismatches = append(cr.mismatches, lib.Mismatch{Sig: "geth-backpressure: the client did not receive the whole node stream once and in order",
				Input: c, Model: exp, Impl: got})
		}
		cr.gethCompared += 2
	}
	// GethL1StateProvider.FinalisedHeight behind the client's retry loop: the node's answers to the
	// finalized-header queries (header / null / error), call by call, against the model's gethFinalisedHeight
	var finMarks []Mark
	for _, m := range o.Marks {
		switch m.Kind {
		case "tick", "fin1", "fin1fail", "finerr":
			finMarks = append(finMarks, m)
		}
	}
	drops := false
	for _, op := range c.Ops {
		if strings.HasPrefix(op.Kind, "suberr") {
			drops = true // a call made into a connection that is being dropped may never reach the node, or reach it twice
		}
	}
	if len(finMarks) == len(o.FinLog) && !drops {
		var gl, ge []string
		var cur []string
		closeG := func(fin string) {
			gl = append(gl, "gethfin "+strings.Join(cur, " "))
			ge = append(ge, fmt.Sprintf("calls=%d fin=%s", len(cur), fin))
			cur = nil
		}
		for i, m := range finMarks {
			cur = append(cur, o.FinLog[i])
			switch m.Kind {
			case "tick", "fin1":
				closeG(fmt.Sprintf("%x", m.Fin))
			case "fin1fail":
				closeG("none")
			}
		}
		// (a call still in flight when the context ended is not compared: the node may have answered a
		// header that the cancelled client never saw)
		if len(gl) > 0 {
			drvMu.Lock()
			go2, err := drv.AskAll(gl)
			drvMu.Unlock()
			if err != nil {
				cr.fatal = append(cr.fatal, "Lean driver died or answered short: "+err.Error())
				return
			}
			for i := range gl {
				cr.gethCompared++
				if go2[i] != ge[i] {
					cr.mismatches = append(cr.mismatches, lib.Mismatch{Sig: "geth-finalised-height: the layer's answers differ from the model (header / not found / error)",
						Input: map[string]any{"case": c, "line": gl[i]}, Model: go2[i], Impl: ge[i]})
					break
				}
			}
			cr.finGroups = len(gl)
		}
	} else {
		// a call made into a connection that was being dropped never reached the node: the call-by-call
		// alignment is lost for this case (the heights themselves are still compared: `geth-layer:`)
		cr.finGroups = -1
	}
	// catch-up queries
	qi := 0
	for _, m := range o.Marks {
		if m.Kind != "filter" {
			continue
		}
		var exp []string
		for _, l := range c.Hist {
			if m.From <= l.L1 && l.L1 <= m.To {
				exp = append(exp, suLine(l.decoded()))
			}
		}
		var have []string
		if qi < len(o.FilterGot) {
			for _, l := range o.FilterGot[qi] {
				have = append(have, suLine(l))
			}
		}
		qi++
		cr.gethCompared++
		if strings.Join(exp, "|") != strings.Join(have, "|") {
			cr.mismatches = append(cr.mismatches, lib.Mismatch{Sig: "geth-filter-result-differs-from-node-logs",
				Input: map[string]any{"case": c, "from": m.From, "to": m.To}, Model: exp, Impl: have})
		}
	}
}

// withSwallowed re-inserts, into the trace the client executed, the logs the node delivered but
// the forwarding layer never handed to the client (directly after the log delivered before them).
func withSwallowed(sems []sem, all []Log, lost map[int]bool) []sem {
	// a log that was in flight when the connection died and never came out counts as not
	// delivered (the loss cannot be attributed to juno from outside the process)
	var emitted []Log
	for i, l := range all {
		if !lost[i] {
			emitted = append(emitted, l)
		}
	}
	var out []sem
	j := 0
	lastLive := -1
	for _, s := range sems {
		if s.kind == "upd" && s.src == "live" {
			k := j
			for k < len(emitted) && emitted[k].decoded() != s.log {
				k++
			}
			if k < len(emitted) {
				for ; j < k; j++ {
					out = append(out, sem{kind: "upd", log: emitted[j].decoded(), src: "live"})
				}
				j = k + 1
			}
			out = append(out, s)
			lastLive = len(out) - 1
			continue
		}
		out = append(out, s)
	}
	if j < len(emitted) {
		var tail []sem
		for ; j < len(emitted); j++ {
			tail = append(tail, sem{kind: "upd", log: emitted[j].decoded(), src: "live"})
		}
		at := lastLive + 1
		if lastLive < 0 {
			// no live event reached the client: after the catch-up phase
			at = 0
			for i, s := range out {
				if s.src == "catchup" {
					at = i + 1
				}
			}
		}
		out = append(out[:at:at], append(tail, out[at:]...)...)
	}
	return out
}

func orStr(a, b string) string {
	if a == "" {
		return b
	}
	return a
}

// shrink removes ops (and history entries) while the same finding keeps appearing.
func shrink(c *Case, sig string, drv *lib.Driver, guard bool) *Case {
	has := func(x *Case) bool {
		for try := 0; try < 2; try++ {
			for _, f := range evalCase(x, drv, guard).findings {
				if f.sig == sig {
					return true
				}
			}
		}
		return false
	}
	cur := *c
	budget := 150
	for changed := true; changed && budget > 0; {
		changed = false
		for i := 0; i < len(cur.Ops) && budget > 0; i++ {
			if cur.Ops[i].Kind == "sync" {
				continue
			}
			t := cur
			t.Ops = append(append([]Op{}, cur.Ops[:i]...), cur.Ops[i+1:]...)
			budget--
			if has(&t) {
				cur, changed = t, true
				i--
			}
		}
		for i := 0; i < len(cur.Hist) && budget > 0; i++ {
			t := cur
			t.Hist = append(append([]Log{}, cur.Hist[:i]...), cur.Hist[i+1:]...)
			budget--
			if has(&t) {
				cur, changed = t, true
				i--
			}
		}
	}
	// drop sync ops that are followed by another sync
	var ops []Op
	for i, o := range cur.Ops {
		if o.Kind == "sync" && i+1 < len(cur.Ops) && cur.Ops[i+1].Kind == "sync" {
			continue
		}
		ops = append(ops, o)
	}
	cur.Ops = ops
	cur.Name = c.Name + "-shrunk"
	return &cur
}

func main() {
	f := lib.ParseFlags()
	res := lib.NewResult("one case = one scripted life of the real l1.Client (start-up catch-up, then live updates / removals / " +
		"finalised-height polls / subscription errors); non-trivial = distinct case in which the client stored an L1 head " +
		"at least once or ran at least one catch-up query")
	r := lib.NewRNG(f.Seed)
	drv, err := lib.StartDriver(f.Driver)
	if err != nil {
		res.Fatalf("driver did not start: %v", err)
		lib.Finish(f, res)
	}
	defer drv.Close()

	// The code as it is in /repo compares the candidate with the stored head (commit 5084dce):
	// the model is run with guard = true. If the guard regresses, correspondence AND the oracle
	// (l1head-moves-back-to-late-delivered-older-event, a fixed finding) report it.
	guard := true
	var cases []*Case
	if *cacheOnly {
		// child process of the -race build: only the concurrent L1-head families
		runCacheFamilies(f, res, drv, r, nil)
		lib.Finish(f, res)
	}
	if f.Replay != "" {
		b, err := os.ReadFile(f.Replay)
		if err != nil {
			res.Fatalf("replay: %v", err)
			lib.Finish(f, res)
		}
		var wrap struct {
			Replay struct {
				Case      *Case      `json:"case"`
				CacheCase *CacheCase `json:"cache_case"`
			} `json:"replay"`
		}
		if err := json.Unmarshal(b, &wrap); err == nil && wrap.Replay.CacheCase != nil {
			runCacheFamilies(f, res, drv, r, wrap.Replay.CacheCase)
			lib.Finish(f, res)
		}
		if err := json.Unmarshal(b, &wrap); err != nil || wrap.Replay.Case == nil {
			res.Fatalf("replay: cannot read case from %s: %v", f.Replay, err)
			lib.Finish(f, res)
		}
		for i := 0; i < 5; i++ {
			cases = append(cases, wrap.Replay.Case)
		}
	} else {
		// the long stall first: it keeps one worker busy for its whole (bounded, real) wait
		cases = append(cases, stallCases(f.Scale(33000, 70000))...)
		cases = append(cases, leadL11(), leadOvertake())
		cases = append(cases, dbFaultCases()...)
		cases = append(cases, enumCases(f.Scale(3, 4))...)
		cases = append(cases, boundaryCases()...)
		cases = append(cases, defaultChunkCases()...)
		cases = append(cases, burstCases()...)
		cases = append(cases, faultCases()...)
		cases = append(cases, exhaustiveCatchups(f.Scale(3, 4))...)
		cases = append(cases, catchupGrid(r.Fork(1), f.Scale(400, 20000))...)
		rg := r.Fork(4)
		for i := 0; i < f.Scale(60, 1500); i++ {
			cases = append(cases, gethDirected(rg.Fork(uint64(i)), fmt.Sprintf("geth-directed-%d", i)))
		}
		for i := 0; i < f.Scale(160, 6000); i++ {
			cases = append(cases, genGethCase(rg.Fork(uint64(100000+i)), fmt.Sprintf("geth-%d", i)))
		}
		nChain, nFree := f.Scale(1200, 120000), f.Scale(500, 30000)
		rc, rf := r.Fork(2), r.Fork(3)
		for i := 0; i < nChain; i++ {
			cases = append(cases, genChainCase(rc.Fork(uint64(i)), fmt.Sprintf("chain-%d", i)))
		}
		for i := 0; i < nFree; i++ {
			cases = append(cases, genFreeCase(rf.Fork(uint64(i)), fmt.Sprintf("free-%d", i)))
		}
	}

	if f.Replay == "" && (os.Getenv("C17_ONLY") == "" || strings.HasPrefix(os.Getenv("C17_ONLY"), "l1cache")) {
		// the recorded head under concurrent L1Head() / SetL1Head (round 5)
		runCacheFamilies(f, res, drv, r, nil)
		if f.Thorough() {
			cacheRaceChild(f, res)
		}
	}
	if only := os.Getenv("C17_ONLY"); only != "" {
		var sel []*Case
		for _, c := range cases {
			if strings.HasPrefix(c.Name, only) {
				sel = append(sel, c)
			}
		}
		cases = sel
	}
	results := make([]*caseResult, len(cases))
	var wg sync.WaitGroup
	idx := make(chan int)
	for w := 0; w < 8; w++ {
		wg.Add(1)
		go func() {
			defer wg.Done()
			for i := range idx {
				results[i] = evalCase(cases[i], drv, guard)
			}
		}()
	}
	for i := range cases {
		idx <- i
	}
	close(idx)
	wg.Wait()

	// findings are reported (and shrunk) from the cheap cases first: a case that makes the harness wait
	// is reported only for a finding no other case shows, and as it is
	ordered := make([]*caseResult, 0, len(results))
	for _, cr := range results {
		if !hasHold(cr.c) {
			ordered = append(ordered, cr)
		}
	}
	for _, cr := range results {
		if hasHold(cr.c) {
			ordered = append(ordered, cr)
		}
	}
	shrunk := map[string]bool{}
	for _, cr := range ordered {
		c, o := cr.c, cr.obs
		nontrivial := len(o.Notes) > 0 || cr.an.chunks > 0
		key, _ := json.Marshal(c)
		res.Case(string(key), nontrivial)
		res.Hit("family=" + c.Family)
		res.Hit("mode=" + c.Mode)
		res.Hit("catchup=" + cr.an.catchup)
		if cr.an.chunks > 1 {
			res.Hit("catchup-multi-chunk")
		}
		if c.Stored != nil {
			res.Hit("restart-with-stored-head")
		}
		if c.DefaultChunk {
			res.Hit("newclient:default-chunk-size")
		}
		if o.NoOptions {
			res.Hit("newclient:no-option-at-all")
		}
		res.HitN("poll:answered-after-failed-attempts", cr.an.retryPolls)
		res.HitN("store:l1height-writes-by-client", len(o.Writes))
		res.HitN("store:accessor-reads-compared", len(o.Marks)+1)
		if c.Mode == "oneshot" || o.RunErrClass != "" {
			res.Hit("returned:" + c.Mode + ":" + orStr(o.RunErrClass, "nil"))
		}
		for _, st := range cr.an.steps {
			switch st.what {
			case "poll given up":
				res.Hit("poll:given-up-when-context-ended")
			case "subscription given up":
				res.Hit("subscription:given-up-when-context-ended")
			case "subscription":
				if st.expect != "attempt=0" {
					res.Hit("subscription:succeeded-after-failed-attempts")
				}
			}
		}
		if o.HoldFill >= 0 {
			res.Hit(fmt.Sprintf("stall:forwarder-blocked-on-a-stalled-client,burst=%d", len(o.Emitted)))
		}
		if o.MaxChanFill > 0 {
			res.Hit(fmt.Sprintf("burst:update-channel-fill>=%d", fillBucket(o.MaxChanFill)))
		}
		if c.ChainIDMismatch {
			res.Hit("chain-id-mismatch")
		}
		for _, m := range o.Marks {
			switch m.Kind {
			case "watchfail", "finerr", "filterfail", "chainidfail", "latestfail", "fin1fail":
				res.Hit("fault:" + m.Kind)
				if c.TimeoutErrors && m.Kind != "watchfail" {
					res.Hit("fault-as-expired-call-timeout:" + m.Kind)
				}
			}
		}
		resubs := -1
		for _, m := range o.Marks {
			if m.Kind == "watch" {
				resubs++
			}
		}
		if resubs > 0 {
			res.HitN("resubscribed", resubs)
		}
		// trace shape
		pend := map[uint64]int{}
		sincePoll := 0
		for _, s := range cr.an.sems {
			if s.kind == "upd" {
				sincePoll++
				if s.log.Removed {
					res.Hit("ev:removal")
				} else {
					res.Hit("ev:update")
					pend[s.log.L1]++
					if pend[s.log.L1] == 2 {
						res.Hit("several-events-same-l1-block")
					}
					if s.log.L1 == 0 {
						res.Hit("ev:update-at-l1-block-0")
					}
				}
				continue
			}
			if sincePoll > 1 {
				res.Hit("poll-after-several-events")
			}
			sincePoll = 0
			pend = map[uint64]int{}
			if s.notes > 0 {
				res.Hit("poll:head-set")
			} else {
				res.Hit("poll:no-candidate")
			}
		}
		for k, v := range cr.stats {
			res.HitN(k, v)
		}
		compared := 0
		for _, s := range cr.an.steps {
			if s.expect != "" {
				compared++
			}
		}
		if len(cr.fatal) == 0 { // nothing was compared if the driver did not answer
			res.Compared(compared + cr.gethCompared)
		}
		for _, st := range cr.an.steps {
			if st.what == "start-up gate" {
				res.Hit("startup:" + st.expect)
			}
		}
		if len(o.FeedIdle) > 0 && len(o.Notes) > 1 {
			res.Hit("feed:idle-subscriber-skipped-later-heads")
		}
		if len(o.FeedSlow) < len(o.Notes) {
			res.Hit("feed:slow-subscriber-missed-heads")
		}
		if c.Geth {
			res.HitN("geth:decoy-logs-in-node", len(c.Decoys))
			for _, op := range c.Ops {
				if op.Kind == "finnotfound" {
					res.Hit("geth:finalized-header-not-found")
				}
				for _, l := range op.Logs {
					if l.Decoy != 0 {
						res.Hit("geth:decoy-logs-in-node")
					}
				}
			}
			res.HitN("geth:logs-through-real-forwarder", len(o.Events))
			res.HitN("geth:inflight-logs-lost-at-connection-drop", cr.lostInflight)
			for _, b := range o.Inflight {
				if b {
					res.Hit("geth:logs-in-flight-at-connection-drop")
				}
			}
			rem, reorgs := 0, 0
			prevRem := false
			for _, l := range o.Emitted {
				if l.Removed {
					rem++
					if !prevRem {
						reorgs++
					}
				}
				prevRem = l.Removed
			}
			res.HitN("geth:removed-logs-through-real-forwarder", rem)
			if reorgs >= 2 {
				res.Hit("geth:several-reorgs-on-one-case")
			}
			res.HitN("geth:eth_getLogs-queries", len(o.FilterGot))
		}
		for _, m := range cr.mismatches {
			res.Mismatch(m)
		}
		for _, ft := range cr.fatal {
			res.Fatalf("%s", ft)
		}
		if cr.retried {
			res.Hit("harness:case-re-run-after-a-barrier-timeout")
		}
		if cr.an.loopTied {
			res.Hit("loop:life-replayed-on-the-model-with-channel-and-subscriptions")
			res.HitN("loop:unsubscribe-calls-compared", len(o.Unsubs))
			if o.FinalChan > 0 {
				res.Hit("loop:values-left-in-the-channel-at-shutdown")
			}
		}
		if cr.finGroups > 0 {
			res.HitN("geth:finalised-height-call-groups-compared", cr.finGroups)
		} else if cr.finGroups < 0 {
			res.Hit("geth:finalised-height-calls-not-aligned(connection-drop)")
		}
		if len(o.Notes) > 0 {
			res.Sample(8, map[string]any{"case": c.Name, "ops": len(c.Ops), "events": len(o.Events), "polls": countKind(o.Marks, "tick"),
				"heads_set": len(o.Notes), "final_head": o.FinalHead.String(), "catchup": cr.an.catchup})
		}
		for _, fd := range cr.findings {
			res.Hit("finding:" + fd.sig)
			if shrunk[fd.sig] {
				continue
			}
			shrunk[fd.sig] = true
			small := c
			what := fd.what
			// (a case with a long real wait is reported as it is: every shrink attempt would wait again)
			if !hasHold(c) {
				if f.Replay == "" && !strings.HasPrefix(c.Name, "lead-") {
					small = shrink(c, fd.sig, drv, guard)
				}
				for _, f2 := range evalCase(small, drv, guard).findings {
					if f2.sig == fd.sig {
						what = f2.what
					}
				}
			}
			res.Violate(lib.Violation{Sig: fd.sig, What: what, Replay: map[string]any{"case": small}})
		}
	}
	lib.Finish(f, res)
}

// fillBucket: the highest of the interesting channel-fill levels reached (128 = the client's channel full).
func fillBucket(n int) int {
	for _, b := range []int{128, 127, 65, 64, 63, 1} {
		if n >= b {
			return b
		}
	}
	return 0
}

func hasHold(c *Case) bool {
	for _, op := range c.Ops {
		if op.Kind == "hold" {
			return true
		}
	}
	return false
}

func countKind(ms []Mark, k string) int {
	n := 0
	for _, m := range ms {
		if m.Kind == k {
			n++
		}
	}
	return n
}
