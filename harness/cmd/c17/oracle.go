//go:build verif

package main

import "fmt"

// The property oracle, evaluated on what the REAL client did (independent of the Lean model):
// after every completed poll the stored head must be the delivered, not removed event with the
// highest L1 block at or below the finalised height the provider reported (several events in one
// L1 block: the one committing the highest Starknet block, which is the last one in log order),
// or the head stored before the client started if there is no such event.
//
// It is evaluated only while the scripted provider is well-behaved in the sense of the property:
//   - finalised heights never decrease (and are never below the L1 block of the head stored by
//     an earlier life of the node),
//   - no removal notice at or below a finalised height,
//   - every delivered log of a reorged block gets its removal notice before a poll could
//     finalise it (removal notices complete),
//   - the finalised events are consistent with one canonical chain: the Starknet block number
//     grows strictly with the position (L1 block, log order) of the event.
// Nothing is assumed about the ORDER in which the provider delivers: re-deliveries of an event
// (replays after a resubscription) and late deliveries of older events are inside the envelope.

type entry struct {
	log        Log
	stamp      int  // position of the first delivery in the trace (-1: head stored before start)
	removed    bool // a removal notice for exactly this log was delivered later
	reorgDead  bool // a removal notice at or below its L1 block was delivered later
	lastDelTik int  // number of polls completed when it was delivered last (first delivery or replay)
	lastDel    int  // trace position of the last delivery (first delivery or replay)
	consumed   int  // number of the first poll (1-based) with fin >= l1 after the first delivery; 0 = none yet
}

func (e *entry) head() HeadJ { return HeadJ{L2: e.log.L2, Hash: e.log.Hash, Root: e.log.Root} }

type finding struct {
	sig  string
	what string
	at   int // index in sems
}

func better(a, b *entry) bool { // a strictly better than b
	if a.log.L1 != b.log.L1 {
		return a.log.L1 > b.log.L1
	}
	return a.log.L2 > b.log.L2
}

func sameLog(a, b Log) bool {
	return a.L1 == b.L1 && a.L2 == b.L2 && a.Hash == b.Hash && a.Root == b.Root
}

func oracle(c *Case, sems []sem) (fs []finding, wbUntil int, stats map[string]int) {
	stats = map[string]int{}
	var es []*entry
	if c.Stored != nil {
		es = append(es, &entry{log: Log{L2: c.Stored.L2, Hash: c.Stored.Hash, Root: c.Stored.Root, L1: c.StoredL1}, stamp: -1})
	}
	wb := true
	haveFin := false
	var lastFin uint64
	ticks := 0
	prev := c.Stored
	wbUntil = len(sems)
	notWB := func(i int, why string) {
		if wb {
			wb = false
			wbUntil = i
			stats["not-well-behaved:"+why]++
		}
	}
	for i, s := range sems {
		switch s.kind {
		case "upd":
			if !s.log.Removed {
				replay := false
				for _, e := range es {
					if !e.removed && sameLog(e.log, s.log) {
						e.lastDelTik = ticks
						e.lastDel = i
						e.reorgDead = false // the client has it again
						replay = true
						if e.consumed > 0 || e.stamp < 0 {
							stats["replay-of-finalised-event"]++
						}
					}
				}
				if !replay {
					es = append(es, &entry{log: s.log, stamp: i, lastDelTik: ticks, lastDel: i})
				}
				continue
			}
			if haveFin && s.log.L1 <= lastFin {
				notWB(i, "removal-at-or-below-finalised")
			}
			for _, e := range es {
				if e.stamp < 0 {
					if e.log.L1 >= s.log.L1 {
						notWB(i, "removal-at-or-below-finalised")
					}
					continue
				}
				if e.removed {
					continue
				}
				if e.log.L1 >= s.log.L1 {
					e.reorgDead = true
				}
				if sameLog(e.log, s.log) {
					e.removed = true
				}
			}
		case "dbfault":
			// A failing database is not among the faults the property quantifies over: the
			// candidate of that poll is gone (pruned before the stored head is read / written),
			// so "head = top" is not demanded any more; the unconditional clauses still are.
			notWB(i, "database-failure")
		case "tick":
			ticks++
			F := s.fin
			if s.hasNodeFin {
				F = s.nodeFin
			}
			if haveFin && F < lastFin {
				notWB(i, "finalised-height-decreased")
			}
			haveFin, lastFin = true, F
			var best *entry
			var cands []*entry
			for _, e := range es {
				if e.stamp < 0 && e.log.L1 > F {
					notWB(i, "finalised-height-below-stored-head")
				}
				if e.log.L1 > F {
					continue
				}
				if e.stamp >= 0 && !e.removed && e.reorgDead && !c.Canonical {
					// a notice at or below its block arrived and none names it: in the simulated-node
					// families every reorged log gets its notice, so this is a log of the replacement
					// chain that overtook the notice and it IS a candidate (the property's definition);
					// in arbitrary traces it may as well be an old-chain log whose notice never comes
					notWB(i, "removal-notices-incomplete-or-overtaken")
				}
				if e.removed {
					continue
				}
				cands = append(cands, e)
				if best == nil || better(e, best) {
					best = e
				}
			}
			for _, a := range cands {
				for _, b := range cands {
					if a != b && ((a.log.L1 < b.log.L1 && a.log.L2 >= b.log.L2) || (a.log.L1 == b.log.L1 && a.log.L2 == b.log.L2)) {
						notWB(i, "l2-numbers-inconsistent-with-l1-order")
					}
				}
			}
			// clauses that need no provider assumption, checked on every poll: a head that changed
			// is the commit of a delivered log at or below the reported finalised height that no
			// removal notice has named
			if obs0 := s.after; !headEq(obs0, prev) {
				ok := false
				for _, e := range cands {
					if obs0 != nil && e.head() == *obs0 {
						ok = true
					}
				}
				if !ok {
					stats["oracle-unconditional-findings"]++
					fs = append(fs, classifyValue(es, obs0, F, i))
					prev = s.after
					continue
				}
			}
			pendingCand := false
			for _, e := range cands {
				if e.stamp >= 0 && e.consumed == 0 && !e.reorgDead {
					pendingCand = true
				}
			}
			if pendingCand && s.notes == 0 {
				stats["poll:guard-skipped-candidate"]++
			}
			if !wb {
				for _, e := range es {
					if e.consumed == 0 && e.stamp >= 0 && !e.removed && e.log.L1 <= F {
						e.consumed = ticks
					}
				}
				prev = s.after
				continue
			}
			stats["oracle-polls"]++
			// several events in the top L1 block: the one committing the highest Starknet block is
			// the reference; the one delivered last ("latest event seen there") is accepted too
			var lastSeen *entry
			for _, e := range cands {
				if best != nil && e.log.L1 == best.log.L1 && (lastSeen == nil || e.lastDel > lastSeen.lastDel) {
					lastSeen = e
				}
			}
			obs := s.after
			// the entry the previous head came from (if it is still a candidate)
			var prevEntry *entry
			if prev != nil {
				for _, e := range cands {
					if e.head() == *prev && (prevEntry == nil || better(e, prevEntry)) {
						prevEntry = e
					}
				}
			}
			acceptable := (best == nil && obs == nil) ||
				(best != nil && obs != nil && (best.head() == *obs || lastSeen.head() == *obs))
			// a late, older event of the block the head already comes from may be ignored
			if !acceptable && best != nil && obs != nil && prevEntry != nil && prevEntry.log.L1 == best.log.L1 &&
				lastSeen.log.L2 < prevEntry.log.L2 && prevEntry.head() == *obs {
				acceptable = true
				stats["late-older-event-of-head-block-ignored"]++
			}
			if lastSeen != nil && lastSeen != best {
				stats["top-block-last-seen-is-not-highest-l2"]++
			}
			var cause *entry
			if acceptable && best != nil && lastSeen.head() == *obs {
				cause = lastSeen
			}
			if !acceptable {
				if f, ok := overtaken(cands, best, obs, prev, F, i); ok {
					fs = append(fs, f)
				} else {
					fs = append(fs, classify(es, best, prevEntry, obs, prev, F, i))
				}
			} else {
				if best != nil && best.stamp >= 0 {
					stats["oracle-head-is-delivered-event"]++
				}
				// notification discipline: a notification, if any, carries the stored head
				if s.note != nil && !headEq(s.note, obs) {
					fs = append(fs, finding{sig: "l1head-notification-differs-from-stored-head",
						what: fmt.Sprintf("listener got %s while the stored head is %s", s.note, obs), at: i})
				}
				if !headEq(obs, prev) && s.note == nil {
					fs = append(fs, finding{sig: "l1head-changed-without-notification",
						what: fmt.Sprintf("stored head moved %s -> %s and no listener/feed notification", prev, obs), at: i})
				}
				if obs != nil && prev != nil && obs.L2 < prev.L2 {
					sig := "l1head-l2-regress"
					what := fmt.Sprintf("after the poll that reported finalised height %d the stored head went from Starknet block %d back to %d", F, prev.L2, obs.L2)
					if cause != nil && prevEntry != nil && cause != prevEntry &&
						(prevEntry.stamp < 0 || (prevEntry.consumed > 0 && cause.lastDelTik >= prevEntry.consumed)) {
						sig = "l1head-moves-back-to-late-delivered-older-event"
						what += fmt.Sprintf("; the event at L1 block %d (Starknet block %d) was delivered after the head had already been set from L1 block %d (Starknet block %d)",
							cause.log.L1, cause.log.L2, prevEntry.log.L1, prevEntry.log.L2)
					}
					fs = append(fs, finding{sig: sig, what: what, at: i})
				}
			}
			// A completed start-up scan must have found the highest finalised log of the provider's
			// history, not only of what it happened to query (catchup_spec).
			if s.src == "catchup" && acceptable && histWellBehaved(c) && c.Fin1 <= F {
				lim := F
				if c.Latest < lim {
					lim = c.Latest
				}
				var top *Log
				for i := range c.Hist {
					l := &c.Hist[i]
					if l.L1 <= lim && (top == nil || l.L1 > top.L1 || (l.L1 == top.L1 && l.L2 > top.L2)) {
						top = l
					}
				}
				stats["oracle-catchup-scans"]++
				if top != nil && (obs == nil || (HeadJ{L2: top.L2, Hash: top.Hash, Root: top.Root}) != *obs) &&
					(c.Stored == nil || c.StoredL1 < top.L1) {
					fs = append(fs, finding{sig: catchupSig(c, obs),
						what: fmt.Sprintf("completed catch-up (latest %d, finalised %d then %d, chunk %d) left the stored head at %s; the provider's history has the state update of Starknet block %d in L1 block %d",
							c.Latest, c.Fin1, F, c.Chunk, obs, top.L2, top.L1), at: i})
				}
			}
			for _, e := range es {
				if e.consumed == 0 && e.stamp >= 0 && !e.removed && e.log.L1 <= F {
					e.consumed = ticks
				}
			}
			prev = obs
		}
	}
	return fs, wbUntil, stats
}

// overtaken recognises exactly one cause: the reference head is a log that a removal notice at or
// below its L1 block — a notice that does not name it — wiped from the client's buffer, and what
// the client stored instead is what is right once every such log is disregarded.
func overtaken(cands []*entry, best *entry, obs, prev *HeadJ, F uint64, at int) (finding, bool) {
	if best == nil || !best.reorgDead || best.removed {
		return finding{}, false
	}
	var bestGE, lastGE *entry
	for _, e := range cands {
		if e.reorgDead && e.stamp >= 0 {
			continue
		}
		if bestGE == nil || better(e, bestGE) {
			bestGE = e
		}
	}
	for _, e := range cands {
		if e.reorgDead && e.stamp >= 0 {
			continue
		}
		if bestGE != nil && e.log.L1 == bestGE.log.L1 && (lastGE == nil || e.lastDel > lastGE.lastDel) {
			lastGE = e
		}
	}
	okGE := (bestGE == nil && (obs == nil || headEq(obs, prev))) ||
		(bestGE != nil && obs != nil && (bestGE.head() == *obs || lastGE.head() == *obs))
	if !okGE {
		return finding{}, false
	}
	h := best.head()
	return finding{sig: "l1head-drops-replacement-log-delivered-before-removal-notice",
		what: fmt.Sprintf("after the poll that reported finalised height %d the stored L1 head is %s; the log %s of L1 block %d was delivered, is named by no removal notice and is finalised, but a removal notice for another log at or below L1 block %d arrived after it and the client dropped it with everything at or above that block",
			F, obs, (&h).String(), best.log.L1, best.log.L1), at: at}, true
}

// classifyValue: the stored head changed to something that is not the commit of a delivered,
// not removed log at or below the finalised height.
func classifyValue(es []*entry, obs *HeadJ, F uint64, at int) finding {
	base := fmt.Sprintf("after the poll that reported finalised height %d the stored L1 head changed to %s", F, obs)
	if obs == nil {
		return finding{"l1head-missing", base + " (a stored head disappeared)", at}
	}
	var matches []*entry
	for _, e := range es {
		if e.head() == *obs {
			matches = append(matches, e)
		}
	}
	if len(matches) == 0 {
		return finding{"l1head-unknown-value", base + ", which is not the commit of any delivered log", at}
	}
	for _, e := range matches {
		if e.log.L1 <= F {
			return finding{"l1head-is-removed-event", base + ", a log that a removal notice had named", at}
		}
	}
	return finding{"l1head-above-finalised", base + fmt.Sprintf("; that log is at L1 block %d", matches[0].log.L1), at}
}

// catchupSig: a head that is none of the provider's logs is a corrupted value, not a missed log.
func catchupSig(c *Case, obs *HeadJ) string {
	if obs == nil {
		return "l1head-catchup-misses-highest-finalised-log"
	}
	if c.Stored != nil && *c.Stored == *obs {
		return "l1head-catchup-misses-highest-finalised-log"
	}
	for _, l := range c.Hist {
		if (HeadJ{L2: l.L2, Hash: l.Hash, Root: l.Root}) == *obs {
			return "l1head-catchup-misses-highest-finalised-log"
		}
	}
	return "l1head-unknown-value"
}

// histWellBehaved: the log history served to the catch-up scan is what eth_getLogs of one canonical
// chain returns: no removed logs, chain order, sequential Starknet block numbers; a head stored
// by an earlier life of the node is one of its logs.
func histWellBehaved(c *Case) bool {
	for i, l := range c.Hist {
		if l.Removed {
			return false
		}
		if i > 0 && (c.Hist[i-1].L1 > l.L1 || c.Hist[i-1].L2 >= l.L2) {
			return false
		}
	}
	if c.Stored != nil {
		ok := false
		for _, l := range c.Hist {
			if l.L1 == c.StoredL1 && l.L2 == c.Stored.L2 && l.Hash == c.Stored.Hash && l.Root == c.Stored.Root {
				ok = true
			}
		}
		return ok
	}
	return true
}

func classify(es []*entry, best, prevEntry *entry, obs, prev *HeadJ, F uint64, at int) finding {
	exp := "none"
	if best != nil {
		h := best.head()
		exp = fmt.Sprintf("%s (L1 block %d)", (&h).String(), best.log.L1)
	}
	base := fmt.Sprintf("after the poll that reported finalised height %d the stored L1 head is %s, the highest delivered, not removed event at or below it is %s", F, obs, exp)
	if obs == nil {
		return finding{"l1head-missing", base, at}
	}
	var matches []*entry
	for _, e := range es {
		if e.head() == *obs {
			matches = append(matches, e)
		}
	}
	if len(matches) == 0 {
		return finding{"l1head-unknown-value", base, at}
	}
	var below, live []*entry
	for _, e := range matches {
		if e.log.L1 <= F {
			below = append(below, e)
			if !e.removed {
				live = append(live, e)
			}
		}
	}
	if len(below) == 0 {
		return finding{"l1head-above-finalised", base + fmt.Sprintf("; that event is at L1 block %d", matches[0].log.L1), at}
	}
	if len(live) == 0 {
		return finding{"l1head-is-removed-event", base + "; that event was reported removed by a reorg", at}
	}
	for _, cnd := range live {
		// "moved back": the head really came from a better event before, and the worse one was
		// delivered after that event had been recorded
		if best != nil && cnd != best && better(best, cnd) && prevEntry != nil && better(prevEntry, cnd) &&
			(prevEntry.stamp < 0 || (prevEntry.consumed > 0 && cnd.lastDelTik >= prevEntry.consumed)) {
			return finding{"l1head-moves-back-to-late-delivered-older-event",
				base + fmt.Sprintf("; the event at L1 block %d (Starknet block %d) was delivered after the head had already been set from L1 block %d (Starknet block %d)",
					cnd.log.L1, cnd.log.L2, prevEntry.log.L1, prevEntry.log.L2), at}
		}
	}
	if headEq(obs, prev) {
		return finding{"l1head-not-advanced-to-highest-finalised-event", base, at}
	}
	return finding{"l1head-not-highest-finalised-event", base, at}
}
