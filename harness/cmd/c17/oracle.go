//go:build verif

package main

import "fmt"

// The property oracle, evaluated on what the REAL client did (independent of the Lean model):
// after every completed poll the stored head must be the delivered, not removed event with the
// highest L1 block at or below the finalised height the provider reported (ties: the one
// delivered last), or the head stored before the client started if there is no such event.
// It is evaluated only while the scripted provider is well-behaved in the sense of the property:
// finalised heights never decrease, no removal at or below a finalised height, and every log in
// a reorged block that was delivered gets its removal notice before the next poll that could
// finalise it.

type entry struct {
	log       Log
	stamp     int
	removed   bool // a removal notice for exactly this log was delivered later
	reorgDead bool // a removal notice at or below its L1 block was delivered later
	tickAtDel int  // number of polls completed when it was delivered
	consumed  int  // number of the first poll (1-based) with fin >= l1 after delivery; 0 = none yet
}

func (e *entry) head() HeadJ { return HeadJ{L2: e.log.L2, Hash: e.log.Hash, Root: e.log.Root} }

type finding struct {
	sig  string
	what string
	at   int // index in sems
}

func better(a, b *entry) bool { // a strictly better than b
	if a.log.L1 != b.log.L1 {
		return a.log.L1 > b.log.L1
	}
	return a.stamp > b.stamp
}

func oracle(c *Case, sems []sem) (fs []finding, wbUntil int, stats map[string]int) {
	stats = map[string]int{}
	var es []*entry
	if c.Stored != nil {
		es = append(es, &entry{log: Log{L2: c.Stored.L2, Hash: c.Stored.Hash, Root: c.Stored.Root, L1: c.StoredL1}, stamp: -1, consumed: 0})
	}
	wb := true
	haveFin := false
	var lastFin uint64
	ticks := 0
	prev := c.Stored
	wbUntil = len(sems)
	notWB := func(i int, why string) {
		if wb {
			wb = false
			wbUntil = i
			stats["not-well-behaved:"+why]++
		}
	}
	for i, s := range sems {
		switch s.kind {
		case "upd":
			if !s.log.Removed {
				es = append(es, &entry{log: s.log, stamp: i, tickAtDel: ticks})
				continue
			}
			if haveFin && s.log.L1 <= lastFin {
				notWB(i, "removal-at-or-below-finalised")
			}
			for _, e := range es {
				if e.stamp < 0 {
					continue
				}
				if e.log.L1 >= s.log.L1 {
					e.reorgDead = true
				}
				if e.log.L1 == s.log.L1 && e.log.L2 == s.log.L2 && e.log.Hash == s.log.Hash && e.log.Root == s.log.Root {
					e.removed = true
				}
			}
		case "tick":
			ticks++
			F := s.fin
			if haveFin && F < lastFin {
				notWB(i, "finalised-height-decreased")
			}
			haveFin, lastFin = true, F
			var best *entry
			for _, e := range es {
				if e.log.L1 > F {
					continue
				}
				if e.stamp >= 0 && e.removed != e.reorgDead {
					notWB(i, "removal-notices-incomplete-or-out-of-order")
				}
				if e.stamp >= 0 && e.removed && e.consumed > 0 {
					notWB(i, "removal-of-finalised-log")
				}
				if e.removed {
					continue
				}
				if best == nil || better(e, best) {
					best = e
				}
			}
			if !wb {
				prev = s.after
				continue
			}
			stats["oracle-polls"]++
			var expected *HeadJ
			if best != nil {
				h := best.head()
				expected = &h
			}
			obs := s.after
			if !headEq(obs, expected) {
				fs = append(fs, classify(c, es, best, obs, prev, F, i))
			} else {
				if best != nil && best.stamp >= 0 {
					stats["oracle-head-is-delivered-event"]++
				}
				// notification discipline: a notification, if any, carries the stored head
				if s.note != nil && !headEq(s.note, obs) {
					fs = append(fs, finding{sig: "l1head-notification-differs-from-stored-head",
						what: fmt.Sprintf("listener got %s while the stored head is %s", s.note, obs), at: i})
				}
				if !headEq(obs, prev) && s.note == nil {
					fs = append(fs, finding{sig: "l1head-changed-without-notification",
						what: fmt.Sprintf("stored head moved %s -> %s and no listener/feed notification", prev, obs), at: i})
				}
			}
			if c.Canonical && obs != nil && prev != nil && obs.L2 < prev.L2 && headEq(obs, expected) {
				fs = append(fs, finding{sig: "l1head-l2-regress", what: fmt.Sprintf("stored head went from L2 block %d back to %d", prev.L2, obs.L2), at: i})
			}
			for _, e := range es {
				if e.consumed == 0 && e.stamp >= 0 && !e.removed && e.log.L1 <= F {
					e.consumed = ticks
				}
			}
			prev = obs
		}
	}
	return fs, wbUntil, stats
}

func classify(c *Case, es []*entry, best *entry, obs, prev *HeadJ, F uint64, at int) finding {
	exp := "none"
	if best != nil {
		h := best.head()
		exp = fmt.Sprintf("%s (L1 block %d)", (&h).String(), best.log.L1)
	}
	base := fmt.Sprintf("after the poll that reported finalised height %d the stored L1 head is %s, the highest delivered, not removed event at or below it is %s", F, obs, exp)
	if obs == nil {
		return finding{"l1head-missing", base, at}
	}
	var matches []*entry
	for _, e := range es {
		if e.head() == *obs {
			matches = append(matches, e)
		}
	}
	if len(matches) == 0 {
		return finding{"l1head-unknown-value", base, at}
	}
	var below, live []*entry
	for _, e := range matches {
		if e.log.L1 <= F {
			below = append(below, e)
			if !e.removed {
				live = append(live, e)
			}
		}
	}
	if len(below) == 0 {
		return finding{"l1head-above-finalised", base + fmt.Sprintf("; that event is at L1 block %d", matches[0].log.L1), at}
	}
	if len(live) == 0 {
		return finding{"l1head-is-removed-event", base + "; that event was reported removed by a reorg", at}
	}
	cnd := live[0]
	for _, e := range live {
		if better(e, cnd) {
			cnd = e
		}
	}
	if best != nil && cnd.stamp > best.stamp && cnd.log.L1 < best.log.L1 &&
		(best.stamp < 0 || (best.consumed > 0 && cnd.tickAtDel >= best.consumed)) {
		return finding{"l1head-moves-back-to-late-delivered-older-event",
			base + fmt.Sprintf("; the event at L1 block %d was delivered after the head had already been set from L1 block %d", cnd.log.L1, best.log.L1), at}
	}
	if headEq(obs, prev) {
		return finding{"l1head-not-advanced-to-highest-finalised-event", base, at}
	}
	return finding{"l1head-not-highest-finalised-event", base, at}
}
