//go:build verif

package main

import (
	"fmt"
	"os"
	"path/filepath"

	"github.com/NethermindEth/juno/consensus/starknet"
	"github.com/NethermindEth/juno/consensus/types/wal"
	"verif/harness/lib"
)

// Glue around the store that the Lean model leaves out: argument validation, nil entries,
// iterator abandonment, a malformed watermark file. Expected behaviour is fixed here from the code
// (errors, never a panic; a rejected call changes nothing).
func runGlue(res *lib.Result, root string) {
	bad := func(what, got string) {
		res.Mismatch(lib.Mismatch{Sig: "glue:" + what, Model: "error without side effect", Impl: got})
	}
	check := func(what string, ok bool, got string) {
		res.Compared(1)
		res.Hit("glue:" + what)
		if !ok {
			bad(what, got)
		}
	}
	// a database without a local path
	st, err := openReal("")
	check("open-without-path", err != nil && st == nil, fmt.Sprint(err))

	db := filepath.Join(root, "glue")
	_ = os.RemoveAll(db)
	defer os.RemoveAll(db)
	st, err = openReal(db)
	if err != nil {
		bad("open", err.Error())
		return
	}
	// typed nil entries of every kind and a nil interface are rejected and buffer nothing
	nils := map[string]starknet.WALEntry{
		"start": (*wal.Start)(nil), "proposal": (*starknet.WALProposal)(nil), "prevote": (*starknet.WALPrevote)(nil),
		"precommit": (*starknet.WALPrecommit)(nil), "timeout": (*starknet.WALTimeout)(nil), "interface": nil,
	}
	for name, en := range nils {
		e := guard(func() error { return st.SetWALEntry(en) })
		check("set-nil-"+name, e != nil && panicSig(e) == "", fmt.Sprint(e))
	}
	_ = guard(func() error { return st.SetWALEntry(mkEntry(4, 7)) })
	_ = guard(st.Flush)
	got, _ := loadReal(st)
	check("nil-entries-buffer-nothing", len(got) == 1, fmt.Sprint(got))
	// abandoning the iterator early
	e := guard(func() error {
		for range st.LoadAllEntries() {
			break
		}
		return nil
	})
	check("load-iterator-break", e == nil, fmt.Sprint(e))
	_ = guard(st.Close)
	e = guard(st.Close)
	check("close-twice", e == nil, fmt.Sprint(e))
	e = guard(st.Flush)
	check("flush-after-close", e != nil && panicSig(e) == "", fmt.Sprint(e))

	// a watermark file that is not exactly header + 8 bytes cannot come from a crash (it is written
	// to a temporary file, synced and renamed); the code refuses to start on one
	wm := filepath.Join(walDirOf(db), "prune-watermark")
	for name, content := range map[string][]byte{
		"empty": {}, "short": wmBytes(5)[:34], "long": append(wmBytes(5), 0), "bad-header": append([]byte("Juno"), wmBytes(5)[4:]...),
	} {
		_ = os.WriteFile(wm, content, 0o644)
		s2, e := openReal(db)
		check("malformed-watermark-"+name, e != nil && panicSig(e) == "", fmt.Sprint(e))
		if s2 != nil {
			_ = guard(s2.Close)
		}
	}
	_ = os.WriteFile(wm, wmBytes(3), 0o644)
	s3, e := openReal(db)
	if e != nil {
		bad("wellformed-watermark", e.Error())
		return
	}
	got, _ = loadReal(s3)
	check("watermark-below-entry-keeps-it", len(got) == 1, fmt.Sprint(got))
	_ = guard(s3.Close)
	_ = os.WriteFile(wm, wmBytes(4), 0o644)
	s4, e := openReal(db)
	if e != nil {
		bad("wellformed-watermark", e.Error())
		return
	}
	got, _ = loadReal(s4)
	check("watermark-at-entry-height-drops-it", len(got) == 0, fmt.Sprint(got))
	_ = guard(s4.Close)
}

// runAlias: before juno b8b5501 record.go setEntry copied the entry struct but not what Proposal.Value /
// Vote.ID point to, and the batch is encoded at Flush time: a caller that reused the value buffer
// between SetWALEntry and Flush got the later content persisted. Fixed; this oracle reports the
// defect again should it come back (the signature is no longer a known finding).
func runAlias(res *lib.Result, root string) {
	db := filepath.Join(root, "alias")
	_ = os.RemoveAll(db)
	defer os.RemoveAll(db)
	st, err := openReal(db)
	if err != nil {
		res.Fatalf("alias: open: %v", err)
		return
	}
	val := starknet.Value(limbs(11))
	id := starknet.Hash(limbs(22))
	prop := starknet.WALProposal{MessageHeader: starknet.MessageHeader{Height: 3, Round: 1, Sender: starknet.Address(limbs(1))}, ValidRound: -1, Value: &val}
	vote := starknet.WALPrevote{MessageHeader: starknet.MessageHeader{Height: 3, Round: 1, Sender: starknet.Address(limbs(2))}, ID: &id}
	wantProp, wantVote := canon(&prop), canon(&vote)
	_ = guard(func() error { return st.SetWALEntry(&prop) })
	_ = guard(func() error { return st.SetWALEntry(&vote) })
	val[0] ^= 0xdead // the caller reuses its buffers
	id[1] ^= 0xbeef
	ferr := guard(st.Flush)
	_ = guard(st.Close)
	got, rerr := recoverReal(db)
	res.Compared(1)
	res.Case("alias/value-mutated-between-set-and-flush", true)
	res.Hit("alias:checked")
	if ferr != nil || rerr != nil || len(got) != 2 {
		res.Fatalf("alias: flush %v, reopen %v, %d entries", ferr, rerr, len(got))
		return
	}
	if got[0] != "3="+wantProp || got[1] != "3="+wantVote {
		keepBest(lib.Violation{Sig: "entry-mutated-after-set-is-persisted",
			What: "SetWALEntry(p); *p.Value (resp. *v.ID) modified; Flush() returns nil; after a restart LoadAllEntries yields the modified " +
				"value: setEntry shares Proposal.Value / Vote.ID with the caller until the batch is encoded",
			Replay: map[string]any{"ops": []Op{}, "alias": "proposal.Value, prevote.ID", "written": []string{wantProp, wantVote}, "recovered": got}})
	}
}
