//go:build verif

package main

import (
	"fmt"
	"os"
	"path/filepath"
	"sort"
	"strings"
	"syscall"

	"verif/harness/lib"
)

// A failure path the Lean model does not have (see notes/C14.md, "limits"): at the cleanup the ROTATION
// fails part-way (5 of the 11 bytes of the EOF trailer reach the log) AND the tail repair that should cut
// them off fails too. The writer is blocked (`repairRequired`), the log keeps a torn tail — and
// `cleanupObsoleteWALs` still runs and may unlink logs, among them that very log.
//
// No model comparison here: the real code runs fixed scenarios and the PROPERTY decides. Every
// directory a crash can leave from that moment on is rebuilt from copies taken at the crash points of
// the real code (each with every subset of the logs unlinked so far put back) and reopened; then the
// store is closed, restarted, written to again (a new log, possibly under a reused name) and the
// directory is once more combined with every subset of the old unlinked logs.
//
// What makes this safe in juno: the log with the torn tail is always the highest-numbered one among the
// logs and the pending unlinks, so a restart finds it last (and repairs it) or not at all.

type rotnrVariant struct {
	name      string
	lifetimes int    // process lifetimes (= logs) before the run-up
	pin       string // where an entry of a far-away height lives: "", "first", "middle", "current"
	noRestart bool   // crash images only, no clean restart afterwards
}

var rotnrVariants = []rotnrVariant{
	{name: "all-pruned", lifetimes: 1},
	{name: "all-pruned-3-logs", lifetimes: 3},
	{name: "live-in-current", lifetimes: 2, pin: "current"},
	{name: "live-in-middle", lifetimes: 3, pin: "middle"},
	{name: "live-in-first", lifetimes: 3, pin: "first"},
	{name: "live-in-current-1-log", lifetimes: 1, pin: "current"},
	{name: "all-pruned-2-logs", lifetimes: 2},
}

func logsIn(wd string) []string {
	es, _ := os.ReadDir(wd)
	var out []string
	for _, e := range es {
		if strings.HasSuffix(e.Name(), ".log") {
			out = append(out, e.Name())
		}
	}
	sort.Strings(out)
	return out
}

func runRotateNoRepair(f lib.Flags, res *lib.Result, shard, shards int, root string) {
	for i, v := range rotnrVariants {
		if i%shards == shard {
			rotnrCase(res, filepath.Join(root, "rotnr-"+v.name), v)
		}
	}
}

func rotnrCase(res *lib.Result, root string, v rotnrVariant) {
	_ = os.RemoveAll(root)
	defer os.RemoveAll(root)
	db := filepath.Join(root, "db")
	wd := walDirOf(db)
	var calls []call // every call so far; all flushed
	var log []Op
	st, err := openReal(db)
	if err != nil {
		res.Fatalf("rotnr %s: open: %v", v.name, err)
		return
	}
	log = append(log, Op{K: "open"})
	set := func(h uint64, e int) {
		if err := guard(func() error { return st.SetWALEntry(mkEntry(h, e)) }); err != nil {
			res.Fatalf("rotnr %s: set: %v", v.name, err)
		}
		calls = append(calls, call{H: h, E: e})
		log = append(log, Op{K: "set", H: h, E: e})
	}
	del := func(h uint64) {
		if err := guard(func() error { return st.DeleteWALEntries(typesHeight(h)) }); err != nil {
			res.Fatalf("rotnr %s: del: %v", v.name, err)
		}
		calls = append(calls, call{Del: true, H: h})
		log = append(log, Op{K: "del", H: h})
	}
	flush := func() bool {
		log = append(log, Op{K: "flush", Q: true})
		if err := guard(st.Flush); err != nil {
			res.Fatalf("rotnr %s: flush: %v", v.name, err)
			return false
		}
		return true
	}
	restart := func() bool {
		log = append(log, Op{K: "close"}, Op{K: "open"})
		_ = guard(st.Close)
		st, err = openReal(db)
		if err != nil {
			keepBest(lib.Violation{Sig: "reopen-error", What: fmt.Sprintf("rotnr %s: NewTendermintWALStore fails after a clean close: %v", v.name, err),
				Replay: map[string]any{"ops": log, "scenario": "rotate-norepair/" + v.name}})
			return false
		}
		return true
	}
	const far = 1 << 40
	e := 1
	next := func() int { e++; return e }
	// earlier process lifetimes: one log each
	for l := 1; l < v.lifetimes; l++ {
		set(1, next())
		if (v.pin == "first" && l == 1) || (v.pin == "middle" && l == 2) {
			set(far, next())
		}
		if !flush() || !restart() {
			return
		}
	}
	if v.pin == "first" && v.lifetimes == 1 {
		set(far, next())
	}
	for h := uint64(1); h <= 255; h++ {
		set(h, next())
		set(h+1, next())
		del(h)
		if !flush() {
			return
		}
	}
	// the flush that runs the cleanup
	set(256, next())
	if v.pin == "current" {
		set(far, next())
	}
	del(256)
	logs := logsIn(wd)
	if len(logs) == 0 {
		res.Fatalf("rotnr %s: no log before the cleanup", v.name)
		return
	}
	cur := filepath.Join(wd, logs[len(logs)-1])
	type img struct {
		label string
		dir   string
	}
	var imgs []img
	nimg := 0
	snap := func(label string) string {
		nimg++
		dst := filepath.Join(root, fmt.Sprintf("img%d", nimg))
		if err := copyDir(wd, walDirOf(dst)); err != nil {
			res.Fatalf("rotnr %s: copy: %v", v.name, err)
			return ""
		}
		imgs = append(imgs, img{label, dst})
		return dst
	}
	var saved *syscall.Rlimit
	restore := func() {
		if saved != nil {
			_ = syscall.Setrlimit(syscall.RLIMIT_FSIZE, saved)
			saved = nil
		}
	}
	full := "" // the copy that still has every log
	truncFails := 0
	rlimitMu.Lock()
	hookSink = func(p string) {
		switch p {
		case "walstore:cleanup:watermark-written":
			if fi, err := os.Stat(cur); err == nil {
				var old syscall.Rlimit
				if syscall.Getrlimit(syscall.RLIMIT_FSIZE, &old) == nil {
					saved = &old
					_ = syscall.Setrlimit(syscall.RLIMIT_FSIZE, &syscall.Rlimit{Cur: uint64(fi.Size()) + 5, Max: old.Max})
				}
			}
		case "walstore:abort:before-repair":
			restore()
		case "walstore:cleanup:rotated":
			restore()
			full = snap("rotated")
		case "walstore:cleanup:removed-one":
			snap("removed-one")
		}
	}
	failSink = func(p string) error {
		if p == "walstore:repair:before-truncate" {
			truncFails++
			return errInjected
		}
		return nil
	}
	log = append(log, Op{K: "flush", F: "rotate-norepair"})
	ferr := guard(st.Flush)
	hookSink, failSink = nil, nil
	restore()
	rlimitMu.Unlock()
	res.Hit("rotnr:scenario/" + v.name)
	if ferr == nil || truncFails == 0 || full == "" || !strings.Contains(ferr.Error(), "close WAL writer") {
		res.Fatalf("rotnr %s: the double failure could not be injected (flush: %v, failed truncations: %d)", v.name, ferr, truncFails)
		_ = guard(st.Close)
		return
	}
	res.Hit("inject:rotate-norepair")
	fi, _ := os.Stat(filepath.Join(walDirOf(full), filepath.Base(cur)))
	if fi != nil {
		b, _ := os.ReadFile(filepath.Join(walDirOf(full), filepath.Base(cur)))
		if pre := fi.Size(); pre > 0 && len(b) >= 5 {
			res.Hit("rotnr:torn-trailer-on-disk")
		}
	}
	snap("after-flush")
	want := spec(calls)
	replay := func(extra map[string]any) map[string]any {
		m := map[string]any{"ops": log, "scenario": "rotate-norepair/" + v.name}
		for k, x := range extra {
			m[k] = x
		}
		return m
	}
	check := func(dir, label string, want []string, acked []call) {
		got, err := recoverReal(dir)
		res.Compared(1)
		res.Case("rotnr/"+v.name+"/"+label, len(want) > 0)
		if err != nil {
			sig := "reopen-error-on-crash-image"
			if strings.Contains(err.Error(), "PANIC") {
				sig = "reopen-panics-on-crash-image"
			}
			keepBest(lib.Violation{Sig: sig, What: fmt.Sprintf("rotation failed and its tail repair failed too (%s), image %s: NewTendermintWALStore: %v; logs %v", v.name, label, err, logsIn(walDirOf(dir))),
				Replay: replay(map[string]any{"image": label, "logs": logsIn(walDirOf(dir))})})
			return
		}
		if !eq(got, want) {
			keepBest(lib.Violation{Sig: classify(got, [][]string{want}, acked, nil),
				What:   fmt.Sprintf("rotation failed and its tail repair failed too (%s), image %s: LoadAllEntries returns %d entries, the acknowledged history has %d", v.name, label, len(got), len(want)),
				Replay: replay(map[string]any{"image": label, "logs": logsIn(walDirOf(dir)), "got": got})})
		}
	}
	// every image, with every subset of the logs it lacks put back from the copy that has them all
	withSubsets := func(dir, label string, pool string, want []string, acked []call) {
		have := map[string]bool{}
		for _, l := range logsIn(walDirOf(dir)) {
			have[l] = true
		}
		var missing []string
		for _, l := range logsIn(walDirOf(pool)) {
			if !have[l] {
				missing = append(missing, l)
			}
		}
		if len(missing) > 4 {
			missing = missing[len(missing)-4:]
		}
		for m := 0; m < 1<<uint(len(missing)); m++ {
			nimg++
			dst := filepath.Join(root, fmt.Sprintf("sub%d", nimg))
			if err := copyDir(walDirOf(dir), walDirOf(dst)); err != nil {
				res.Fatalf("rotnr %s: copy: %v", v.name, err)
				return
			}
			var back []string
			for i, l := range missing {
				if m>>uint(i)&1 == 1 {
					b, err := os.ReadFile(filepath.Join(walDirOf(pool), l))
					if err != nil {
						res.Fatalf("rotnr %s: %v", v.name, err)
						return
					}
					_ = os.WriteFile(filepath.Join(walDirOf(dst), l), b, 0o644)
					back = append(back, l)
				}
			}
			if len(back) > 0 {
				res.Hit("rotnr:image-with-unlinked-logs-back")
			}
			if len(back) > 0 && back[len(back)-1] == filepath.Base(cur) {
				res.Hit("rotnr:image-with-the-torn-log-back")
			}
			check(dst, fmt.Sprintf("%s+%v", label, back), want, acked)
			_ = os.RemoveAll(dst)
		}
	}
	for _, im := range imgs {
		withSubsets(im.dir, im.label, full, want, calls)
	}
	// the running store: blocked, but it shows the acknowledged history
	live, lerr := loadReal(st)
	res.Compared(1)
	if lerr != nil || !eq(live, want) {
		keepBest(lib.Violation{Sig: "failed-flush-leaves-partial-state-in-memory",
			What:   fmt.Sprintf("rotnr %s: after the failed rotation LoadAllEntries of the running store does not show the acknowledged history (%v)", v.name, lerr),
			Replay: replay(map[string]any{"live": live})})
	}
	if v.noRestart {
		_ = guard(st.Close)
		return
	}
	// a clean restart, a new batch (a new log, possibly under the name of an unlinked one), and again
	// every subset of the old unlinked logs
	if !restart() {
		return
	}
	res.Hit("rotnr:restart-ok")
	live, lerr = loadReal(st)
	res.Compared(1)
	if lerr != nil || !eq(live, want) {
		keepBest(lib.Violation{Sig: classify(live, [][]string{want}, calls, nil),
			What:   fmt.Sprintf("rotnr %s: the restarted store does not show the acknowledged history (%v)", v.name, lerr),
			Replay: replay(map[string]any{"live": live})})
	}
	set(300, next())
	log = append(log, Op{K: "flush"})
	if err := guard(st.Flush); err != nil {
		keepBest(lib.Violation{Sig: "flush-fails-after-failed-flush",
			What:   fmt.Sprintf("rotnr %s: the first flush after the restart fails: %v", v.name, err),
			Replay: replay(nil)})
		_ = guard(st.Close)
		return
	}
	res.Hit("rotnr:flush-after-restart-ok")
	for _, l := range logsIn(wd) {
		if l == filepath.Base(cur) {
			res.Hit("rotnr:new-log-reuses-the-name-of-the-torn-log")
		}
	}
	final := snap("after-restart-and-flush")
	if final != "" {
		withSubsets(final, "after-restart-and-flush", full, spec(calls), calls)
	}
	_ = guard(st.Close)
}
