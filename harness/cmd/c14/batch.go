//go:build verif

package main

import (
	"encoding/binary"
	"encoding/hex"
	"errors"
	"fmt"
	"io"
	"os"
	"path/filepath"
	"sort"
	"strconv"
	"strings"

	"github.com/NethermindEth/juno/consensus/starknet"
	"github.com/NethermindEth/juno/consensus/types"
	"github.com/NethermindEth/juno/consensus/types/wal"
	"github.com/cockroachdb/pebble/v2/vfs"
	pebblewal "github.com/cockroachdb/pebble/v2/wal"
	"verif/harness/lib"
)

// Batch-layer section (round 4): the bytes between the record payload codec and the log files.
//
//	(e) ENCODING. Batches of many shapes (0 … 6000 records, prunes merged into an earlier pending prune,
//	    a second batch, a batch after a restart) are buffered on the real store and on the model; the
//	    model's pending records and nextBatchSeqNum are rendered by `Batch.encodeBatch` (driver
//	    `encbatch`) and must equal, byte for byte, the record the real Flush appended to the log
//	    (read back with Pebble's own reader and, independently, with the harness's de-chunker).
//	(d) DECODING. Logs are built from real batches with a valid chunk checksum and damaged in the batch
//	    header, in every record header, in the first payload bytes, cut and extended, re-sequenced
//	    (equal / decreasing / zero sequence numbers, empty batches), spread over two logs, with a
//	    watermark file at / around the entry heights: the real NewTendermintWALStore must give exactly
//	    the model's answer (`readlog`): the same error class (or the panic inside
//	    batchrepr.DecodeStr), the same entries in the same order, the same nextBatchSeqNum.
//	(w) WATERMARK FILE. The bytes the real cleanup writes for a height equal `Batch.wmEncode`; every
//	    35-byte-or-not content of the file is accepted / rejected (size, header) / valued as
//	    `Batch.wmDecode` says.

const blockSize = 32768

// dechunk reassembles the record that starts at file offset `start` from its physical chunks
// (recyclable chunk format: crc(4) len(2) type(1) lognum(4); 5 = full, 6 = first, 7 = middle, 8 = last).
// data[i] is the byte at file offset base+i. Returns the record and the offset just past it.
func dechunk(data []byte, base, start int) ([]byte, int, error) {
	var out []byte
	pos := start
	for {
		if left := blockSize - pos%blockSize; left < chunkHdr {
			pos += left
		}
		i := pos - base
		if i < 0 || i+chunkHdr > len(data) {
			return nil, pos, fmt.Errorf("chunk header past the end (offset %d)", pos)
		}
		n := int(binary.LittleEndian.Uint16(data[i+4 : i+6]))
		typ := data[i+6]
		if i+chunkHdr+n > len(data) {
			return nil, pos, fmt.Errorf("chunk body past the end (offset %d)", pos)
		}
		if binary.LittleEndian.Uint32(data[i:i+4]) != pebbleCRC(data[i+6:i+chunkHdr+n]) {
			return nil, pos, fmt.Errorf("chunk checksum (offset %d)", pos)
		}
		out = append(out, data[i+chunkHdr:i+chunkHdr+n]...)
		pos += chunkHdr + n
		switch typ {
		case 5, 8:
			return out, pos, nil
		case 6, 7:
		default:
			return nil, pos, fmt.Errorf("chunk type %d (offset %d)", typ, pos)
		}
	}
}

// mkChunk frames one record as a single full chunk of log `lognum`.
func mkChunk(payload []byte, lognum uint32) []byte {
	out := make([]byte, chunkHdr, chunkHdr+len(payload))
	binary.LittleEndian.PutUint16(out[4:6], uint16(len(payload)))
	out[6] = 5
	binary.LittleEndian.PutUint32(out[7:11], lognum)
	out = append(out, payload...)
	binary.LittleEndian.PutUint32(out[0:4], pebbleCRC(out[6:]))
	return out
}

// realRecords reads the complete records of every log of the directory with Pebble's reader.
func realRecords(dbPath string) (map[uint64][][]byte, error) {
	logs, err := pebblewal.Scan(pebblewal.Dir{FS: vfs.Default, Dirname: walDirOf(dbPath)})
	if err != nil {
		return nil, err
	}
	out := map[uint64][][]byte{}
	for _, ll := range logs {
		rd := ll.OpenForRead()
		var recs [][]byte
		for {
			rr, _, e := rd.NextRecord()
			if e != nil {
				if !errors.Is(e, io.EOF) {
					rd.Close()
					return nil, fmt.Errorf("log %d: %w", ll.Num, e)
				}
				break
			}
			b, e := io.ReadAll(rr)
			if e != nil {
				rd.Close()
				return nil, e
			}
			recs = append(recs, b)
		}
		rd.Close()
		out[uint64(ll.Num)] = recs
	}
	return out, nil
}

// classifyOpen maps the error of NewTendermintWALStore to the model's error classes.
func classifyOpen(err error) string {
	if err == nil {
		return "ok"
	}
	s := err.Error()
	switch {
	case strings.Contains(s, "PANIC"):
		return "panic"
	case strings.Contains(s, "HANG"):
		return "hang"
	case strings.Contains(s, "invalid watermark size"):
		return "err:size"
	case strings.Contains(s, "invalid watermark header"):
		return "err:header"
	case strings.Contains(s, "missing batch header"):
		return "err:missing-header"
	case strings.Contains(s, "iterate batch record"):
		return "err:iter"
	case strings.Contains(s, "does not match record count"):
		return "err:count"
	case strings.Contains(s, "unexpected batch key kind"):
		return "err:kind"
	case strings.Contains(s, "decode WAL envelope"):
		return "err:decode"
	case strings.Contains(s, "invalid batch"):
		return "err:corrupt-header"
	}
	return "err:other(" + s + ")"
}

type batchCtx struct {
	f    lib.Flags
	res  *lib.Result
	drv  *lib.Driver
	root string
	dead bool
	n    int
}

func (c *batchCtx) ask(line string) (string, bool) {
	if c.dead {
		return "", false
	}
	var ans string
	var err error
	if !lib.WithDeadline(driverDeadline, func() { ans, err = c.drv.Ask(line) }) {
		err = fmt.Errorf("no answer within %v", driverDeadline)
	}
	if err == nil && ans == "bad-op" {
		err = fmt.Errorf("bad-op")
	}
	if err != nil {
		l := line
		if len(l) > 200 {
			l = l[:200] + "…"
		}
		c.res.Fatalf("batch section: driver on %q: %v", l, err)
		c.dead = true
		return "", false
	}
	return ans, true
}

func (c *batchCtx) freshDB(name string) string {
	c.n++
	db := filepath.Join(c.root, fmt.Sprintf("b%d-%s", c.n, name))
	_ = os.RemoveAll(db)
	_ = os.MkdirAll(walDirOf(db), 0o755)
	return db
}

// pendingToText turns the model's `pending` answer into the record list of an `encbatch` request.
func pendingToText(p string) (string, int, error) {
	if p == "-" {
		return "", 0, nil
	}
	var sb strings.Builder
	n := 0
	for _, t := range strings.Split(p, ",") {
		f := strings.Split(t, ":")
		switch {
		case len(f) == 3 && f[0] == "e":
			h, e1 := strconv.ParseUint(f[1], 10, 64)
			e, e2 := strconv.Atoi(f[2])
			if e1 != nil || e2 != nil {
				return "", 0, fmt.Errorf("bad pending token %q", t)
			}
			sb.WriteString(" | " + fmtReal(mkEntry(h, e)))
		case len(f) == 2 && f[0] == "p":
			sb.WriteString(" | prune " + f[1])
		default:
			return "", 0, fmt.Errorf("bad pending token %q", t)
		}
		n++
	}
	return sb.String(), n, nil
}

type bstep struct {
	k string // set del flush restart
	h uint64
	e int
}

// encodeCase runs one history on the real store and on the model and compares every appended batch.
func (c *batchCtx) encodeCase(name string, steps []bstep) {
	if c.dead {
		return
	}
	db := c.freshDB("enc")
	defer os.RemoveAll(db)
	drv, err := lib.StartDriver(c.f.Driver)
	if err != nil {
		c.res.Fatalf("batch section: driver: %v", err)
		return
	}
	defer drv.Close()
	saved := c.drv
	c.drv = drv
	defer func() { c.drv = saved }()
	st, err := openReal(db)
	if err != nil {
		c.res.Fatalf("batch section %s: open: %v", name, err)
		return
	}
	defer func() { _ = guard(st.Close) }()
	if a, ok := c.ask("open"); !ok || a != "ok" {
		c.res.Fatalf("batch section %s: model open: %q", name, a)
		return
	}
	count := func(m map[uint64][][]byte) int {
		n := 0
		for _, r := range m {
			n += len(r)
		}
		return n
	}
	for i, s := range steps {
		switch s.k {
		case "set":
			e1 := guard(func() error { return st.SetWALEntry(mkEntry(s.h, s.e)) })
			a, ok := c.ask(fmt.Sprintf("set %d %d", s.h, s.e))
			if !ok {
				return
			}
			if cls(e1) != mcls(a) {
				c.res.Mismatch(lib.Mismatch{Sig: "batch-encode:set-outcome", Input: name, Model: a, Impl: fmt.Sprint(e1)})
			}
		case "del":
			e1 := guard(func() error { return st.DeleteWALEntries(typesHeight(s.h)) })
			a, ok := c.ask(fmt.Sprintf("del %d", s.h))
			if !ok {
				return
			}
			if cls(e1) != mcls(a) {
				c.res.Mismatch(lib.Mismatch{Sig: "batch-encode:del-outcome", Input: name, Model: a, Impl: fmt.Sprint(e1)})
			}
		case "restart":
			_ = guard(st.Close)
			a1, ok1 := c.ask("close none")
			var e2 error
			st, e2 = openReal(db)
			a2, ok2 := c.ask("open")
			if !ok1 || !ok2 {
				return
			}
			if e2 != nil || a2 != "ok" || a1 != "ok" {
				c.res.Mismatch(lib.Mismatch{Sig: "batch-encode:restart", Input: name, Model: a1 + "/" + a2, Impl: fmt.Sprint(e2)})
				return
			}
		case "flush":
			pend, ok1 := c.ask("pending")
			ns, ok2 := c.ask("nextseq")
			if !ok1 || !ok2 {
				return
			}
			before, e0 := realRecords(db)
			if e0 != nil {
				c.res.Fatalf("batch section %s: read logs: %v", name, e0)
				return
			}
			e1 := guard(st.Flush)
			a, ok := c.ask("flush none")
			if !ok {
				return
			}
			if cls(e1) != mcls(a) {
				c.res.Mismatch(lib.Mismatch{Sig: "batch-encode:flush-outcome", Input: name, Model: a, Impl: fmt.Sprint(e1)})
				return
			}
			after, e0 := realRecords(db)
			if e0 != nil {
				c.res.Fatalf("batch section %s: read logs: %v", name, e0)
				return
			}
			text, nrec, perr := pendingToText(pend)
			if perr != nil {
				c.res.Fatalf("batch section %s: %v", name, perr)
				return
			}
			c.res.Compared(1)
			c.res.Case(fmt.Sprintf("batch-encode/%s/%d", name, i), nrec > 0)
			if nrec == 0 {
				c.res.Hit("batch-encode:empty-flush")
				if count(after) != count(before) {
					c.res.Mismatch(lib.Mismatch{Sig: "batch-encode:record-written-for-empty-flush", Input: name, Model: "no record", Impl: count(after) - count(before)})
				}
				continue
			}
			// the one new record
			var got []byte
			var gotNum uint64
			found := 0
			for num, recs := range after {
				if len(recs) > len(before[num]) {
					found += len(recs) - len(before[num])
					got = recs[len(recs)-1]
					gotNum = num
				}
			}
			if found != 1 {
				c.res.Mismatch(lib.Mismatch{Sig: "batch-encode:not-one-new-record", Input: name, Model: 1, Impl: found})
				return
			}
			want, ok := c.ask("encbatch " + ns + text)
			if !ok {
				return
			}
			c.res.Hit("batch-encode:records-" + sizeClass(nrec))
			if len(got) > blockSize {
				c.res.Hit("batch-encode:multi-chunk")
			}
			// maxReusableEncodedBatchCap: the buffer (capacity 12 + 139 per record) is kept up to 512 KiB
			switch {
			case nrec == 3771:
				c.res.Hit("batch-encode:buffer-at-reusable-cap")
			case nrec >= 3772:
				c.res.Hit("batch-encode:buffer-above-reusable-cap")
			}
			if hex.EncodeToString(got) != want {
				c.res.Mismatch(lib.Mismatch{Sig: "batch-encode:bytes", Input: map[string]any{"case": name, "step": i, "records": nrec, "seq": ns},
					Model: clip(want), Impl: clip(hex.EncodeToString(got))})
				return
			}
			// the harness's own de-chunker (used for the per-flush comparison in the histories) agrees
			if raw, e := os.ReadFile(filepath.Join(walDirOf(db), logName(gotNum))); e == nil {
				off := 0
				okAll := true
				for k := 0; k < len(after[gotNum]); k++ {
					var rec []byte
					var e error
					rec, off, e = dechunk(raw, 0, off)
					if e != nil || string(rec) != string(after[gotNum][k]) {
						okAll = false
						c.res.Fatalf("batch section %s: de-chunker disagrees with Pebble's reader at record %d of log %d: %v", name, k, gotNum, e)
						break
					}
				}
				if okAll {
					c.res.Hit("batch-encode:dechunk-agrees")
				}
			}
		}
	}
}

func sizeClass(n int) string {
	switch {
	case n <= 2:
		return strconv.Itoa(n)
	case n < 255:
		return "3..254"
	case n <= 257:
		return strconv.Itoa(n)
	case n < 1000:
		return "258..999"
	}
	return "1000+"
}

func clip(s string) string {
	if len(s) > 400 {
		return s[:200] + "…" + s[len(s)-200:] + fmt.Sprintf(" (%d hex digits)", len(s))
	}
	return s
}

// shapeSteps: n entries over heights lo..lo+2, with two prunes placed so that the second is merged
// into the first one's position; then a flush.
func shapeSteps(n int, lo uint64, e0 int, dels bool) []bstep {
	var s []bstep
	for i := 0; i < n; i++ {
		s = append(s, bstep{k: "set", h: lo + uint64(i%3), e: e0 + i})
		if dels && i == n/3 {
			s = append(s, bstep{k: "del", h: lo - 1})
		}
		if dels && i == (2*n)/3 {
			s = append(s, bstep{k: "del", h: lo})
		}
	}
	if n == 0 && dels {
		s = append(s, bstep{k: "del", h: lo})
	}
	return append(s, bstep{k: "flush"})
}

// ---- decoding ------------------------------------------------------------------------------

type logSpec struct {
	num  uint64
	recs [][]byte
}

// decodeCase builds the directory (logs of complete records, optional watermark content) and compares
// the real open with the model's `readlog`.
func (c *batchCtx) decodeCase(what string, wm []byte, logs []logSpec, probeSeq bool) {
	if c.dead {
		return
	}
	db := c.freshDB("dec")
	defer os.RemoveAll(db)
	wd := walDirOf(db)
	wmVal := "0"
	if wm != nil {
		_ = os.WriteFile(filepath.Join(wd, "prune-watermark"), wm, 0o644)
		a, ok := c.ask("wmdec " + hexOrDash(wm))
		if !ok {
			return
		}
		if !strings.HasPrefix(a, "ok ") {
			c.res.Fatalf("batch section: decodeCase with a watermark the model rejects: %s", a)
			return
		}
		wmVal = strings.TrimPrefix(a, "ok ")
	}
	req := "readlog " + wmVal
	for _, l := range logs {
		var file []byte
		hs := make([]string, len(l.recs))
		for i, r := range l.recs {
			file = append(file, mkChunk(r, uint32(l.num))...)
			hs[i] = hexOrDash(r)
		}
		if len(file) > blockSize-chunkHdr {
			c.res.Fatalf("batch section: crafted log too long for single-block framing (%d bytes)", len(file))
			return
		}
		_ = os.WriteFile(filepath.Join(wd, logName(l.num)), file, 0o644)
		req += fmt.Sprintf(" %d:%s", l.num, strings.Join(hs, ","))
	}
	model, ok := c.ask(req)
	if !ok {
		return
	}
	wmU, _ := strconv.ParseUint(wmVal, 10, 64)
	var belowWm []string
	st, err := openReal(db)
	impl := classifyOpen(err)
	var entries []string
	if err == nil {
		e := guard(func() error {
			for en, e := range st.LoadAllEntries() {
				if e != nil {
					return e
				}
				entries = append(entries, fmtReal(en))
				if wm != nil && en != nil && uint64(en.GetHeight()) <= wmU {
					belowWm = append(belowWm, fmtReal(en))
				}
			}
			return nil
		})
		if e != nil {
			impl = "load:" + e.Error()
		}
	}
	c.res.Compared(1)
	c.res.Case("batch-decode/"+what, true)
	if wm != nil && err == nil {
		// PROPERTY oracle (round 6): heights at or below the watermark FILE are dead whatever the logs still hold —
		// also when a log (one that a cleanup spared, or an unlinked one a crash brought back) carries an older,
		// lower prune record followed by entries between that record and the watermark.
		c.res.Hit("batch-decode:watermark-file-oracle")
		if len(belowWm) > 0 {
			keepBest(lib.Violation{Sig: "revived-pruned-entry", What: fmt.Sprintf("watermark file %s, yet NewTendermintWALStore + LoadAllEntries show entries at or below it (%s): %s", wmVal, what, strings.Join(belowWm, " | ")),
				Replay: map[string]any{"ops": []Op{}, "codec": "batch", "case": what, "request": clip(req)}})
		}
	}
	mclass := model
	if strings.HasPrefix(model, "ok ") {
		mclass = "ok"
	}
	c.res.Hit("batch-decode:" + mclass)
	if impl == "hang" {
		keepBest(lib.Violation{Sig: "reopen-hangs-on-crafted-log", What: "NewTendermintWALStore hangs on a checksum-valid log: " + what,
			Replay: map[string]any{"ops": []Op{}, "codec": "batch", "request": clip(req)}})
		if st != nil {
			_ = guard(st.Close)
		}
		return
	}
	if mclass != "ok" || impl != "ok" {
		if impl != mclass {
			c.res.Mismatch(lib.Mismatch{Sig: "batch-decode:class", Input: map[string]any{"case": what, "request": clip(req)}, Model: model, Impl: fmt.Sprint(impl, " ", err)})
		}
		if st != nil {
			_ = guard(st.Close)
		}
		return
	}
	// ok on both sides: entries and nextBatchSeqNum
	parts := strings.Split(model, " | ")
	mEntries := parts[1:]
	mSeq := strings.TrimPrefix(parts[0], "ok nextseq=")
	if strings.Join(mEntries, " | ") != strings.Join(entries, " | ") {
		c.res.Mismatch(lib.Mismatch{Sig: "batch-decode:entries", Input: map[string]any{"case": what, "request": clip(req)}, Model: strings.Join(mEntries, " | "), Impl: strings.Join(entries, " | ")})
	}
	if probeSeq && wmVal != "18446744073709551615" {
		// nextBatchSeqNum shows in the header of the next batch the store writes
		before, _ := realRecords(db)
		s := wal.Start(types.Height(^uint64(0)))
		e1 := guard(func() error { return st.SetWALEntry(&s) })
		e2 := guard(st.Flush)
		after, e3 := realRecords(db)
		var hdr []byte
		for num, recs := range after {
			if len(recs) > len(before[num]) {
				hdr = recs[len(recs)-1]
			}
		}
		c.res.Compared(1)
		if e1 != nil || e2 != nil || e3 != nil || len(hdr) < 12 {
			c.res.Mismatch(lib.Mismatch{Sig: "batch-decode:seq-probe-failed", Input: map[string]any{"case": what, "request": clip(req)}, Model: mSeq, Impl: fmt.Sprint(e1, e2, e3, len(hdr))})
		} else if got := strconv.FormatUint(binary.LittleEndian.Uint64(hdr[:8]), 10); got != mSeq {
			c.res.Mismatch(lib.Mismatch{Sig: "batch-decode:next-seq", Input: map[string]any{"case": what, "request": clip(req)}, Model: mSeq, Impl: got})
		} else {
			c.res.Hit("batch-decode:next-seq-agrees")
		}
	}
	_ = guard(st.Close)
}

func hexOrDash(b []byte) string {
	if len(b) == 0 {
		return "-"
	}
	return hex.EncodeToString(b)
}

// byteVariants: the values a byte is replaced by (all in the thorough tier).
func byteVariants(b byte, full bool, rng *lib.RNG) []byte {
	var out []byte
	seen := map[byte]bool{b: true}
	add := func(v byte) {
		if !seen[v] {
			seen[v] = true
			out = append(out, v)
		}
	}
	if full {
		for v := 0; v < 256; v++ {
			add(byte(v))
		}
		return out
	}
	for k := 0; k < 8; k++ {
		add(b ^ (1 << uint(k)))
	}
	for _, v := range []byte{0, 1, 2, 3, 4, 5, 0x7f, 0x80, 0x81, 0xfe, 0xff, b + 1, b - 1} {
		add(v)
	}
	add(byte(rng.Intn(256)))
	return out
}

func withSeq(batch []byte, seq uint64) []byte {
	out := append([]byte(nil), batch...)
	binary.LittleEndian.PutUint64(out[:8], seq)
	return out
}

// makeBatches writes the given histories with the real store and returns the batches (records of the logs).
func (c *batchCtx) makeBatches(name string, groups [][]bstep) ([][]byte, error) {
	db := c.freshDB("mk-" + name)
	defer os.RemoveAll(db)
	st, err := openReal(db)
	if err != nil {
		return nil, err
	}
	defer func() { _ = guard(st.Close) }()
	for _, g := range groups {
		for _, s := range g {
			switch s.k {
			case "set":
				if e := st.SetWALEntry(mkEntry(s.h, s.e)); e != nil {
					return nil, e
				}
			case "del":
				if e := st.DeleteWALEntries(typesHeight(s.h)); e != nil {
					return nil, e
				}
			case "flush":
				if e := st.Flush(); e != nil {
					return nil, e
				}
			}
		}
	}
	recs, err := realRecords(db)
	if err != nil {
		return nil, err
	}
	var nums []uint64
	for n := range recs {
		nums = append(nums, n)
	}
	sort.Slice(nums, func(i, j int) bool { return nums[i] < nums[j] })
	var out [][]byte
	for _, n := range nums {
		out = append(out, recs[n]...)
	}
	return out, nil
}

// ---- the watermark file --------------------------------------------------------------------

// wmValueCase: the store is opened on a directory that holds nothing but the given watermark file.
func (c *batchCtx) wmFileCase(what string, content []byte, exists bool) {
	if c.dead {
		return
	}
	db := c.freshDB("wm")
	defer os.RemoveAll(db)
	model := "ok 0"
	if exists {
		_ = os.WriteFile(filepath.Join(walDirOf(db), "prune-watermark"), content, 0o644)
		var ok bool
		if model, ok = c.ask("wmdec " + hexOrDash(content)); !ok {
			return
		}
	}
	st, err := openReal(db)
	impl := classifyOpen(err)
	c.res.Compared(1)
	c.res.Case("wmfile/"+what, true)
	c.res.Hit("wmfile:" + strings.Fields(model)[0])
	if !strings.HasPrefix(model, "ok ") || impl != "ok" {
		if impl != model {
			c.res.Mismatch(lib.Mismatch{Sig: "watermark-file:class", Input: map[string]any{"case": what, "content": hexOrDash(content)}, Model: model, Impl: fmt.Sprint(impl, " ", err)})
		}
		if st != nil {
			_ = guard(st.Close)
		}
		return
	}
	defer func() { _ = guard(st.Close) }()
	w, perr := strconv.ParseUint(strings.TrimPrefix(model, "ok "), 10, 64)
	if perr != nil {
		c.res.Fatalf("batch section: model watermark %q", model)
		return
	}
	// the value: an entry at the watermark is dropped, one just above is kept
	at := wal.Start(types.Height(w))
	_ = guard(func() error { return st.SetWALEntry(&at) })
	want := []string{}
	if w != ^uint64(0) {
		above := wal.Start(types.Height(w + 1))
		_ = guard(func() error { return st.SetWALEntry(&above) })
		want = append(want, fmtReal(&above))
	}
	if e := guard(st.Flush); e != nil {
		c.res.Mismatch(lib.Mismatch{Sig: "watermark-file:flush", Input: what, Model: "ok", Impl: e.Error()})
		return
	}
	var got []string
	_ = guard(func() error {
		for en, e := range st.LoadAllEntries() {
			if e != nil {
				return e
			}
			got = append(got, fmtReal(en))
		}
		return nil
	})
	if strings.Join(got, "|") != strings.Join(want, "|") {
		c.res.Mismatch(lib.Mismatch{Sig: "watermark-file:value", Input: map[string]any{"case": what, "content": hexOrDash(content)},
			Model: fmt.Sprintf("watermark %d: keeps %v", w, want), Impl: fmt.Sprint(got)})
	}
}

// wmWriteCase: 255 flushed prunes, then the prune of height h: the cleanup writes the watermark file.
func (c *batchCtx) wmWriteCase(h uint64) {
	if c.dead {
		return
	}
	db := c.freshDB("wmw")
	defer os.RemoveAll(db)
	st, err := openReal(db)
	if err != nil {
		c.res.Fatalf("batch section: open: %v", err)
		return
	}
	defer func() { _ = guard(st.Close) }()
	for i := uint64(1); i <= 255; i++ {
		_ = st.DeleteWALEntries(typesHeight(i))
		if e := guard(st.Flush); e != nil {
			c.res.Fatalf("batch section: prune flush %d: %v", i, e)
			return
		}
	}
	if _, e := os.Stat(filepath.Join(walDirOf(db), "prune-watermark")); e == nil {
		c.res.Mismatch(lib.Mismatch{Sig: "watermark-file:written-before-interval", Input: h, Model: "no file after 255 prune records", Impl: "file exists"})
	}
	_ = st.DeleteWALEntries(typesHeight(h))
	if e := guard(st.Flush); e != nil {
		c.res.Fatalf("batch section: cleanup flush: %v", e)
		return
	}
	got, e := os.ReadFile(filepath.Join(walDirOf(db), "prune-watermark"))
	want, ok := c.ask(fmt.Sprintf("wmenc %d", h))
	if !ok {
		return
	}
	c.res.Compared(1)
	c.res.Case(fmt.Sprintf("wmwrite/%d", h), true)
	c.res.Hit("wmfile:written-by-cleanup")
	if e != nil || hex.EncodeToString(got) != want {
		c.res.Mismatch(lib.Mismatch{Sig: "watermark-file:bytes", Input: h, Model: want, Impl: fmt.Sprint(hex.EncodeToString(got), " ", e)})
	}
}

// runBatch runs the slice of the batch-layer cases that belongs to this shard.
func runBatch(f lib.Flags, res *lib.Result, shard, shards int, root string) {
	drv, err := lib.StartDriver(f.Driver)
	if err != nil {
		res.Fatalf("batch section: driver: %v", err)
		return
	}
	defer drv.Close()
	c := &batchCtx{f: f, res: res, drv: drv, root: filepath.Join(root, "batch")}
	_ = os.MkdirAll(c.root, 0o755)
	defer os.RemoveAll(c.root)
	turn := 0
	mine := func() bool { turn++; return turn%shards == shard }
	rng := lib.NewRNG(f.Seed*104729 + uint64(shard))
	full := f.Thorough()

	// (e) encoding
	counts := []int{0, 1, 2, 3, 7, 100, 254, 255, 256, 257, 258, 300, 420, 800, 1500}
	if full {
		counts = append(counts, 5, 64, 127, 128, 129, 511, 512, 513, 2000, 3000)
	}
	for _, n := range counts {
		for _, dels := range []bool{false, true} {
			if !mine() {
				continue
			}
			steps := shapeSteps(n, 5, 1+rng.Intn(1000), dels)
			steps = append(steps, shapeSteps(1+rng.Intn(6), 9, 5000+rng.Intn(1000), true)...)
			steps = append(steps, bstep{k: "flush"}, bstep{k: "restart"})
			steps = append(steps, shapeSteps(2+rng.Intn(4), 13, 9000+rng.Intn(1000), rng.Bool())...)
			c.encodeCase(fmt.Sprintf("n%d-dels%v", n, dels), steps)
		}
	}
	// the 512 KiB cap of the reusable encode buffer (capacity 12 + 139 per record: 3771 records fit, 3772
	// do not), each followed by smaller batches that reuse / re-allocate the buffer
	for _, big := range []int{3770, 3771, f.Scale(7600, 12000)} {
		if !mine() {
			continue
		}
		steps := shapeSteps(big, 5, 1+rng.Intn(100), true)
		steps = append(steps, shapeSteps(3, 9, 20000, false)...)
		steps = append(steps, shapeSteps(40, 9, 30000, true)...)
		c.encodeCase(fmt.Sprintf("buffer-cap-%d", big), steps)
	}

	// (d) decoding
	base, err := c.makeBatches("base", [][]bstep{
		{{k: "set", h: 3, e: 5}, {k: "set", h: 4, e: 6}, {k: "del", h: 2}, {k: "set", h: 3, e: 7}, {k: "flush"}},
		{{k: "set", h: 4, e: 14}, {k: "set", h: 5, e: 3}, {k: "flush"}},
		{{k: "del", h: 3}, {k: "set", h: 5, e: 8}, {k: "flush"}},
		{{k: "set", h: 6, e: 11}, {k: "flush"}},
	})
	if err != nil || len(base) != 4 {
		res.Fatalf("batch section: base batches: %v (%d)", err, len(base))
		return
	}
	A, B, C, D := base[0], base[1], base[2], base[3]
	if mine() {
		c.decodeCase("identity", nil, []logSpec{{1, [][]byte{A, B, C, D}}}, true)
	}
	// damage to one batch: header, every record header, the first payload bytes
	for bi, bt := range [][]byte{A, D} {
		// offsets of the record headers
		var hdrOffs []int
		off := batchHdr
		for off < len(bt) {
			for k := 0; k < recHdr+2 && off+k < len(bt); k++ {
				hdrOffs = append(hdrOffs, off+k)
			}
			vl := int(bt[off+6]&0x7f) | int(bt[off+7]&0x7f)<<7 | int(bt[off+8]&0x7f)<<14 | int(bt[off+9]&0x7f)<<21 | int(bt[off+10])<<28
			off += recHdr + vl
		}
		var offs []int
		for k := 0; k < batchHdr; k++ {
			offs = append(offs, k)
		}
		offs = append(offs, hdrOffs...)
		for _, o := range offs {
			for _, v := range byteVariants(bt[o], full, rng) {
				if !mine() {
					continue
				}
				m := append([]byte(nil), bt...)
				m[o] = v
				c.decodeCase(fmt.Sprintf("b%d/byte@%d=%d", bi, o, v), nil, []logSpec{{1, [][]byte{m}}}, o < 12 && v%4 == 0)
				// the same damage in the middle of a log: what was applied before and after
				if rng.Intn(4) == 0 {
					mm := m
					if o >= 8 {
						mm = withSeq(m, 2)
					}
					c.decodeCase(fmt.Sprintf("b%d/mid/byte@%d=%d", bi, o, v), nil, []logSpec{{1, [][]byte{withSeq(B, 1), mm, withSeq(C, 1<<40)}}}, false)
				}
			}
		}
		for k := 0; k <= len(bt); k++ {
			if mine() {
				c.decodeCase(fmt.Sprintf("b%d/cut@%d", bi, k), nil, []logSpec{{1, [][]byte{bt[:k]}}}, false)
			}
			if mine() && k < 40 {
				// a short record in a log that is not the latest
				c.decodeCase(fmt.Sprintf("b%d/cut@%d/older-log", bi, k), nil, []logSpec{{1, [][]byte{bt[:k]}}, {2, [][]byte{B}}}, false)
			}
		}
		for _, ext := range [][]byte{{0}, {1}, {0xff}, {1, 0}, {1, 4, 0, 0, 0, 0}, {1, 0x91}, {1, 0x80}, {1, 0x80, 0x80, 0x80, 0x80}, {0, 0}, {3, 0}, {25, 0}, {24, 0, 0}} {
			if mine() {
				c.decodeCase(fmt.Sprintf("b%d/extend+%x", bi, ext), nil, []logSpec{{1, [][]byte{append(append([]byte(nil), bt...), ext...)}}}, false)
			}
		}
		// a whole extra record, with and without the count adjusted
		extra := append(append([]byte(nil), bt...), D[batchHdr:]...)
		if mine() {
			c.decodeCase(fmt.Sprintf("b%d/extra-record", bi), nil, []logSpec{{1, [][]byte{extra}}}, false)
		}
		fixed := append([]byte(nil), extra...)
		binary.LittleEndian.PutUint32(fixed[8:12], binary.LittleEndian.Uint32(bt[8:12])+1)
		if mine() {
			c.decodeCase(fmt.Sprintf("b%d/extra-record-counted", bi), nil, []logSpec{{1, [][]byte{fixed}}}, true)
		}
	}
	// sequence numbers and empty batches
	empty := func(seq uint64) []byte {
		b := make([]byte, 12)
		binary.LittleEndian.PutUint64(b[:8], seq)
		return b
	}
	seqs := [][]uint64{{1, 2, 3, 4}, {5, 5, 6, 7}, {5, 4, 6, 6}, {0, 1, 2, 3}, {3, 3, 3, 3}, {9, 1, 2, 10}, {1, 1 << 63, ^uint64(0), 7},
		{^uint64(0), 1, 2, 3}, {4, 3, 2, 1}, {2, 7, 7, 8}, {1, 4, 8, 9}, {1 << 32, 1<<32 + 1, 1 << 31, 1 << 33}}
	for si, q := range seqs {
		if mine() {
			c.decodeCase(fmt.Sprintf("seqs-%d", si), nil, []logSpec{{1, [][]byte{withSeq(A, q[0]), withSeq(B, q[1]), withSeq(C, q[2]), withSeq(D, q[3])}}}, true)
		}
		if mine() {
			c.decodeCase(fmt.Sprintf("seqs-%d/two-logs", si), nil, []logSpec{{3, [][]byte{withSeq(A, q[0]), withSeq(B, q[1])}}, {7, [][]byte{withSeq(C, q[2]), withSeq(D, q[3])}}}, true)
		}
		if mine() {
			c.decodeCase(fmt.Sprintf("seqs-%d/empty-batch", si), nil, []logSpec{{1, [][]byte{withSeq(A, q[0]), empty(q[1]), withSeq(C, q[2]), empty(q[3] + 5), withSeq(D, q[3])}}}, true)
		}
	}
	// a watermark file at and around the heights of the entries (3, 4, 5, 6)
	for w := uint64(0); w <= 7; w++ {
		if mine() {
			c.decodeCase(fmt.Sprintf("wm-%d", w), wmBytes(w), []logSpec{{1, [][]byte{A, B}}, {2, [][]byte{withSeq(C, 1), withSeq(D, 2)}}}, true)
		}
	}
	if mine() {
		c.decodeCase("wm-max", wmBytes(^uint64(0)), []logSpec{{1, [][]byte{A, B, C, D}}}, true)
	}
	if mine() {
		c.decodeCase("no-logs", nil, nil, true)
	}
	if mine() {
		c.decodeCase("empty-log", nil, []logSpec{{4, nil}}, true)
	}

	// (w) the watermark file
	if mine() {
		c.wmFileCase("absent", nil, false)
	}
	good := wmBytes(0x0102030405060708)
	for k := 0; k <= len(good)+3; k++ {
		if !mine() {
			continue
		}
		content := append([]byte(nil), good...)
		if k <= len(good) {
			content = content[:k]
		} else {
			content = append(content, make([]byte, k-len(good))...)
		}
		c.wmFileCase(fmt.Sprintf("len-%d", k), content, true)
	}
	for i := range good {
		for _, v := range byteVariants(good[i], full, rng) {
			if !mine() {
				continue
			}
			m := append([]byte(nil), good...)
			m[i] = v
			c.wmFileCase(fmt.Sprintf("byte@%d=%d", i, v), m, true)
		}
	}
	var hs []uint64
	for k := uint(0); k < 64; k += 8 {
		hs = append(hs, 1<<k-1, 1<<k, 1<<k+1)
	}
	hs = append(hs, 1<<63-1, 1<<63, ^uint64(0)-1, ^uint64(0), rng.Uint64(), rng.Uint64())
	for _, h := range hs {
		if mine() {
			c.wmFileCase(fmt.Sprintf("value-%d", h), wmBytes(h), true)
		}
	}
	whs := []uint64{256, 257, 1 << 16, 1<<32 + 5, 1 << 63, ^uint64(0), 0x0102030405060708, 65535, 1 << 24, 1<<40 - 1, 1 << 48, 300, 1 << 56, 511}
	for i, h := range whs {
		if i%shards == shard {
			c.wmWriteCase(h)
		}
	}
	res.Hit("batch:section-runs")
}

var _ = starknet.Value{}
