//go:build verif

package main

import (
	"encoding/binary"
	"encoding/hex"
	"fmt"
	"hash/crc32"
	"os"
	"path/filepath"
	"strings"

	"github.com/NethermindEth/juno/consensus/starknet"
	"github.com/NethermindEth/juno/consensus/types/wal"
	"verif/harness/lib"
)

// Byte-level section: the record payload codec (codec.go / record.go) and the framing assumption.
//
// A log holding one batch with one record is written by the real store. Then
//  (a) with the chunk checksum RECOMPUTED, the record payload is replaced by every same-length
//      one-byte variant, every truncation and a one-byte extension: the real decoder (reached
//      through NewTendermintWALStore) must behave exactly like the Lean model `Codec.decode` —
//      reject what it rejects, yield what it yields — and must never panic or hang;
//  (b) with the checksum LEFT ALONE, every byte of the file is replaced by every other value and the
//      file is cut at every length: reopening must succeed and show either nothing or exactly the
//      record that was written (the framing hypothesis of `codec_no_foreign_record`, tested
//      exhaustively on small records).

var castagnoli = crc32.MakeTable(crc32.Castagnoli)

// pebbleCRC is pebble/internal/crc: CRC-32C, rotated and offset.
func pebbleCRC(b []byte) uint32 {
	c := crc32.Update(0, castagnoli, b)
	return (c>>15 | c<<17) + 0xa282ead8
}

func limbStr(l [4]uint64) string { return fmt.Sprintf("%d,%d,%d,%d", l[0], l[1], l[2], l[3]) }

// fmtReal renders a real entry the way the Lean driver renders a decoded payload.
func fmtReal(en starknet.WALEntry) string {
	switch v := en.(type) {
	case *wal.Start:
		return fmt.Sprintf("start %d", uint64(*v))
	case *starknet.WALProposal:
		val := "-"
		if v.Value != nil {
			val = limbStr([4]uint64(*v.Value))
		}
		return fmt.Sprintf("proposal %d %d %s %d %s", uint64(v.Height), uint64(int64(v.Round)), limbStr([4]uint64(v.Sender)), uint64(int64(v.ValidRound)), val)
	case *starknet.WALPrevote:
		id := "-"
		if v.ID != nil {
			id = limbStr([4]uint64(*v.ID))
		}
		return fmt.Sprintf("prevote %d %d %s %s", uint64(v.Height), uint64(int64(v.Round)), limbStr([4]uint64(v.Sender)), id)
	case *starknet.WALPrecommit:
		id := "-"
		if v.ID != nil {
			id = limbStr([4]uint64(*v.ID))
		}
		return fmt.Sprintf("precommit %d %d %s %s", uint64(v.Height), uint64(int64(v.Round)), limbStr([4]uint64(v.Sender)), id)
	case *starknet.WALTimeout:
		return fmt.Sprintf("timeout %d %d %d", uint8(v.Step), uint64(v.Height), uint64(int64(v.Round)))
	}
	return fmt.Sprintf("?%T", en)
}

const (
	chunkHdr = 11 // recyclable chunk header: crc(4) len(2) type(1) lognum(4)
	batchHdr = 12 // batchrepr header: seqnum(8) count(4)
	recHdr   = 11 // kind(1) keyLen(1) key(4) valueLen(5, fixed-width uvarint)
	valOff   = chunkHdr + batchHdr + recHdr
)

type codecSample struct {
	name  string
	file  []byte // the log without EOF trailer
	value []byte // the record payload
	orig  string // fmtReal of the written entry ("prune" for the prune record)
	small bool   // exhaustive in the quick tier
}

type codecCtx struct {
	f    lib.Flags
	res  *lib.Result
	drv  *lib.Driver
	db   string
	path string
	n    int
	dead bool // the driver is gone: reported once
}

// reopen writes the log and returns what the real store makes of it.
func (c *codecCtx) reopen(file []byte) (entries []string, err error) {
	if e := os.WriteFile(c.path, file, 0o644); e != nil {
		return nil, e
	}
	st, err := openReal(c.db)
	if err != nil {
		return nil, err
	}
	err = guard(func() error {
		for en, e := range st.LoadAllEntries() {
			if e != nil {
				return e
			}
			entries = append(entries, fmtReal(en))
		}
		return nil
	})
	_ = guard(st.Close)
	return entries, err
}

// frame rebuilds the one-record log around a new payload, with a valid checksum.
func frame(orig []byte, value []byte) []byte {
	out := append([]byte(nil), orig[:valOff]...)
	out = append(out, value...)
	// valueLen: five-byte uvarint, as putFixedUvarint32 writes it
	n := uint32(len(value))
	vl := out[valOff-5 : valOff]
	vl[0] = byte(n) | 0x80
	for i := 1; i < 4; i++ {
		vl[i] = byte(n>>(7*uint(i))) | 0x80
	}
	vl[4] = byte(n >> 28)
	binary.LittleEndian.PutUint16(out[4:6], uint16(len(out)-chunkHdr))
	binary.LittleEndian.PutUint32(out[0:4], pebbleCRC(out[6:]))
	return out
}

func panicSig(err error) string {
	switch {
	case err == nil:
		return ""
	case strings.Contains(err.Error(), "PANIC"):
		return "decode-panics-on-corrupt-record"
	case strings.Contains(err.Error(), "HANG"):
		return "decode-hangs-on-corrupt-record"
	}
	return ""
}

// payloadCase: the decoder on `value` (checksum valid) versus the Lean model.
func (c *codecCtx) payloadCase(s codecSample, value []byte, what string) {
	if c.dead {
		return
	}
	c.n++
	hx := "-"
	if len(value) > 0 {
		hx = hex.EncodeToString(value)
	}
	var model string
	var derr error
	if !lib.WithDeadline(driverDeadline, func() { model, derr = c.drv.Ask("decode " + hx) }) {
		derr = fmt.Errorf("no answer within %v", driverDeadline)
	}
	if derr != nil {
		if !c.dead {
			c.res.Fatalf("codec section: driver died or did not answer: %v", derr)
		}
		c.dead = true
		return
	}
	got, err := c.reopen(frame(s.file, value))
	c.res.Compared(1)
	c.res.Case("codec/"+s.name+"/"+what+"/"+hx, true)
	if sig := panicSig(err); sig != "" {
		keepBest(lib.Violation{Sig: sig, What: fmt.Sprintf("NewTendermintWALStore on a log whose %s record payload is %s: %v", s.name, hx, err),
			Replay: map[string]any{"ops": []Op{}, "codec": s.name, "payload": hx}})
		return
	}
	var impl string
	switch {
	case err != nil:
		impl = "err"
	case len(got) == 0:
		impl = "nothing"
	default:
		impl = strings.Join(got, " | ")
	}
	want := model
	switch {
	case model == "err":
	case strings.HasPrefix(model, "prune "):
		want = "nothing"
	default:
		// an entry of height 0 is never stored (the watermark 0 means "nothing pruned")
		f := strings.Fields(model)
		hIdx := 1
		if f[0] == "timeout" {
			hIdx = 2
		}
		if len(f) > hIdx && f[hIdx] == "0" {
			want = "nothing"
		}
	}
	c.res.Hit("codec:decode-" + strings.Fields(model)[0])
	if impl != want {
		c.res.Mismatch(lib.Mismatch{Sig: "codec-decode", Input: map[string]any{"record": s.name, "payload": hx, "mutation": what}, Model: model, Impl: impl})
	}
}

// batchCase: damage to Pebble's batch header / record header (sequence number, count, kind, key,
// value length) with the checksum recomputed. That layer (batchrepr) is not modelled: the store
// must not panic or hang, and whatever it accepts must be the written record or nothing.
func (c *codecCtx) batchCase(s codecSample, file []byte, what string) {
	c.n++
	got, err := c.reopen(file)
	c.res.Compared(1)
	c.res.Case("batch/"+s.name+"/"+what, true)
	if sig := panicSig(err); sig != "" {
		// Pebble's batchrepr reader indexes past the end of a batch whose key length field lies
		// (batchrepr.DecodeStr). Only a checksum-valid, malformed batch gets there; no crash produces
		// one (juno writes well-formed batches, torn writes fail the checksum), so this is recorded,
		// not reported: see notes/C14.md "Observations".
		// tolerated only where it is understood: the key-length byte of the record (offset 24), an
		// index / slice bound violation inside batchrepr
		if sig == "decode-panics-on-corrupt-record" && strings.HasPrefix(what, "byte@24=") &&
			(strings.Contains(err.Error(), "index out of range") || strings.Contains(err.Error(), "slice bounds out of range")) {
			c.res.Hit("batch:pebble-batchrepr-panics")
			return
		}
		keepBest(lib.Violation{Sig: sig, What: fmt.Sprintf("NewTendermintWALStore on a log with a damaged batch header (%s, %s): %v", s.name, what, err),
			Replay: map[string]any{"ops": []Op{}, "codec": s.name, "damage": what, "file": hex.EncodeToString(file)}})
		return
	}
	switch {
	case err != nil:
		c.res.Hit("batch:rejected")
	case len(got) == 0:
		c.res.Hit("batch:nothing")
	case len(got) == 1 && got[0] == s.orig:
		c.res.Hit("batch:record-intact")
	default:
		c.res.Mismatch(lib.Mismatch{Sig: "batch-header-damage-yields-other-entries", Input: map[string]any{"record": s.name, "damage": what},
			Model: "error, nothing, or " + s.orig, Impl: strings.Join(got, " | ")})
	}
}

// frameCase: the log with arbitrary damage, checksum not repaired.
func (c *codecCtx) frameCase(s codecSample, file []byte, what string) {
	c.n++
	got, err := c.reopen(file)
	c.res.Case("frame/"+s.name+"/"+what, true)
	c.res.Hit("frame:" + strings.SplitN(what, "@", 2)[0])
	if sig := panicSig(err); sig != "" {
		keepBest(lib.Violation{Sig: sig, What: fmt.Sprintf("NewTendermintWALStore on a damaged log (%s, %s): %v", s.name, what, err),
			Replay: map[string]any{"ops": []Op{}, "codec": s.name, "damage": what, "file": hex.EncodeToString(file)}})
		return
	}
	if err != nil {
		keepBest(lib.Violation{Sig: "reopen-error-on-corrupt-tail",
			What:   fmt.Sprintf("NewTendermintWALStore fails on a log whose only (unsynced) record is damaged (%s, %s): %v", s.name, what, err),
			Replay: map[string]any{"ops": []Op{}, "codec": s.name, "damage": what, "file": hex.EncodeToString(file)}})
		return
	}
	ok := len(got) == 0 || (len(got) == 1 && got[0] == s.orig)
	if s.orig == "prune" {
		ok = len(got) == 0
	}
	if len(got) == 1 && got[0] == s.orig {
		c.res.Hit("frame:record-survives")
	}
	if !ok && string(file) == string(s.file) {
		keepBest(lib.Violation{Sig: "written-record-not-recovered-intact",
			What:   fmt.Sprintf("the undamaged log of one %s record yields %v after reopening, written was %s", s.name, got, s.orig),
			Replay: map[string]any{"ops": []Op{}, "codec": s.name, "damage": "none", "file": hex.EncodeToString(file)}})
		return
	}
	if !ok {
		keepBest(lib.Violation{Sig: "corrupt-record-yields-foreign-entry",
			What:   fmt.Sprintf("a damaged log (%s, %s) yields %v, written was %s", s.name, what, got, s.orig),
			Replay: map[string]any{"ops": []Op{}, "codec": s.name, "damage": what, "file": hex.EncodeToString(file)}})
	}
}

// makeSample writes one record with the real store and returns its log.
func makeSample(root, name string, h uint64, e int, prune bool) (codecSample, error) {
	db := filepath.Join(root, "mk-"+name)
	_ = os.RemoveAll(db)
	st, err := openReal(db)
	if err != nil {
		return codecSample{}, err
	}
	s := codecSample{name: name}
	if prune {
		if err := st.DeleteWALEntries(typesHeight(h)); err != nil {
			return s, err
		}
		s.orig = "prune"
	} else {
		en := mkEntry(h, e)
		if err := st.SetWALEntry(en); err != nil {
			return s, err
		}
		s.orig = fmtReal(en)
	}
	if err := st.Flush(); err != nil {
		return s, err
	}
	b, err := os.ReadFile(filepath.Join(walDirOf(db), logName(1)))
	_ = guard(st.Close)
	_ = os.RemoveAll(db)
	if err != nil {
		return s, err
	}
	if len(b) < valOff+1 {
		return s, fmt.Errorf("log too short: %d bytes", len(b))
	}
	n := int(binary.LittleEndian.Uint16(b[4:6]))
	if chunkHdr+n > len(b) || binary.LittleEndian.Uint32(b[0:4]) != pebbleCRC(b[6:chunkHdr+n]) {
		return s, fmt.Errorf("unexpected chunk layout (len %d of %d bytes, type %d)", n, len(b), b[6])
	}
	s.file = append([]byte(nil), b[:chunkHdr+n]...)
	s.value = append([]byte(nil), s.file[valOff:]...)
	return s, nil
}

// runCodec runs the slice of the byte-level cases that belongs to this shard.
func runCodec(f lib.Flags, res *lib.Result, shard, shards int, root string) {
	drv, err := lib.StartDriver(f.Driver)
	if err != nil {
		res.Fatalf("codec: driver: %v", err)
		return
	}
	defer drv.Close()
	c := &codecCtx{f: f, res: res, drv: drv, db: filepath.Join(root, "codec")}
	c.path = filepath.Join(walDirOf(c.db), logName(1))
	_ = os.MkdirAll(walDirOf(c.db), 0o755)
	defer os.RemoveAll(c.db)

	// one sample per record shape: ids chosen so that mkEntry produces every kind and both
	// variants of every optional field
	type want struct {
		name  string
		kind  int
		opt   int // 0: don't care, 1: with, 2: without
		small bool
	}
	wants := []want{{"start", 0, 0, true}, {"timeout", 4, 0, true}, {"prevote-nil", 2, 2, false}, {"prevote-id", 2, 1, false},
		{"precommit-nil", 3, 2, false}, {"precommit-id", 3, 1, false}, {"proposal-nil", 1, 2, false}, {"proposal-value", 1, 1, false}}
	var samples []codecSample
	for _, w := range wants {
		for e := 1; e < 400; e++ {
			if e%5 != w.kind {
				continue
			}
			en := mkEntry(3, e)
			has := false
			switch v := en.(type) {
			case *starknet.WALProposal:
				has = v.Value != nil
			case *starknet.WALPrevote:
				has = v.ID != nil
			case *starknet.WALPrecommit:
				has = v.ID != nil
			}
			if (w.opt == 1 && !has) || (w.opt == 2 && has) {
				continue
			}
			s, err := makeSample(root, w.name, 3, e, false)
			if err != nil {
				res.Fatalf("codec sample %s: %v", w.name, err)
				break
			}
			s.small = w.small
			samples = append(samples, s)
			break
		}
	}
	if s, err := makeSample(root, "prune", 2, 0, true); err == nil {
		s.small = true
		samples = append(samples, s)
	} else {
		res.Fatalf("codec sample prune: %v", err)
	}

	turn := 0
	mine := func() bool { turn++; return turn%shards == shard }
	rng := lib.NewRNG(f.Seed*7919 + uint64(shard))
	for _, s := range samples {
		full := s.small || f.Thorough()
		// (a) the decoder against the model, checksum recomputed
		if mine() {
			c.payloadCase(s, s.value, "identity")
		}
		for i := range s.value {
			for v := 0; v < 256; v++ {
				if byte(v) == s.value[i] {
					continue
				}
				if !full {
					// one-bit flips, 0x00 / 0x01 / 0x02 / 0xff and a random value
					x := s.value[i] ^ byte(v)
					if x&(x-1) != 0 && v != 0 && v != 1 && v != 2 && v != 255 && rng.Intn(64) != 0 {
						continue
					}
				}
				if !mine() {
					continue
				}
				m := append([]byte(nil), s.value...)
				m[i] = byte(v)
				c.payloadCase(s, m, fmt.Sprintf("byte@%d=%d", i, v))
			}
		}
		for k := 0; k < len(s.value); k++ {
			if mine() {
				c.payloadCase(s, s.value[:k], fmt.Sprintf("truncate@%d", k))
			}
		}
		for _, extra := range []byte{0, 1, 0xff} {
			if mine() {
				c.payloadCase(s, append(append([]byte(nil), s.value...), extra), fmt.Sprintf("extend+%d", extra))
			}
		}
		// (c) the batch and record headers, checksum recomputed
		for i := chunkHdr; i < valOff; i++ {
			for v := 0; v < 256; v++ {
				if byte(v) == s.file[i] {
					continue
				}
				if !full {
					x := s.file[i] ^ byte(v)
					if x&(x-1) != 0 && v != 0 && v != 255 && rng.Intn(32) != 0 {
						continue
					}
				}
				if !mine() {
					continue
				}
				m := append([]byte(nil), s.file...)
				m[i] = byte(v)
				binary.LittleEndian.PutUint32(m[0:4], pebbleCRC(m[6:]))
				c.batchCase(s, m, fmt.Sprintf("byte@%d=%d", i, v))
			}
		}
		// (b) the framing assumption, checksum left alone
		for i := range s.file {
			for v := 0; v < 256; v++ {
				if byte(v) == s.file[i] {
					continue
				}
				if !full {
					x := s.file[i] ^ byte(v)
					if x&(x-1) != 0 && v != 0 && v != 255 && rng.Intn(64) != 0 {
						continue
					}
				}
				if !mine() {
					continue
				}
				m := append([]byte(nil), s.file...)
				m[i] = byte(v)
				c.frameCase(s, m, fmt.Sprintf("byte@%d=%d", i, v))
			}
		}
		for k := 0; k <= len(s.file); k++ {
			if mine() {
				c.frameCase(s, s.file[:k], fmt.Sprintf("cut@%d", k))
			}
		}
	}
	res.Hit("codec:section-runs")
}
