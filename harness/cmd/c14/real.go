//go:build verif

package main

import (
	"bytes"
	"encoding/binary"
	"errors"
	"fmt"
	"io"
	"os"
	"path/filepath"
	"sort"
	"strconv"
	"strings"
	"time"

	"github.com/NethermindEth/juno/consensus/starknet"
	"github.com/NethermindEth/juno/consensus/types"
	"github.com/NethermindEth/juno/consensus/types/wal"
	"github.com/NethermindEth/juno/consensus/walstore"
	"github.com/NethermindEth/juno/db"
	"github.com/cockroachdb/pebble/v2/record"
	"github.com/cockroachdb/pebble/v2/vfs"
	pebblewal "github.com/cockroachdb/pebble/v2/wal"
	"verif/harness/lib"
)

// pathDB is all NewTendermintWALStore needs from a db.KeyValueStore: Path().
type pathDB struct {
	db.KeyValueStore
	path string
}

func (p pathDB) Path() string { return p.path }

type Store = walstore.TendermintWALStore[starknet.Value, starknet.Hash, starknet.Address]

// generous: a slow machine must not look like a hang of the code under test
const opDeadline = 180 * time.Second

// driverDeadline bounds one answer of the Lean driver (our own model, not the code under test). Round 6: 60 s was
// not a generous margin on a machine shared by 20 builders (load average 500: an answer that takes 1 s took over a
// minute and runs on the unchanged tree ended in `no-failing-input-found`); a dead driver is still noticed at
// once (EOF on its pipe).
const driverDeadline = 20 * time.Minute

// openReal runs the real NewTendermintWALStore; panics and hangs are reported as errors.
func openReal(dbPath string) (st Store, err error) {
	finished := lib.WithDeadline(opDeadline, func() {
		e, panicked, _ := lib.Try(func() error {
			var e2 error
			st, e2 = walstore.NewTendermintWALStore[starknet.Value, starknet.Hash, starknet.Address](pathDB{path: dbPath})
			return e2
		})
		if panicked {
			e = fmt.Errorf("PANIC %v", e)
		}
		err = e
	})
	if !finished {
		return nil, errors.New("HANG NewTendermintWALStore")
	}
	return st, err
}

func guard(f func() error) (err error) {
	finished := lib.WithDeadline(opDeadline, func() {
		e, panicked, _ := lib.Try(f)
		if panicked {
			e = fmt.Errorf("PANIC %v", e)
		}
		err = e
	})
	if !finished {
		return errors.New("HANG")
	}
	return err
}

// ---- entries -------------------------------------------------------------------------------

func mix(x uint64) uint64 {
	x += 0x9E3779B97F4A7C15
	x = (x ^ (x >> 30)) * 0xBF58476D1CE4E5B9
	x = (x ^ (x >> 27)) * 0x94D049BB133111EB
	return x ^ (x >> 31)
}

func limbs(seed uint64) [4]uint64 {
	return [4]uint64{mix(seed), mix(seed + 1), mix(seed + 2), mix(seed+3) >> 5}
}

// mkEntry builds the WAL entry with payload id e at height h: the kind and every field are a
// function of (h, e), so that the canonical string identifies the id (except for Start, which
// carries nothing but the height).
func mkEntry(h uint64, e int) starknet.WALEntry {
	s := mix(uint64(e)*977 + 13)
	round := types.Round(int64(e))
	// extreme field values now and then: negative and minimal rounds, the largest step
	switch e % 11 {
	case 3:
		round = types.Round(-int64(e))
	case 7:
		round = types.Round(-9223372036854775808)
	}
	hdr := starknet.MessageHeader{Height: types.Height(h), Round: round, Sender: starknet.Address(limbs(s))}
	switch e % 5 {
	case 0:
		st := wal.Start(types.Height(h))
		return &st
	case 1:
		p := starknet.WALProposal{MessageHeader: hdr, ValidRound: types.Round(int64(s%7) - 1)}
		if s%3 != 0 {
			v := starknet.Value(limbs(s + 100))
			p.Value = &v
		}
		return &p
	case 2:
		v := starknet.WALPrevote{MessageHeader: hdr}
		if s%3 != 0 {
			id := starknet.Hash(limbs(s + 200))
			v.ID = &id
		}
		return &v
	case 3:
		v := starknet.WALPrecommit{MessageHeader: hdr}
		if s%3 != 1 {
			id := starknet.Hash(limbs(s + 300))
			v.ID = &id
		}
		return &v
	default:
		step := types.Step(s % 3)
		if e%13 == 4 {
			step = 255
		}
		t := starknet.WALTimeout{Step: step, Height: types.Height(h), Round: round}
		return &t
	}
}

func canon(en starknet.WALEntry) string {
	switch v := en.(type) {
	case *wal.Start:
		return fmt.Sprintf("S/%d", uint64(*v))
	case *starknet.WALProposal:
		val := "nil"
		if v.Value != nil {
			val = fmt.Sprintf("%x", [4]uint64(*v.Value))
		}
		return fmt.Sprintf("P/%d/%d/%x/%d/%s", v.Height, v.Round, [4]uint64(v.Sender), v.ValidRound, val)
	case *starknet.WALPrevote:
		id := "nil"
		if v.ID != nil {
			id = fmt.Sprintf("%x", [4]uint64(*v.ID))
		}
		return fmt.Sprintf("V/%d/%d/%x/%s", v.Height, v.Round, [4]uint64(v.Sender), id)
	case *starknet.WALPrecommit:
		id := "nil"
		if v.ID != nil {
			id = fmt.Sprintf("%x", [4]uint64(*v.ID))
		}
		return fmt.Sprintf("C/%d/%d/%x/%s", v.Height, v.Round, [4]uint64(v.Sender), id)
	case *starknet.WALTimeout:
		return fmt.Sprintf("T/%d/%d/%d", v.Step, v.Height, v.Round)
	default:
		return fmt.Sprintf("?%T", en)
	}
}

// loadReal is LoadAllEntries as "height=canon" strings, in iteration order.
func loadReal(st Store) (out []string, err error) {
	err = guard(func() error {
		for en, e := range st.LoadAllEntries() {
			if e != nil {
				return e
			}
			out = append(out, fmt.Sprintf("%d=%s", uint64(en.GetHeight()), canon(en)))
		}
		return nil
	})
	return out, err
}

// ---- directory bookkeeping ------------------------------------------------------------------

const wmHeader = "juno-wal-prune-watermark-v1"

type fileRec struct {
	bytes   []byte // longest content seen up to the end of the last complete record
	ends    []int  // ends[k] = offset just after the k-th record (ends[0] = 0)
	trailer []byte // bytes seen after the last record (EOF trailer of a closed log, or block padding)
	trailerN int   // … when the log had this many records
	cur      bool  // the log belongs to the directory of the current process lifetime
}

type fileDesc struct {
	Num     uint64
	Batches int
	Garbage bool
}

type diskDesc struct {
	Files   []fileDesc
	Zombies []fileDesc
	Wm      int64 // -1: no file
	Tmp     bool
	Alt     string // model only: the watermark a crash may bring back ("-": none)
}

func (d diskDesc) String() string {
	fs := func(l []fileDesc) string {
		if len(l) == 0 {
			return "-"
		}
		var p []string
		for _, f := range l {
			g := "c"
			if f.Garbage {
				g = "g"
			}
			p = append(p, fmt.Sprintf("%d/%d/%s", f.Num, f.Batches, g))
		}
		return strings.Join(p, ",")
	}
	wm := "-"
	if d.Wm >= 0 {
		wm = strconv.FormatInt(d.Wm, 10)
	}
	tmp := "0"
	if d.Tmp {
		tmp = "1"
	}
	return fmt.Sprintf("files=%s zombies=%s wm=%s tmp=%s", fs(d.Files), fs(d.Zombies), wm, tmp)
}

func parseFiles(s string) ([]fileDesc, error) {
	if s == "-" {
		return nil, nil
	}
	var out []fileDesc
	for _, p := range strings.Split(s, ",") {
		q := strings.Split(p, "/")
		if len(q) != 3 {
			return nil, fmt.Errorf("bad file desc %q", p)
		}
		n, e1 := strconv.ParseUint(q[0], 10, 64)
		b, e2 := strconv.Atoi(q[1])
		if e1 != nil || e2 != nil {
			return nil, fmt.Errorf("bad file desc %q", p)
		}
		out = append(out, fileDesc{Num: n, Batches: b, Garbage: q[2] == "g"})
	}
	return out, nil
}

// parseDisk parses the driver's disk description "files=.. zombies=.. wm=.. tmp=..".
func parseDisk(s string) (diskDesc, error) {
	var d diskDesc
	d.Wm = -1
	for _, w := range strings.Fields(s) {
		kv := strings.SplitN(w, "=", 2)
		if len(kv) != 2 {
			continue
		}
		var err error
		switch kv[0] {
		case "files":
			d.Files, err = parseFiles(kv[1])
		case "zombies":
			d.Zombies, err = parseFiles(kv[1])
		case "wm":
			if kv[1] != "-" {
				d.Wm, err = strconv.ParseInt(kv[1], 10, 64)
			}
		case "tmp":
			d.Tmp = kv[1] == "1"
		case "alt":
			d.Alt = kv[1]
		}
		if err != nil {
			return d, err
		}
	}
	return d, nil
}

func walDirOf(dbPath string) string { return walstore.DefaultWALDir(dbPath) }

func logName(num uint64) string { return fmt.Sprintf("%06d.log", num) }

type scanned struct {
	size    int64
	ends    []int
	garbage bool
}

type realSide struct {
	cache map[string]scanned // log path -> last scan (logs only change by growing or being cut)
	root  string
	gen   int
	db    string // current data directory ("" before the first open)
	st    Store
	files map[uint64]*fileRec
	prev  map[uint64]bool // log numbers present at the last observation
	nimg  int
	// tmpMax bounds the watermark a leftover prune-watermark.tmp may hold (set by the runner)
	tmpMax uint64
}

func newRealSide(root string) *realSide {
	return &realSide{root: root, files: map[uint64]*fileRec{}, prev: map[uint64]bool{}, cache: map[string]scanned{}}
}

// knownBatches counts the complete records learnt so far over all logs (unlinked ones included:
// their bytes stay readable through the hard links). It grows exactly when a batch is appended.
func (r *realSide) knownBatches() int {
	n := 0
	for _, fr := range r.files {
		if fr.cur {
			n += len(fr.ends) - 1
		}
	}
	return n
}

func (r *realSide) newDir() string {
	r.gen++
	d := filepath.Join(r.root, fmt.Sprintf("g%d", r.gen))
	_ = os.MkdirAll(walDirOf(d), 0o755)
	return d
}

// observe lists the WAL directory of dbPath. With learn=true it also updates the byte
// bookkeeping used to materialise crash images.
func (r *realSide) observe(dbPath string, learn bool) (diskDesc, error) {
	d := diskDesc{Wm: -1}
	wd := walDirOf(dbPath)
	logs, err := pebblewal.Scan(pebblewal.Dir{FS: vfs.Default, Dirname: wd})
	if err != nil {
		return d, err
	}
	now := map[uint64]bool{}
	for _, ll := range logs {
		num := uint64(ll.Num)
		now[num] = true
		path := filepath.Join(wd, logName(num))
		var ends []int
		var garbage bool
		fi, serr := os.Stat(path)
		unchanged := false
		if c, ok := r.cache[path]; ok && serr == nil && c.size == fi.Size() && r.prev[num] && r.files[num] != nil {
			ends, garbage, unchanged = c.ends, c.garbage, true
		} else {
			starts, g, stop, e := scanStarts(ll)
			if e != nil {
				return d, fmt.Errorf("scan %d: %w", num, e)
			}
			// starts: offset where each complete record begins; stop: where reading stopped
			ends = []int{0}
			for i := 1; i < len(starts); i++ {
				ends = append(ends, starts[i])
			}
			if len(starts) > 0 {
				ends = append(ends, stop)
			}
			garbage = g
			if serr == nil {
				r.cache[path] = scanned{size: fi.Size(), ends: ends, garbage: garbage}
			}
		}
		d.Files = append(d.Files, fileDesc{Num: num, Batches: len(ends) - 1, Garbage: garbage})
		if learn && !unchanged {
			content, e := os.ReadFile(filepath.Join(wd, logName(num)))
			if e != nil {
				return d, e
			}
			fr := r.files[num]
			if fr == nil || !r.prev[num] {
				fr = &fileRec{ends: []int{0}}
				r.files[num] = fr
			}
			fr.cur = true
			last := ends[len(ends)-1]
			if len(ends) >= len(fr.ends) {
				fr.ends = ends
				fr.bytes = append([]byte(nil), content[:last]...)
			}
			if !garbage && len(content) > last && len(ends) == len(fr.ends) {
				fr.trailer = append([]byte(nil), content[last:]...)
				fr.trailerN = len(ends) - 1
			}
		}
	}
	if learn {
		// Hard links outside the WAL directory keep the bytes of a log readable after the store
		// unlinks it: a flush can append a batch to a log and remove that log in the same call.
		ld := dbPath + "-links"
		_ = os.MkdirAll(ld, 0o755)
		for num := range now {
			lp := filepath.Join(ld, logName(num))
			if _, e := os.Lstat(lp); e != nil {
				_ = os.Link(filepath.Join(wd, logName(num)), lp)
			}
		}
		if linked, e := pebblewal.Scan(pebblewal.Dir{FS: vfs.Default, Dirname: ld}); e == nil {
			for _, ll := range linked {
				num := uint64(ll.Num)
				if now[num] || !r.prev[num] {
					continue
				}
				// removed from the WAL directory since the last observation: learn its final bytes
				lp := filepath.Join(ld, logName(num))
				starts, g, stop, e := scanStarts(ll)
				content, e2 := os.ReadFile(lp)
				fr := r.files[num]
				if e != nil || e2 != nil || fr == nil || g {
					continue
				}
				ends := []int{0}
				for i := 1; i < len(starts); i++ {
					ends = append(ends, starts[i])
				}
				if len(starts) > 0 {
					ends = append(ends, stop)
				}
				if len(ends) >= len(fr.ends) {
					fr.ends = ends
					fr.bytes = append([]byte(nil), content[:stop]...)
					if len(content) > stop {
						fr.trailer = append([]byte(nil), content[stop:]...)
						fr.trailerN = len(ends) - 1
					}
				}
			}
		}
		r.prev = now
	}
	for p := range r.cache {
		if filepath.Dir(p) != wd {
			delete(r.cache, p)
		}
	}
	sort.Slice(d.Files, func(i, j int) bool { return d.Files[i].Num < d.Files[j].Num })
	if b, e := os.ReadFile(filepath.Join(wd, "prune-watermark")); e == nil {
		if len(b) == len(wmHeader)+8 && string(b[:len(wmHeader)]) == wmHeader {
			d.Wm = int64(binary.BigEndian.Uint64(b[len(wmHeader):]))
		} else {
			d.Wm = -2 // malformed
		}
	}
	if _, e := os.Lstat(filepath.Join(wd, "prune-watermark.tmp")); e == nil {
		d.Tmp = true
	}
	return d, nil
}

// scanStarts returns the start offset of every complete record, whether the tail is garbage and
// the offset at which reading stopped (the end of the last complete record).
func scanStarts(ll pebblewal.LogicalLog) (starts []int, garbage bool, stop int, err error) {
	rd := ll.OpenForRead()
	defer rd.Close()
	for {
		_, off, e := rd.NextRecord()
		switch {
		case e == nil:
			starts = append(starts, int(off.Physical))
		case errors.Is(e, io.EOF):
			return starts, false, int(off.Physical), nil
		case record.IsInvalidRecord(e):
			return starts, true, int(off.Physical), nil
		default:
			return starts, true, int(off.Physical), e
		}
	}
}

// errNoBytes: the image needs bytes the harness has never seen on disk.
var errNoBytes = errors.New("bytes unknown")

func wmBytes(h uint64) []byte {
	b := make([]byte, len(wmHeader)+8)
	copy(b, wmHeader)
	binary.BigEndian.PutUint64(b[len(wmHeader):], h)
	return b
}

// tailVariant says what to put after the complete batches of the last file of an image whose
// model description has garbage there.
type tailVariant struct {
	Kind string `json:"kind"` // cut | flip | zero | junk | trailer
	Off  int    `json:"off"`
}

// materialise builds the directory described by img in a fresh data directory. For a file with
// garbage the tail bytes are derived from tv and from the bytes of the next batch of that file
// (the one that was in flight), when they are known.
func (r *realSide) materialise(img diskDesc, tv tailVariant, rng *lib.RNG) (string, error) {
	r.nimg++
	dbPath := filepath.Join(r.root, fmt.Sprintf("img%d", r.nimg))
	wd := walDirOf(dbPath)
	if err := os.MkdirAll(wd, 0o755); err != nil {
		return "", err
	}
	for i, f := range img.Files {
		fr := r.files[f.Num]
		if fr == nil || f.Batches >= len(fr.ends) {
			if fr == nil && f.Batches == 0 {
				fr = &fileRec{ends: []int{0}}
			} else {
				// expected for a batch that a failed flush never brought to the disk
				return "", fmt.Errorf("%w: log %d with %d batches", errNoBytes, f.Num, f.Batches)
			}
		}
		content := append([]byte(nil), fr.bytes[:fr.ends[f.Batches]]...)
		if f.Garbage {
			var next []byte
			if f.Batches+1 < len(fr.ends) {
				next = fr.bytes[fr.ends[f.Batches]:fr.ends[f.Batches+1]]
			}
			var tr []byte
			if fr.trailerN == f.Batches {
				tr = fr.trailer
			}
			content = append(content, garbageTail(next, tr, f.Num, tv, rng)...)
		} else if f.Batches == fr.trailerN && len(fr.trailer) > 0 && (i < len(img.Files)-1 || rng.Bool()) {
			// a cleanly closed log ends with Pebble's EOF trailer
			content = append(content, fr.trailer...)
		}
		if err := os.WriteFile(filepath.Join(wd, logName(f.Num)), content, 0o644); err != nil {
			return "", err
		}
	}
	if img.Wm >= 0 {
		if err := os.WriteFile(filepath.Join(wd, "prune-watermark"), wmBytes(uint64(img.Wm)), 0o644); err != nil {
			return "", err
		}
	}
	if img.Tmp {
		// the temporary file may hold anything from nothing to a complete watermark
		b := wmBytes(uint64(rng.Intn(int(r.tmpMax%1000000) + 1)))
		b = b[:rng.Intn(len(b)+1)]
		if err := os.WriteFile(filepath.Join(wd, "prune-watermark.tmp"), b, 0o644); err != nil {
			return "", err
		}
	}
	return dbPath, nil
}

func garbageTail(next, trailer []byte, num uint64, tv tailVariant, rng *lib.RNG) []byte {
	switch tv.Kind {
	case "cut":
		if len(next) > 1 {
			o := tv.Off
			if o < 1 {
				o = 1
			}
			if o > len(next)-1 {
				o = len(next) - 1
			}
			return append([]byte(nil), next[:o]...)
		}
	case "flip":
		if len(next) > 0 {
			b := append([]byte(nil), next...)
			o := tv.Off % len(b)
			b[o] ^= 1 << uint(rng.Intn(8))
			return b
		}
	case "zero":
		if len(next) > 0 {
			b := append([]byte(nil), next...)
			o := tv.Off % len(b)
			for i := o; i < len(b); i++ {
				b[i] = 0
			}
			if bytes.Equal(b, next) {
				b[len(b)-1] ^= 0x55
			}
			return b
		}
	case "trailer":
		if len(trailer) > 1 {
			return append([]byte(nil), trailer[:1+tv.Off%(len(trailer)-1)]...)
		}
		// a torn EOF trailer of this log: zero CRC, zero length, recyclable-full type, log number + 1
		t := make([]byte, 11)
		t[6] = 5
		binary.LittleEndian.PutUint32(t[7:], uint32(num)+1)
		return t[:1+tv.Off%10]
	}
	// junk: random bytes that are not a valid chunk (a random CRC matches with probability 2^-32)
	n := 1 + tv.Off%40
	b := rng.Bytes(n)
	if len(b) >= 7 {
		b[6] = 5 // looks like a recyclable full chunk
	}
	return b
}

// recoverReal opens the data directory with the real code and returns LoadAllEntries.
func recoverReal(dbPath string) ([]string, error) {
	st, err := openReal(dbPath)
	if err != nil {
		return nil, err
	}
	out, lerr := loadReal(st)
	_ = guard(st.Close)
	return out, lerr
}

func copyDir(src, dst string) error {
	if err := os.MkdirAll(dst, 0o755); err != nil {
		return err
	}
	es, err := os.ReadDir(src)
	if err != nil {
		return err
	}
	for _, e := range es {
		if e.IsDir() {
			continue
		}
		b, err := os.ReadFile(filepath.Join(src, e.Name()))
		if err != nil {
			return err
		}
		if err := os.WriteFile(filepath.Join(dst, e.Name()), b, 0o644); err != nil {
			return err
		}
	}
	return nil
}
