//go:build verif

package main

import (
	"strings"

	"github.com/NethermindEth/juno/consensus/types"
	"verif/harness/lib"
)

func typesHeight(h uint64) types.Height { return types.Height(h) }

// cleanupInterval mirrors walstore.cleanupPruneRecordInterval (unexported); it only steers the
// generator towards the flush that runs the cleanup, nothing is decided with it.
const cleanupInterval = 256

type genState struct {
	g       *lib.RNG
	ops     []Op
	cur     uint64
	id      int
	alive   bool
	closed  bool
	faults  bool
	since   int  // prune records flushed in this process lifetime since the last cleanup
	pendPr  bool // a prune record is pending
	maxDel  uint64
	flushed uint64 // highest prune height already flushed (approximation, for the generator only)
}

func (s *genState) emit(o Op) { s.ops = append(s.ops, o) }

func (s *genState) open() {
	s.emit(Op{K: "open"})
	s.alive, s.closed = true, false
	s.since, s.pendPr = 0, false
}

func (s *genState) set(h uint64) {
	s.id++
	s.emit(Op{K: "set", H: h, E: s.id})
}

func (s *genState) del(h uint64) {
	s.emit(Op{K: "del", H: h})
	if h > s.flushed {
		s.pendPr = true
		if h > s.maxDel {
			s.maxDel = h
		}
	}
}

func (s *genState) slack() int { return lib.Pick(s.g, []int{0, 1, 6, 7, 10, 11, 12, 20, 30, 35}) }

func (s *genState) flush() {
	o := Op{K: "flush"}
	switch x := s.g.Intn(100); {
	case s.faults && x < 25:
		o.F, o.S = "append", s.slack()
	case s.faults && x < 45:
		o.F = lib.Pick(s.g, []string{"fsync", "fsync", "prewrite", "norepair", "fsync-norepair"})
		if o.F == "norepair" {
			o.S = lib.Pick(s.g, []int{1, 6, 7, 11, 20, 30})
		}
	case x < 52:
		o.F = "create"
	}
	s.emit(o)
	if o.F == "norepair" || o.F == "fsync-norepair" {
		// the writer is blocked until the process is restarted: do that soon
		for i := s.g.Intn(3); i > 0; i-- {
			s.set(s.setHeight())
		}
		if s.g.Bool() {
			s.emit(Op{K: "flush"})
		}
		if s.g.Bool() {
			s.emit(Op{K: "close"})
			s.closed = true
		} else {
			s.crash("idle")
		}
		return
	}
	if o.F == "" || o.F == "create" {
		// a "create" failure leaves the batch pending when no writer is open; the guess of the
		// cleanup counter may then be one flush early, which only matters to the generator
		s.committed(o.F)
	}
}

// committed updates the generator's guess of the cleanup counter after a flush that commits.
func (s *genState) committed(ft string) {
	if s.pendPr {
		s.since++
		s.pendPr = false
		if s.maxDel > s.flushed {
			s.flushed = s.maxDel
		}
		if s.since >= cleanupInterval && ft != "wm" && ft != "wmsync" && ft != "rotate" && !strings.HasPrefix(ft, "unlink:") {
			s.since = 0
		}
	}
}

func (s *genState) tail() *tailVariant {
	return &tailVariant{Kind: lib.Pick(s.g, []string{"cut", "cut", "flip", "zero", "junk", "trailer"}), Off: s.g.Intn(200)}
}

func (s *genState) crash(c string) {
	o := Op{K: "crash", C: c, I: s.g.Intn(24), M: s.g.Uint64(), T: s.tail(), A: lib.Pick(s.g, []int{0, 0, 1, 2})}
	if c == "flush" || c == "close" {
		switch x := s.g.Intn(100); {
		case s.faults && x < 20:
			o.F, o.S = "append", s.slack()
		case x < 30:
			o.F = "create"
		}
	}
	s.emit(o)
	s.alive, s.closed = false, false
}

func (s *genState) setHeight() uint64 {
	c := s.cur
	switch x := s.g.Intn(100); {
	case x < 55:
		return c
	case x < 70:
		return c + 1
	case x < 80:
		if c > 0 {
			return c - 1
		}
		return c
	case x < 88:
		return c + uint64(s.g.Range(2, 6))
	case x < 92:
		if c > 3 {
			return c - uint64(s.g.Range(2, 3))
		}
		return c
	case x < 95:
		return 0
	case x < 97:
		return 1
	default:
		return c + 1000
	}
}

func (s *genState) delHeight() uint64 {
	c := s.cur
	switch x := s.g.Intn(100); {
	case x < 45:
		if c > 0 {
			return c - 1
		}
		return 0
	case x < 65:
		return c
	case x < 80:
		if c > 2 {
			return c - 2
		}
		return 0
	case x < 88:
		return c + 1
	case x < 93:
		return 0
	default:
		if c > 5 {
			return c - uint64(s.g.Range(3, 5))
		}
		return c
	}
}

// randomOp emits one random operation (two when a restart is needed).
func (s *genState) randomOp() {
	if !s.alive || s.closed {
		if s.closed && s.g.Intn(4) == 0 {
			s.crash(lib.Pick(s.g, []string{"open", "idle"}))
		}
		if !s.alive && s.g.Intn(6) == 0 {
			s.crash("open")
		}
		s.open()
		return
	}
	switch x := s.g.Intn(100); {
	case x < 38:
		s.set(s.setHeight())
	case x < 52:
		s.del(s.delHeight())
		if s.g.Intn(2) == 0 {
			s.cur++
		}
	case x < 78:
		s.flush()
	case x < 83:
		s.emit(Op{K: "close", F: lib.Pick(s.g, []string{"", "", "closewriter", "closewriter-norepair", "fsync", "create", "fsync-norepair", "closemanager", "closemanager"})})
		s.committed("")
		s.closed = true
	case x < 95:
		s.crash(lib.Pick(s.g, []string{"idle", "flush", "flush", "flush", "flush", "close"}))
	default:
		s.cur++
	}
}

func genShort(g *lib.RNG, faults bool) []Op {
	s := &genState{g: g, faults: faults, cur: uint64(lib.Pick(g, []int{1, 1, 1, 2, 5, 100}))}
	n := g.Range(6, 45)
	s.open()
	for len(s.ops) < n {
		s.randomOp()
	}
	return s.ops
}

// genGC builds a long history that reaches the amortised cleanup (256 flushed prune records in one
// process lifetime) at least once, with logs that must survive it (an entry of a far-away
// height, entries of the current heights), several logs, restarts, crashes in the cleanup.
func genGC(g *lib.RNG, faults bool) []Op {
	s := &genState{g: g, faults: faults, cur: uint64(lib.Pick(g, []int{1, 1, 2, 7, 300}))}
	s.open()
	for i := g.Intn(6); i > 0; i-- {
		s.randomOp()
	}
	if !s.alive || s.closed {
		s.open()
	}
	pinned := g.Intn(3) == 0
	if pinned {
		// an entry far above the heights being pruned keeps its log referenced
		s.set(s.cur + 5000)
		s.emit(Op{K: "flush"})
		s.committed("")
	}
	lag := uint64(lib.Pick(g, []int{0, 1, 1, 3}))
	fat := g.Intn(3) == 0
	cleanups := 0
	wantCleanups := lib.Pick(g, []int{1, 1, 1, 2})
	restartEvery := lib.Pick(g, []int{0, 0, 0, 280, 400})
	earlyRestart := g.Intn(3) == 0
	for it := 0; it < 1500 && cleanups < wantCleanups; it++ {
		if !s.alive || s.closed {
			s.open()
		}
		k := g.Intn(3)
		if fat {
			k = g.Range(2, 5) // logs grow past Pebble's 32 KiB block: batches written as several chunks
		}
		for ; k > 0; k-- {
			h := s.cur
			if g.Intn(8) == 0 {
				h = s.cur + 1
			}
			s.set(h)
		}
		if s.cur > lag {
			s.del(s.cur - lag)
		}
		next := s.pendPr && s.since+1 >= cleanupInterval
		switch {
		case next && g.Intn(3) == 0:
			// crash in the middle of the flush that runs the cleanup
			s.crash("flush")
			cleanups++
		case next:
			ft := lib.Pick(g, []string{"", "", "", "", "wm", "wmsync", "rotate", "unlink:0", "unlink:1", "unlink:2"})
			s.emit(Op{K: "flush", F: ft})
			s.committed(ft)
			if ft == "" {
				cleanups++
			} else if ft != "wm" && ft != "wmsync" {
				// the cleanup ran in part; most of the time go on to a complete one
				if g.Intn(3) == 0 {
					cleanups++
				}
			}
		case faults && g.Intn(25) == 0:
			s.emit(Op{K: "flush", F: "append", S: s.slack()})
		default:
			s.emit(Op{K: "flush"})
			s.committed("")
		}
		s.cur++
		if (restartEvery > 0 && it%restartEvery == restartEvery-1) || (earlyRestart && it == 37) {
			if g.Bool() {
				s.emit(Op{K: "close"})
				s.committed("")
				s.closed = true
			} else {
				s.crash(lib.Pick(g, []string{"idle", "flush"}))
			}
		}
	}
	// after the cleanup: crash with removed logs coming back, restart, entries at and below the
	// watermark, a few more flushes
	for i := g.Range(4, 14); i > 0; i-- {
		switch x := g.Intn(10); {
		case x < 3 && s.alive && !s.closed:
			s.crash(lib.Pick(g, []string{"idle", "idle", "flush", "close"}))
		case x < 5 && s.alive && !s.closed:
			low := s.cur
			if low > uint64(g.Intn(4)) {
				low -= uint64(g.Intn(4))
			}
			s.set(low)
			s.emit(Op{K: "flush"})
			s.committed("")
		default:
			s.randomOp()
		}
	}
	return s.ops
}

type fixed struct {
	name string
	ops  []Op
}

// fixedHistories are small hand-written histories that every run starts with.
func fixedHistories() []fixed {
	o := func(k string, h uint64, e int) Op { return Op{K: k, H: h, E: e} }
	// one batch larger than a 32 KiB block of Pebble's record format (first / middle / last chunks),
	// after a small one; crash in the middle of writing it, restart, and write another big one
	big := []Op{{K: "open"}, o("set", 1, 1), {K: "flush"}}
	for i := 0; i < 900; i++ {
		big = append(big, o("set", uint64(2+i%3), 10+i))
	}
	big = append(big, o("del", 1, 0), Op{K: "flush"}, Op{K: "close"}, Op{K: "open"})
	for i := 0; i < 700; i++ {
		big = append(big, o("set", uint64(4+i%2), 2000+i))
	}
	big = append(big, Op{K: "crash", C: "flush", I: 3, T: &tailVariant{Kind: "cut", Off: 32768 - 11}}, Op{K: "open"}, o("set", 9, 5000), Op{K: "flush"})
	const (
		h32 = uint64(1) << 32
		h63 = uint64(1) << 63
		hmx = ^uint64(0)
	)
	return []fixed{
		// heights at the edges of uint32 / int64 / uint64; pruning up to MaxUint64 kills everything for ever
		{"fixed-extreme-heights", []Op{{K: "open"}, o("set", h32-1, 3), o("set", h32, 4), o("set", h63-1, 7), o("set", h63, 14), o("set", hmx, 18),
			{K: "flush"}, o("del", h32, 0), {K: "flush"}, {K: "crash", C: "flush", I: 4}, {K: "open"}, o("set", h63, 25), o("del", h63-1, 0), {K: "close"}, {K: "open"},
			o("del", hmx, 0), o("set", hmx, 29), {K: "flush"}, {K: "close"}, {K: "open"}, o("set", 5, 33), o("set", hmx, 36), {K: "flush"}, {K: "crash", C: "idle"}, {K: "open"}}},
		{"fixed-bigbatch", big},
		{"fixed-basic", []Op{{K: "open"}, o("set", 1, 1), o("set", 1, 2), o("set", 2, 3), {K: "flush"}, o("set", 2, 4), o("del", 1, 0),
			{K: "flush"}, o("set", 3, 5), {K: "close"}, {K: "open"}, o("set", 3, 6), {K: "flush"}, {K: "crash", C: "idle"}, {K: "open"}}},
		// a prune and a lower entry in one batch; a prune merged into an earlier pending prune
		{"fixed-prune-order", []Op{{K: "open"}, o("set", 3, 1), o("del", 5, 0), o("set", 4, 2), o("set", 7, 3), o("del", 6, 0), o("set", 6, 4),
			o("set", 7, 5), {K: "flush"}, {K: "close"}, {K: "open"}, o("set", 6, 6), o("set", 8, 7), {K: "flush"}, {K: "crash", C: "flush", I: 4}, {K: "open"}}},
		// height 0: the watermark value 0 also means "nothing pruned" (DESIGN §7 L8)
		{"fixed-height0", []Op{{K: "open"}, o("set", 0, 1), o("set", 1, 2), o("del", 0, 0), {K: "flush"}, {K: "close"}, {K: "open"}, o("set", 0, 3), {K: "flush"}}},
		// the double failure that leaves a reported-failed batch on disk (limbo): blocked store, refused
		// flush, close / crash, restart finds the whole batch; then the same with a prune in the batch
		{"fixed-limbo", []Op{{K: "open"}, o("set", 1, 1), {K: "flush"}, o("set", 1, 2), o("set", 2, 3), {K: "flush", F: "fsync-norepair"}, o("set", 2, 4), {K: "flush"},
			{K: "close"}, {K: "open"}, o("set", 3, 5), o("del", 1, 0), {K: "flush", F: "fsync-norepair"}, {K: "flush"}, {K: "crash", C: "idle"}, {K: "open"},
			o("set", 3, 6), {K: "close", F: "fsync-norepair"}, {K: "open"}, o("set", 4, 7), {K: "crash", C: "flush", F: "fsync-norepair", I: 4}, {K: "open"},
			o("set", 4, 8), {K: "flush", F: "fsync-norepair"}, {K: "crash", C: "close"}, {K: "open"}, o("set", 5, 9), {K: "close", F: "closemanager"}, {K: "open"}, {K: "flush"}}},
		{"fixed-empty", []Op{{K: "open"}, {K: "flush"}, {K: "close"}, {K: "open"}, {K: "crash", C: "idle"}, {K: "open"}, {K: "close"}, {K: "close"}, {K: "open"}}},
	}
}

// cleanupFaultKinds: what can go wrong in (or be combined with) the flush / close that runs the
// amortised cleanup. genCleanupFault builds one dense history per kind.
var cleanupFaultKinds = []string{"", "wm", "wmsync", "wmsyncf", "rotate", "rotatef", "unlink:0", "unlink:1", "unlink:2",
	"unlinkf:0", "unlinkf:1", "unlinkf:2", "fsync", "wmsync+wmsyncf", "close:", "close:rotatef", "close:unlinkf:1", "crash"}

// genCleanupFault: a few logs (an older process lifetime, failed appends, a pinned far-away height),
// then 255 flushed prunes executed quietly (outcomes only), then the flush / close that runs the
// cleanup with the given failure — checked at every durable state, with every subset of unlinked
// logs and every undurable watermark coming back — and a continuation (retry, crash, restart).
func genCleanupFault(g *lib.RNG, kind string) []Op {
	s := &genState{g: g, faults: true, cur: uint64(lib.Pick(g, []int{1, 1, 3, 40}))}
	s.open()
	if g.Intn(3) == 0 {
		s.set(s.cur + 5000) // keeps its log referenced for ever
		s.emit(Op{K: "flush"})
	}
	if g.Bool() {
		s.set(s.cur)
		s.emit(Op{K: "close"})
		s.emit(Op{K: "open"})
	}
	for i := g.Intn(4); i > 0; i-- {
		// a failed append closes the writer: the retry goes to a new log
		s.set(s.cur)
		s.emit(Op{K: "flush", F: "fsync"})
		s.emit(Op{K: "flush"})
	}
	lag := uint64(lib.Pick(g, []int{0, 0, 1, 2}))
	for i := 0; i < cleanupInterval-1; i++ {
		for k := g.Intn(3); k > 0; k-- {
			s.id++
			s.emit(Op{K: "set", H: s.cur, E: s.id, Q: true})
		}
		s.cur++
		s.emit(Op{K: "del", H: s.cur - 1 - min(lag, s.cur-1), Q: true})
		s.emit(Op{K: "flush", Q: true})
		if i%97 == 50 && g.Bool() {
			s.emit(Op{K: "flush", F: "fsync", Q: false}) // nothing pending: no effect; keeps the family honest about empty flushes
		}
	}
	// the 256th prune, not quiet
	for k := g.Intn(3); k > 0; k-- {
		s.set(s.cur)
	}
	s.cur++
	s.emit(Op{K: "del", H: s.cur - 1 - min(lag, s.cur-1)})
	op, f := "flush", kind
	if strings.HasPrefix(kind, "close:") {
		op, f = "close", strings.TrimPrefix(kind, "close:")
	}
	retry := func(ft string) {
		s.set(s.cur)
		s.cur++
		s.emit(Op{K: "del", H: s.cur - 1})
		s.emit(Op{K: "flush", F: ft})
	}
	switch kind {
	case "crash":
		s.emit(Op{K: "crash", C: lib.Pick(g, []string{"flush", "flush", "close"}), F: lib.Pick(g, []string{"", "", "wm"}), I: 5 + g.Intn(8), M: g.Uint64(), A: g.Intn(3), T: s.tail()})
		s.emit(Op{K: "open"})
	case "wmsync+wmsyncf":
		// two undurable renames in a row: three watermark values may be on disk after a crash
		s.emit(Op{K: "flush", F: "wmsync"})
		retry("wmsyncf")
		if g.Bool() {
			s.emit(Op{K: "crash", C: "idle", M: g.Uint64(), A: 1 + g.Intn(2)})
			s.emit(Op{K: "open"})
		}
	default:
		s.emit(Op{K: op, F: f})
		if op == "close" {
			s.emit(Op{K: "open"})
		}
	}
	// continuation
	for i := g.Range(1, 4); i > 0; i-- {
		switch g.Intn(5) {
		case 0:
			s.emit(Op{K: "crash", C: lib.Pick(g, []string{"idle", "idle", "flush"}), I: g.Intn(16), M: g.Uint64(), A: g.Intn(3), T: s.tail()})
			s.emit(Op{K: "open"})
		case 1:
			s.emit(Op{K: "close"})
			s.emit(Op{K: "open"})
		default:
			retry(lib.Pick(g, []string{"", "", "", "unlinkf:0", "rotatef", "wmsyncf"}))
		}
	}
	return s.ops
}

// appendFailKinds: the ways the k-th append into a log that already holds acknowledged batches is made to fail.
var appendFailKinds = []string{"append:0", "append:1", "append:6", "append:7", "append:10", "append:11", "append:12", "append:20", "append:35",
	"append:400", "append:1500", "prewrite", "fsync", "norepair:1", "norepair:7", "norepair:30", "fsync-norepair", "close:fsync", "close:append:7", "close:fsync-norepair"}

// genAppendFail: k-1 flushes succeed into ONE log (the writer stays open), then the k-th append fails in
// the given way (write error part-way, before the write, fsync reported as failed, with / without a failing
// tail repair; inside Flush or inside Close). The acknowledged prefix of that log must survive byte for byte
// (runner.chunkAfterOp) and every restart must recover exactly it; then the retry (a new log), more batches,
// restarts, crashes. `fat`: the batches are sized so that the failing one crosses a 32 KiB block boundary.
func genAppendFail(g *lib.RNG, k int, kind string, fat bool) []Op {
	s := &genState{g: g, faults: true, cur: uint64(lib.Pick(g, []int{1, 1, 4}))}
	s.open()
	if g.Intn(3) == 0 {
		// an older process lifetime: the log that fails is not the first one
		s.set(s.cur)
		s.emit(Op{K: "close"})
		s.open()
	}
	batch := func(n int) {
		for i := 0; i < n; i++ {
			h := s.cur
			if g.Intn(6) == 0 {
				h = s.cur + 1
			}
			s.set(h)
		}
		if s.cur > 1 && g.Intn(3) == 0 {
			s.del(s.cur - 1)
		}
		if g.Bool() {
			s.cur++
		}
	}
	for j := 1; j < k; j++ {
		n := g.Range(1, 4)
		if fat && j == k-1 {
			// ≈ 62 bytes per entry on average: this batch ends a little before the 32 KiB boundary
			n = g.Range(480, 525)
		}
		batch(n)
		s.emit(Op{K: "flush"})
	}
	if fat {
		batch(g.Range(80, 120)) // at least 1.7 kB: the largest limit (1500 bytes) still cuts the write short
	} else {
		batch(g.Range(1, 4))
	}
	o := Op{K: "flush"}
	f := kind
	if strings.HasPrefix(f, "close:") {
		o.K, f = "close", strings.TrimPrefix(f, "close:")
	}
	if i := strings.Index(f, ":"); i >= 0 {
		n := 0
		for _, c := range f[i+1:] {
			n = n*10 + int(c-'0')
		}
		if !fat && n > 35 {
			n = 35 // a small batch is at least 43 bytes long
		}
		o.F, o.S = f[:i], n
	} else {
		o.F = f
	}
	s.emit(o)
	blocked := strings.HasSuffix(o.F, "norepair")
	if o.K == "close" {
		s.open()
		blocked = false
	}
	// the retry and what follows
	for i := g.Range(3, 7); i > 0; i-- {
		switch x := g.Intn(10); {
		case x < 4:
			if blocked && g.Bool() {
				s.emit(Op{K: "flush"}) // refused: the writer is blocked until a restart
			}
			if blocked {
				if g.Bool() {
					s.emit(Op{K: "close"})
				} else {
					s.emit(Op{K: "crash", C: "idle", T: s.tail()})
				}
				s.open()
				blocked = false
			}
			s.emit(Op{K: "flush"})
		case x < 6:
			batch(g.Range(1, 3))
			s.emit(Op{K: "flush"})
		case x < 8 && !blocked:
			s.emit(Op{K: "crash", C: lib.Pick(g, []string{"idle", "flush", "close"}), I: g.Intn(8), T: s.tail()})
			s.open()
		default:
			s.emit(Op{K: "close"})
			s.open()
			blocked = false
		}
	}
	return s.ops
}
