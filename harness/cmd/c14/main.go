//go:build verif

package main

import (
	"fmt"
	"os"
	"os/signal"
	"path/filepath"
	"syscall"
	"time"

	"github.com/NethermindEth/juno/consensus/starknet"
	"github.com/NethermindEth/juno/consensus/types"
	"github.com/NethermindEth/juno/consensus/types/wal"
	"github.com/NethermindEth/juno/consensus/walstore"
	"github.com/NethermindEth/juno/db"
)

type pathDB struct {
	db.KeyValueStore
	path string
}

func (p pathDB) Path() string { return p.path }

type Store = walstore.TendermintWALStore[starknet.Value, starknet.Hash, starknet.Address]

func open(dir string) (Store, error) {
	return walstore.NewTendermintWALStore[starknet.Value, starknet.Hash, starknet.Address](pathDB{path: dir})
}

func ls(dir string) {
	es, _ := os.ReadDir(filepath.Join(dir, "consensus-wal"))
	for _, e := range es {
		i, _ := e.Info()
		fmt.Printf("  %s %d\n", e.Name(), i.Size())
	}
}

func main() {
	dir := "/tmp/aC14/probe"
	os.RemoveAll(dir)
	os.MkdirAll(dir, 0o755)
	s, err := open(dir)
	fmt.Println("open", err)
	t0 := time.Now()
	for h := 1; h <= 300; h++ {
		st := wal.Start(types.Height(h))
		s.SetWALEntry(&st)
		to := wal.Timeout{Step: 1, Height: types.Height(h), Round: 2}
		s.SetWALEntry(&to)
		if err := s.Flush(); err != nil {
			fmt.Println("flush", err)
		}
		if h > 3 {
			s.DeleteWALEntries(types.Height(h - 3))
		}
		if h == 255 || h == 258 || h == 259 || h==260 {
			fmt.Println("h", h)
			ls(dir)
		}
	}
	fmt.Println("300 flushes", time.Since(t0))
	ls(dir)
	// RLIMIT_FSIZE injection
	signal.Ignore(syscall.SIGXFSZ)
	var old syscall.Rlimit
	syscall.Getrlimit(syscall.RLIMIT_FSIZE, &old)
	fi, _ := os.Stat(filepath.Join(dir, "consensus-wal", "000002.log"))
	var sz int64
	if fi != nil {
		sz = fi.Size()
	}
	fmt.Println("cur size", sz)
	lim := syscall.Rlimit{Cur: uint64(sz + 20), Max: old.Max}
	fmt.Println("setrlimit", syscall.Setrlimit(syscall.RLIMIT_FSIZE, &lim))
	st := wal.Start(types.Height(1000))
	s.SetWALEntry(&st)
	err = s.Flush()
	fmt.Println("flush under limit:", err)
	syscall.Setrlimit(syscall.RLIMIT_FSIZE, &old)
	ls(dir)
	n := 0
	for range s.LoadAllEntries() {
		n++
	}
	fmt.Println("entries", n)
	err = s.Flush()
	fmt.Println("retry flush:", err)
	ls(dir)
	n = 0
	for range s.LoadAllEntries() {
		n++
	}
	fmt.Println("entries", n)
	fmt.Println("close", s.Close())
	ls(dir)
	s, err = open(dir)
	fmt.Println("reopen", err)
	n = 0
	for e := range s.LoadAllEntries() {
		n++
		_ = e
	}
	fmt.Println("entries", n)
	ls(dir)
}
