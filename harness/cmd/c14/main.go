//go:build verif

// Harness for C14: drives the real consensus/walstore and the Lean model of it on the same
// operation histories, compares every observable (outcomes, LoadAllEntries, directory contents),
// builds the crash images the model enumerates (plus plain snapshots of the real directory) and
// reopens each of them with the real NewTendermintWALStore; the property oracle (computed in Go
// from the API history alone) decides violations.
package main

import (
	"encoding/hex"
	"encoding/json"
	"errors"
	"flag"
	"fmt"
	"os"
	"os/exec"
	"os/signal"
	"path/filepath"
	"sort"
	"strconv"
	"strings"
	"sync"
	"syscall"
	"time"

	"github.com/NethermindEth/juno/utils/verifhook"
	"verif/harness/lib"
)

const scratchRoot = "/tmp/aC14"

// Op is one step of a history (also the replay format).
type Op struct {
	K string `json:"k"`           // set del flush close open crash
	H uint64 `json:"h,omitempty"` // set/del: height
	E int    `json:"e,omitempty"` // set: entry id
	F string `json:"f,omitempty"` // flush/close/crash: fault (none append wm)
	C string `json:"c,omitempty"` // crash: interrupted operation (idle flush close open)
	I int    `json:"i,omitempty"` // crash: index of the durable state (mod their number)
	M uint64 `json:"m,omitempty"` // crash: which zombies come back (bit mask)
	T *tailVariant `json:"t,omitempty"` // crash: torn tail variant
	// RLIMIT_FSIZE slack for an injected append failure: how many bytes of the batch still fit
	S int `json:"s,omitempty"`
	Q bool `json:"q,omitempty"` // quiet: run on both sides, compare the outcome, nothing else (the long run-up to a cleanup)
	A int `json:"a,omitempty"` // crash: how far undurable watermark renames are undone (0: not at all)
}

func (o Op) String() string {
	switch o.K {
	case "set":
		return fmt.Sprintf("set %d %d", o.H, o.E)
	case "del":
		return fmt.Sprintf("del %d", o.H)
	case "flush", "close":
		return fmt.Sprintf("%s %s", o.K, fault(o.F))
	case "crash":
		return fmt.Sprintf("crash %s %s %d %b", o.C, fault(o.F), o.I, o.M)
	}
	return o.K
}

// fault translates the harness' name of an injected failure into the model's: several ways of
// making the real code fail map to one failure of the model.
//   append (RLIMIT_FSIZE: the write fails part-way), fsync (the write and the sync succeed, the sync is
//   reported as failed: utils/verifhook.Fail), prewrite (fails before a byte is written)   -> append
//   norepair (append fails part-way, then the truncation of the tail repair fails)         -> norepair
//   fsync-norepair (the batch is written and synced, the sync is reported as failed, then the
//   truncation that would cut the batch off fails: the batch stays on disk, "limbo")            -> fullnorepair
//   closemanager (manager.Close() reports a failure inside Close; needs the hook point
//   walstore:manager:close, probed at start-up)                                                -> closemanager
//   wmsync / wmsyncf, rotate / rotatef, unlink:k / unlinkf:k: by resource limit / by hook  -> wmsync, rotate, unlink:k
func fault(f string) string {
	switch {
	case f == "":
		return "none"
	case f == "fsync" || f == "prewrite":
		return "append"
	case f == "fsync-norepair":
		return "fullnorepair"
	case f == "wmsyncf":
		return "wmsync"
	case f == "rotatef":
		return "rotate"
	case strings.HasPrefix(f, "unlinkf:"):
		return "unlink:" + strings.TrimPrefix(f, "unlinkf:")
	}
	return f
}

// failSink decides, for the operation that is running, whether a failure-injection point of the
// real code (utils/verifhook.Fail) reports an error.
var failSink func(point string) error

var errInjected = fmt.Errorf("injected by the C14 harness")

// haveManagerCloseHook: the juno under test has the failure point walstore:manager:close (it was
// added after the other points; without it the fault "closemanager" cannot be injected and is skipped).
var haveManagerCloseHook bool

// probeHooks opens and closes a scratch store and notes which failure points Close passes.
func probeHooks(root string, res *lib.Result) {
	dir := filepath.Join(root, "probe")
	if err := os.MkdirAll(dir, 0o755); err != nil {
		res.Fatalf("probe: %v", err)
		return
	}
	defer os.RemoveAll(dir)
	st, err := openReal(dir)
	if err != nil {
		res.Fatalf("probe: open: %v", err)
		return
	}
	seen := map[string]bool{}
	failSink = func(p string) error { seen[p] = true; return nil }
	err = guard(st.Close)
	failSink = nil
	if err != nil {
		res.Fatalf("probe: close: %v", err)
	}
	haveManagerCloseHook = seen["walstore:manager:close"]
	if haveManagerCloseHook {
		res.Hit("hook:manager-close-present")
	} else {
		res.Hit("hook:manager-close-absent")
	}
}

type call struct {
	Del bool
	H   uint64
	E   int
}

// spec is the property's own reading of a history: LoadAllEntries after the given acknowledged
// API calls is, for every height above the highest acknowledged prune, the entries of that
// height in call order, heights ascending.
func spec(cs []call) []string {
	var maxPrune uint64
	for _, c := range cs {
		if c.Del && c.H > maxPrune {
			maxPrune = c.H
		}
	}
	by := map[uint64][]string{}
	var hs []uint64
	for _, c := range cs {
		if c.Del || c.H <= maxPrune {
			continue
		}
		if _, ok := by[c.H]; !ok {
			hs = append(hs, c.H)
		}
		by[c.H] = append(by[c.H], entryStr(c.H, c.E))
	}
	sort.Slice(hs, func(i, j int) bool { return hs[i] < hs[j] })
	out := []string{}
	for _, h := range hs {
		out = append(out, by[h]...)
	}
	return out
}

func entryStr(h uint64, e int) string { return fmt.Sprintf("%d=%s", h, canon(mkEntry(h, e))) }

func eq(a, b []string) bool {
	if len(a) != len(b) {
		return false
	}
	for i := range a {
		if a[i] != b[i] {
			return false
		}
	}
	return true
}

// parseLoad turns the model's "h:e,e;h:e" into the strings loadReal produces.
func parseLoad(s string) ([]string, error) {
	out := []string{}
	if s == "-" {
		return out, nil
	}
	for _, grp := range strings.Split(s, ";") {
		kv := strings.SplitN(grp, ":", 2)
		if len(kv) != 2 {
			return nil, fmt.Errorf("bad load %q", s)
		}
		h, err := strconv.ParseUint(kv[0], 10, 64)
		if err != nil {
			return nil, err
		}
		for _, es := range strings.Split(kv[1], ",") {
			e, err := strconv.Atoi(es)
			if err != nil {
				return nil, err
			}
			out = append(out, entryStr(h, e))
		}
	}
	return out, nil
}

type base struct {
	Tag  string // which durable state of the operation (the model names them: pre created synced torn full …)
	Disk diskDesc
	Infl bool
}

type runner struct {
	name     string
	f        lib.Flags
	res      *lib.Result
	rng      *lib.RNG
	drv      *lib.Driver
	real     *realSide
	level    int  // 0: sampled image checks, 1: every step every base, 2: + every byte offset
	serial   bool // RLIMIT_FSIZE injection allowed (nothing else runs)
	acked    []call
	calls    []call
	// limbo: the calls of a batch that a flush reported as failed although it is completely on disk
	// (fsync-norepair); the store is blocked and shows acked only; a restart finds acked ++ limbo
	limbo []call
	alive    bool
	closed   bool
	log      []Op
	failed   bool
	nImages  int
	sawGC    bool
	hot      int // steps left in which every image is checked
	replayed bool
	sigs     map[string]bool     // violation signatures already reported for this history
	lastFlushFailed bool         // the previous flush of this process returned an error
	blocked  bool                // a tail repair was made to fail: the writer refuses on purpose
	viol     func(lib.Violation) // where violations go (the per-signature collector, or a shrink trial)
	sweeps   int        // byte-offset sweeps left for this history (thorough tier)
	hooked   []hookSnap // copies of the directory taken at the crash points of the running operation
	// physical layer (chunk.go): the bytes of the log being written as a failing append left them (seen at
	// the crash point before the tail repair); the sizes of the logs already compared with the model
	torn         []byte
	tornNum      uint64
	chunkSeen    map[uint64]int64
	chunkSeenDir string
}

// hookSnap is a copy of the WAL directory taken by the crash-point hook (utils/verifhook) while a
// real Flush / Close was running: a crash image that was observed, not constructed.
type hookSnap struct {
	Point string
	Dir   string // data directory holding the copy
}

// best keeps, per violation signature, the violation with the shortest history.
var best = map[string]lib.Violation{}

func replaySize(v lib.Violation) int {
	if mp, ok := v.Replay.(map[string]any); ok {
		switch ops := mp["ops"].(type) {
		case []Op:
			return len(ops)
		case []any:
			return len(ops)
		}
	}
	return 1 << 30
}

func keepBest(v lib.Violation) {
	if old, ok := best[v.Sig]; !ok || replaySize(v) < replaySize(old) {
		best[v.Sig] = v
	}
}

func flushBest(res *lib.Result) {
	for _, v := range best {
		res.Violate(v)
	}
}

func opsOf(v lib.Violation) []Op {
	if mp, ok := v.Replay.(map[string]any); ok {
		if ops, ok := mp["ops"].([]Op); ok {
			return ops
		}
	}
	return nil
}

// shrink removes operations from the history of a violation as long as a violation with the
// same signature is still found (delta debugging with a bounded number of re-runs).
func shrink(v lib.Violation, f lib.Flags) lib.Violation {
	ops := opsOf(v)
	if len(ops) < 6 || len(ops) > 450 {
		return v
	}
	budget := 70
	trial := func(cand []Op) (lib.Violation, bool) {
		budget--
		scratch := lib.NewResult("shrink")
		r, err := newRunner("shrink-0", f, scratch, lib.NewRNG(99), 1, true)
		if err != nil {
			return v, false
		}
		defer r.done()
		var found *lib.Violation
		r.viol = func(nv lib.Violation) {
			if nv.Sig == v.Sig && (found == nil || replaySize(nv) < replaySize(*found)) {
				c := nv
				found = &c
			}
		}
		r.run(cand)
		if found == nil {
			return v, false
		}
		return *found, true
	}
	for chunk := len(ops) / 2; chunk >= 1 && budget > 0; {
		removed := false
		for start := 1; start+chunk <= len(ops) && budget > 0; {
			cand := append(append([]Op(nil), ops[:start]...), ops[start+chunk:]...)
			if nv, ok := trial(cand); ok && replaySize(nv) < len(ops) {
				v, ops, removed = nv, opsOf(nv), true
				if ops == nil {
					return v
				}
			} else {
				start += chunk
			}
		}
		if !removed || chunk > len(ops)/2 {
			chunk /= 2
		}
	}
	return v
}

// hookSink receives the crash points of the operation that is running (one history at a time
// runs in a worker process).
var hookSink func(point string)

func (r *runner) record(point string) {
	r.real.nimg++
	dst := filepath.Join(r.real.root, fmt.Sprintf("hook%d", r.real.nimg))
	if err := copyDir(walDirOf(r.real.db), walDirOf(dst)); err != nil {
		return
	}
	r.hooked = append(r.hooked, hookSnap{Point: point, Dir: dst})
}

func (r *runner) ask(line string) string {
	var ans string
	var err error
	if !lib.WithDeadline(driverDeadline, func() { ans, err = r.drv.Ask(line) }) {
		err = fmt.Errorf("no answer within %v", driverDeadline)
	}
	if err != nil {
		r.res.Fatalf("%s step %d: driver died or did not answer %q: %v", r.name, len(r.log), line, err)
		r.failed = true
		return "driver-error"
	}
	if ans == "bad-op" {
		r.res.Fatalf("%s step %d: driver answered bad-op to %q", r.name, len(r.log), line)
		r.failed = true
	}
	return ans
}

func (r *runner) replay(extra map[string]any) map[string]any {
	m := map[string]any{"ops": append([]Op(nil), r.log...)}
	for k, v := range extra {
		m[k] = v
	}
	return m
}

func (r *runner) mismatch(sig string, input any, model, impl any) {
	r.res.Mismatch(lib.Mismatch{Sig: sig, Input: r.replay(map[string]any{"at": input}), Model: model, Impl: impl})
}

func (r *runner) basesOf(cop, ft string) []base {
	ans := r.ask(fmt.Sprintf("bases %s %s", cop, fault(ft)))
	var out []base
	for _, p := range strings.Split(ans, " ; ") {
		q := strings.Split(p, "|")
		if len(q) != 3 {
			r.res.Fatalf("bad bases answer %q", ans)
			r.failed = true
			return nil
		}
		d, err := parseDisk(q[1])
		if err != nil {
			r.res.Fatalf("bad bases answer %q: %v", ans, err)
			r.failed = true
			return nil
		}
		out = append(out, base{Tag: q[0], Disk: d, Infl: q[2] == "1"})
	}
	return out
}

func hasTag(bs []base, tag string) bool {
	for _, b := range bs {
		if b.Tag == tag {
			return true
		}
	}
	return false
}

// tagIndex is the index of the n-th (0-based) base with that tag, -1 if there is none.
func tagIndex(bs []base, tag string, n int) int {
	for i, b := range bs {
		if b.Tag == tag {
			if n == 0 {
				return i
			}
			n--
		}
	}
	return -1
}

func maskStr(m uint64, n int) string {
	if n == 0 {
		return "-"
	}
	b := make([]byte, n)
	for i := 0; i < n; i++ {
		if m>>uint(i)&1 == 1 {
			b[i] = '1'
		} else {
			b[i] = '0'
		}
	}
	return string(b)
}

// classify names the way a recovered log differs from what the property allows.
func classify(got []string, allowed [][]string, ackedPre, inflight []call) string {
	pos := map[string]int{}
	for _, a := range allowed {
		for _, s := range a {
			pos[s]++
		}
	}
	var maxPrune uint64
	for _, c := range ackedPre {
		if c.Del && c.H > maxPrune {
			maxPrune = c.H
		}
	}
	everWritten := map[string]bool{}
	for _, c := range append(append([]call(nil), ackedPre...), inflight...) {
		if !c.Del {
			everWritten[entryStr(c.H, c.E)] = true
		}
	}
	gotSet := map[string]bool{}
	for _, s := range got {
		gotSet[s] = true
		h, _ := strconv.ParseUint(strings.SplitN(s, "=", 2)[0], 10, 64)
		if !everWritten[s] {
			return "recovered-entry-never-written"
		}
		if h <= maxPrune {
			return "revived-pruned-entry"
		}
	}
	// an entry every allowed result contains
	for s, n := range pos {
		if n == len(allowed) && !gotSet[s] {
			return "lost-flushed-entry"
		}
	}
	if len(allowed) == 2 {
		some, all := false, true
		inA0 := map[string]bool{}
		for _, s := range allowed[0] {
			inA0[s] = true
		}
		for _, s := range allowed[1] {
			if inA0[s] {
				continue
			}
			if gotSet[s] {
				some = true
			} else {
				all = false
			}
		}
		if some && !all {
			return "partial-batch-recovered"
		}
	}
	return "recovered-entries-differ"
}

// checkDir reopens the data directory with the real code and compares with the model's answer
// (want, wantErr) and with the property (allowed).
func (r *runner) checkDir(dbPath, label string, at any, wantOK bool, want []string, allowed [][]string, ackedPre, inflight []call, tornKeepOK bool) {
	got, err := recoverReal(dbPath)
	r.nImages++
	r.res.Compared(1)
	nontrivial := len(allowed[0]) > 0 || (len(allowed) > 1 && len(allowed[1]) > 0)
	r.res.Case(fmt.Sprintf("%s/%d/%s/%v", r.name, len(r.log), label, at), nontrivial)
	if err != nil {
		if os.Getenv("VERIF_C14_DEBUG") != "" {
			fmt.Fprintf(os.Stderr, "REOPEN ERROR %v label=%s at=%v\n", err, label, at)
			es, _ := os.ReadDir(walDirOf(dbPath))
			for _, e := range es {
				b, _ := os.ReadFile(filepath.Join(walDirOf(dbPath), e.Name()))
				tail := b
				if len(tail) > 48 {
					tail = tail[len(tail)-48:]
				}
				fmt.Fprintf(os.Stderr, "  %s size=%d (mod 32768 = %d) tail=%x\n", e.Name(), len(b), len(b)%32768, tail)
			}
			for num, fr := range r.real.files {
				n := len(fr.ends)
				fmt.Fprintf(os.Stderr, "  bookkeeping log %d: %d batches, last ends %v, bytes %d, trailer %x\n", num, n-1, fr.ends[max(0, n-3):], len(fr.bytes), fr.trailer)
			}
		}
		r.res.Hit("image:reopen-error")
		sig := "reopen-error-on-crash-image"
		if strings.Contains(err.Error(), "PANIC") {
			sig = "reopen-panics-on-crash-image"
		} else if strings.Contains(err.Error(), "HANG") {
			sig = "reopen-hangs-on-crash-image"
		}
		r.report(lib.Violation{Sig: sig,
			What:   fmt.Sprintf("NewTendermintWALStore fails on a crash image (%s): %v", label, err),
			Replay: r.replay(map[string]any{"image": at, "label": label})})
		if wantOK {
			r.mismatch("recover:"+label, at, "ok", "error: "+err.Error())
		}
		return
	}
	ok := false
	for _, a := range allowed {
		if eq(got, a) {
			ok = true
		}
	}
	if !ok {
		sig := classify(got, allowed, ackedPre, inflight)
		r.res.Hit("image:violation")
		r.report(lib.Violation{Sig: sig,
			What:   fmt.Sprintf("after a crash (%s) LoadAllEntries returns %d entries, allowed: %d or %d (%s)", label, len(got), len(allowed[0]), len(allowed[len(allowed)-1]), sig),
			Replay: r.replay(map[string]any{"image": at, "label": label, "got": got, "allowed": allowed})})
	}
	if !wantOK {
		r.mismatch("recover:"+label, at, "error", got)
		return
	}
	if !eq(got, want) {
		if tornKeepOK && ok {
			r.res.Hit("image:torn-tail-kept")
			return
		}
		r.mismatch("recover:"+label, at, want, got)
	}
}

// checkImage materialises base idx of (cop, ft) with the zombies of mask resurrected and the
// given torn tail, and checks it.
func nAlts(d diskDesc) int {
	if d.Alt == "" || d.Alt == "-" {
		return 0
	}
	return len(strings.Split(d.Alt, ","))
}

func (r *runner) checkImage(cop, ft string, idx int, b base, mask uint64, alt int, tv tailVariant, allowed [][]string, inflight []call) {
	ms := maskStr(mask, len(b.Disk.Zombies))
	if alt > 0 {
		ms = strings.Repeat("~", alt) + ms
		r.res.Hit(fmt.Sprintf("image:watermark-rename-undone-%d", alt))
	}
	ans := r.ask(fmt.Sprintf("img %s %s %d %s", cop, fault(ft), idx, ms))
	parts := strings.SplitN(ans, " => ", 2)
	if len(parts) != 2 {
		r.res.Fatalf("bad img answer %q", ans)
		r.failed = true
		return
	}
	img, err := parseDisk(parts[0])
	if err != nil {
		r.res.Fatalf("bad img answer %q", ans)
		r.failed = true
		return
	}
	wantOK := strings.HasPrefix(parts[1], "ok ")
	var want []string
	if wantOK {
		want, err = parseLoad(strings.TrimPrefix(parts[1], "ok "))
		if err != nil {
			r.res.Fatalf("bad img answer %q", ans)
			r.failed = true
			return
		}
	}
	r.real.tmpMax = maxDel(r.durable(), r.calls)
	dir, err := r.real.materialise(img, tv, r.rng)
	if err != nil {
		if errors.Is(err, errNoBytes) {
			// the bytes of a batch that never reached the disk (failed flush): nothing to build
			r.res.Hit("image:not-materialisable")
		} else {
			r.res.Fatalf("%s step %d: cannot build image %q: %v", r.name, len(r.log), parts[0], err)
		}
		return
	}
	hasG := false
	for _, f := range img.Files {
		hasG = hasG || f.Garbage
	}
	label := cop + "/" + fault(ft)
	r.res.Hit("image:" + label)
	if hasG {
		r.res.Hit("image:tail-" + tv.Kind)
	}
	if mask != 0 {
		r.res.Hit("image:zombie-resurrected")
	}
	at := map[string]any{"cop": cop, "fault": fault(ft), "base": idx, "mask": ms, "tail": tv, "disk": parts[0]}
	var cnum uint64
	var cbytes []byte
	cok := false
	if wantOK && (hasG && r.rng.Intn(3) == 0 || r.rng.Intn(25) == 0) {
		cnum, cbytes, cok = r.chunkImageBefore(dir)
	}
	r.checkDir(dir, label, at, wantOK, want, allowed, r.durable(), inflight, hasG && tv.Kind != "cut" && tv.Kind != "junk" && tv.Kind != "trailer")
	if cok {
		r.chunkImageAfter(dir, cnum, cbytes, at)
	}
	_ = os.RemoveAll(dir)
}

// tailVariants lists the torn tails to try for a batch of n bytes.
func (r *runner) tailVariants(n int, full bool, extra ...int) []tailVariant {
	if n <= 1 {
		return []tailVariant{{Kind: "junk", Off: r.rng.Intn(64)}}
	}
	var out []tailVariant
	if full {
		for o := 1; o < n; o++ {
			out = append(out, tailVariant{"cut", o})
		}
		for o := 0; o < n; o++ {
			out = append(out, tailVariant{"flip", o}, tailVariant{"zero", o})
		}
		out = append(out, tailVariant{"junk", 3}, tailVariant{"junk", 30})
		return out
	}
	pickOff := func(c []int) int {
		o := lib.Pick(r.rng, c)
		if o < 1 {
			o = 1
		}
		if o > n-1 {
			o = n - 1
		}
		return o
	}
	for _, o := range extra {
		if o >= 1 && o < n {
			out = append(out, tailVariant{"cut", o})
		}
	}
	out = append(out, tailVariant{"cut", pickOff([]int{1, 2, 6, 7, 10, 11, 12, 22, 23})}, tailVariant{"cut", pickOff([]int{n - 1, n - 2, n - 3})},
		tailVariant{"cut", 1 + r.rng.Intn(n-1)}, tailVariant{"flip", r.rng.Intn(n)},
		lib.Pick(r.rng, []tailVariant{{"zero", r.rng.Intn(n)}, {"junk", r.rng.Intn(64)}, {"flip", r.rng.Intn(11)}}))
	return out
}

// imagesOf checks crash images of the operation (cop, ft) whose pre-state bases are bs.
// The real operation has already run (so the bytes of the batch in flight are known); the model
// is still in the pre-state.
func (r *runner) imagesOf(cop, ft string, bs []base, every bool) {
	inflight := append([]call(nil), r.calls...)
	allowed := [][]string{spec(r.durable())}
	if cop == "flush" || cop == "close" {
		allowed = append(allowed, spec(append(append([]call(nil), r.acked...), inflight...)))
	}
	for idx, b := range bs {
		if !every && r.rng.Intn(len(bs)) != 0 {
			continue
		}
		nz := len(b.Disk.Zombies)
		var masks []uint64
		switch {
		case nz == 0:
			masks = []uint64{0}
		case every && nz <= 3:
			for m := uint64(0); m < 1<<uint(nz); m++ {
				masks = append(masks, m)
			}
		default:
			full := uint64(1)<<uint(nz) - 1
			masks = []uint64{0, full, r.rng.Uint64() & full, 1 << uint(nz-1), full &^ 1}
		}
		g := -1
		for i, f := range b.Disk.Files {
			if f.Garbage {
				g = i
			}
		}
		for mi, m := range masks {
			tvs := []tailVariant{{Kind: "junk", Off: r.rng.Intn(64)}}
			if g >= 0 {
				gf := b.Disk.Files[g]
				n := 0
				if fr := r.real.files[gf.Num]; fr != nil && gf.Batches+1 < len(fr.ends) {
					n = fr.ends[gf.Batches+1] - fr.ends[gf.Batches]
				}
				var extra []int
				if n > 0 {
					// a batch that crosses a 32 KiB block of Pebble's record format is written as
					// several chunks: cut around every block boundary inside it
					start := r.real.files[gf.Num].ends[gf.Batches]
					for bnd := (start/32768 + 1) * 32768; bnd < start+n; bnd += 32768 {
						for _, d := range []int{-12, -11, -7, -1, 0, 1, 7, 11, 12, 19, 20} {
							extra = append(extra, bnd-start+d)
						}
					}
					if len(extra) > 0 && mi == 0 {
						r.res.Hit("image:batch-straddles-32k-block")
					}
				}
				if n > 0 {
					sweep := r.level >= 2 && mi == 0 && r.sweeps > 0
					if sweep {
						r.sweeps--
						r.res.Hit("image:every-byte-offset-sweep")
					}
					tvs = r.tailVariants(n, sweep, extra...)
					if (!every || mi > 0) && len(extra) == 0 {
						tvs = tvs[:1+r.rng.Intn(2)]
						tvs[0] = lib.Pick(r.rng, r.tailVariants(n, false))
					}
				} else {
					tvs = []tailVariant{{Kind: "trailer", Off: r.rng.Intn(10)}, {Kind: "junk", Off: r.rng.Intn(64)}}
					if !every {
						tvs = tvs[:1]
					}
				}
			}
			for _, tv := range tvs {
				for alt := 0; alt <= nAlts(b.Disk); alt++ {
					r.checkImage(cop, ft, idx, b, m, alt, tv, allowed, inflight)
				}
			}
		}
	}
}

// baseOf maps a crash point of the real code to the durable state of the model's operation that
// describes the same moment, by the names the model gives its states; -1: no single state.
func baseOf(point string, o Op, bs []base, nthRemoved, removedTotal int) int {
	switch point {
	case "walstore:flush:after-append-sync":
		if fault(o.F) == "append" {
			return tagIndex(bs, "repaired", 0)
		}
		return tagIndex(bs, "full", 0)
	case "walstore:watermark:tmp-synced":
		return tagIndex(bs, "tmp", 0)
	case "walstore:watermark:renamed":
		return tagIndex(bs, "ren'", 0)
	case "walstore:cleanup:watermark-written":
		return tagIndex(bs, "wm", 0)
	case "walstore:cleanup:rotated":
		return tagIndex(bs, "rot", 0)
	case "walstore:cleanup:removed-one":
		// the state after the last unlink that took place is the model's final one, also when a
		// later unlink failed
		if nthRemoved == removedTotal {
			return tagIndex(bs, "gc", 0)
		}
	}
	return -1
}

// hookImages checks the directory copies taken at the crash points of the real operation that
// just ran: each is a crash image the code really passed through. It is compared with the
// durable state of the model for the same moment, reopened with the real code, and checked
// against the property; where logs had been unlinked (not yet durable), every subset of them is
// put back as well.
func (r *runner) hookImages(o Op, bs []base, preDisk diskDesc, renameUndurable bool) {
	snaps := r.hooked
	r.hooked = nil
	if len(snaps) == 0 {
		return
	}
	inflight := append([]call(nil), r.calls...)
	allowed := [][]string{spec(r.durable()), spec(append(append([]call(nil), r.acked...), inflight...))}
	removedTotal := 0
	for _, s := range snaps {
		if s.Point == "walstore:cleanup:removed-one" {
			removedTotal++
		}
	}
	nth := 0
	for _, s := range snaps {
		r.res.Hit("hook:" + s.Point)
		if s.Point == "walstore:cleanup:removed-one" {
			nth++
		}
		desc, err := r.real.observe(s.Dir, false)
		if err != nil {
			r.res.Fatalf("observe hook copy: %v", err)
			continue
		}
		wantOK, want := true, []string(nil)
		haveWant := false
		if bi := baseOf(s.Point, o, bs, nth, removedTotal); bi >= 0 && bi < len(bs) {
			r.res.Compared(1)
			md := bs[bi].Disk
			if o.F == "wm" {
				md.Tmp, desc.Tmp = false, false // the injected failure is a directory in place of the tmp file
			}
			if !descEq(desc, md) {
				r.mismatch("crash-point-state:"+s.Point, o.String(), md.String(), desc.String())
			}
			ans := r.ask(fmt.Sprintf("img %s %s %d %s", o.K, fault(o.F), bi, maskStr(0, len(md.Zombies))))
			if parts := strings.SplitN(ans, " => ", 2); len(parts) == 2 && strings.HasPrefix(parts[1], "ok ") {
				want, _ = parseLoad(strings.TrimPrefix(parts[1], "ok "))
				haveWant = true
			}
		}
		at := map[string]any{"point": s.Point, "disk": desc.String()}
		if haveWant {
			r.checkDir(s.Dir, "hook:"+s.Point, at, wantOK, want, allowed, r.durable(), inflight, false)
		} else {
			r.checkOracleOnly(s.Dir, "hook:"+s.Point, at, allowed, inflight)
		}
		// the directory sync after the watermark rename was made to fail: the rename is not durable,
		// whatever the code does afterwards a crash may bring the previous watermark back
		if renameUndurable && s.Point != "walstore:watermark:tmp-synced" && desc.Wm != preDisk.Wm {
			r.real.nimg++
			dst := filepath.Join(r.real.root, fmt.Sprintf("hookw%d", r.real.nimg))
			if err := copyDir(walDirOf(s.Dir), walDirOf(dst)); err == nil {
				wp := filepath.Join(walDirOf(dst), "prune-watermark")
				if preDisk.Wm >= 0 {
					_ = os.WriteFile(wp, wmBytes(uint64(preDisk.Wm)), 0o644)
				} else {
					_ = os.Remove(wp)
				}
				r.res.Hit("hook:watermark-rename-undone")
				r.checkOracleOnly(dst, "hook-rename-undone:"+s.Point, map[string]any{"point": s.Point, "disk": desc.String(), "wm": preDisk.Wm}, allowed, inflight)
			}
			_ = os.RemoveAll(dst)
		}
		// logs unlinked since the operation began: the unlinks are not durable yet
		present := map[uint64]bool{}
		for _, f := range desc.Files {
			present[f.Num] = true
		}
		var gone []uint64
		for _, f := range preDisk.Files {
			if !present[f.Num] {
				gone = append(gone, f.Num)
			}
		}
		if len(gone) > 0 {
			var masks []uint64
			full := uint64(1)<<uint(len(gone)) - 1
			if len(gone) <= 3 {
				for mk := uint64(1); mk <= full; mk++ {
					masks = append(masks, mk)
				}
			} else {
				masks = []uint64{full, 1, 1 << uint(len(gone)-1), r.rng.Uint64()&full | 1, full &^ 1, full &^ (1 << uint(len(gone)-1))}
			}
			for _, mk := range masks {
				r.real.nimg++
				dst := filepath.Join(r.real.root, fmt.Sprintf("hookz%d", r.real.nimg))
				if err := copyDir(walDirOf(s.Dir), walDirOf(dst)); err != nil {
					continue
				}
				ok := true
				for i, num := range gone {
					if mk>>uint(i)&1 == 0 {
						continue
					}
					// the bytes of the unlinked log itself: a hard link taken when the log was first
					// seen keeps its inode readable
					content, lerr := os.ReadFile(filepath.Join(r.real.db+"-links", logName(num)))
					if lerr != nil {
						ok = false
						break
					}
					if err := os.WriteFile(filepath.Join(walDirOf(dst), logName(num)), content, 0o644); err != nil {
						ok = false
					}
				}
				if ok {
					r.res.Hit("hook:unlinked-logs-back")
					r.checkOracleOnly(dst, "hook-unlinks-undone:"+s.Point, map[string]any{"point": s.Point, "disk": desc.String(), "back": gone, "mask": mk}, allowed, inflight)
					if renameUndurable && desc.Wm != preDisk.Wm {
						wp := filepath.Join(walDirOf(dst), "prune-watermark")
						if preDisk.Wm >= 0 {
							_ = os.WriteFile(wp, wmBytes(uint64(preDisk.Wm)), 0o644)
						} else {
							_ = os.Remove(wp)
						}
						r.checkOracleOnly(dst, "hook-unlinks-and-rename-undone:"+s.Point, map[string]any{"point": s.Point, "disk": desc.String(), "back": gone, "mask": mk, "wm": preDisk.Wm}, allowed, inflight)
					}
				}
				_ = os.RemoveAll(dst)
			}
		}
		_ = os.RemoveAll(s.Dir)
	}
}

// checkOracleOnly reopens a directory and checks the result against the property alone.
func (r *runner) checkOracleOnly(dbPath, label string, at any, allowed [][]string, inflight []call) {
	got, err := recoverReal(dbPath)
	r.nImages++
	r.res.Case(fmt.Sprintf("%s/%d/%s/%v", r.name, len(r.log), label, at), len(allowed[0]) > 0 || len(allowed[len(allowed)-1]) > 0)
	if err != nil {
		r.report(lib.Violation{Sig: "reopen-error-on-crash-image",
			What:   fmt.Sprintf("NewTendermintWALStore fails on a crash image (%s): %v", label, err),
			Replay: r.replay(map[string]any{"image": at, "label": label})})
		return
	}
	for _, a := range allowed {
		if eq(got, a) {
			return
		}
	}
	sig := classify(got, allowed, r.durable(), inflight)
	r.report(lib.Violation{Sig: sig,
		What:   fmt.Sprintf("after a crash (%s) LoadAllEntries returns %d entries, allowed: %d or %d (%s)", label, len(got), len(allowed[0]), len(allowed[len(allowed)-1]), sig),
		Replay: r.replay(map[string]any{"image": at, "label": label, "got": got, "allowed": allowed})})
}

// durable: the calls whose records the directory holds between two operations.
func (r *runner) durable() []call {
	return append(append([]call(nil), r.acked...), r.limbo...)
}

// snapshot copies the real directory as it is between two API calls and reopens the copy.
func (r *runner) snapshot() {
	if r.real.db == "" {
		return
	}
	r.real.nimg++
	dst := filepath.Join(r.real.root, fmt.Sprintf("snap%d", r.real.nimg))
	if err := copyDir(walDirOf(r.real.db), walDirOf(dst)); err != nil {
		r.res.Fatalf("snapshot: %v", err)
		return
	}
	ans := r.ask("img idle none 0 -")
	parts := strings.SplitN(ans, " => ", 2)
	wantOK := len(parts) == 2 && strings.HasPrefix(parts[1], "ok ")
	var want []string
	if wantOK {
		want, _ = parseLoad(strings.TrimPrefix(parts[1], "ok "))
	}
	r.res.Hit("image:snapshot")
	r.checkDir(dst, "snapshot", "directory copied after the last operation", wantOK, want, [][]string{spec(r.durable())}, r.durable(), nil, false)
	_ = os.RemoveAll(dst)
}

// maxDel is the highest height any DeleteWALEntries call asked for: a leftover temporary watermark
// file can hold that much at most.
func maxDel(lists ...[]call) uint64 {
	var m uint64
	for _, l := range lists {
		for _, c := range l {
			if c.Del && c.H > m {
				m = c.H
			}
		}
	}
	return m
}

func totalBatches(d diskDesc) int {
	n := 0
	for _, f := range d.Files {
		n += f.Batches
	}
	return n
}

func descEq(a, b diskDesc) bool {
	if a.Wm != b.Wm || a.Tmp != b.Tmp || len(a.Files) != len(b.Files) {
		return false
	}
	for i := range a.Files {
		if a.Files[i] != b.Files[i] {
			return false
		}
	}
	return true
}

// compareState compares LoadAllEntries of the live store and the directory with the model.
func (r *runner) compareState(step string) {
	tornTrailerOK := strings.HasSuffix(step, "closewriter-norepair")
	if r.alive && r.real.st != nil {
		got, err := loadReal(r.real.st)
		ms := r.ask("load")
		want, perr := parseLoad(ms)
		r.res.Compared(1)
		if err != nil || perr != nil || !eq(got, want) {
			r.mismatch("live-load", step, ms, fmt.Sprintf("%v %v", got, err))
		}
	}
	if r.real.db != "" {
		rd, err := r.real.observe(r.real.db, true)
		md, perr := parseDisk(r.ask("disk"))
		r.res.Compared(1)
		if tornTrailerOK && len(md.Files) > 0 && len(md.Files) == len(rd.Files) {
			// the hook reports a completed writer.Close and the truncation as failed: the real log keeps a
			// complete EOF trailer where the model (a real failure) has a torn one
			md.Files[len(md.Files)-1].Garbage = rd.Files[len(rd.Files)-1].Garbage
		}
		if err != nil || perr != nil || !descEq(rd, md) {
			r.mismatch("directory", step, md.String(), fmt.Sprintf("%s %v", rd.String(), err))
		}
		r.chunkScanDir(step)
	}
}

var rlimitMu sync.Mutex

// lowestFreeFd is the number the next opened file would get.
func lowestFreeFd() uint64 {
	used := map[uint64]bool{}
	if d, err := os.Open("/proc/self/fd"); err == nil {
		self := uint64(d.Fd())
		names, _ := d.Readdirnames(-1)
		d.Close()
		for _, name := range names {
			if n, err := strconv.ParseUint(name, 10, 64); err == nil && n != self {
				used[n] = true
			}
		}
	}
	for n := uint64(0); ; n++ {
		if !used[n] {
			return n
		}
	}
}

// injector makes one step inside a running Flush / Close fail, at the crash point (utils/verifhook)
// just before it:
//   wmsync   — at "watermark:renamed": RLIMIT_NOFILE is lowered so that syncDir cannot open the directory;
//   rotate   — at "cleanup:watermark-written": RLIMIT_FSIZE = size of the log being written, so that
//              writing the EOF trailer in writer.Close fails (the tail repair, a truncation, succeeds);
//   unlink:k — before the k-th unlink of cleanupObsoleteWALs the log to be removed is replaced by a
//              non-empty directory (os.Remove fails with ENOTEMPTY); it is put back afterwards from
//              its hard link.
type injector struct {
	op       string         // flush | close
	seen     map[string]int // how often each failure point was reached
	cleanup  bool           // the model expects this operation to run the cleanup
	r        *runner
	f        string
	k        int      // unlink: which removal fails
	cand     []uint64 // unlink: the logs the cleanup will remove, ascending (from the model)
	removed  int
	nofile   *syscall.Rlimit
	fsize    *syscall.Rlimit
	swapped  string
	injected bool
	hits     map[string]bool // the failure points at which a failure was injected
}

// fail is the decision at a failure-injection point of the real code.
func (in *injector) fail(point string) error {
	n := in.seen[point]
	in.seen[point] = n + 1
	hit := false
	switch in.f {
	case "fsync":
		hit = point == "walstore:append:after-sync" && n == 0
	case "prewrite":
		hit = point == "walstore:append:before-write" && n == 0
	case "norepair":
		hit = point == "walstore:repair:before-truncate"
	case "fsync-norepair":
		hit = (point == "walstore:append:after-sync" && n == 0) || point == "walstore:repair:before-truncate"
	case "closemanager":
		hit = in.op == "close" && point == "walstore:manager:close"
	case "wmsyncf":
		hit = point == "walstore:syncdir:after-sync" && n == 0
	case "rotatef":
		// the first Close of a writer inside a flush that runs the cleanup is the rotation
		hit = point == "walstore:writer:after-close" && n == 0 && in.cleanup
	case "unlinkf":
		hit = point == "walstore:cleanup:before-remove" && n == in.k
	case "closewriter":
		// Close without cleanup: the only writer.Close is the one of wal.close()
		hit = in.op == "close" && !in.cleanup && point == "walstore:writer:after-close"
	case "closewriter-norepair":
		hit = in.op == "close" && !in.cleanup && (point == "walstore:writer:after-close" || point == "walstore:repair:before-truncate")
	}
	if hit {
		in.injected = true
		in.hits[point] = true
		return errInjected
	}
	return nil
}

func (r *runner) newInjector(o Op, bs []base) *injector {
	in := &injector{r: r, f: o.F, k: -1, op: o.K, seen: map[string]int{}, hits: map[string]bool{}, cleanup: hasTag(bs, "tmp")}
	if strings.HasPrefix(o.F, "unlinkf:") {
		in.k, _ = strconv.Atoi(strings.TrimPrefix(o.F, "unlinkf:"))
		in.f = "unlinkf"
	}
	if strings.HasPrefix(o.F, "unlink:") {
		in.k, _ = strconv.Atoi(strings.TrimPrefix(o.F, "unlink:"))
		in.f = "unlink"
		// without a failure the model unlinks all candidates: they are the zombies of its last base
		if bs := r.basesOf(o.K, ""); len(bs) > 0 {
			if gi := tagIndex(bs, "gc", 0); gi >= 0 {
				for _, z := range bs[gi].Disk.Zombies {
					in.cand = append(in.cand, z.Num)
				}
			}
		}
	}
	return in
}

func (in *injector) at(point string) {
	wd := walDirOf(in.r.real.db)
	switch in.f {
	case "wmsync":
		if point == "walstore:watermark:renamed" && in.nofile == nil {
			var old syscall.Rlimit
			if syscall.Getrlimit(syscall.RLIMIT_NOFILE, &old) == nil {
				in.nofile = &old
				_ = syscall.Setrlimit(syscall.RLIMIT_NOFILE, &syscall.Rlimit{Cur: lowestFreeFd(), Max: old.Max})
				in.injected = true
			}
		}
	case "rotate":
		if point == "walstore:cleanup:watermark-written" && in.fsize == nil {
			d, _ := in.r.real.observe(in.r.real.db, false)
			if n := len(d.Files); n > 0 {
				if st, err := os.Stat(filepath.Join(wd, logName(d.Files[n-1].Num))); err == nil {
					var old syscall.Rlimit
					if syscall.Getrlimit(syscall.RLIMIT_FSIZE, &old) == nil {
						in.fsize = &old
						// 0 or 5 of the 11 bytes of the EOF trailer still fit: the tail repair has something to cut
						slack := uint64(in.r.rng.Intn(2) * 5)
						_ = syscall.Setrlimit(syscall.RLIMIT_FSIZE, &syscall.Rlimit{Cur: uint64(st.Size()) + slack, Max: old.Max})
						in.injected = true
					}
				}
			}
		}
		if point == "walstore:cleanup:rotated" {
			in.restoreFsize()
		}
	case "unlink":
		idx := -1
		if point == "walstore:cleanup:rotated" {
			idx = 0
		} else if point == "walstore:cleanup:removed-one" {
			in.removed++
			idx = in.removed
		}
		if idx >= 0 && idx == in.k && in.k < len(in.cand) && in.swapped == "" {
			p := filepath.Join(wd, logName(in.cand[in.k]))
			if os.Remove(p) == nil && os.Mkdir(p, 0o755) == nil {
				_ = os.WriteFile(filepath.Join(p, "x"), []byte("x"), 0o644)
				in.swapped = p
				in.injected = true
			}
		}
	}
}

func (in *injector) restoreFsize() {
	if in.fsize != nil {
		_ = syscall.Setrlimit(syscall.RLIMIT_FSIZE, in.fsize)
		in.fsize = nil
	}
}

// restore undoes what is left of the injection after the operation returned.
func (in *injector) restore() {
	in.restoreFsize()
	if in.nofile != nil {
		_ = syscall.Setrlimit(syscall.RLIMIT_NOFILE, in.nofile)
		in.nofile = nil
	}
	if in.swapped != "" {
		_ = os.RemoveAll(in.swapped)
		_ = os.Link(filepath.Join(in.r.real.db+"-links", filepath.Base(in.swapped)), in.swapped)
		in.swapped = ""
	}
}

// withFault runs f with the requested failure injected into the real environment.
func (r *runner) withFault(o Op, f func() error) error {
	wd := walDirOf(r.real.db)
	switch o.F {
	case "wm":
		tmp := filepath.Join(wd, "prune-watermark.tmp")
		var stale []byte
		if fi, e := os.Lstat(tmp); e == nil && fi.Mode().IsRegular() {
			stale, _ = os.ReadFile(tmp)
			if stale == nil {
				stale = []byte{}
			}
		}
		_ = os.RemoveAll(tmp)
		_ = os.Mkdir(tmp, 0o755) // os.OpenFile(tmp, O_CREATE|O_TRUNC|O_WRONLY) fails with EISDIR
		err := f()
		_ = os.RemoveAll(tmp)
		if stale != nil && (err == nil || !strings.Contains(err.Error(), "writePruneWatermark")) {
			// the watermark write was not attempted: the stale temporary file is still there
			_ = os.WriteFile(tmp, stale, 0o644)
		}
		return err
	case "create":
		// manager.Create cannot open the new log: only when no writer is open (otherwise the flush
		// needs no new file descriptor before the watermark write, and the model ignores the fault)
		if r.ask("writer") != "-" {
			return f()
		}
		rlimitMu.Lock()
		defer rlimitMu.Unlock()
		var old syscall.Rlimit
		if syscall.Getrlimit(syscall.RLIMIT_NOFILE, &old) != nil {
			return f()
		}
		_ = syscall.Setrlimit(syscall.RLIMIT_NOFILE, &syscall.Rlimit{Cur: lowestFreeFd(), Max: old.Max})
		err := f()
		_ = syscall.Setrlimit(syscall.RLIMIT_NOFILE, &old)
		if err != nil {
			r.res.Hit("inject:create")
		}
		return err
	case "append", "norepair":
		if !r.serial {
			return f()
		}
		if o.F == "norepair" && o.S == 0 {
			o.S = 7 // some bytes of the batch must reach the log: the model's state has a torn tail
		}
		// the log being appended to is the highest-numbered one if a writer is open; a new log
		// otherwise. Allow S more bytes than it has now: the write of the batch fails part-way.
		var size int64
		if r.ask("writer") != "-" {
			d, _ := r.real.observe(r.real.db, false)
			if n := len(d.Files); n > 0 {
				if st, err := os.Stat(filepath.Join(wd, logName(d.Files[n-1].Num))); err == nil {
					size = st.Size()
				}
			}
		}
		rlimitMu.Lock()
		defer rlimitMu.Unlock()
		var old syscall.Rlimit
		_ = syscall.Getrlimit(syscall.RLIMIT_FSIZE, &old)
		lim := syscall.Rlimit{Cur: uint64(size) + uint64(o.S), Max: old.Max}
		if err := syscall.Setrlimit(syscall.RLIMIT_FSIZE, &lim); err != nil {
			r.res.Fatalf("setrlimit: %v", err)
		}
		err := f()
		_ = syscall.Setrlimit(syscall.RLIMIT_FSIZE, &old)
		return err
	}
	return f()
}

func cls(err error) string {
	if err == nil {
		return "ok"
	}
	return "err"
}

func mcls(s string) string {
	switch s {
	case "ok":
		return "ok"
	case "closed", "err-notcommitted", "err-committed", "err-open":
		return "err"
	}
	return s
}

// exec runs one operation on both sides.
func (r *runner) exec(o Op) {
	if r.failed {
		return
	}
	if o.F == "closemanager" && !haveManagerCloseHook {
		o.F = "" // the failure point is not in this juno: run the operation without the fault
		r.res.Hit("closemanager:skipped-no-hook")
	}
	r.log = append(r.log, o)
	r.res.Hit("op:" + o.K)
	every := r.level >= 1 || r.hot > 0
	if r.hot > 0 {
		r.hot--
	}
	switch o.K {
	case "set", "del":
		if !r.alive {
			return
		}
		var err error
		if o.K == "set" {
			err = guard(func() error { return r.real.st.SetWALEntry(mkEntry(o.H, o.E)) })
		} else {
			err = guard(func() error { return r.real.st.DeleteWALEntries(typesHeight(o.H)) })
		}
		m := r.ask(o.String())
		r.res.Compared(1)
		if cls(err) != mcls(m) {
			r.mismatch("outcome:"+o.K, o.String(), m, fmt.Sprint(err))
		}
		if err == nil {
			r.calls = append(r.calls, call{Del: o.K == "del", H: o.H, E: o.E})
			if o.H == 0 {
				r.res.Hit("height-0-" + o.K)
			}
		}
	case "flush", "close":
		if !r.alive {
			return
		}
		if o.Q && o.K == "flush" && o.F == "" {
			// the run-up to a cleanup: outcomes only
			err := guard(r.real.st.Flush)
			m := r.ask(o.String())
			r.res.Compared(1)
			r.res.Hit("op:quiet-flush")
			if cls(err) != mcls(m) {
				r.mismatch("outcome:flush", o.String(), m, fmt.Sprint(err))
			}
			if err == nil && !r.closed {
				r.acked = append(r.acked, r.calls...)
				r.calls = nil
			}
			return
		}
		if _, lerr := r.real.observe(r.real.db, true); lerr != nil {
			r.res.Fatalf("%s step %d: observe: %v", r.name, len(r.log), lerr)
		}
		wasClosed := r.closed
		bs := r.basesOf(o.K, o.F)
		if hasTag(bs, "tmp") {
			r.res.Hit("flush:cleanup-runs")
			r.sawGC = true
			r.hot = 6
			every = true
		}
		preAcked := spec(r.acked)
		preBoth := spec(append(append([]call(nil), r.acked...), r.calls...))
		preDisk, _ := r.real.observe(r.real.db, false)
		preKnown := r.real.knownBatches()
		// the bytes the model says this flush appends: its pending records under its nextBatchSeqNum
		// (DeleteWALEntries' merge position, SetWALEntry's drop, encodeBatch; compared below)
		mPending, mSeq := "", ""
		preEnds := map[uint64]int{}
		if !wasClosed {
			mPending, mSeq = r.ask("pending"), r.ask("nextseq")
			for num, fr := range r.real.files {
				if fr.cur {
					preEnds[num] = len(fr.ends)
				}
			}
		}
		watch := every || r.rng.Intn(6) == 0
		r.hooked = nil
		cpre := r.chunkBefore(wasClosed)
		inj := r.newInjector(o, bs)
		failSink = inj.fail
		hookSink = func(p string) {
			if p == "walstore:abort:before-repair" && r.torn == nil {
				r.tornAtHook(cpre)
			}
			if p == "walstore:flush:after-append-sync" {
				// learn (and hard-link) the log just written: the same call may unlink it
				_, _ = r.real.observe(r.real.db, true)
			}
			if watch {
				r.record(p)
			}
			inj.at(p)
		}
		err := r.withFault(o, func() error {
			if o.K == "flush" {
				return guard(r.real.st.Flush)
			}
			return guard(r.real.st.Close)
		})
		hookSink = nil
		failSink = nil
		inj.restore()
		if inj.injected {
			r.res.Hit("inject:" + inj.f)
		}
		postDisk, oerr := r.real.observe(r.real.db, true)
		if oerr != nil {
			r.res.Fatalf("observe: %v", oerr)
		}
		// Did the batch reach the log? Decided on the disk (a record more than before), not by the
		// model and not by the error value; the running store must then show exactly that history.
		live, lerr := loadReal(r.real.st)
		committed := err == nil
		limboNow := false
		if err != nil && !wasClosed {
			r.res.Hit(o.K + ":returned-error")
			committed = r.real.knownBatches() > preKnown
			if committed && inj.hits["walstore:append:after-sync"] && inj.hits["walstore:repair:before-truncate"] {
				// the injected double failure: the sync was reported as failed with the batch on disk and
				// the truncation that would have cut it off failed too. The batch is not acknowledged and
				// not visible; the store is blocked; a restart will find the whole batch.
				committed, limboNow = false, true
				r.res.Hit(o.K + ":batch-in-limbo")
			}
			if committed {
				r.res.Hit(o.K + ":error-after-commit")
			}
			wantLive := preAcked
			if committed {
				wantLive = preBoth
			}
			if lerr != nil || !eq(live, wantLive) {
				r.report(lib.Violation{Sig: "failed-flush-leaves-partial-state-in-memory",
					What:   fmt.Sprintf("%s returned %v, the batch is %s the log (committed=%v), but LoadAllEntries of the running store does not show that history", o.K, err, map[bool]string{true: "in", false: "not in"}[committed], committed),
					Replay: r.replay(map[string]any{"live": live})})
			}
		}
		if o.K == "flush" && !wasClosed {
			// "does not make the log unusable": a flush without injected failure right after a failed
			// one must succeed, unless the tail repair was made to fail (the writer is then blocked
			// on purpose until a restart)
			if o.F == "" && err != nil && r.lastFlushFailed && !r.blocked {
				r.report(lib.Violation{Sig: "flush-fails-after-failed-flush",
					What:   fmt.Sprintf("the flush after a failed flush fails too: %v", err),
					Replay: r.replay(nil)})
			}
			if o.F == "" && err == nil && r.lastFlushFailed {
				r.res.Hit("flush:ok-after-failed-flush")
			}
			r.lastFlushFailed = err != nil
			if err != nil && (o.F == "norepair" || strings.HasSuffix(o.F, "-norepair")) {
				r.blocked = true
			}
		}
		if r.blocked && len(r.limbo) > 0 && r.real.knownBatches() > preKnown {
			r.report(lib.Violation{Sig: "blocked-store-wrote-to-the-log",
				What:   fmt.Sprintf("%s on a store whose writer is blocked (a reported-failed batch is still on disk) appended a record", o.K),
				Replay: r.replay(nil)})
		}
		if !wasClosed && !r.failed && r.real.knownBatches() == preKnown+1 {
			r.compareBatchBytes(o, mPending, mSeq, preEnds)
		}
		straddle := false
		for _, fdesc := range postDisk.Files {
			if fr := r.real.files[fdesc.Num]; fr != nil && len(fr.ends) >= 2 && totalBatches(postDisk) > totalBatches(preDisk) {
				a, b := fr.ends[len(fr.ends)-2], fr.ends[len(fr.ends)-1]
				if fdesc.Num == postDisk.Files[len(postDisk.Files)-1].Num && a/32768 != (b-1)/32768 {
					straddle = true
				}
			}
		}
		if bs != nil && (every || straddle || r.rng.Intn(12) == 0) {
			r.imagesOf(o.K, o.F, bs, every || straddle)
		}
		if bs != nil {
			r.hookImages(o, bs, preDisk, inj.injected && (inj.f == "wmsync" || inj.f == "wmsyncf"))
		}
		m := r.ask(o.String())
		r.res.Compared(1)
		observable := !eq(preAcked, preBoth) || r.real.knownBatches() > preKnown
		if cls(err) != mcls(m) || (err != nil && !wasClosed && observable && (m == "err-committed") != committed) {
			r.mismatch("outcome:"+o.K, o.String(), m, fmt.Sprintf("%v committed=%v", err, committed))
		}
		if limboNow {
			r.limbo = append([]call(nil), r.calls...)
		}
		r.chunkAfterOp(o, m, cpre, mPending, mSeq)
		r.res.Compared(1)
		if ml := r.ask("limbo"); ml != strconv.Itoa(len(r.limbo)) {
			r.mismatch("limbo", o.String(), ml, len(r.limbo))
		}
		if m == "err-notcommitted" || m == "err-committed" {
			r.res.Hit(o.K + ":model-" + m)
		}
		if committed && !wasClosed {
			r.acked = append(r.acked, r.calls...)
			r.calls = nil
		}
		if o.K == "close" {
			r.closed = true
		}
		if err != nil && !committed && o.K == "flush" && !wasClosed {
			// "does not make the log unusable": the very next flush, without a fault, must succeed
			r.hot = 3
		}
	case "open":
		if r.alive && !r.closed {
			return
		}
		if r.real.db == "" {
			r.real.db = r.real.newDir()
		}
		bs := r.basesOf("open", "")
		if bs != nil && (every || r.rng.Intn(4) == 0) {
			r.imagesOf("open", "", bs, every)
		}
		st, err := openReal(r.real.db)
		m := r.ask("open")
		r.res.Compared(1)
		if cls(err) != mcls(m) {
			r.mismatch("outcome:open", "open", m, fmt.Sprint(err))
		}
		if err != nil {
			r.report(lib.Violation{Sig: "reopen-error",
				What:   fmt.Sprintf("NewTendermintWALStore fails on the directory the history left: %v", err),
				Replay: r.replay(nil)})
			r.failed = true
			return
		}
		r.real.st = st
		r.alive, r.closed = true, false
		r.lastFlushFailed, r.blocked = false, false
		r.calls = nil
		r.acked, r.limbo = r.durable(), nil
	case "crash":
		r.crash(o)
		return
	}
	if o.K == "set" || o.K == "del" {
		return // nothing observable changes before the next flush
	}
	r.compareState(o.String())
	if every || r.rng.Intn(10) == 0 {
		r.snapshot()
	}
}

// compareBatchBytes: the one record the flush appended, de-chunked, against `Batch.encodeBatch` of the
// model's pending records and sequence number.
func (r *runner) compareBatchBytes(o Op, mPending, mSeq string, preEnds map[uint64]int) {
	var fr *fileRec
	n := 0
	for num, f := range r.real.files {
		pe, ok := preEnds[num]
		if !ok {
			pe = 1
		}
		if f.cur && len(f.ends) == pe+1 {
			fr = f
			n++
		}
	}
	if n != 1 {
		r.res.Hit("batch-bytes:record-not-located")
		return
	}
	start, end := fr.ends[len(fr.ends)-2], fr.ends[len(fr.ends)-1]
	if end > len(fr.bytes) {
		r.res.Hit("batch-bytes:record-not-located")
		return
	}
	got, _, err := dechunk(fr.bytes[:end], 0, start)
	if err != nil {
		r.res.Fatalf("%s step %d: de-chunking the appended record: %v", r.name, len(r.log), err)
		return
	}
	text, nrec, perr := pendingToText(mPending)
	if perr != nil || nrec == 0 {
		r.mismatch("batch-bytes:model-had-nothing-pending", o.String(), mPending, hex.EncodeToString(got))
		return
	}
	want := r.ask("encbatch " + mSeq + text)
	r.res.Compared(1)
	r.res.Hit("batch-bytes:compared")
	if end/blockSize != start/blockSize {
		r.res.Hit("batch-bytes:multi-block")
	}
	if hex.EncodeToString(got) != want {
		r.mismatch("batch-bytes", o.String(), clip(want), clip(hex.EncodeToString(got)))
	}
}

// crash: the process dies while (o.C, o.F) runs; the directory becomes one of its crash images.
func (r *runner) crash(o Op) {
	cop := o.C
	if (cop == "flush" || cop == "close") && !r.alive {
		cop = "idle"
	}
	if cop == "open" && r.alive && !r.closed {
		cop = "idle"
	}
	if r.real.db == "" {
		return
	}
	bs := r.basesOf(cop, o.F)
	if bs == nil {
		return
	}
	// what the real directory holds before the interrupted operation starts
	preReal, perr := r.real.observe(r.real.db, r.alive)
	if perr != nil {
		r.res.Fatalf("%s step %d: observe: %v", r.name, len(r.log), perr)
	}
	// run the interrupted operation on the real store so that the bytes it writes are known
	if (cop == "flush" || cop == "close") && r.alive {
		_ = r.withFault(Op{K: cop, F: o.F, S: o.S}, func() error {
			if cop == "flush" {
				return guard(r.real.st.Flush)
			}
			return guard(r.real.st.Close)
		})
		if _, err := r.real.observe(r.real.db, true); err != nil {
			r.res.Fatalf("%s step %d: observe: %v", r.name, len(r.log), err)
		}
	}
	tv := tailVariant{Kind: "junk", Off: 5}
	if o.T != nil {
		tv = *o.T
	}
	// the requested durable state, or — when it needs bytes that never reached the disk (the batch
	// of a failing flush) — the nearest earlier one that can be built
	want := o.I % len(bs)
	idx, dir, ms := -1, "", ""
	var img diskDesc
	var b base
	for try := want; try >= 0; try-- {
		b = bs[try]
		nz := len(b.Disk.Zombies)
		mask := o.M
		if nz < 64 {
			mask &= uint64(1)<<uint(nz) - 1
		}
		ms = maskStr(mask, nz)
		if o.A > 0 {
			ms = strings.Repeat("~", o.A%(nAlts(b.Disk)+1)) + ms
		}
		ans := r.ask(fmt.Sprintf("img %s %s %d %s", cop, fault(o.F), try, ms))
		parts := strings.SplitN(ans, " => ", 2)
		var err error
		img, err = parseDisk(parts[0])
		if len(parts) != 2 || err != nil {
			r.res.Fatalf("%s step %d: bad img answer %q", r.name, len(r.log), ans)
			r.failed = true
			return
		}
		dir, err = r.real.materialise(img, tv, r.rng)
		if err == nil {
			idx = try
			break
		}
		if !errors.Is(err, errNoBytes) {
			r.res.Fatalf("%s step %d: cannot build crash image %q: %v", r.name, len(r.log), ans, err)
			r.failed = true
			return
		}
	}
	if idx < 0 {
		r.res.Fatalf("%s step %d: no durable state of %s %s can be built", r.name, len(r.log), cop, fault(o.F))
		r.failed = true
		return
	}
	if idx != want {
		r.res.Hit("crash:earlier-state-taken-bytes-unknown")
	}
	r.res.Hit("crash:" + cop)
	m := r.ask(fmt.Sprintf("crash %s %s %d %s", cop, fault(o.F), idx, ms))
	if m != "ok" {
		r.res.Fatalf("%s step %d: crash rejected by the model: %s", r.name, len(r.log), m)
		r.failed = true
		return
	}
	if r.real.st != nil {
		_ = guard(r.real.st.Close) // stops Pebble's goroutines; its directory is abandoned
		r.real.st = nil
	}
	old := r.real.db
	r.real.db = dir
	_ = os.RemoveAll(old)
	_ = os.RemoveAll(old + "-links")
	// Is the batch that was in flight part of the image? Decided on the directory just built, not
	// by the model: some log holds more complete records than before the operation began.
	before := map[uint64]int{}
	for _, f := range preReal.Files {
		before[f.Num] = f.Batches
	}
	built, oerr := r.real.observe(r.real.db, false)
	if oerr != nil {
		r.res.Fatalf("%s step %d: observe image: %v", r.name, len(r.log), oerr)
	}
	back := map[uint64]bool{} // logs that had been unlinked and came back with the crash
	for _, z := range b.Disk.Zombies {
		back[z.Num] = true
	}
	included := false
	for _, f := range built.Files {
		if !back[f.Num] && f.Batches > before[f.Num] {
			included = true
		}
	}
	// … or the watermark on disk moved: it is only written after the batch (whose prune it holds) has
	// been synced, and the log that received the batch may already be unlinked
	if built.Wm > preReal.Wm {
		included = true
	}
	r.res.Compared(1)
	both := append(append([]call(nil), r.acked...), r.calls...)
	if included != b.Infl && !eq(spec(r.acked), spec(both)) && (cop == "flush" || cop == "close") {
		r.mismatch("crash-image-holds-batch-in-flight", o.String(), b.Infl, included)
	}
	if included {
		r.acked = append(r.acked, r.calls...)
	} else {
		r.acked = r.durable()
	}
	r.calls, r.limbo = nil, nil
	r.alive, r.closed = false, false
	// the files of the new directory are the ones the bookkeeping knows (same bytes)
	r.real.prev = map[uint64]bool{}
	for _, fr := range r.real.files {
		fr.cur = false
	}
	for _, f := range img.Files {
		r.real.prev[f.Num] = true
		if fr := r.real.files[f.Num]; fr != nil {
			fr.cur = true
		}
	}
}

func (r *runner) run(ops []Op) {
	for _, o := range ops {
		r.exec(o)
		if r.failed {
			break
		}
	}
	if r.real.st != nil {
		_ = guard(r.real.st.Close)
		r.real.st = nil
	}
}

func newRunner(name string, f lib.Flags, res *lib.Result, rng *lib.RNG, level int, serial bool) (*runner, error) {
	drv, err := lib.StartDriver(f.Driver)
	if err != nil {
		return nil, err
	}
	root := filepath.Join(scratchRoot, fmt.Sprintf("run%d", os.Getpid()), name)
	_ = os.RemoveAll(root)
	if err := os.MkdirAll(root, 0o755); err != nil {
		return nil, err
	}
	sweeps := 0
	if level >= 2 && rng.Intn(3) == 0 {
		sweeps = 1
	}
	if name == "replay-0" {
		sweeps = 4
	}
	return &runner{name: name, f: f, res: res, rng: rng, drv: drv, real: newRealSide(root), level: level, serial: serial, sweeps: sweeps}, nil
}

// report records a violation of this history, once per signature.
func (r *runner) report(v lib.Violation) {
	if r.sigs == nil {
		r.sigs = map[string]bool{}
	}
	if r.sigs[v.Sig] {
		return
	}
	r.sigs[v.Sig] = true
	if r.viol != nil {
		r.viol(v)
		return
	}
	keepBest(v)
}

func (r *runner) done() {
	r.drv.Close()
	_ = os.RemoveAll(r.real.root)
}

type job struct {
	name   string
	ops    []Op
	level  int
	serial bool
	seed   uint64
}

func runJob(j job, f lib.Flags, res *lib.Result) {
	rng := lib.NewRNG(j.seed)
	r, err := newRunner(j.name, f, res, rng, j.level, j.serial)
	if err != nil {
		res.Fatalf("runner %s: %v", j.name, err)
		return
	}
	defer r.done()
	tj := time.Now()
	r.run(j.ops)
	if d := time.Since(tj).Seconds(); d > 5 {
		res.Note("%s: %d ops, %d images, %.1fs", j.name, len(j.ops), r.nImages, d)
	}
	res.Hit("history:" + strings.SplitN(j.name, "-", 2)[0])
	if r.sawGC {
		res.Hit("history:with-cleanup")
	}
	res.Sample(8, map[string]any{"history": j.name, "ops": len(j.ops), "images": r.nImages, "first_ops": head(j.ops, 12)})
}

func head(ops []Op, n int) []string {
	var out []string
	for i, o := range ops {
		if i >= n {
			break
		}
		out = append(out, o.String())
	}
	return out
}

func main() {
	f := lib.ParseFlags()
	res := lib.NewResult("one case = one reopen of a crash image (or of a copy of the real directory) with the real " +
		"NewTendermintWALStore, compared with the model and with the property; non-trivial = the history has " +
		"acknowledged or in-flight entries that must (or may) survive; distinct by history, step, image and torn-tail variant")
	signal.Ignore(syscall.SIGXFSZ) // RLIMIT_FSIZE makes writes fail with EFBIG instead of killing us
	_ = os.MkdirAll(scratchRoot, 0o755)
	runRoot := filepath.Join(scratchRoot, fmt.Sprintf("run%d", os.Getpid()))
	defer os.RemoveAll(runRoot)

	verifhook.Set(func(p string) {
		if f := hookSink; f != nil {
			f(p)
		}
	})
	verifhook.SetFail(func(p string) error {
		if f := failSink; f != nil {
			return f(p)
		}
		return nil
	})
	probeHooks(runRoot, res)
	if f.Replay != "" {
		replayFile(f, res)
		_ = os.RemoveAll(runRoot)
		finish(f, res)
	}

	if *shardFlag < 0 {
		parent(f, res)
		_ = os.RemoveAll(runRoot)
		_ = os.Remove(scratchRoot) // only if no other run is using it
		finish(f, res)
	}

	// a shard: every history of this shard runs alone in this process, one after the other, so
	// that the process-wide RLIMIT_FSIZE failure injection cannot disturb another history
	rng := lib.NewRNG(f.Seed)
	var jobs []job
	add := func(kind string, n int, level int, gen func(*lib.RNG) []Op) {
		for i := 0; i < n; i++ {
			g := rng.Fork(uint64(len(jobs)))
			jobs = append(jobs, job{name: fmt.Sprintf("%s-%d", kind, i), ops: gen(g), level: level, serial: true, seed: g.Uint64()})
		}
	}
	lvl := 1
	if f.Thorough() {
		lvl = 2
	}
	for _, fx := range fixedHistories() {
		jobs = append(jobs, job{name: fx.name, ops: fx.ops, level: lvl, serial: true, seed: 7})
	}
	add("short", f.Scale(500, 2400), lvl, func(g *lib.RNG) []Op { return genShort(g, false) })
	add("fault", f.Scale(300, 1600), lvl, func(g *lib.RNG) []Op { return genShort(g, true) })
	add("gc", f.Scale(60, 300), f.Scale(0, 1), func(g *lib.RNG) []Op { return genGC(g, false) })
	add("gcfault", f.Scale(24, 120), f.Scale(0, 1), func(g *lib.RNG) []Op { return genGC(g, true) })
	for i := 0; i < f.Scale(22, 150)*len(cleanupFaultKinds); i++ {
		kind := cleanupFaultKinds[i%len(cleanupFaultKinds)]
		g := rng.Fork(uint64(len(jobs)))
		jobs = append(jobs, job{name: fmt.Sprintf("cfault-%d", i), ops: genCleanupFault(g, kind), level: 1, serial: true, seed: g.Uint64()})
	}
	// the k-th append into a log that holds acknowledged batches fails: every kind x k x {small, block-crossing}
	for rep := 0; rep < f.Scale(1, 6); rep++ {
		for ki, kind := range appendFailKinds {
			for _, k := range []int{2, 3, 5} {
				fat := (ki+k+rep)%4 == 0
				g := rng.Fork(uint64(len(jobs)))
				jobs = append(jobs, job{name: fmt.Sprintf("afail-%d", len(jobs)), ops: genAppendFail(g, k, kind, fat), level: 1, serial: true, seed: g.Uint64()})
			}
		}
	}
	// longest first within a shard would not help: interleave by index
	t0 := time.Now()
	n := 0
	for i, j := range jobs {
		if i%*shardsFlag != *shardFlag {
			continue
		}
		if only := os.Getenv("VERIF_C14_ONLY"); only != "" && only != j.name && !strings.HasPrefix(j.name, only+"-") {
			continue
		}
		runJob(j, f, res)
		n++
	}
	res.Note("shard %d/%d: %d histories in %.1fs", *shardFlag, *shardsFlag, n, time.Since(t0).Seconds())
	if os.Getenv("VERIF_C14_ONLY") == "" || os.Getenv("VERIF_C14_ONLY") == "codec" {
		t1 := time.Now()
		_ = os.MkdirAll(runRoot, 0o755)
		runCodec(f, res, *shardFlag, *shardsFlag, runRoot)
		t2 := time.Now()
		runBatch(f, res, *shardFlag, *shardsFlag, runRoot)
		t3 := time.Now()
		runChunk(f, res, *shardFlag, *shardsFlag, runRoot)
		res.Note("shard %d/%d: physical-layer section in %.1fs", *shardFlag, *shardsFlag, time.Since(t3).Seconds())
		runRotateNoRepair(f, res, *shardFlag, *shardsFlag, runRoot)
		res.Note("shard %d/%d: batch-layer / watermark-file section in %.1fs", *shardFlag, *shardsFlag, time.Since(t2).Seconds())
		if *shardFlag == 0 {
			runGlue(res, runRoot)
			runAlias(res, runRoot)
		}
		res.Note("shard %d/%d: byte-level codec / framing section in %.1fs", *shardFlag, *shardsFlag, time.Since(t1).Seconds())
	}
	_ = os.RemoveAll(runRoot)
	finish(f, res)
}

func finish(f lib.Flags, res *lib.Result) {
	if *shardFlag >= 0 {
		for sig, v := range best {
			best[sig] = shrink(v, f)
		}
	}
	flushBest(res)
	lib.Finish(f, res)
}

var (
	shardFlag  = flag.Int("shard", -1, "internal: index of this worker process")
	shardsFlag = flag.Int("shards", 14, "number of worker processes")
)

// parent starts one worker process per shard and merges their results.
func parent(f lib.Flags, res *lib.Result) {
	exe, err := os.Executable()
	if err != nil {
		res.Fatalf("cannot find own executable: %v", err)
		return
	}
	type child struct {
		cmd *exec.Cmd
		out string
	}
	var cs []child
	for i := 0; i < *shardsFlag; i++ {
		out := filepath.Join(scratchRoot, fmt.Sprintf("shard-%d-%d.json", os.Getpid(), i))
		cmd := exec.Command(exe, "--seed", fmt.Sprint(f.Seed), "--tier", f.Tier, "--driver", f.Driver, "--out", out,
			"--shard", fmt.Sprint(i), "--shards", fmt.Sprint(*shardsFlag))
		cmd.Stderr = os.Stderr
		if err := cmd.Start(); err != nil {
			res.Fatalf("cannot start shard %d: %v", i, err)
			continue
		}
		cs = append(cs, child{cmd, out})
	}
	for i, c := range cs {
		if err := c.cmd.Wait(); err != nil {
			res.Fatalf("shard %d: %v", i, err)
			res.Mismatch(lib.Mismatch{Sig: "harness-worker-died", Input: i, Impl: err.Error()})
		}
		b, err := os.ReadFile(c.out)
		_ = os.Remove(c.out)
		if err != nil {
			res.Fatalf("shard %d: no result: %v", i, err)
			res.Mismatch(lib.Mismatch{Sig: "harness-worker-no-result", Input: i})
			continue
		}
		var r lib.Result
		if err := json.Unmarshal(b, &r); err != nil {
			res.Fatalf("shard %d: %v", i, err)
			continue
		}
		res.Cases += r.Cases
		res.DistinctNontrivial += r.DistinctNontrivial
		for k, v := range r.Distribution {
			res.HitN(k, v)
		}
		res.Compared(r.Correspondence.Compared)
		for _, m := range r.Correspondence.Mismatches {
			res.Mismatch(m)
		}
		for _, v := range r.Violations {
			keepBest(v)
		}
		for _, n := range r.Notes {
			res.Note("%s", n)
		}
		for _, ft := range r.Fatal {
			res.Fatalf("shard %d: %s", i, ft)
		}
		for _, s := range r.Samples {
			res.Sample(8, s)
		}
	}
}

// replayFile re-runs the history of a replay written by an earlier run, checking every image.
func replayFile(f lib.Flags, res *lib.Result) {
	b, err := os.ReadFile(f.Replay)
	if err != nil {
		res.Fatalf("replay: %v", err)
		return
	}
	var doc struct {
		Sig    string `json:"sig"`
		Replay struct {
			Ops     []Op   `json:"ops"`
			Codec   string `json:"codec"`
			File    string `json:"file"`
			Payload string `json:"payload"`
		} `json:"replay"`
	}
	if err := json.Unmarshal(b, &doc); err != nil {
		res.Fatalf("replay: %v", err)
		return
	}
	if doc.Replay.Codec != "" {
		// a byte-level case: the whole section is cheap enough to be re-run
		root := filepath.Join(scratchRoot, fmt.Sprintf("run%d", os.Getpid()))
		_ = os.MkdirAll(root, 0o755)
		ff := f
		ff.Tier = "thorough"
		runCodec(ff, res, 0, 1, root)
		runBatch(ff, res, 0, 1, root)
		runChunk(ff, res, 0, 1, root)
		return
	}
	serial := false
	for _, o := range doc.Replay.Ops {
		if o.F == "append" {
			serial = true
		}
	}
	runJob(job{name: "replay-0", ops: doc.Replay.Ops, level: 2, serial: serial, seed: f.Seed}, f, res)
}
