//go:build verif

package main

import (
	"bytes"
	"encoding/hex"
	"errors"
	"fmt"
	"io"
	"os"
	"path/filepath"
	"strconv"
	"strings"
	"time"

	"github.com/NethermindEth/juno/consensus/starknet"
	"github.com/NethermindEth/juno/consensus/types"
	"github.com/NethermindEth/juno/consensus/types/wal"
	"github.com/cockroachdb/pebble/v2/record"
	"github.com/cockroachdb/pebble/v2/vfs"
	pebblewal "github.com/cockroachdb/pebble/v2/wal"
	"verif/harness/lib"
)

// Physical layer (round 5): the bytes of a log FILE — Pebble's chunk framing of the records inside
// 32 KiB blocks, the offsets juno's walWriter remembers, the tail repair on open — against
// `lean/JunoModel/C14/Chunk.lean` (driver ops `frames`, `emit`, `scan`, `scanq`, `pw`).
//
//	(p) BOUNDARIES. Batches of an exact encoded size are flushed through the real store so that a record
//	    ends 13 … 0 bytes before a block boundary, exactly on it, just after it, fills two blocks exactly;
//	    the next record then starts with 12 / 11 (an EMPTY first chunk) / fewer (zero padding) bytes left.
//	    After every flush / close / reopen the bytes of every log must equal the model's (`frames`), and
//	    Pebble's reader must see what the model's reader (`scan`) sees: records, their offsets, the
//	    offset and the kind of the end.
//	(q) DAMAGE. The last record of such a log is the batch in flight: the file is cut at every offset
//	    near a chunk / block boundary (and at all offsets of a small record), bits are flipped, the tail
//	    zero-filled, a HOLE zeroed in the middle, junk or a torn EOF trailer appended. For every image:
//	    Pebble's reader = the model's; the real NewTendermintWALStore must start, show exactly the
//	    entries of the complete batches (property oracle), and leave the file as long as the model's
//	    `recoverLatestWALTail` says.
//	(r) APPEND FAILURES inside the histories (runner.chunkAfterOp): after every flush / close the bytes of
//	    the log written to are compared with `previous bytes ++ emit(record)` (commit), with exactly the
//	    previous bytes (a reported-failed append: the acknowledged prefix must survive BYTE FOR BYTE —
//	    property oracle `failed-append-changes-acknowledged-log-bytes`), and the bytes seen at the crash
//	    point before the repair must be `previous ++ a prefix of the record's chunks ++ a prefix of the
//	    EOF trailer`.

const chunkB = 32768

// pebbleScan reads log `num` of the WAL directory with Pebble's reader.
func pebbleScan(wd string, num uint64) (recs [][]byte, starts []int, off int, st string, err error) {
	logs, err := pebblewal.Scan(pebblewal.Dir{FS: vfs.Default, Dirname: wd})
	if err != nil {
		return nil, nil, 0, "", err
	}
	ll, ok := logs.Get(pebblewal.NumWAL(num))
	if !ok {
		return nil, nil, 0, "", fmt.Errorf("log %d not found", num)
	}
	rd := ll.OpenForRead()
	defer rd.Close()
	for {
		rr, o, e := rd.NextRecord()
		switch {
		case e == nil:
			b, e2 := io.ReadAll(rr)
			if e2 != nil {
				return recs, starts, int(o.Physical), "", e2
			}
			recs = append(recs, b)
			starts = append(starts, int(o.Physical))
		case errors.Is(e, io.EOF):
			return recs, starts, int(o.Physical), "eof", nil
		case record.IsInvalidRecord(e):
			return recs, starts, int(o.Physical), "invalid", nil
		default:
			return recs, starts, int(o.Physical), "", e
		}
	}
}

type modelScan struct {
	n      int
	starts string
	off    int
	st     string
	rep    int
	recs   []string // hex, full scans only
	lens   string
}

func parseModelScan(a string) (modelScan, error) {
	var m modelScan
	ws := strings.Fields(a)
	for i, w := range ws {
		if w == "recs" {
			m.recs = ws[i+1:]
			break
		}
		kv := strings.SplitN(w, "=", 2)
		if len(kv) != 2 {
			return m, fmt.Errorf("bad scan answer %q", clip(a))
		}
		var err error
		switch kv[0] {
		case "n":
			m.n, err = strconv.Atoi(kv[1])
		case "starts":
			m.starts = kv[1]
		case "off":
			m.off, err = strconv.Atoi(kv[1])
		case "st":
			m.st = kv[1]
		case "rep":
			m.rep, err = strconv.Atoi(kv[1])
		case "lens":
			m.lens = kv[1]
		}
		if err != nil {
			return m, fmt.Errorf("bad scan answer %q", clip(a))
		}
	}
	return m, nil
}

func intsStr(xs []int) string {
	if len(xs) == 0 {
		return "-"
	}
	p := make([]string, len(xs))
	for i, x := range xs {
		p[i] = strconv.Itoa(x)
	}
	return strings.Join(p, ",")
}

// compareScan: Pebble's reader over log `num` of `wd` against the model's reader over the same bytes.
// Returns the model's answer (nil when nothing could be compared).
func compareScan(res *lib.Result, ask func(string) (string, bool), wd string, num uint64, content []byte, full bool, where any) *modelScan {
	return compareScanArg(res, ask, wd, num, hexOrDash(content), full, where)
}

// compareScanArg: the bytes are given in the driver's notation (hex, or slices of the parked byte string).
func compareScanArg(res *lib.Result, ask func(string) (string, bool), wd string, num uint64, arg string, full bool, where any) *modelScan {
	tP := time.Now()
	recs, starts, off, st, err := pebbleScan(wd, num)
	dbgPebble += time.Since(tP)
	if err != nil {
		// a checksum-valid record shorter than a batch header: Pebble reports corruption (not the chunk layer)
		res.Hit("chunk-scan:pebble-other-error")
		return nil
	}
	op := "scanq"
	if full {
		op = "scan"
	}
	a, ok := ask(fmt.Sprintf("%s %d %s", op, num, arg))
	if !ok {
		return nil
	}
	m, perr := parseModelScan(a)
	if perr != nil {
		res.Fatalf("chunk: %v", perr)
		return nil
	}
	res.Compared(1)
	res.Hit("chunk-scan:" + st)
	impl := fmt.Sprintf("n=%d starts=%s off=%d st=%s", len(recs), intsStr(starts), off, st)
	model := fmt.Sprintf("n=%d starts=%s off=%d st=%s", m.n, m.starts, m.off, m.st)
	if impl != model {
		res.Mismatch(lib.Mismatch{Sig: "chunk-scan", Input: where, Model: model, Impl: impl})
		return &m
	}
	if full {
		for i, r := range recs {
			if i >= len(m.recs) || m.recs[i] != hexOrDash(r) {
				res.Mismatch(lib.Mismatch{Sig: "chunk-scan:record-bytes", Input: where, Model: fmt.Sprintf("record %d differs", i), Impl: clip(hex.EncodeToString(r))})
				break
			}
		}
	} else {
		ls := make([]int, len(recs))
		for i, r := range recs {
			ls[i] = len(r)
		}
		if intsStr(ls) != m.lens {
			res.Mismatch(lib.Mismatch{Sig: "chunk-scan:record-lengths", Input: where, Model: m.lens, Impl: intsStr(ls)})
		}
	}
	return &m
}

func trailerOf(num uint64) []byte {
	t := make([]byte, 11)
	t[6] = 5
	n := uint32(num) + 1
	t[7], t[8], t[9], t[10] = byte(n), byte(n>>8), byte(n>>16), byte(n>>24)
	return t
}

// compareFrames: the bytes of a log whose complete records are `recs` against the model's writer.
// shape: "open" (exactly the records' chunks and padding), "closed" (… and the EOF trailer), "any" (either, or
// the chunks with the final block padding cut off by a tail repair).
func compareFrames(res *lib.Result, ask func(string) (string, bool), num uint64, recs [][]byte, content []byte, shape string, where any) {
	var sb strings.Builder
	fmt.Fprintf(&sb, "frames %d 0", num)
	for _, r := range recs {
		sb.WriteString(" " + hexOrDash(r))
	}
	a, ok := ask(sb.String())
	if !ok {
		return
	}
	var F []byte
	if a != "-" {
		var err error
		F, err = hex.DecodeString(a)
		if err != nil {
			res.Fatalf("chunk: bad frames answer")
			return
		}
	}
	res.Compared(1)
	got := "other"
	switch {
	case bytes.Equal(content, F):
		got = "open"
	case bytes.Equal(content, append(append([]byte(nil), F...), trailerOf(num)...)):
		got = "closed"
	case len(content) < len(F) && bytes.Equal(content, F[:len(content)]) && allZero(F[len(content):]):
		got = "padding-cut"
	}
	res.Hit("chunk-frames:" + got)
	if got == "other" || (shape != "any" && shape != got) {
		res.Mismatch(lib.Mismatch{Sig: "chunk-frames:" + shape, Input: where, Model: fmt.Sprintf("%d bytes %s", len(F), clip(a)),
			Impl: fmt.Sprintf("%d bytes (%s) %s", len(content), got, clip(hex.EncodeToString(content)))})
	}
}

func allZero(b []byte) bool {
	for _, x := range b {
		if x != 0 {
			return false
		}
	}
	return true
}

// ---- (r) inside the histories ------------------------------------------------------------------

// chunkPre is what the runner notes before a flush / close for the byte-level comparison afterwards.
type chunkPre struct {
	valid  bool
	writer string          // the model's open writer ("-": none)
	num    uint64          // … its log
	bytes  []byte          // … the bytes of that log
	logs   map[uint64]bool // the logs present
}

func (r *runner) chunkBefore(wasClosed bool) chunkPre {
	p := chunkPre{logs: map[uint64]bool{}}
	if wasClosed || r.real.db == "" || os.Getenv("VERIF_C14_NOCHUNK") != "" {
		return p
	}
	p.writer = r.ask("writer")
	wd := walDirOf(r.real.db)
	es, err := os.ReadDir(wd)
	if err != nil {
		return p
	}
	for _, e := range es {
		if strings.HasSuffix(e.Name(), ".log") {
			if n, err := strconv.ParseUint(strings.TrimSuffix(e.Name(), ".log"), 10, 64); err == nil {
				p.logs[n] = true
			}
		}
	}
	if p.writer != "-" {
		n, err := strconv.ParseUint(p.writer, 10, 64)
		if err != nil {
			return p
		}
		b, err := os.ReadFile(filepath.Join(wd, logName(n)))
		if err != nil {
			return p
		}
		p.num, p.bytes = n, b
	}
	p.valid = true
	return p
}

// readLogOrLink: the bytes of a log, from the hard link when the store has unlinked it meanwhile.
func (r *runner) readLogOrLink(num uint64) ([]byte, bool) {
	if b, err := os.ReadFile(filepath.Join(walDirOf(r.real.db), logName(num))); err == nil {
		return b, true
	}
	if b, err := os.ReadFile(filepath.Join(r.real.db+"-links", logName(num))); err == nil {
		return b, true
	}
	return nil, false
}

// tornAtHook is called at the crash point before the tail repair of a failing append / close: the bytes
// of the log being written as the failure left them.
func (r *runner) tornAtHook(p chunkPre) {
	num := p.num
	if p.writer == "-" {
		// the first append to a log created by this very call: the highest-numbered log
		for _, n := range logsIn(walDirOf(r.real.db)) {
			if v, err := strconv.ParseUint(strings.TrimSuffix(n, ".log"), 10, 64); err == nil && v > num {
				num = v
			}
		}
	}
	if num == 0 {
		return
	}
	if b, err := os.ReadFile(filepath.Join(walDirOf(r.real.db), logName(num))); err == nil {
		r.torn, r.tornNum = b, num
	}
}

// chunkAfterOp compares the bytes of the log a flush / close wrote to (or failed to write to) with the
// model's writer; `m` is the model's outcome, the model has taken the step.
func (r *runner) chunkAfterOp(o Op, m string, p chunkPre, mPending, mSeq string) {
	torn, tornNum := r.torn, r.tornNum
	r.torn, r.tornNum = nil, 0
	if !p.valid || r.failed {
		return
	}
	text, nrec, perr := pendingToText(mPending)
	if perr != nil || nrec == 0 {
		return
	}
	if m != "ok" && m != "err-committed" && m != "err-notcommitted" {
		return
	}
	// which log
	num, pre := p.num, p.bytes
	if p.writer == "-" {
		if fault(o.F) == "create" && m == "err-notcommitted" {
			return // no log was created
		}
		num = 0
		for _, n := range logsIn(walDirOf(r.real.db)) {
			if v, err := strconv.ParseUint(strings.TrimSuffix(n, ".log"), 10, 64); err == nil && !p.logs[v] && v > num {
				num = v
			}
		}
		if num == 0 && tornNum != 0 && !p.logs[tornNum] {
			num = tornNum
		}
		if num == 0 {
			// created, written and unlinked by the same call (a cleanup that removes the log it just wrote)
			r.res.Hit("chunk-bytes:no-log-written")
			if os.Getenv("VERIF_C14_DEBUG") != "" {
				fmt.Fprintf(os.Stderr, "LOG-NOT-LOCATED %s m=%s logs=%v now=%v\n", o.String(), m, p.logs, logsIn(walDirOf(r.real.db)))
			}
			return
		}
		pre = nil
	}
	post, ok := r.readLogOrLink(num)
	if !ok {
		r.res.Hit("chunk-bytes:log-not-located")
		return
	}
	where := map[string]any{"op": o.String(), "log": num, "size-before": len(pre)}
	// PROPERTY: whatever the outcome, the bytes that held the acknowledged batches are still there
	if !bytes.HasPrefix(post, pre) {
		sig := "flush-changes-acknowledged-log-bytes"
		if m == "err-notcommitted" {
			sig = "failed-append-changes-acknowledged-log-bytes"
		}
		r.report(lib.Violation{Sig: sig,
			What: fmt.Sprintf("%s (%s): log %d held %d bytes of acknowledged batches before the call; afterwards it has %d bytes and they are not a continuation of those (first difference at offset %d)",
				o.K, m, num, len(pre), len(post), firstDiff(pre, post)),
			Replay: r.replay(where)})
	}
	recHex := r.ask("encbatch " + mSeq + text)
	E, e1 := hex.DecodeString(r.ask(fmt.Sprintf("emit %d %d %s", num, len(pre), recHex)))
	if e1 != nil {
		r.res.Fatalf("%s step %d: bad emit answer", r.name, len(r.log))
		return
	}
	TR := trailerOf(num)
	base := append(append([]byte(nil), pre...), E...)
	writerNow := r.ask("writer")
	r.res.Compared(1)
	cat := func(parts ...[]byte) []byte {
		var out []byte
		for _, p := range parts {
			out = append(out, p...)
		}
		return out
	}
	// is `post` = a ++ (a prefix of b)?
	prefixOf := func(a, b []byte) (int, bool) {
		if !bytes.HasPrefix(post, a) || len(post) > len(a)+len(b) {
			return 0, false
		}
		k := len(post) - len(a)
		return k, bytes.Equal(post[len(a):], b[:k])
	}
	okShape, shape := false, ""
	switch {
	case m != "err-notcommitted" && writerNow == strconv.FormatUint(num, 10):
		okShape, shape = bytes.Equal(post, base), "appended"
	case m != "err-notcommitted":
		// the writer was closed by the same call (Close, rotation): the EOF trailer, all of it or — when the
		// close failed — what the tail repair left of it
		t, ok := prefixOf(base, TR)
		okShape, shape = ok && (t == 11 || t == 0 || strings.Contains(o.F, "norepair")), fmt.Sprintf("appended+trailer%d", t)
		if o.K == "close" && o.F == "" && t != 11 {
			okShape = false
		}
	default:
		switch fault(o.F) {
		case "norepair":
			k, ok := prefixOf(pre, E)
			okShape, shape = ok && k < len(E), "torn-left"
		case "fullnorepair":
			_, ok := prefixOf(base, TR)
			okShape, shape = ok, "whole-batch-left"
		default:
			okShape, shape = bytes.Equal(post, pre), "cut-back"
		}
	}
	r.res.Hit("chunk-bytes:" + strings.TrimRight(shape, "0123456789"))
	if len(pre) > 0 && m == "err-notcommitted" {
		r.res.Hit("chunk-bytes:failed-append-after-acknowledged-batches")
	}
	if len(pre)/chunkB != len(base)/chunkB {
		r.res.Hit("chunk-bytes:record-crosses-block")
	}
	if !okShape {
		r.mismatch("chunk-bytes:"+shape, where, fmt.Sprintf("%d bytes before, record frame %d bytes", len(pre), len(E)),
			fmt.Sprintf("%d bytes, tail %s", len(post), clip(hex.EncodeToString(post[min(len(post), len(pre)):]))))
	}
	// the bytes at the crash point before the repair: previous ++ prefix of the frame ++ prefix of the trailer
	if torn != nil && tornNum == num {
		r.res.Compared(1)
		good := false
		if bytes.HasPrefix(torn, pre) {
			rest := torn[len(pre):]
			k := 0
			for k < len(rest) && k < len(E) && rest[k] == E[k] {
				k++
			}
			// (round 6) not greedily: the trailer starts with six zero bytes, and a frame whose checksum starts with
			// 0x00 shares them — "nothing of the frame, the whole trailer" must not be read as "one byte of the frame
			// and a wrong trailer" (a false alarm met with seed 3: 1 in 256 of the trailer-only states)
			for k > 0 && !(len(rest)-k <= 11 && bytes.Equal(rest[k:], TR[:len(rest)-k])) {
				k--
			}
			tr := rest[k:]
			good = len(tr) <= 11 && bytes.Equal(tr, TR[:len(tr)])
			switch {
			case k == 0 && len(tr) == 0:
				r.res.Hit("chunk-torn:nothing-written")
			case k == len(E):
				r.res.Hit(fmt.Sprintf("chunk-torn:whole-frame+trailer%d", len(tr)))
			case k == 0:
				r.res.Hit(fmt.Sprintf("chunk-torn:trailer%d-only", len(tr)))
			default:
				r.res.Hit("chunk-torn:part-of-frame")
			}
		}
		if !good {
			r.mismatch("chunk-bytes:torn-not-a-prefix", where, "previous bytes ++ prefix of the record's chunks ++ prefix of the EOF trailer",
				fmt.Sprintf("%d bytes, tail %s", len(torn), clip(hex.EncodeToString(torn[min(len(torn), len(pre)):]))))
		}
	}
	_ = cat
}

func firstDiff(a, b []byte) int {
	n := min(len(a), len(b))
	for i := 0; i < n; i++ {
		if a[i] != b[i] {
			return i
		}
	}
	return n
}

// chunkScanDir compares, for every log of the real directory that changed since the last call, Pebble's
// reader with the model's and the bytes with the model's writer.
func (r *runner) chunkScanDir(step string) {
	if r.real.db == "" || r.failed || os.Getenv("VERIF_C14_NOCHUNK") == "2" {
		return
	}
	wd := walDirOf(r.real.db)
	if r.chunkSeen == nil || r.chunkSeenDir != r.real.db {
		r.chunkSeen, r.chunkSeenDir = map[uint64]int64{}, r.real.db
	}
	writer := "-"
	if r.alive && !r.closed {
		writer = r.ask("writer")
	}
	for _, name := range logsIn(wd) {
		num, err := strconv.ParseUint(strings.TrimSuffix(name, ".log"), 10, 64)
		if err != nil {
			continue
		}
		fi, err := os.Stat(filepath.Join(wd, name))
		if err != nil {
			continue
		}
		prev, seen := r.chunkSeen[num]
		if seen && prev == fi.Size() {
			continue
		}
		r.chunkSeen[num] = fi.Size()
		// a long log that grows flush by flush: look at it when a block boundary has been crossed and otherwise
		// now and then, so that the cost stays linear in its length
		if fi.Size() > 2048 && prev/chunkB == fi.Size()/chunkB && r.rng.Intn(int(fi.Size()/1024)) != 0 {
			continue
		}
		content, err := os.ReadFile(filepath.Join(wd, name))
		if err != nil {
			continue
		}
		ask := func(l string) (string, bool) { a := r.ask(l); return a, !r.failed }
		where := r.replay(map[string]any{"at": step, "log": num, "size": len(content)})
		full := len(content) <= 8192
		if compareScan(r.res, ask, wd, num, content, full, where) == nil {
			continue
		}
		recs, _, _, st, err := pebbleScan(wd, num)
		if err != nil || st != "eof" {
			continue
		}
		shape := "any"
		if writer == strconv.FormatUint(num, 10) {
			shape = "open"
		}
		compareFrames(r.res, ask, num, recs, content, shape, where)
	}
}

// chunkImageRep: after the real reopen of a materialised crash image, the latest log must be as long as
// the model's recoverLatestWALTail says for the bytes the image had.
func (r *runner) chunkImageBefore(dir string) (uint64, []byte, bool) {
	names := logsIn(walDirOf(dir))
	if len(names) == 0 {
		return 0, nil, false
	}
	last := names[len(names)-1]
	num, err := strconv.ParseUint(strings.TrimSuffix(last, ".log"), 10, 64)
	if err != nil {
		return 0, nil, false
	}
	b, err := os.ReadFile(filepath.Join(walDirOf(dir), last))
	if err != nil || len(b) > 2*chunkB {
		return 0, nil, false
	}
	return num, b, true
}

func (r *runner) chunkImageAfter(dir string, num uint64, before []byte, at any) {
	a := r.ask(fmt.Sprintf("scanq %d %s", num, hexOrDash(before)))
	if r.failed {
		return
	}
	m, err := parseModelScan(a)
	if err != nil {
		r.res.Fatalf("chunk: %v", err)
		return
	}
	fi, err := os.Stat(filepath.Join(walDirOf(dir), logName(num)))
	if err != nil {
		return
	}
	r.res.Compared(1)
	r.res.Hit("chunk-repair:" + m.st)
	if int(fi.Size()) < len(before) {
		r.res.Hit("chunk-repair:tail-cut")
	}
	if int(fi.Size()) != m.rep {
		r.mismatch("chunk-repair:length", at, fmt.Sprintf("%d bytes (scan %s)", m.rep, a[:min(len(a), 80)]), fmt.Sprintf("%d bytes (image had %d)", fi.Size(), len(before)))
	}
}

// ---- (p), (q) the boundary section ----------------------------------------------------------

type chunkCtx struct {
	*batchCtx
	rng   *lib.RNG
	sizes []int // encoded size of one record of each shape inside a batch
}

// chunkShapes: one entry of every size class at height h (the id makes the value distinct).
func chunkShape(k int, h uint64, id int) starknet.WALEntry {
	hdr := starknet.MessageHeader{Height: types.Height(h), Round: types.Round(id), Sender: starknet.Address(limbs(uint64(id)))}
	switch k {
	case 0:
		s := wal.Start(types.Height(h))
		return &s
	case 1:
		return &starknet.WALTimeout{Step: types.Step(id % 3), Height: types.Height(h), Round: types.Round(id)}
	case 2:
		return &starknet.WALPrevote{MessageHeader: hdr}
	case 3:
		id2 := starknet.Hash(limbs(uint64(id) + 7))
		return &starknet.WALPrecommit{MessageHeader: hdr, ID: &id2}
	case 4:
		return &starknet.WALProposal{MessageHeader: hdr, ValidRound: -1}
	default:
		v := starknet.Value(limbs(uint64(id) + 9))
		return &starknet.WALProposal{MessageHeader: hdr, ValidRound: 2, Value: &v}
	}
}

const nChunkShapes = 6

// measure: the encoded size of each shape, read off batches written by the real store.
func (c *chunkCtx) measure() error {
	db := c.freshDB("measure")
	defer os.RemoveAll(db)
	st, err := openReal(db)
	if err != nil {
		return err
	}
	defer func() { _ = guard(st.Close) }()
	for k := 0; k < nChunkShapes; k++ {
		if err := st.SetWALEntry(chunkShape(k, 5, k+1)); err != nil {
			return err
		}
		if err := st.Flush(); err != nil {
			return err
		}
	}
	recs, err := realRecords(db)
	if err != nil {
		return err
	}
	if len(recs[1]) != nChunkShapes {
		return fmt.Errorf("measure: %d records", len(recs[1]))
	}
	for _, r := range recs[1] {
		c.sizes = append(c.sizes, len(r)-12)
	}
	return nil
}

// build: entries of height h whose batch encodes to exactly `total` bytes (nil: impossible).
func (c *chunkCtx) build(total int, h uint64, id0 int) []starknet.WALEntry {
	t := total - 12
	if t < 0 {
		return nil
	}
	via := make([]int, t+1)
	for i := range via {
		via[i] = -1
	}
	via[0] = -2
	for s := 1; s <= t; s++ {
		// prefer the small shapes last so that big batches do not need thousands of entries
		for k := nChunkShapes - 1; k >= 0; k-- {
			if z := c.sizes[k]; s >= z && via[s-z] != -1 {
				via[s] = k
				break
			}
		}
	}
	if via[t] == -1 {
		return nil
	}
	var out []starknet.WALEntry
	for s := t; s > 0; s -= c.sizes[via[s]] {
		out = append(out, chunkShape(via[s], h, id0+len(out)))
	}
	return out
}

type chunkBatch struct {
	canon []string
}

func (c *chunkCtx) flushBatch(st Store, ens []starknet.WALEntry) (chunkBatch, error) {
	var b chunkBatch
	for _, en := range ens {
		if err := st.SetWALEntry(en); err != nil {
			return b, err
		}
		b.canon = append(b.canon, fmt.Sprintf("%d=%s", uint64(en.GetHeight()), canon(en)))
	}
	return b, guard(st.Flush)
}

// checkDirBytes: every log of the directory against the model (reader and writer).
func (c *chunkCtx) checkDirBytes(db, what string, openNum uint64) {
	wd := walDirOf(db)
	for _, name := range logsIn(wd) {
		num, err := strconv.ParseUint(strings.TrimSuffix(name, ".log"), 10, 64)
		if err != nil {
			continue
		}
		content, err := os.ReadFile(filepath.Join(wd, name))
		if err != nil {
			c.res.Fatalf("chunk section %s: %v", what, err)
			return
		}
		where := map[string]any{"case": what, "log": num, "size": len(content)}
		if compareScan(c.res, c.ask, wd, num, content, len(content) <= 70000, where) == nil {
			continue
		}
		recs, _, _, st, err := pebbleScan(wd, num)
		if err != nil || st != "eof" {
			c.res.Mismatch(lib.Mismatch{Sig: "chunk-section:clean-log-does-not-read-to-eof", Input: where, Impl: fmt.Sprint(st, err)})
			continue
		}
		shape := "any"
		if num == openNum {
			shape = "open"
		}
		compareFrames(c.res, c.ask, num, recs, content, shape, where)
	}
}

// damageCase: one damaged image of log 1; `acked` batches are complete before the damage, `inflight` is the
// damaged one.
func (c *chunkCtx) damageCase(what string, content []byte, arg string, acked, inflight []string) {
	db := c.freshDB("dmg")
	defer os.RemoveAll(db)
	wd := walDirOf(db)
	if err := os.WriteFile(filepath.Join(wd, logName(1)), content, 0o644); err != nil {
		c.res.Fatalf("chunk section: %v", err)
		return
	}
	where := map[string]any{"case": what, "size": len(content)}
	tA := time.Now()
	m := compareScanArg(c.res, c.ask, wd, 1, arg, false, where)
	tB := time.Now()
	got, err := recoverReal(db)
	dbgScan += tB.Sub(tA)
	dbgOpen += time.Since(tB)
	c.res.Case("chunk/"+what, true)
	c.res.Compared(1)
	replay := map[string]any{"ops": []Op{}, "codec": "chunk", "case": what}
	if err != nil {
		sig := "reopen-error-on-crash-image"
		if strings.Contains(err.Error(), "PANIC") {
			sig = "reopen-panics-on-crash-image"
		} else if strings.Contains(err.Error(), "HANG") {
			sig = "reopen-hangs-on-crash-image"
		}
		keepBest(lib.Violation{Sig: sig, What: fmt.Sprintf("NewTendermintWALStore fails on a log whose last record is damaged (%s): %v", what, err), Replay: replay})
		return
	}
	both := append(append([]string(nil), acked...), inflight...)
	switch {
	case eq(got, acked):
		c.res.Hit("chunk-damage:batch-in-flight-dropped")
	case eq(got, both):
		c.res.Hit("chunk-damage:batch-in-flight-complete")
	default:
		sig := "recovered-entries-differ"
		set := map[string]bool{}
		for _, s := range got {
			set[s] = true
		}
		lost := false
		for _, s := range acked {
			if !set[s] {
				lost = true
			}
		}
		some, all := false, true
		for _, s := range inflight {
			if set[s] {
				some = true
			} else {
				all = false
			}
		}
		switch {
		case lost:
			sig = "lost-flushed-entry"
		case some && !all:
			sig = "partial-batch-recovered"
		}
		keepBest(lib.Violation{Sig: sig, What: fmt.Sprintf("a log whose last record is damaged (%s) recovers %d entries; allowed: the %d of the complete batches, or these and the %d of the batch in flight",
			what, len(got), len(acked), len(inflight)), Replay: replay})
	}
	if m != nil {
		if fi, e := os.Stat(filepath.Join(wd, logName(1))); e == nil {
			c.res.Compared(1)
			if int(fi.Size()) < len(content) {
				c.res.Hit("chunk-repair:tail-cut")
			}
			if int(fi.Size()) != m.rep {
				c.res.Mismatch(lib.Mismatch{Sig: "chunk-repair:length", Input: where, Model: m.rep, Impl: fi.Size()})
			}
		}
	}
}

// boundaryCase: a first batch of exactly t1 encoded bytes, a small one, a big one; bytes after every step;
// then damage to the last (and to the small) record.
func (c *chunkCtx) boundaryCase(t1 int, full bool) {
	what := fmt.Sprintf("t1=B%+d", t1-chunkB)
	db := c.freshDB("bnd")
	defer os.RemoveAll(db)
	st, err := openReal(db)
	if err != nil {
		c.res.Fatalf("chunk section %s: open: %v", what, err)
		return
	}
	closed := false
	defer func() {
		if !closed {
			_ = guard(st.Close)
		}
	}()
	e1 := c.build(t1, 1, 1)
	e2 := c.build(12+c.sizes[3], 2, 100000)
	// the third batch: several blocks long for three of the cases, small otherwise (the files stay short)
	t3 := 900
	if t1 == 700 || t1 == chunkB-22 || t1 == chunkB+5 || full {
		t3 = chunkB + 777
	}
	e3 := c.build(t3, 3, 200000)
	if e1 == nil || e2 == nil || e3 == nil {
		c.res.Fatalf("chunk section %s: no batch of the wanted size", what)
		return
	}
	var bs []chunkBatch
	var snaps [][]byte // the bytes of log 1 after each flush
	for i, ens := range [][]starknet.WALEntry{e1, e2, e3} {
		b, err := c.flushBatch(st, ens)
		if err != nil {
			c.res.Fatalf("chunk section %s: flush %d: %v", what, i, err)
			return
		}
		bs = append(bs, b)
		c.checkDirBytes(db, fmt.Sprintf("%s/flush%d", what, i+1), 1)
		content, err := os.ReadFile(filepath.Join(walDirOf(db), logName(1)))
		if err != nil {
			c.res.Fatalf("chunk section %s: %v", what, err)
			return
		}
		snaps = append(snaps, content)
	}
	c.res.Hit("chunk-section:boundary-cases")
	switch left := chunkB - len(snaps[0])%chunkB; {
	case len(snaps[0])%chunkB == 0:
		c.res.Hit("chunk-section:first-record-ends-on-a-block-boundary")
	case left == 11:
		c.res.Hit("chunk-section:next-record-starts-with-an-empty-chunk")
	case left == 12:
		c.res.Hit("chunk-section:next-record-starts-with-a-one-byte-chunk")
	}
	if len(snaps[0]) > 11+t1 && len(snaps[0]) < 2*chunkB && len(snaps[0])%chunkB == 0 && t1 < chunkB {
		c.res.Hit("chunk-section:first-record-padded-to-the-block-end")
	}
	// close (EOF trailer), reopen (trailer stripped), a batch into a second log, close
	if err := guard(st.Close); err != nil {
		c.res.Fatalf("chunk section %s: close: %v", what, err)
		return
	}
	closed = true
	c.checkDirBytes(db, what+"/closed", 0)
	st2, err := openReal(db)
	if err != nil {
		keepBest(lib.Violation{Sig: "reopen-error", What: fmt.Sprintf("NewTendermintWALStore fails after a clean close (%s): %v", what, err),
			Replay: map[string]any{"ops": []Op{}, "codec": "chunk", "case": what}})
		return
	}
	c.checkDirBytes(db, what+"/reopened", 0)
	if _, err := c.flushBatch(st2, c.build(12+c.sizes[1], 4, 300000)); err != nil {
		c.res.Fatalf("chunk section %s: flush after reopen: %v", what, err)
	}
	c.checkDirBytes(db, what+"/second-log", 2)
	_ = guard(st2.Close)

	// (q) damage. Image k: the batches 0..k-1 complete, batch k in flight.
	for k := 0; k <= 2; k++ {
		var prev []byte
		if k > 0 {
			prev = snaps[k-1]
		}
		cur := snaps[k]
		var acked []string
		for _, b := range bs[:k] {
			acked = append(acked, b.canon...)
		}
		n := len(cur) - len(prev)
		if a, ok := c.ask("blob " + hexOrDash(cur)); !ok || a != fmt.Sprintf("ok %d", len(cur)) {
			return
		}
		P := len(prev)
		offs := map[int]bool{}
		nearBoundary := P%chunkB > chunkB-64 || (P+n)%chunkB > chunkB-64 || P/chunkB != (P+n)/chunkB
		if (n <= 300 && nearBoundary) || full {
			for o := 0; o <= n; o++ {
				offs[o] = true
			}
		} else {
			for _, o := range []int{0, 1, 6, 7, 10, 11, 12, 18, 19, 20, n - 12, n - 11, n - 7, n - 1, n} {
				offs[o] = true
			}
			for bnd := (P/chunkB + 1) * chunkB; bnd < len(cur)+12; bnd += chunkB {
				for _, d := range []int{-19, -12, -11, -10, -7, -6, -1, 0, 1, 6, 7, 10, 11, 12, 19} {
					offs[bnd-P+d] = true
				}
			}
			for i := 0; i < 5; i++ {
				offs[c.rng.Intn(n)] = true
			}
		}
		for o := range offs {
			if o < 0 || o > n {
				continue
			}
			c.damageCase(fmt.Sprintf("%s/batch%d/cut@%d", what, k, o), cur[:P+o], fmt.Sprintf("^0:%d", P+o), acked, bs[k].canon)
		}
		dmg := func(name, arg string, f func(b []byte)) {
			b := append([]byte(nil), cur...)
			f(b[P:])
			c.damageCase(fmt.Sprintf("%s/batch%d/%s", what, k, name), b, arg, acked, bs[k].canon)
		}
		for i := 0; i < c.f.Scale(3, 8); i++ {
			o := c.rng.Intn(n)
			if i < 2 {
				o = c.rng.Intn(min(n, 11))
			}
			bit := byte(1) << uint(c.rng.Intn(8))
			dmg(fmt.Sprintf("flip@%d", o), fmt.Sprintf("^0:%d+%02x+^%d:%d", P+o, cur[P+o]^bit, P+o+1, len(cur)), func(t []byte) { t[o] ^= bit })
		}
		for i := 0; i < c.f.Scale(2, 4); i++ {
			o := c.rng.Intn(n)
			dmg(fmt.Sprintf("zero-from@%d", o), fmt.Sprintf("^0:%d+z%d", P+o, n-o), func(t []byte) {
				for j := o; j < len(t); j++ {
					t[j] = 0
				}
			})
		}
		for i := 0; i < c.f.Scale(2, 6); i++ {
			// a hole: a range of the record zeroed (a page that never reached the disk), the rest intact
			o := c.rng.Intn(n)
			l := 1 + c.rng.Intn(min(4096, n-o))
			dmg(fmt.Sprintf("hole@%d+%d", o, l), fmt.Sprintf("^0:%d+z%d+^%d:%d", P+o, l, P+o+l, len(cur)), func(t []byte) {
				for j := o; j < o+l; j++ {
					t[j] = 0
				}
			})
		}
		// junk and a torn EOF trailer after the complete record: the batch in flight is whole
		// (round 6: EVERY length 1 … 11 of the trailer — the space is small, `chunk_trailer_cut_anywhere`)
		extras := [][]byte{c.rng.Bytes(1 + c.rng.Intn(30)), {0, 0, 0, 0, 0, 0, 0}, make([]byte, 19)}
		for t := 1; t <= 11; t++ {
			extras = append(extras, trailerOf(1)[:t])
			c.res.Hit(fmt.Sprintf("chunk-damage:torn-trailer-%d", t))
		}
		for _, extra := range extras {
			b := append(append([]byte(nil), cur...), extra...)
			var all []string
			all = append(append(all, acked...), bs[k].canon...)
			c.damageCase(fmt.Sprintf("%s/batch%d/extra%d", what, k, len(extra)), b, fmt.Sprintf("^0:%d+%s", len(cur), hex.EncodeToString(extra)), all, nil)
		}
	}
}

var dbgScan, dbgOpen, dbgPebble time.Duration

// runChunk runs the slice of the physical-layer cases that belongs to this shard.
func runChunk(f lib.Flags, res *lib.Result, shard, shards int, root string) {
	drv, err := lib.StartDriver(f.Driver)
	if err != nil {
		res.Fatalf("chunk section: driver: %v", err)
		return
	}
	defer drv.Close()
	c := &chunkCtx{batchCtx: &batchCtx{f: f, res: res, drv: drv, root: filepath.Join(root, "chunk")}, rng: lib.NewRNG(f.Seed*7919 + uint64(shard))}
	_ = os.MkdirAll(c.root, 0o755)
	defer os.RemoveAll(c.root)
	if err := c.measure(); err != nil {
		res.Fatalf("chunk section: %v", err)
		return
	}
	B := chunkB
	t1s := []int{B - 24, B - 23, B - 22, B - 21, B - 17, B - 15, B - 12, B - 11, B - 10, B - 4, B + 5, 2*B - 34, 2*B - 33, 2*B - 22, 2*B - 21, 700}
	if f.Thorough() {
		for d := -40; d <= 12; d++ {
			t1s = append(t1s, B+d, 2*B-11+d)
		}
	}
	turn := 0
	for _, t1 := range t1s {
		turn++
		if turn%shards != shard {
			continue
		}
		c.boundaryCase(t1, f.Thorough() && turn%5 == 0)
	}
	res.Note("chunk section dbg: scan %.1fs (pebble %.1fs) open %.1fs", dbgScan.Seconds(), dbgPebble.Seconds(), dbgOpen.Seconds())
}
