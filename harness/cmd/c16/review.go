//go:build verif

package main

// Scenarios added after the independent review (reviews/C16.md): schedules that the first version of the
// check excluded by hypothesis and never drove.
//
//   - stale-event:   a new-head event for a block that has been reverted while the event sat in the pruner's
//                    1-slot feed buffer, L1 head ahead of the local head (H4b)
//   - held-reader:   a historical reader handed out BEFORE a prune and read DURING / AFTER it (H4a)
//   - empty-db:      events delivered to a pruner on an EMPTY database
//   - revert-mid:    the head is reverted (and stored again) between two batch writes of a running prune
//   - minage-interrupt: min-age combined with cancellation / commit failure / crash images
//   - minage-ticker: the min-age sample refreshed by the ticker (sampleHeight on a tick), not by a restart

import (
	"context"
	"fmt"
	"time"

	"github.com/NethermindEth/juno/blockchain"
	"github.com/NethermindEth/juno/core"
	"github.com/NethermindEth/juno/core/felt"
	"github.com/NethermindEth/juno/pruner"
	"verif/harness/lib"
)

func reviewJobs(f lib.Flags) []job {
	var jobs []job
	for _, ns := range []bool{false, true} {
		ns := ns
		for _, batch := range []int{1, hugeBatch} {
			batch := batch
			name := jobName("stale-event/new=%v/batch=%d", ns, batch)
			jobs = append(jobs, job{name: name, run: func(e *env) { staleEvent(e, name, ns, batch) }})
		}
		n2 := jobName("held-reader/new=%v", ns)
		jobs = append(jobs, job{name: n2, run: func(e *env) { heldReader(e, n2, ns) }})
		n3 := jobName("empty-db/new=%v", ns)
		jobs = append(jobs, job{name: n3, run: func(e *env) { emptyDB(e, n3, ns) }})
		n4 := jobName("revert-mid-prune/new=%v", ns)
		jobs = append(jobs, job{name: n4, run: func(e *env) { revertMidPrune(e, n4, ns) }})
		n5 := jobName("minage-interrupt/new=%v", ns)
		jobs = append(jobs, job{name: n5, run: func(e *env) { minAgeInterrupt(e, n5, ns) }})
		n6 := jobName("minage-ticker/new=%v", ns)
		jobs = append(jobs, job{name: n6, run: func(e *env) { minAgeTicker(e, n6, ns) }})
	}
	return jobs
}

// ---------------------------------------------------------------------------------------------
// H4b: stale new-head event
// ---------------------------------------------------------------------------------------------

// probeStaleEvent finds out whether the code under test ignores a new-head event whose block is above the
// current chain height (868e51a; before it the pruner acted on the event): 4 blocks, L1 head 8, event for block 6.
func probeStaleEvent() (clamps bool, note string, err error) {
	ch := newChain(lib.NewRNG(2), false, lib.DefaultGenOptions())
	node, d := lib.NewNode(ch.g.Net, false)
	for i := 0; i < 4; i++ {
		b, err := ch.next(true)
		if err != nil {
			return false, "", err
		}
		if err := lib.StoreOn(node, b); err != nil {
			return false, "", err
		}
	}
	if err := core.WriteL1Head(d, &core.L1Head{BlockNumber: 8, BlockHash: lib.F(8), StateRoot: lib.F(8)}); err != nil {
		return false, "", err
	}
	floor := &pruner.RetentionFloor{}
	if err := floor.Seed(d); err != nil {
		return false, "", err
	}
	p, err := startPruner(d, floor, prunerCfg{Retained: 1, L2PerPrune: 1, BatchBytes: hugeBatch})
	if err != nil {
		return false, "", err
	}
	defer p.stop()
	evs, err := p.sendL2(6, 0)
	if err != nil {
		return false, "", err
	}
	if len(evs) == 0 {
		return true, "new-head event for block 6 on a chain with head 3: ignored", nil
	}
	return false, fmt.Sprintf("new-head event for block 6 on a chain with head 3: handled (%s %s)", evs[0].Kind, short(evs[0].Err)), nil
}

// probeHeldReader finds out whether the legacy historical reader of the code under test repeats its retention
// check after a read: 6 blocks, a reader for block 1 opened by hash, PruneUpto(4), then the reader is read.
func probeHeldReader() (guarded bool, note string, err error) {
	ch := newChain(lib.NewRNG(4), false, lib.DefaultGenOptions())
	node, d := lib.NewNode(ch.g.Net, false)
	for i := 0; i < 6; i++ {
		b, err := ch.next(true)
		if err != nil {
			return false, "", err
		}
		if err := lib.StoreOn(node, b); err != nil {
			return false, "", err
		}
	}
	r, cl, err := node.StateAtBlockHash(ch.g.Bundles[1].Block.Hash)
	if err != nil {
		return false, "", err
	}
	defer func() { _ = cl() }()
	if _, _, err := pruner.PruneUpto(context.Background(), d, 4, hugeBatch); err != nil {
		return false, "", fmt.Errorf("PruneUpto on the probe chain: %w", err)
	}
	v, rerr := r.ContractStorage(&markerAddr, &markerSlot)
	switch {
	case rerr != nil:
		return true, "reader of block 1 read after PruneUpto(4): refused (" + errClass(rerr) + ")", nil
	case v.Equal(markerValue(1)):
		return false, "", fmt.Errorf("the probe reader still reads block 1's value after PruneUpto(4)")
	default:
		return false, "reader of block 1 read after PruneUpto(4): serves " + v.String() + " without error", nil
	}
}

// staleEvent: 22 blocks stored, L1 head 25 (ahead of the local head), the head is reverted 21 -> 13, and only
// then the pruner takes the new-head event of block 20 (published before the reorg; the feed buffers one event
// per subscriber and the pruner was busy). retained = 2: the event asks for pruneUpto(18) on a chain whose
// head is 13.
func staleEvent(e *env, name string, newState bool, batch int) {
	base, err := getBase(fmt.Sprintf("plain24/%v", newState), 17, newState, true, 24, 22)
	if err != nil {
		e.res.Fatalf("%s: base image: %v", name, err)
		return
	}
	w := cloneWorld(e, base, prunerCfg{Retained: 2, L2PerPrune: 1, BatchBytes: batch}, 0, name, map[string]any{"batch": batch})
	defer w.close()
	w.writeL1(25)
	for i := 0; i < 8; i++ {
		if !w.revert() {
			return
		}
	}
	w.observe()
	if w.broken {
		return
	}
	w.res.Hit("stale-event:delivered")
	w.event("l2", 20, w.ts(20), noPlan())
	w.staleObserve(20, batch)
}

// staleObserve judges the node after a stale new-head event. Two findings have their own, narrow signatures;
// anything else goes through the ordinary observation.
func (w *world) staleObserve(n uint64, batch int) {
	if w.broken || w.node == nil || w.height < 0 {
		return
	}
	head := uint64(w.height)
	class := func(f func() error) string {
		var err error
		perr, panicked, _ := lib.Try(func() error { err = f(); return nil })
		if panicked {
			return "panic: " + perr.Error()
		}
		return errClass(err)
	}
	headBlock := class(func() error { _, err := w.node.Head(); return err })
	stateAtHead := class(func() error {
		_, cl, err := w.node.StateAtBlockNumber(head)
		if err == nil {
			_ = cl()
		}
		return err
	})
	oldest, oerr := pruner.OldestRetainedBlock(w.nodeDB)
	// the model on the same two questions
	outs, err := w.drv.AskAll([]string{fmt.Sprintf("q blockByNumber %d", head), fmt.Sprintf("q stateAtNumber %d", head)})
	if err != nil || len(outs) != 2 {
		w.harnessFailed("model driver: %v", err)
		return
	}
	w.res.Compared(2)
	if outs[0] != headBlock {
		w.mismatch("answer-after-stale-event", map[string]any{"query": "Head", "head": head, "event_block": n}, outs[0], headBlock)
	}
	if outs[1] != stateAtHead {
		w.mismatch("answer-after-stale-event", map[string]any{"query": "StateAtBlockNumber(head)", "head": head, "event_block": n}, outs[1], stateAtHead)
	}
	ctx := fmt.Sprintf("22 blocks, L1 head 25, head reverted to %d, THEN the pruner takes the new-head event of block %d (published before the reorg), retained %d, batch threshold %d",
		head, n, w.pcfg.Retained, batch)
	switch {
	case headBlock != "ok" && (oerr != nil || oldest > head):
		w.res.Hit("finding:head-block-pruned-after-stale-event")
		w.res.Violate(lib.Violation{Sig: "head-block-pruned-after-stale-event", Replay: w.replay(),
			What: fmt.Sprintf("%s: onNewBlock trusts block.Number and prunes up to %d-retained: the HEAD BLOCK %d itself is pruned — Head() answers %s, OldestRetainedBlock answers %v/%d; the floor the property allows is %d",
				ctx, n, head, headBlock, oerr, oldest, w.fspec)})
		w.broken = true
	case headBlock == "ok" && stateAtHead == "notfound" && oerr == nil && oldest <= w.fspec:
		// nothing was deleted, but the shared RetentionFloor was raised above the head before the prune failed
		w.restart("after-stale-event")
		again := class(func() error {
			_, cl, err := w.node.StateAtBlockNumber(head)
			if err == nil {
				_ = cl()
			}
			return err
		})
		if again != "ok" {
			w.violate("state-at-head-"+classWord(again)+"-after-stale-event-and-restart", fmt.Sprintf("%s: StateAtBlockNumber(head %d) answers %s even after a restart", ctx, head, again))
			w.broken = true
			return
		}
		w.res.Hit("finding:shared-floor-above-head-after-stale-event")
		w.res.Violate(lib.Violation{Sig: "shared-floor-above-head-after-stale-event", Replay: w.replay(),
			What: fmt.Sprintf("%s: pruneUpto raises the shared RetentionFloor to %d-retained-1 before PruneUpto fails on the missing block %d: StateAtBlockNumber(head %d) answered not found (the blocks are all there, oldest retained %d) until the process was restarted",
				ctx, n, head+1, head, oldest)})
		w.situation = "steady"
		w.observe()
	case headBlock == "ok" && stateAtHead == "ok":
		w.res.Hit("stale-event:harmless")
		w.observe()
		if w.height+1 < w.ch.g.Height() && w.store() {
			w.observe()
		}
	default:
		w.violate("node-damaged-after-stale-event-"+w.situation, fmt.Sprintf("%s: Head() %s, StateAtBlockNumber(head) %s, oldest retained %v/%d",
			ctx, headBlock, stateAtHead, oerr, oldest))
		w.broken = true
	}
}

// ---------------------------------------------------------------------------------------------
// H4a: a historical reader held across a prune
// ---------------------------------------------------------------------------------------------

type heldR struct {
	how string // num | hash
	b   uint64
	r   core.StateReader
	cl  blockchain.StateCloser
}

// heldReader: 14 blocks (every block rewrites the marker slot), retained 0, L1 head 8. Readers for blocks
// 2, 3, 6, 7, 8 and 10 are opened by number and by hash BEFORE the event; the prune [0,8) runs with a 1-byte
// batch threshold and the readers are read after every batch write and after the prune.
func heldReader(e *env, name string, newState bool) {
	base, err := getBase(fmt.Sprintf("plain/%v", newState), 11, newState, true, 18, 14)
	if err != nil {
		e.res.Fatalf("%s: base image: %v", name, err)
		return
	}
	w := cloneWorld(e, base, prunerCfg{Retained: 0, L2PerPrune: 1, BatchBytes: 1}, 0, name, nil)
	defer w.close()
	w.writeL1(8)
	for _, b := range []uint64{2, 3, 6, 7, 8, 10} {
		r, cl, err := w.node.StateAtBlockNumber(b)
		if err != nil {
			w.harnessFailed("StateAtBlockNumber(%d) on an unpruned node: %v", b, err)
			return
		}
		w.held = append(w.held, &heldR{"num", b, r, cl})
		r, cl, err = w.node.StateAtBlockHash(w.ch.g.Bundles[b].Block.Hash)
		if err != nil {
			w.harnessFailed("StateAtBlockHash(%d) on an unpruned node: %v", b, err)
			return
		}
		w.held = append(w.held, &heldR{"hash", b, r, cl})
	}
	w.rec("open-readers", 0, "StateAtBlockNumber / StateAtBlockHash of blocks 2, 3, 6, 7, 8, 10 are opened and kept")
	w.observe()
	plan := noPlan()
	plan.Observe = true
	w.event("l1", 8, 0, plan)
	w.observe()
	for _, h := range w.held {
		_ = h.cl()
	}
	w.held = nil
}

// heldObs reads the marker slot through every reader that was opened earlier. Oracle: the value of the
// reader's block, or an error — never another block's value.
func (w *world) heldObs() {
	if len(w.held) == 0 || w.broken {
		return
	}
	oldest, oerr := pruner.OldestRetainedBlock(w.nodeDB)
	for _, h := range w.held {
		var v felt.Felt
		var err error
		perr, panicked, _ := lib.Try(func() error { v, err = h.r.ContractStorage(&markerAddr, &markerSlot); return nil })
		if panicked {
			w.violate("held-reader-panics-"+w.situation, fmt.Sprintf("reader of block %d (%s) held across a prune: %v", h.b, h.how, perr))
			continue
		}
		impl := errClass(err)
		served := int64(-1)
		if err == nil && !v.Equal(markerValue(h.b)) {
			impl = "wrong"
			for m := 0; m <= w.height; m++ {
				if v.Equal(markerValue(uint64(m))) {
					served = int64(m)
				}
			}
		}
		m, derr := w.drv.Ask(fmt.Sprintf("held %s %d", h.how, h.b))
		if derr != nil {
			w.harnessFailed("model driver: %v", derr)
			return
		}
		w.res.Compared(1)
		okc := m == impl
		if impl == "wrong" {
			okc = m == fmt.Sprintf("stale %d", served)
		}
		if !okc {
			w.mismatch("answer-heldReader", map[string]any{"block": h.b, "how": h.how, "situation": w.situation, "oldest": oldest},
				m, fmt.Sprintf("%s (served as block %d)", impl, served))
		}
		w.res.Hit("held-reader:" + classWord(impl))
		if impl != "wrong" {
			continue
		}
		what := fmt.Sprintf("a %s backend reader for block %d (opened by %s BEFORE the prune, when the block was retained) reads the marker slot as %s = the value of block %d, err == nil; oldest retained block is now %d [%s]",
			map[bool]string{true: "legacy", false: "new"}[w.legacy()], h.b, h.how, v.String(), served, oldest, w.situation)
		// the documented cause and nothing else: legacy backend (history entries above the reader's block are
		// deleted under it), the block has fallen more than one below the durable floor, a LATER block is served
		if w.legacy() && oerr == nil && h.b+1 < oldest && served > int64(h.b) {
			w.res.Hit("finding:reader-held-across-prune")
			w.res.Violate(lib.Violation{Sig: "reader-held-across-prune-stale-value-" + h.how, What: what, Replay: w.replay()})
			continue
		}
		w.violate("held-reader-wrong-"+h.how+"-"+w.situation, what)
	}
}

// ---------------------------------------------------------------------------------------------
// generator gaps named by the review
// ---------------------------------------------------------------------------------------------

// emptyDB: the pruner runs on an EMPTY database: an L1 event (no chain height), a new-head event (no L1 head,
// then with an L1 head recorded but still no block), then the first blocks arrive.
func emptyDB(e *env, name string, newState bool) {
	ch := newChain(lib.NewRNG(23), newState, lib.DefaultGenOptions())
	for i := 0; i < 6; i++ {
		if _, err := ch.next(true); err != nil {
			e.res.Fatalf("%s: chain: %v", name, err)
			return
		}
	}
	w := newWorld(e.res, ch, e.drv, e.fdrv, e.fixed, e.mig, prunerCfg{Retained: 1, L2PerPrune: 1, BatchBytes: 1}, 0, name, nil)
	defer w.close()
	w.event("l1", 3, 0, noPlan())
	w.event("l2", 2, 0, noPlan())
	w.observe()
	w.writeL1(4)
	w.event("l1", 4, 0, noPlan())
	w.event("l2", 2, 0, noPlan())
	w.observe()
	for i := 0; i < 6 && w.store(); i++ {
	}
	w.observe()
	w.event("l1", 4, 0, noPlan())
	w.observe()
}

// revertMidPrune: between two batch writes of a running prune the head is reverted and the block stored
// again (a reorg while the pruner is busy; the head stays above the floor).
func revertMidPrune(e *env, name string, newState bool) {
	base, err := getBase(fmt.Sprintf("plain/%v", newState), 11, newState, true, 18, 14)
	if err != nil {
		e.res.Fatalf("%s: base image: %v", name, err)
		return
	}
	for _, at := range []int{0, 2, 5} {
		w := cloneWorld(e, base, prunerCfg{Retained: 1, L2PerPrune: 1, BatchBytes: 1}, 0, name, map[string]any{"at": at})
		w.writeL1(8)
		plan := noPlan()
		plan.RevertAt = at
		w.event("l1", 8, 0, plan)
		w.observe()
		if w.revert() {
			w.observe()
			if w.store() {
				w.observe()
			}
		}
		w.close()
	}
}

// minAgeInterrupt: the min-age floor is binding (cut-off strictly inside the chain) while the prune is
// cancelled / hit by a commit failure / killed after every batch write.
func minAgeInterrupt(e *env, name string, newState bool) {
	base, err := getBase(fmt.Sprintf("plain/%v", newState), 11, newState, true, 18, 14)
	if err != nil {
		e.res.Fatalf("%s: base image: %v", name, err)
		return
	}
	cutoff := base.ch.g.Bundles[6].Block.Timestamp
	for _, mode := range []string{"cancel", "fail", "crash"} {
		w := cloneWorld(e, base, prunerCfg{Retained: 1, L2PerPrune: 1, BatchBytes: 1}, cutoff, name, map[string]any{"mode": mode, "cutoff": cutoff})
		w.writeL1(11)
		plan := noPlan()
		switch mode {
		case "cancel":
			plan.CancelAt = 2
		case "fail":
			plan.FailAt = 2
		default:
			plan.ForkAll = true
		}
		w.event("l1", 11, 0, plan)
		w.observe()
		if mode == "fail" {
			w.restart("after-failed-write")
			w.observe()
		}
		w.event("l1", 11, 0, noPlan())
		w.observe()
		w.res.Hit("min-age:with-interruption:" + mode)
		w.close()
	}
}

// minAgeTicker: the pruner's sample ticker fires every few milliseconds. 14 blocks are stored when the
// process starts with a cut-off after all of them (sample = head 13); four younger blocks arrive; a tick
// re-samples (the lowest block at or after the cut-off: 14); the next new-head event may prune up to 14 -
// without the tick only up to 13.
func minAgeTicker(e *env, name string, newState bool) {
	base, err := getBase(fmt.Sprintf("plain/%v", newState), 11, newState, true, 18, 14)
	if err != nil {
		e.res.Fatalf("%s: base image: %v", name, err)
		return
	}
	g := base.ch.g
	// the widest gap between two of the blocks that arrive later: the cut-off sits right after its lower end,
	// so the wall clock has to run for the rest of the gap before the expected sample changes
	k, gap := 14, uint64(0)
	for i := 14; i <= 16; i++ {
		if d := g.Bundles[i].Block.Timestamp - g.Bundles[i-1].Block.Timestamp; d > gap {
			k, gap = i, d
		}
	}
	cutoff := g.Bundles[k-1].Block.Timestamp + 1
	w := cloneWorld(e, base, prunerCfg{Retained: 0, L2PerPrune: 1, BatchBytes: hugeBatch, Tick: 2 * time.Millisecond}, cutoff, name,
		map[string]any{"cutoff": cutoff, "first_young_block": k})
	defer w.close()
	for i := 0; i < 4 && w.store(); i++ {
	}
	w.writeL1(25)
	if w.broken || w.proc == nil {
		return
	}
	w.rec("tick", 0, "the sample ticker fires (interval 2 ms)")
	c0 := w.cutoffNow()
	if !w.proc.awaitTick() {
		w.violate("pruner-hangs-"+w.situation, "the sample ticker (interval 2 ms) did not fire")
		return
	}
	w.clock(c0)
	if o := w.ask("tick"); o != "ok" {
		w.mismatch("tick", k, o, "ok")
	}
	w.procSample = w.sampleAt(c0)
	if w.sampleAt(w.cutoffNow()) != w.procSample {
		w.broken = true
		clockSkipped.Add(1)
		w.res.Hit("skipped:clock-crossed-a-block-timestamp")
		return
	}
	w.sampleTie("tick")
	if w.procSample != uint64(k) {
		w.harnessFailed("the scenario expects the tick to sample block %d, the scan says %d", k, w.procSample)
		return
	}
	w.event("l2", 17, w.ts(17), noPlan())
	w.observe()
	if oldest, err := pruner.OldestRetainedBlock(w.nodeDB); err == nil && oldest == uint64(k) {
		w.res.Hit("min-age:ticker-resampled")
	}
}
