//go:build verif

package main

import (
	"sync/atomic"
	"bytes"
	"context"
	"encoding/binary"
	"encoding/hex"
	"fmt"
	"sort"
	"strings"
	"sync"
	"time"

	"github.com/NethermindEth/juno/core"
	"github.com/NethermindEth/juno/core/felt"
	"github.com/NethermindEth/juno/db"
	"github.com/NethermindEth/juno/db/memory"
	"github.com/NethermindEth/juno/migration/historyprunner"
	"github.com/NethermindEth/juno/utils/log"
	"verif/harness/lib"
)

// migVariant: which of the two repairs of the migration the tree under test contains (the model follows).
type migVariant struct {
	SkipsMissing bool // a state-diff key without a history entry is skipped instead of failing the stager
	ZeroNoop     bool // a cut-off of block 0 is "nothing to prune" instead of reading the header of block 0-1
}

// probeMigration runs the real migration on two 6-block legacy chains: (a) retained = pivot (cut-off 0);
// (b) a retained block whose diff writes zero to a never-written slot (no history entry).
func probeMigration() (v migVariant, note string, err error) {
	build := func(noopAt int) (*memory.Database, error) {
		g := lib.NewChainGen(lib.NewRNG(3), false, lib.DefaultGenOptions())
		node, d := lib.NewNode(g.Net, false)
		for i := 0; i < 6; i++ {
			diff := &core.StateDiff{
				StorageDiffs: map[felt.Felt]map[felt.Felt]*felt.Felt{markerAddr: {markerSlot: markerValue(uint64(i))}},
				Nonces:       map[felt.Felt]*felt.Felt{}, DeployedContracts: map[felt.Felt]*felt.Felt{},
				DeclaredV0Classes: []*felt.Felt{}, DeclaredV1Classes: map[felt.Felt]*felt.Felt{},
				ReplacedClasses: map[felt.Felt]*felt.Felt{}, MigratedClasses: map[felt.SierraClassHash]felt.CasmClassHash{},
			}
			if i == noopAt {
				diff.StorageDiffs[markerAddr][*lib.F(0x999)] = lib.F(0)
			}
			b, err := g.Next(&lib.BlockSpec{Version: g.Opt.Versions[0], Diff: diff, Classes: map[felt.Felt]core.ClassDefinition{}})
			if err != nil {
				return nil, err
			}
			if err := lib.StoreOn(node, b); err != nil {
				return nil, err
			}
		}
		if err := core.WriteL1Head(d, &core.L1Head{BlockNumber: 3, BlockHash: lib.F(3), StateRoot: lib.F(3)}); err != nil {
			return nil, err
		}
		return d, nil
	}
	d1, err := build(-1)
	if err != nil {
		return v, "", err
	}
	r1 := runMigration(d1, 3, 0, -1, nil) // pivot 3, retained 3: cut-off 0
	v.ZeroNoop = !strings.HasPrefix(r1.Outcome, "err")
	d2, err := build(4)
	if err != nil {
		return v, "", err
	}
	r2 := runMigration(d2, 1, 0, -1, nil) // cut-off 2; block 4 names a slot it does not change
	v.SkipsMissing = !strings.HasPrefix(r2.Outcome, "err")
	return v, fmt.Sprintf("cut-off 0 -> %s; unchanged slot in a retained block -> %s", short(r1.Outcome), short(r2.Outcome)), nil
}

// spread picks up to k indices of [0,n): the first three, the last two and the rest evenly in between.
func spread(n, k int) []int {
	set := map[int]bool{}
	for _, j := range []int{0, 1, 2, n - 2, n - 1, n / 2, n/2 - 1, n/2 + 1} {
		if j >= 0 && j < n && len(set) < k {
			set[j] = true
		}
	}
	for i := 1; len(set) < k && i < k; i++ {
		if j := i * n / k; j >= 0 && j < n {
			set[j] = true
		}
	}
	out := make([]int, 0, len(set))
	for j := range set {
		out = append(out, j)
	}
	sort.Ints(out)
	return out
}

func migFailureCause(outcome string) string {
	switch {
	case strings.Contains(outcome, "18446744073709551615"):
		return "cutoff-zero-underflow"
	case strings.Contains(outcome, "copying") && strings.Contains(outcome, "key not found"):
		return "diff-key-without-history-entry"
	}
	return "other"
}

func short(s string) string {
	if len(s) > 90 {
		return s[:90] + "…"
	}
	return s
}

// The one-time history-pruner migration (migration/historyprunner) is the OTHER implementation of "delete
// everything below the floor, keep everything at or above it intact": it range-deletes the number-keyed
// data, wipes the three hash-keyed lookup buckets and the three legacy history buckets completely, and
// rebuilds the retained part from the block data and from a scratch copy of the retained history entries.
// It runs at node start, before the services; afterwards the running pruner takes over.

type migPlan struct {
	CancelAt int  // cancel the context right after this batch write (-1 = none); the run returns its resume state
	// CancelAtRead: cancel the context at the k-th state-update read of the migration (0 = none): an interruption in
	// the MIDDLE of the stager / restorer range, where the resume token points inside the keeper window
	CancelAtRead int
	CrashAll bool // crash image after EVERY batch write: each image is restarted (fresh Migrator, no state) and finished
}

type migResult struct {
	Writes  int
	Runs    int
	Outcome string // ok | noop | err:<msg>
}

// runMigration runs Migrate to completion on d (resuming after each cancellation with the state the
// previous run returned, the way the migration runner does). after is called after every batch write.
func runMigration(d *memory.Database, retained uint64, minAge time.Duration, cancelAt int,
	after func(seq int, run int), cancelAtRead ...int,
) (res migResult) {
	var state []byte
	hdb := newHookDB(d)
	var cancelNow atomic.Pointer[context.CancelFunc]
	if len(cancelAtRead) > 0 && cancelAtRead[0] > 0 {
		k := int64(cancelAtRead[0])
		cb := func(n int64) {
			if n == k {
				if c := cancelNow.Load(); c != nil {
					(*c)()
				}
			}
		}
		hdb.onSURead.Store(&cb)
	}
	seq := 0
	var mu sync.Mutex
	for run := 0; run < 40; run++ {
		res.Runs++
		m := historyprunner.New(retained, minAge)
		if err := m.Before(state); err != nil {
			res.Outcome = "err:before: " + err.Error()
			return res
		}
		ctx, cancel := context.WithCancel(context.Background())
		cancelNow.Store(&cancel)
		hdb.arm(nil, func(wi writeInfo) {
			mu.Lock()
			k := seq
			seq++
			res.Writes++
			mu.Unlock()
			if after != nil {
				after(k, run)
			}
			if k == cancelAt {
				cancel()
			}
		})
		next, err := m.Migrate(ctx, hdb, nil, log.NewNopZapLogger())
		cancel()
		hdb.arm(nil, nil)
		if err != nil {
			res.Outcome = "err:" + err.Error()
			return res
		}
		if next == nil {
			if res.Writes == 0 {
				res.Outcome = "noop"
			} else {
				res.Outcome = "ok"
			}
			return res
		}
		state = next
	}
	res.Outcome = "err:migration did not finish after 40 resumed runs"
	return res
}

// migrate: the node process ends, the migration runs on its database (with the plan's interruptions), a new
// process starts. The model takes the same step (`migrate`): completed migration + restart.
func (w *world) migrate(retained uint64, plan migPlan) migResult {
	if w.broken || w.node == nil {
		return migResult{Outcome: "err:world stopped"}
	}
	w.rec("migrate", retained, fmt.Sprintf("cancel=%d cancel-at-read=%d crash-all=%v", plan.CancelAt, plan.CancelAtRead, plan.CrashAll))
	w.res.Hit("op:migrate")
	w.bumpSpecFloor()
	if w.proc != nil {
		w.proc.stop()
		w.proc = nil
	}
	var minAge time.Duration
	mf := "-"
	if w.cutoff > 0 {
		if w.minAgeDur == 0 {
			w.minAgeDur = time.Since(time.Unix(int64(w.cutoff), 0))
		}
		minAge = w.minAgeDur
		mf = w.migMinAgeFloor()
		w.clock(w.migCut)
		// the model's own FindOldestBlockAtOrAfter(0, pivot, cut-off) against the harness' linear scan
		if o, err := w.drv.Ask("migfloor"); err != nil {
			w.harnessFailed("model driver: migfloor: %v", err)
		} else if w.res.Compared(1); o != mf {
			w.mismatch("migration-min-age-floor", map[string]any{"retained": retained, "cutoff": w.migCut}, o, mf)
		}
	}
	u := w.unchangedSlot(retained, mf)
	var forks []*memory.Database
	var fmu sync.Mutex
	res := runMigration(w.nodeDB, retained, minAge, plan.CancelAt, func(seq, run int) {
		if plan.CrashAll && !w.isFork {
			img := w.nodeDB.Copy()
			fmu.Lock()
			forks = append(forks, img)
			fmu.Unlock()
		}
	}, plan.CancelAtRead)
	if w.cutoff > 0 && mf != w.migMinAgeFloor() {
		w.broken = true
		clockSkipped.Add(1)
		w.res.Hit("skipped:clock-crossed-a-block-timestamp")
		return res
	}
	if plan.CancelAt >= 0 && res.Runs > 1 {
		w.res.Hit("migrate:cancelled-and-resumed")
	}
	if plan.CancelAtRead > 0 && res.Runs > 1 {
		w.res.Hit("migrate:cancelled-inside-a-phase-and-resumed")
	}
	// crash images: a kill -9 during the migration; the next start runs the migration again from the
	// beginning (the runner only persists the resume state a RETURNING Migrate hands it)
	if strings.HasPrefix(res.Outcome, "err") {
		forks = nil // the uninterrupted run already fails: re-running it after a kill shows nothing new
	}
	w.scratchTie(forks, retained, mf)
	pick := map[int]bool{}
	for _, j := range spread(len(forks), 10) {
		pick[j] = true
	}
	for i, img := range forks {
		if !pick[i] {
			continue
		}
		w.res.Hit("migrate:crash-image")
		r := runMigration(img, retained, minAge, -1, nil)
		if r.Outcome != "ok" && r.Outcome != "noop" {
			w.violate("migration-rerun-fails-after-crash-"+migFailureCause(r.Outcome), fmt.Sprintf(
				"kill -9 right after batch write %d of the history-pruner migration; the next start's migration fails: %s", i, r.Outcome))
			continue
		}
		f := &world{res: w.res, ch: w.ch, name: w.name, spec: w.spec, drv: w.fdrv, fixed: w.fixed, mig: w.mig, pcfg: w.pcfg,
			height: w.height, l1: w.l1, fspec: w.fspec, cutoff: w.cutoff, minAgeDur: w.minAgeDur, isFork: true, tsSent: w.tsSent,
			situation: "after-migration-crash", migrated: true, quiescent: true, lastLow: w.lastLow, noState: w.noState, extra: w.extra}
		f.ops = append(append([]opRec{}, w.ops...), opRec{Op: "crash-image", N: uint64(i),
			Note: "kill -9 right after this batch write of the migration above; the migration is run again on the image"})
		f.nodeDB = img
		f.shadowDB = w.shadowDB.Copy()
		f.shadow = lib.NodeOn(f.shadowDB, w.ch.g.Net, w.ch.newState)
		if outs, err := f.drv.AskAll(w.lines); err != nil || len(outs) != len(w.lines) {
			w.harnessFailed("migration fork: second model driver: %v", err)
			continue
		}
		f.lines = append([]string{}, w.lines...)
		f.finishMigration(retained, mf, u, r.Outcome)
		f.observe()
		f.close()
	}
	w.finishMigration(retained, mf, u, res.Outcome)
	return res
}

// migCutoff is the cut-off the property's formula gives (ok=false: nothing to prune).
func (w *world) migCutoff(retained uint64, mf string) (keep uint64, ok bool) {
	if w.l1 < 0 || w.height < 0 {
		return 0, false
	}
	pivot := min(uint64(w.l1), uint64(w.height))
	if pivot < retained {
		return 0, false
	}
	keep = pivot - retained
	if mf != "-" {
		var f uint64
		fmt.Sscan(mf, &f)
		keep = min(keep, f)
	}
	return keep, true
}

// unchangedSlot: does the state diff of a retained block name a key that has no legacy history entry? On the
// legacy backend: a storage slot the block did not change. On the new backend the legacy history buckets are
// empty, so EVERY key a retained diff names is one.
func (w *world) unchangedSlot(retained uint64, mf string) bool {
	keep, ok := w.migCutoff(retained, mf)
	if !ok {
		return false
	}
	for n := int(keep); n <= w.height; n++ {
		if !w.legacy() {
			d := w.ch.g.Bundles[n].SU.StateDiff
			if len(d.StorageDiffs)+len(d.Nonces)+len(d.ReplacedClasses) > 0 {
				return true
			}
		} else if n < len(w.ch.noopBlocks) && w.ch.noopBlocks[n] {
			return true
		}
	}
	return false
}

var historyBuckets = []db.Bucket{db.DeprecatedContractStorageHistory, db.DeprecatedContractNonceHistory, db.DeprecatedContractClassHashHistory}

func bucketKeys(d *memory.Database, prefix []byte) map[string][]byte {
	out := map[string][]byte{}
	it, err := d.NewIterator(prefix, true)
	if err != nil {
		return out
	}
	defer it.Close()
	for ok := it.First(); ok; ok = it.Next() {
		v, _ := it.Value()
		out[string(it.Key())] = bytes.Clone(v)
	}
	return out
}

// scratchTie: on the crash image taken when the live history buckets are wiped and everything is staged,
// the scratch namespace must hold exactly one entry per history entry of the retained blocks, under the key
// the model computes (`skey`), with the value the unpruned twin has in its history bucket.
func (w *world) scratchTie(images []*memory.Database, retained uint64, mf string) {
	if !w.legacy() || len(images) == 0 {
		return
	}
	keep, ok := w.migCutoff(retained, mf)
	if !ok || keep == 0 {
		return
	}
	var img *memory.Database
	for _, d := range images {
		live := 0
		for _, b := range historyBuckets {
			live += len(bucketKeys(d, b.Key()))
		}
		if live == 0 && len(bucketKeys(d, db.Temporary.Key())) > 0 {
			img = d
			break
		}
	}
	if img == nil {
		w.res.Hit("scratch-tie:no-fully-staged-image")
		return
	}
	got := bucketKeys(img, db.Temporary.Key())
	want := map[string][]byte{}
	kinds := map[db.Bucket]string{db.DeprecatedContractStorageHistory: "storage", db.DeprecatedContractNonceHistory: "nonce",
		db.DeprecatedContractClassHashHistory: "classHash"}
	var lines []string
	var vals [][]byte
	for _, b := range historyBuckets {
		for k, v := range bucketKeys(w.ch.g.SrcDB, b.Key()) {
			kb := []byte(k)
			blk := binary.BigEndian.Uint64(kb[len(kb)-8:])
			if blk < keep || blk > uint64(w.height) {
				continue
			}
			addr, slot := hex.EncodeToString(kb[1:33]), "-"
			if b == db.DeprecatedContractStorageHistory {
				slot = hex.EncodeToString(kb[33:65])
			}
			lines = append(lines, fmt.Sprintf("skey %s %s %s %d", kinds[b], addr, slot, blk))
			vals = append(vals, v)
		}
	}
	outs, err := w.drv.AskAll(lines)
	if err != nil || len(outs) != len(lines) {
		w.harnessFailed("model driver: %v", err)
		return
	}
	for i, o := range outs {
		kb, err := hex.DecodeString(o)
		if err != nil {
			w.mismatch("scratch-key", lines[i], o, "")
			continue
		}
		want[string(kb)] = vals[i]
	}
	w.res.Compared(len(want))
	w.res.HitN("scratch-tie:entries", len(want))
	var bad []string
	for k, v := range want {
		g, ok := got[k]
		switch {
		case !ok:
			bad = append(bad, fmt.Sprintf("missing scratch key %x", k))
		case !bytes.Equal(g, v):
			bad = append(bad, fmt.Sprintf("scratch key %x holds %x, the history entry is %x", k, g, v))
		}
	}
	for k := range got {
		if _, ok := want[k]; !ok {
			bad = append(bad, fmt.Sprintf("unexpected scratch key %x", k))
		}
	}
	sort.Strings(bad)
	if len(bad) > 0 {
		w.mismatch("scratch-namespace", map[string]any{"retained": retained, "cutoff": keep}, fmt.Sprintf("%d entries, one per retained history entry", len(want)),
			strings.Join(bad[:min(len(bad), 6)], "; "))
	}
}

// migMinAgeFloor is what retentionFloorWithMinAge's FindOldestBlockAtOrAfter(0, pivot, now-minAge) returns
// ("-" = ErrNoBlockInWindow).
func (w *world) migMinAgeFloor() string {
	if w.cutoff == 0 || w.l1 < 0 || w.height < 0 {
		return "-"
	}
	pivot := min(uint64(w.l1), uint64(w.height))
	cut := w.cutoffNow()
	w.migCut = cut
	for n := uint64(0); n <= pivot; n++ {
		if w.ch.g.Bundles[n].Block.Timestamp >= cut {
			return fmt.Sprint(n)
		}
	}
	return "-"
}

func (w *world) finishMigration(retained uint64, mf string, unchangedSlot bool, impl string) {
	// the model's configuration carries `retained`; scenarios use the same value for migration and pruner
	m := w.ask("migrate " + b01(unchangedSlot))
	w.res.Compared(1)
	class := impl
	if len(impl) > 4 && impl[:4] == "err:" {
		class = "err"
	}
	if m != class {
		w.mismatch("migration-outcome", map[string]any{"retained": retained, "min_age_floor": mf}, m, impl)
	}
	if class == "err" {
		cause := migFailureCause(impl)
		w.violate("migration-fails-"+cause, fmt.Sprintf(
			"historyprunner.Migrate(retained %d) on a chain with head %d, L1 head %d (%s backend): %s — prune mode cannot be switched on: the node refuses to start, on every attempt",
			retained, w.height, w.l1, map[bool]string{true: "legacy", false: "new"}[w.legacy()], impl))
		// and what the failed attempts leave behind if the operator gives up on prune mode
		w.openNode(true)
		if w.height >= 0 {
			hd := w.ch.g.Bundles[w.height]
			if _, err := w.node.BlockNumberByHash(hd.Block.Hash); err != nil {
				w.violate("failed-migration-leaves-lookups-wiped-"+cause, fmt.Sprintf(
					"after the failed migration BlockNumberByHash(hash of the head block %d) answers %s: setupBeforeStager had already wiped the hash→number, tx-hash and L1-message lookup buckets of EVERY block",
					w.height, errClass(err)))
			}
		}
		w.res.Hit("migrate-outcome:err")
		w.broken = true // the node is not in a state the property talks about any more
		return
	}
	w.situation = "after-migration"
	if class == "ok" {
		w.migrated = true
	}
	w.openNode(true)
	// the model's `migrate` step includes the start of the next process (restartMem) at the migration's cut-off;
	// the real process seeds its sample a moment later: the model restarts once more at that cut-off
	w.clock(w.procCutoff)
	if o := w.ask("crash 1"); o != "ok" {
		w.mismatch("restart", "after-migration", o, "ok")
	}
	w.sampleTie("after-migration")
	w.quiescent = true
	w.res.Hit("migrate-outcome:" + class)
}

var _ db.KeyValueStore = (*hookDB)(nil)

// --- scenarios ---------------------------------------------------------------------------------------------

// The migration's own min-age floor (retentionFloorWithMinAge): cut-offs before the chain (every block still
// young: nothing may be pruned), at / between block timestamps, after the pivot (no block young: count floor).
func migrationMinAge(e *env, name string, seed uint64, newState bool) {
	base, err := getBase(fmt.Sprintf("clean/%d/%v", seed, newState), 100+seed, newState, false, 22, 17)
	if err != nil {
		e.res.Fatalf("%s: base image: %v", name, err)
		return
	}
	g := base.ch.g
	cutoffs := []uint64{g.Bundles[0].Block.Timestamp - 7, g.Bundles[0].Block.Timestamp, g.Bundles[1].Block.Timestamp,
		g.Bundles[6].Block.Timestamp, g.Bundles[6].Block.Timestamp + 1, g.Bundles[12].Block.Timestamp, g.Bundles[16].Block.Timestamp + 50}
	for _, cutoff := range cutoffs {
		for _, retained := range []uint64{2, 9} {
			w := cloneWorld(e, base, prunerCfg{Retained: retained, L2PerPrune: 1, BatchBytes: hugeBatch}, cutoff, name,
				map[string]any{"cutoff": cutoff, "retained": retained})
			w.writeL1(14)
			r := w.migrate(retained, migPlan{CancelAt: -1})
			w.observe()
			if !w.broken && !strings.HasPrefix(r.Outcome, "err") {
				if w.store() && w.store() {
					w.writeL1(16)
					w.event("l1", 16, 0, noPlan())
					w.observe()
				}
			}
			w.close()
		}
	}
}

func migrationJobs(f lib.Flags) []job {
	var jobs []job
	for _, ns := range []bool{false, true} {
		ns := ns
		name := jobName("migration-min-age/seed=%d/new=%v", f.Seed, ns)
		jobs = append(jobs, job{name: name, run: func(e *env) { migrationMinAge(e, name, f.Seed, ns) }})
	}
	for _, ns := range []bool{false, true} {
		for _, mode := range []string{"plain", "cancel", "crash", "unchanged-slots"} {
			ns, mode := ns, mode
			name := jobName("migration/seed=%d/new=%v/%s", f.Seed, ns, mode)
			jobs = append(jobs, job{name: name, run: func(e *env) { migrationScenario(e, name, f.Seed, ns, mode) }})
		}
	}
	return jobs
}

// A node with 20 generated blocks (every third one has a same-address nonce update + class replacement),
// never pruned; prune mode is switched on: the migration runs (retained ∈ {0, 2, 5, larger than the pivot},
// L1 head lagging / equal / ahead), uninterrupted, cancelled after every batch write and resumed, or killed
// after every batch write and run again. Then the node is observed like after a prune, the running pruner
// takes over (more blocks, L1 head advances), the head is reverted down to the floor and re-extended.
func migrationScenario(e *env, name string, seed uint64, newState bool, mode string) {
	// "clean": no retained diff names a slot it does not change (on the legacy backend every diff key then has
	// its history entry); "unchanged-slots": the generator's diffs as they come, with zero writes to empty
	// slots and same-value rewrites
	key := fmt.Sprintf("clean/%d/%v", seed, newState)
	if mode == "unchanged-slots" {
		key = fmt.Sprintf("rand/%d/%v", seed, newState)
	}
	base, err := getBase(key, 100+seed, newState, false, 22, 17)
	if err != nil {
		e.res.Fatalf("%s: base image: %v", name, err)
		return
	}
	noops := 0
	for _, b := range base.ch.noopBlocks {
		if b {
			noops++
		}
	}
	e.res.HitN("diff:blocks-naming-an-unchanged-slot", noops)
	e.res.HitN("diff:same-address-nonce+class-replace-blocks", base.ch.directed)
	e.res.HitN("txs:blocks-with-an-l1-handler-that-is-not-last", base.ch.l1Mid)
	type cfg struct {
		retained, l1 uint64
	}
	cases := []cfg{{2, 13}, {5, 16}, {0, 9}, {2, 30}, {16, 16}, {40, 16}, {3, 3}}
	if mode == "unchanged-slots" {
		cases = []cfg{{2, 13}, {0, 5}}
	}
	for _, c := range cases {
		cancelAtRead := 0
		run := func(cancelAt int) (writes int) {
			w := cloneWorld(e, base, prunerCfg{Retained: c.retained, L2PerPrune: 1, BatchBytes: 1}, 0, name,
				map[string]any{"mode": mode, "retained": c.retained, "l1": c.l1, "cancel_at": cancelAt, "cancel_at_read": cancelAtRead})
			defer w.close()
			w.writeL1(c.l1)
			plan := migPlan{CancelAt: cancelAt, CancelAtRead: cancelAtRead, CrashAll: mode == "crash"}
			r := w.migrate(c.retained, plan)
			w.observe()
			if w.broken || r.Outcome[:2] == "er" {
				return r.Writes
			}
			// the running pruner takes over
			for w.height < 19 {
				if !w.store() {
					return r.Writes
				}
			}
			w.writeL1(c.l1 + 3)
			w.event("l1", c.l1+3, 0, noPlan())
			w.observe()
			for i := 0; i < 3 && uint64(w.height) > w.fspec && w.height > 0; i++ {
				if !w.revert() {
					return r.Writes
				}
			}
			w.observe()
			w.store()
			w.observe()
			return r.Writes
		}
		n := run(-1)
		_ = n
		if mode == "cancel" {
			// the pipeline writes one batch per worker and phase (2·GOMAXPROCS+3 writes): cancel after the
			// first ones, around both phase changes and after the last ones
			for _, j := range spread(n, 9) {
				run(j)
			}
			// and INSIDE the stager / restorer ranges (a keeper window of k blocks: reads 1..k are the stager's,
			// k+1..2k the restorer's): the resume token then points into the window
			if c.l1 == 13 || c.l1 == 9 {
				for _, k := range []int{2, 5, 9, 14, 19, 24} {
					cancelAtRead = k
					run(-1)
				}
				cancelAtRead = 0
			}
		}
	}
}
